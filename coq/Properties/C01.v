(* C01 — the reader delivers only intact, exactly-delimited RTCM3 frames.
   For EVERY underlying stream obeying the stream law (file with any fault schedule, socket wrapper with any
   recv-event list), every message constructor, every error mode, any number of successive read() calls. *)
From Coq Require Import NArith ZArith List.
From Coq.Strings Require Import Byte.
From PyRtcm Require Import Base.Bytes Model.Types Model.Crc Model.Reader Model.Socket Spec.StreamLaw Spec.Frame Spec.CrcPoly
  Proofs.ReaderProofs Proofs.SocketProofs Proofs.ChunkReadProofs Proofs.CrcProofs.
Import ListNotations.

Section C01.
Context {St M : Type}.
Variable ops : stream_ops St.
Variable content : St -> bytes.
Hypothesis Hlaw : stream_law ops content.
Variable construct : bytes -> Z -> outcome M.
Variable nmea_hdr : list bytes.
Variable ubx_hdr : bytes.
Notation read := (read ops construct nmea_hdr ubx_hdr 1 2 1).
Notation run_reads := (run_reads ops construct nmea_hdr ubx_hdr 1 2 1).
Notation iterate := (iterate ops construct nmea_hdr ubx_hdr 1 2 1).

(* one read(): the returned raw bytes are a contiguous slice of what the stream still held, they form a
   well-formed frame, and the parsed message is the constructor applied to exactly that slice's payload *)
Theorem C01_read_sound : forall c fuel s h raw m s',
  Z.land (validate c) 1 <> 0%Z -> parsed c = true ->
  read c fuel s = (h, RYield raw m, s') ->
  exists skipped, content s = skipped ++ raw ++ content s' /\ wf_frame raw /\
    exists msg, m = Some msg /\ construct (payload_of raw) (labelmsm c) = Ok msg.
Proof. exact (read_sound ops content Hlaw construct nmea_hdr ubx_hdr). Qed.

(* any number of successive reads (resumed after an empty read or a raised error): the yielded frames are
   non-overlapping slices in stream order *)
Theorem C01_run_reads_sound : forall c fuel k s evs s',
  Z.land (validate c) 1 <> 0%Z -> parsed c = true ->
  run_reads c fuel k s = (evs, s') ->
  exists gaps tail, length gaps = length (Frame.yields evs) /\
    content s = interleave gaps (map fst (Frame.yields evs)) ++ tail ++ content s' /\
    Forall (parsed_ok construct c) (Frame.yields evs).
Proof. exact (run_reads_sound ops content Hlaw construct nmea_hdr ubx_hdr). Qed.

Theorem C01_iterate_sound : forall c fuel n s evs s',
  Z.land (validate c) 1 <> 0%Z -> parsed c = true ->
  iterate c fuel n s = (evs, s') ->
  exists gaps tail, length gaps = length (Frame.yields evs) /\
    content s = interleave gaps (map fst (Frame.yields evs)) ++ tail ++ content s' /\
    Forall (parsed_ok construct c) (Frame.yields evs).
Proof. exact (iterate_sound ops content Hlaw construct nmea_hdr ubx_hdr). Qed.
End C01.

Goal True. idtac "PA:C01_read_sound". Abort.
Print Assumptions C01_read_sound.
Goal True. idtac "PA:C01_run_reads_sound". Abort.
Print Assumptions C01_run_reads_sound.
Goal True. idtac "PA:C01_iterate_sound". Abort.
Print Assumptions C01_iterate_sound.

(* the streams the implementation actually reads from obey the law, whatever faults / segmentation they inject *)
Theorem C01_file_stream_lawful : stream_law file_ops rest.
Proof. exact file_stream_law. Qed.
Goal True. idtac "PA:C01_file_stream_lawful". Abort.
Print Assumptions C01_file_stream_lawful.

Theorem C01_socket_stream_lawful : forall chunked dz, stream_law (sock_ops chunked dz) (cpending chunked dz).
Proof. exact sock_stream_law_any. Qed.
Goal True. idtac "PA:C01_socket_stream_lawful". Abort.
Print Assumptions C01_socket_stream_lawful.

(* "a correct CRC-24Q trailer": the model CRC being zero on the frame means the trailer is the GF(2) remainder *)
Theorem C01_wf_frame_crc_meaning : forall raw, wf_frame raw -> is_rem (N.shiftl (be raw) 24) 0%N.
Proof.
  intros raw H. apply wf_frame_iff in H. destruct H as [_ Hc].
  rewrite <- Hc. apply crc24q_spec.
Qed.
Goal True. idtac "PA:C01_wf_frame_crc_meaning". Abort.
Print Assumptions C01_wf_frame_crc_meaning.
