(* C10 — message layouts conform to the published standards and to each other.
   The table-dependent half of C10 is decided per run on the regenerated tables (run/C10_inst.v: layout well-formedness, length
   polynomial of every identity = the pinned one, 107 sibling relations).  This file holds the generic half that ties those
   polynomials to the DECODER: for all tables, payloads and label options, a successful decode consumes exactly the number of bits
   the layout's length polynomial gives when its count variables are read from the decoded message (nested repeat counts as nested
   sums, the MSM cell mask as NSat*NSig, optional groups when their condition holds, the harmonic coefficient counts recomputed per
   layer), hence exactly the pinned (standard) number when the per-run theorem length_mismatches T = [] holds; and the payload is at
   least that long.  Side conditions are decidable and discharged per run on the real tables (run/C10_len_inst.v):
   tables_len_ok T (whatever the walk reads back keeps its value; the polynomial renders the layout faithfully). *)
From Coq Require Import NArith ZArith List String.
From Coq.Strings Require Import Byte.
From PyRtcm Require Import Base.Bytes Model.Types Model.Message Spec.PinnedLengths Spec.Layouts Spec.PolyEval
  Proofs.DecodeWalk Proofs.DecodeExtend Proofs.LengthSound.
Import ListNotations. Open Scope Z_scope.

(* the decoder's offset advance is the layout's own size function on the decoded message *)
Theorem C10_walk_sound : forall T ident b o off o1 off1,
  stable_ok T b = true -> dec_body T ident b [] (o, off) = Ok (o1, off1) -> off1 = off + walk_bits T b o1.
Proof. exact walk_sound. Qed.
Goal True. idtac "PA:C10_walk_sound". Abort.
Print Assumptions C10_walk_sound.

(* ... which is the length polynomial evaluated on the decoded counts *)
Theorem C10_walk_bits_peval : forall T b o,
  faithful_ok T b = true -> walk_bits T b o = peval T (poly_body T [] b) o.
Proof. exact walk_bits_peval. Qed.
Goal True. idtac "PA:C10_walk_bits_peval". Abort.
Print Assumptions C10_walk_bits_peval.

Theorem C10_decode_length : forall T p lbl o off ident b, tables_len_ok T = true ->
  decode_run T p lbl = Ok (o, off) -> identity p = Ok ident -> get_dict T ident = Some b ->
  off = peval T (poly_body T [] b) o.
Proof. exact decode_run_length_tables. Qed.
Goal True. idtac "PA:C10_decode_length". Abort.
Print Assumptions C10_decode_length.

(* a message occupies exactly the number of bits the standard's formula (the pinned polynomial) gives for its repeat counts *)
Theorem C10_decode_pinned_length : forall T p lbl o off ident b pin,
  tables_len_ok T = true -> length_mismatches T = [] -> keys_nodupb (map fst (all_layouts T)) = true ->
  In (ident, pin) pinned_lengths ->
  decode_run T p lbl = Ok (o, off) -> identity p = Ok ident -> get_dict T ident = Some b ->
  off = peval T pin o.
Proof. exact decode_run_pinned_length. Qed.
Goal True. idtac "PA:C10_decode_pinned_length". Abort.
Print Assumptions C10_decode_pinned_length.

(* ... and a shorter payload cannot decode *)
Theorem C10_decode_min_bytes : forall T p lbl o off ident b,
  tables_len_ok T = true -> label_zero_width T = true ->
  decode_run T p lbl = Ok (o, off) -> identity p = Ok ident -> get_dict T ident = Some b ->
  (peval T (poly_body T [] b) o + 7) / 8 <= Z.of_nat (List.length p).
Proof. exact decode_run_min_bytes. Qed.
Goal True. idtac "PA:C10_decode_min_bytes". Abort.
Print Assumptions C10_decode_min_bytes.
