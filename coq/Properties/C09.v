(* C09 — MSM masks map to the right satellites, signals and cells.
   For EVERY satellite mask (64 bit), signal mask (32 bit) and cell mask, every table set and both label options. *)
From Coq Require Import NArith ZArith List String.
From PyRtcm Require Import Base.Bytes Model.Types Model.Message Spec.MsmMasks Spec.Pinned Proofs.MsmProofs.
Import ListNotations. Open Scope Z_scope. Open Scope string_scope.

(* the maps the decoder builds from the three mask attributes are the spec's: i-th set bit MSB-first, cells satellite-major *)
Theorem C09_maps : forall T ident o a b c prnmap sigmap,
  getint o "DF394" = Ok a -> getint o "DF395" = Ok b -> getint o "DF396" = Ok c ->
  assoc (substring 0 3 ident) (t_prnsig T) = Some (prnmap, sigmap) ->
  0 <= a < 2^64 -> 0 <= b < 2^32 -> 0 <= c ->
  getsatcellmaps T ident o =
    Ok (with_maps o (spec_satmap prnmap (t_na T) a)
                    (spec_cellmap prnmap sigmap (t_na T) (negb (o_labelmsm o =? 2)%Z) a b c)).
Proof. exact getsatcellmaps_spec. Qed.
Goal True. idtac "PA:C09_maps". Abort.
Print Assumptions C09_maps.

(* the i-th satellite entry is labelled with the PRN of the i-th set bit of the satellite mask *)
Theorem C09_satellite_entry : forall prnmap na a k, (k < List.length (sat_ids a))%nat ->
  zassoc (Z.of_nat k + 1) (spec_satmap prnmap na a) = Some (prn_label prnmap na (nth k (sat_ids a) 0)).
Proof. exact satmap_nth. Qed.
Goal True. idtac "PA:C09_satellite_entry". Abort.
Print Assumptions C09_satellite_entry.

(* the k-th cell is labelled with the satellite and signal of the k-th set bit of the cell mask, satellite-major *)
Theorem C09_cell_entry : forall prnmap sigmap na rinex a b c k,
  let nsat := List.length (sat_ids a) in let nsig := List.length (sig_ids b) in
  let setbits := positions (mask_bits (nsat * nsig) c) in
  (k < List.length setbits)%nat ->
  let q := Z.to_nat (nth k setbits 0 - 1) in
  (q / nsig < nsat)%nat /\ (q mod nsig < nsig)%nat /\
  zassoc (Z.of_nat k + 1) (spec_cellmap prnmap sigmap na rinex a b c) =
    Some (prn_label prnmap na (nth (q / nsig) (sat_ids a) 0), sig_label sigmap na rinex (nth (q mod nsig) (sig_ids b) 0)).
Proof. exact cellmap_nth. Qed.
Goal True. idtac "PA:C09_cell_entry". Abort.
Print Assumptions C09_cell_entry.

(* the counts stored as NSat / NSig / NCell (popcount of the field's bits) are the numbers of map entries *)
Theorem C09_nsat : forall prnmap na a, 0 <= a < 2^64 -> popcount (Z.to_N a) = Z.of_nat (List.length (spec_satmap prnmap na a)).
Proof. exact nsat_popcount. Qed.
Goal True. idtac "PA:C09_nsat". Abort.
Print Assumptions C09_nsat.
Theorem C09_ncell : forall prnmap sigmap na rinex a b c, 0 <= c ->
  popcount (Z.to_N (c mod 2 ^ Z.of_nat (List.length (sat_ids a) * List.length (sig_ids b)))) = Z.of_nat (List.length (spec_cellmap prnmap sigmap na rinex a b c)).
Proof. exact ncell_popcount_low. Qed.
Goal True. idtac "PA:C09_ncell". Abort.
Print Assumptions C09_ncell.

(* the loop range(w+1) with shift w-idx is the MSB-first scan; index 0 never fires *)
Theorem C09_scan : forall (wn:nat) (w m:Z), w = Z.of_nat wn -> 0 <= m < 2^w ->
  filter (fun idx => Z.testbit m (w - idx)) (zrange (S wn)) = positions (bits_of wn (Z.to_N m)).
Proof. exact scan_positions. Qed.
Goal True. idtac "PA:C09_scan". Abort.
Print Assumptions C09_scan.

(* ids outside the defined ranges are reported with the not-available marker itself, under both label options *)
Theorem C09_undefined_is_na : forall prnmap sigmap na id,
  (~ In id (map fst prnmap) -> prn_label prnmap na id = na) /\
  (~ In id (map fst sigmap) -> forall rinex, sig_label sigmap na rinex id = na).
Proof. exact label_default. Qed.
Goal True. idtac "PA:C09_undefined_is_na". Abort.
Print Assumptions C09_undefined_is_na.

(* a derived-label field stores exactly the map entry of its first index, or fails: never a wrong label *)
Theorem C09_prn_field : forall T ident anam index fd o offset r,
  find_field T anam = Some fd -> df_ty fd = TPRN -> plain_name anam ->
  set_single T ident anam index (o, offset) = Ok r ->
  exists i rest m x, index = i :: rest /\ o_satmap o = Some m /\ zassoc i m = Some x /\ o_immutable o = false /\
    r = (stored o anam index x, offset + df_bits fd).
Proof. exact set_single_prn_inv. Qed.
Goal True. idtac "PA:C09_prn_field". Abort.
Print Assumptions C09_prn_field.

(* what the per-run table check `prnsig_matches (t_prnsig T) = true` means: the working tree's satellite and signal
   tables agree with the pinned RTCM 10403.3 tables on every id, for all seven constellations *)
Theorem C09_pinned_tables_meaning : forall t, prnsig_matches t = true -> forall k, In k pinned_keys ->
  exists pm sm pp ps, assoc k t = Some (pm, sm) /\ assoc k pinned_prn = Some pp /\ assoc k pinned_sig = Some ps /\
    (forall id, 0 <= id <= 64 -> zassoc id pm = zassoc id pp) /\ (forall id, 0 <= id <= 32 -> zassoc id sm = zassoc id ps).
Proof. exact prnsig_matches_sound. Qed.
Goal True. idtac "PA:C09_pinned_tables_meaning". Abort.
Print Assumptions C09_pinned_tables_meaning.
