(* C16 — the MSM label option changes signal labels only.  For EVERY table set, payload and pair of option values. *)
From Coq Require Import NArith ZArith List String.
From PyRtcm Require Import Base.Bytes Model.Types Model.Message Proofs.DecodeWalk Proofs.DecodeExtend Proofs.DecodeLabel Proofs.DecodeLabel2.
Import ListNotations. Open Scope Z_scope.

(* same outcome class; same attribute names in the same order; equal values except at attributes written by a data field of
   the derived cell-signal type (both strings there); satellite map equal; cell map equal up to the signal label *)
Theorem C16_label_option : forall T p l1 l2,
  match construct T (Some p) l1, construct T (Some p) l2 with
  | Ok o1, Ok o2 => attrs_agree T (o_attrs o1) (o_attrs o2) /\ o_satmap o1 = o_satmap o2 /\ cmrel (o_cellmap o1) (o_cellmap o2) /\
                    o_unknown o1 = o_unknown o2 /\ o_payload o1 = o_payload o2 /\ o_immutable o1 = o_immutable o2
  | Lib e1, Lib e2 => e1 = e2
  | Foreign k1, Foreign k2 => k1 = k2
  | Unmodelled w1, Unmodelled w2 => w1 = w2
  | _, _ => False
  end.
Proof.
  intros T p l1 l2. pose proof (label_indep T p l1 l2) as H.
  destruct (construct T (Some p) l1); destruct (construct T (Some p) l2); exact H.
Qed.
Goal True. idtac "PA:C16_label_option". Abort.
Print Assumptions C16_label_option.

Theorem C16_names_equal : forall T a a', attrs_agree T a a' -> map fst a = map fst a'.
Proof. exact attrs_agree_names. Qed.
Goal True. idtac "PA:C16_names_equal". Abort.
Print Assumptions C16_names_equal.

Theorem C16_values_equal_except_cellsig : forall T a a', attrs_agree T a a' -> forall k,
  match assoc k a, assoc k a' with
  | Some v, Some v' => v = v' \/ (csg_name T k /\ exists s s', v = VStr s /\ v' = VStr s')
  | None, None => True
  | _, _ => False
  end.
Proof.
  intros T a a' H k. pose proof (attrs_agree_values T a a' H k) as G.
  destruct (assoc k a); destruct (assoc k a'); exact G.
Qed.
Goal True. idtac "PA:C16_values_equal_except_cellsig". Abort.
Print Assumptions C16_values_equal_except_cellsig.

(* only "is the option 2" matters: 0, 1, True, 3 ... all behave as the RINEX option *)
Theorem C16_only_two_matters : forall T p l1 l2, (l1 =? 2) = (l2 =? 2) ->
  construct T (Some p) l2 = omap (relabel l2) (construct T (Some p) l1).
Proof. exact label_indep_same_class. Qed.
Goal True. idtac "PA:C16_only_two_matters". Abort.
Print Assumptions C16_only_two_matters.

(* messages whose layout writes no cell-signal field (all non-MSM layouts) are unaffected: per-run table obligation
   shows CELLSIG is the only TCSG field and occurs only in MSM layouts *)
Theorem C16_no_csg_unaffected : forall T p l1 l2 o1 o2,
  (forall fd, In fd (t_fields T) -> df_ty fd <> TCSG) ->
  construct T (Some p) l1 = Ok o1 -> construct T (Some p) l2 = Ok o2 -> o_attrs o1 = o_attrs o2.
Proof. exact label_indep_no_csg. Qed.
Goal True. idtac "PA:C16_no_csg_unaffected". Abort.
Print Assumptions C16_no_csg_unaffected.

(* messages that are not MSM are unaffected by the option: the derived cell-signal field occurs only in MSM layouts
   (per-run table theorem csg_only_in_msm) *)
Theorem C16_non_msm_unaffected : forall T p l1 l2 ident o1 o2, csg_only_in_msm T = true ->
  identity p = Ok ident -> msm_range ident = false ->
  construct T (Some p) l1 = Ok o1 -> construct T (Some p) l2 = Ok o2 -> o_attrs o1 = o_attrs o2.
Proof. exact label_indep_non_msm. Qed.
Goal True. idtac "PA:C16_non_msm_unaffected". Abort.
Print Assumptions C16_non_msm_unaffected.
