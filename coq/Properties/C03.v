(* C03 — every data field decodes to the value its bits encode.  For EVERY table set, payload, offset and width.
   (The encoder round-trip theorem is in Properties/C03rt.v once Proofs/DecodeRoundtrip.v is part of the build.) *)
From Coq Require Import NArith ZArith List String.
From PyRtcm Require Import Base.Bytes Model.Types Model.Message Spec.FieldGrammar Proofs.DecodeBits Proofs.DecodeWalk Proofs.DecodeExtend Proofs.DecodeSingle.
Import ListNotations. Open Scope Z_scope.

(* shift-and-mask extraction on the payload integer = the w bits at offset off of the payload's bit string *)
Theorem C03_extract_is_slice : forall p off w, 0 <= off -> 0 <= w -> off + w <= 8 * Z.of_nat (List.length p) ->
  get_bits (be p) (8 * Z.of_nat (List.length p)) off w = Ok (uint (firstn (Z.to_nat w) (skipn (Z.to_nat off) (bits p)))).
Proof. exact get_bits_slice. Qed.
Goal True. idtac "PA:C03_extract_is_slice". Abort.
Print Assumptions C03_extract_is_slice.

(* one field occurrence: width, bounds check, value by data type and resolution, stored under the indexed name,
   offset advanced by the width -- the model's step equals the bit-list specification, errors included *)
Theorem C03_field_step : forall T ident anam idx fd o off,
  find_field T anam = Some fd -> is_label_ty (df_ty fd) = false -> pwf o -> 0 <= off ->
  set_single T ident anam idx (o, off) = field_step T ident anam idx fd (o, off).
Proof. exact set_single_spec. Qed.
Goal True. idtac "PA:C03_field_step". Abort.
Print Assumptions C03_field_step.

(* two's complement / sign-magnitude readings of the model agree with the bit-list definitions, all widths >= 1 *)
Theorem C03_int_field : forall T ident anam idx fd o off,
  find_field T anam = Some fd -> plain_name anam = true -> pwf o -> 0 <= off -> 1 <= df_bits fd ->
  off + df_bits fd <= nbits (o_payload o) -> df_ty fd = TINT ->
  set_single T ident anam idx (o, off) =
    (do v <- scale (twos (slice (o_payload o) off (df_bits fd))) (df_res fd);
     do o1 <- setattr o (render_name anam idx) v; Ok (o1, off + df_bits fd)).
Proof. exact set_single_int. Qed.
Goal True. idtac "PA:C03_int_field". Abort.
Print Assumptions C03_int_field.

Theorem C03_snt_field : forall T ident anam idx fd o off,
  find_field T anam = Some fd -> plain_name anam = true -> pwf o -> 0 <= off -> 1 <= df_bits fd ->
  off + df_bits fd <= nbits (o_payload o) -> df_ty fd = TSNT ->
  set_single T ident anam idx (o, off) =
    (do v <- scale (signmag (slice (o_payload o) off (df_bits fd))) (df_res fd);
     do o1 <- setattr o (render_name anam idx) v; Ok (o1, off + df_bits fd)).
Proof. exact set_single_snt. Qed.
Goal True. idtac "PA:C03_snt_field". Abort.
Print Assumptions C03_snt_field.

(* bytes after the last field change nothing *)
Theorem C03_trailing_bytes : forall T p lbl o x, construct T (Some p) lbl = Ok o ->
  exists o', construct T (Some (p ++ x)) lbl = Ok o' /\ o_attrs o' = o_attrs o /\
             o_satmap o' = o_satmap o /\ o_cellmap o' = o_cellmap o /\ o_unknown o' = o_unknown o.
Proof. exact decode_trailing. Qed.
Goal True. idtac "PA:C03_trailing_bytes". Abort.
Print Assumptions C03_trailing_bytes.
