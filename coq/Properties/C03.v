(* C03 — every data field decodes to the value its bits encode.  For EVERY table set, layout, assignment of raw field values,
   padding, trailing bytes and label option. *)
From Coq Require Import NArith ZArith List String.
From PyRtcm Require Import Base.Bytes Model.Types Model.Message Spec.FieldGrammar Spec.Encoder Proofs.DecodeBits Proofs.DecodeWalk Proofs.DecodeExtend Proofs.DecodeSingle
  Proofs.DecodeRoundtrip Proofs.RoundtripOccur Proofs.RoundtripChange.
Import ListNotations. Open Scope Z_scope.

(* shift-and-mask extraction on the payload integer = the w bits at offset off of the payload's bit string *)
Theorem C03_extract_is_slice : forall p off w, 0 <= off -> 0 <= w -> off + w <= 8 * Z.of_nat (List.length p) ->
  get_bits (be p) (8 * Z.of_nat (List.length p)) off w = Ok (uint (firstn (Z.to_nat w) (skipn (Z.to_nat off) (bits p)))).
Proof. exact get_bits_slice. Qed.
Goal True. idtac "PA:C03_extract_is_slice". Abort.
Print Assumptions C03_extract_is_slice.

(* one field occurrence: width, bounds check, value by data type and resolution, stored under the indexed name,
   offset advanced by the width -- the model's step equals the bit-list specification, errors included *)
Theorem C03_field_step : forall T ident anam idx fd o off,
  find_field T anam = Some fd -> is_label_ty (df_ty fd) = false -> pwf o -> 0 <= off ->
  set_single T ident anam idx (o, off) = FieldGrammar.field_step T ident anam idx fd (o, off).
Proof. exact set_single_spec. Qed.
Goal True. idtac "PA:C03_field_step". Abort.
Print Assumptions C03_field_step.

(* two's complement / sign-magnitude readings of the model agree with the bit-list definitions, all widths >= 1 *)
Theorem C03_int_field : forall T ident anam idx fd o off,
  find_field T anam = Some fd -> plain_name anam = true -> pwf o -> 0 <= off -> 1 <= df_bits fd ->
  off + df_bits fd <= nbits (o_payload o) -> df_ty fd = TINT ->
  set_single T ident anam idx (o, off) =
    (do v <- scale (twos (slice (o_payload o) off (df_bits fd))) (df_res fd);
     do o1 <- setattr o (render_name anam idx) v; Ok (o1, off + df_bits fd)).
Proof. exact set_single_int. Qed.
Goal True. idtac "PA:C03_int_field". Abort.
Print Assumptions C03_int_field.

Theorem C03_snt_field : forall T ident anam idx fd o off,
  find_field T anam = Some fd -> plain_name anam = true -> pwf o -> 0 <= off -> 1 <= df_bits fd ->
  off + df_bits fd <= nbits (o_payload o) -> df_ty fd = TSNT ->
  set_single T ident anam idx (o, off) =
    (do v <- scale (signmag (slice (o_payload o) off (df_bits fd))) (df_res fd);
     do o1 <- setattr o (render_name anam idx) v; Ok (o1, off + df_bits fd)).
Proof. exact set_single_snt. Qed.
Goal True. idtac "PA:C03_snt_field". Abort.
Print Assumptions C03_snt_field.

(* bytes after the last field change nothing *)
Theorem C03_trailing_bytes : forall T p lbl o x, construct T (Some p) lbl = Ok o ->
  exists o', construct T (Some (p ++ x)) lbl = Ok o' /\ o_attrs o' = o_attrs o /\
             o_satmap o' = o_satmap o /\ o_cellmap o' = o_cellmap o /\ o_unknown o' = o_unknown o.
Proof. exact decode_trailing. Qed.
Goal True. idtac "PA:C03_trailing_bytes". Abort.
Print Assumptions C03_trailing_bytes.

(* THE ROUND TRIP.  `lay_out` (Spec/Encoder.v) is an encoder written from the property's words: it lays the raw values out in
   definition order as a bit list and lists the attributes that must result; it knows nothing of offsets or shifts.  Whatever
   it lays out, with any padding to a byte boundary and any trailing bytes, the constructor decodes to exactly those attributes. *)
Theorem C03_decode_roundtrip : forall T ident b lbl vals bitsl a rest pad extra,
  get_dict T ident = Some b ->
  lay_out T ident (negb (lbl =? 2)) b vals = Some (bitsl, a, rest) ->
  (List.length (bitsl ++ pad) mod 8 = 0)%nat ->
  let p := pack (bitsl ++ pad) ++ extra in
  identity p = Ok ident -> too_short p = false ->
  exists o, construct T (Some p) lbl = Ok o /\ o_attrs o = a.
Proof. exact decode_roundtrip. Qed.
Goal True. idtac "PA:C03_decode_roundtrip". Abort.
Print Assumptions C03_decode_roundtrip.

(* apart from the MSM count / label attributes no other data attribute appears: the attribute names are exactly the
   encoder's write trace (first occurrences, in order) *)
Theorem C03_no_other_attributes : forall T ident rinex b vals s,
  lay_out_state T ident rinex b vals = Some s -> map fst (e_attrs s) = dedup (map fst (e_occ s)).
Proof. exact attr_names_are_trace. Qed.
Goal True. idtac "PA:C03_no_other_attributes". Abort.
Print Assumptions C03_no_other_attributes.

(* one public attribute per field occurrence (text code units joined per key; three MSM counts) *)
Theorem C03_one_attribute_per_occurrence : forall T ident rinex b vals s,
  lay_out_state T ident rinex b vals = Some s -> occ_wf (e_occ s) ->
  List.length (public (e_attrs s)) =
    (List.length (filter is_field_occ (e_occ s)) + List.length (dedup (map fst (filter is_str_occ (e_occ s)))) +
     List.length (filter is_count_occ (e_occ s)))%nat.
Proof. exact one_attr_per_occurrence. Qed.
Goal True. idtac "PA:C03_one_attribute_per_occurrence". Abort.
Print Assumptions C03_one_attribute_per_occurrence.

(* changing the bits of one plain field changes that attribute only *)
Theorem C03_single_field_change : forall T ident b lbl pre v1 v2 post s1 s2 nm pad1 pad2 x1 x2,
  get_dict T ident = Some b ->
  lay_out_state T ident (negb (lbl =? 2)) b (pre ++ v1 :: post) = Some s1 ->
  lay_out_state T ident (negb (lbl =? 2)) b (pre ++ v2 :: post) = Some s2 ->
  nth_error (val_names (e_occ s1)) (List.length pre) = Some nm -> plain_attr T b nm = true ->
  (List.length (e_bits s1 ++ pad1) mod 8 = 0)%nat -> (List.length (e_bits s2 ++ pad2) mod 8 = 0)%nat ->
  let p1 := pack (e_bits s1 ++ pad1) ++ x1 in let p2 := pack (e_bits s2 ++ pad2) ++ x2 in
  identity p1 = Ok ident -> too_short p1 = false -> identity p2 = Ok ident -> too_short p2 = false ->
  exists o1 o2, construct T (Some p1) lbl = Ok o1 /\ construct T (Some p2) lbl = Ok o2 /\ agree_except nm (o_attrs o1) (o_attrs o2).
Proof. exact single_field_change_parsed. Qed.
Goal True. idtac "PA:C03_single_field_change". Abort.
Print Assumptions C03_single_field_change.
