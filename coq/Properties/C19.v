(* C19 — attribute-name helpers handle every name the parser generates.
   For EVERY data-field key and EVERY list of positive group indices (any number of digits, any nesting depth). *)
From Coq Require Import NArith ZArith List String.
From PyRtcm Require Import Base.Bytes Base.Dec Model.Types Model.Message Model.Helpers Spec.Names Proofs.HelperProofs.
Import ListNotations. Open Scope string_scope.

(* description helper: the data field's own description, for plain, singly and multiply indexed names, DF and IDF
   fields, derived PRN / cell labels, and keys that themselves contain "_" (DF001_7, DF422_1) *)
Theorem C19_datadesc : forall T, desc_unambiguous T = true ->
  forall d key idxs, find_field T key = Some d -> positive_idxs idxs ->
  datadesc T (render_name key idxs) = Ok (df_desc d).
Proof. exact desc_unambiguous_sound. Qed.
Goal True. idtac "PA:C19_datadesc". Abort.
Print Assumptions C19_datadesc.

(* index and name helpers on every indexed attribute (keys used inside groups contain no "_": per-run table obligation) *)
(* indices below 2^4300 (real ones are below 2^20): CPython's int() refuses digit strings longer than 4300 characters, and
   then att2idx answers 0 -- both facts are proved *)
Theorem C19_att2idx : forall key idxs, no_us key = true -> positive_idxs idxs ->
  Forall (fun i => (i < 2 ^ 4300)%Z) idxs -> att2idx (render_name key idxs) = expected_idx idxs.
Proof. exact att2idx_render_bits. Qed.
Theorem C19_att2idx_beyond_digit_limit : forall key idxs, no_us key = true -> positive_idxs idxs -> Exists huge_idx idxs ->
  att2idx (render_name key idxs) = IdxInt 0.
Proof. exact att2idx_render_huge. Qed.
Goal True. idtac "PA:C19_att2idx_beyond_digit_limit". Abort.
Print Assumptions C19_att2idx_beyond_digit_limit.
Goal True. idtac "PA:C19_att2idx". Abort.
Print Assumptions C19_att2idx.

Theorem C19_att2name : forall key idxs, no_us key = true -> positive_idxs idxs -> att2name (render_name key idxs) = key.
Proof. exact att2name_render. Qed.
Goal True. idtac "PA:C19_att2name". Abort.
Print Assumptions C19_att2name.

(* distinct (key, indices) pairs give distinct names *)
Theorem C19_render_injective : forall k1 k2 i1 i2, no_us k1 = true -> no_us k2 = true -> positive_idxs i1 -> positive_idxs i2 ->
  render_name k1 i1 = render_name k2 i2 -> k1 = k2 /\ i1 = i2.
Proof. exact render_inj. Qed.
Goal True. idtac "PA:C19_render_injective". Abort.
Print Assumptions C19_render_injective.

(* int(f"{i:02d}") = i for every i, any number of digits *)
Theorem C19_index_format_roundtrip : forall w n, N_of_str (fmt_d w n) = Some n.
Proof. exact N_of_str_fmt_d. Qed.
Goal True. idtac "PA:C19_index_format_roundtrip". Abort.
Print Assumptions C19_index_format_roundtrip.

(* meaning of the per-run table obligation grouped_labels_no_us *)
Theorem C19_grouped_keys_meaning : forall T, grouped_labels_no_us T = true ->
  forall ident b depth lbl, In (ident, b) (layouts T) -> In (depth, lbl) (labels_body 0 b) -> (0 < depth)%nat -> no_us lbl = true.
Proof. exact grouped_labels_no_us_sound. Qed.
Goal True. idtac "PA:C19_grouped_keys_meaning". Abort.
Print Assumptions C19_grouped_keys_meaning.
