(* C11 — socket reads are independent of how the network segments the data.
   For EVERY recv-event list (data packets of any sizes, empty packet = peer closed, timeout / OSError, in any order),
   every sequence of read sizes; bufsize only bounds the packet sizes, so every buffer size is covered. *)
From Coq Require Import NArith ZArith List.
From Coq.Strings Require Import Byte.
From PyRtcm Require Import Base.Bytes Model.Types Model.Crc Model.Reader Model.Socket Spec.StreamLaw Spec.Items Spec.ExactStream
  Proofs.SocketProofs Proofs.ReaderComplete Proofs.ReaderSocket Proofs.CrcProofs.
Import ListNotations. Open Scope nat_scope.

(* nothing lost, duplicated or reordered; never more than requested; fewer only as an empty result *)
Theorem C11_reads : forall dz ns s outs s',
  reads dz ns s = (outs, s') ->
  pending s = concat outs ++ pending s' /\ Forall2 (fun n o => length o = n \/ o = []) ns outs.
Proof. exact reads_inv. Qed.
Goal True. idtac "PA:C11_reads". Abort.
Print Assumptions C11_reads.

(* an empty result for n > 0 happens only at a timeout / error, a closed peer or the end of the events, and everything
   received during that call is still in the buffer: a timeout loses no buffered data *)
Theorem C11_short_read : forall dz n s s',
  sock_read false dz n s = ([], s') -> 0 < n ->
  exists ds r, took (evs s) ds r /\ stopped r (evs s') /\ buf s' = buf s ++ concat ds /\ length (buf s') < n.
Proof. exact sock_read_short. Qed.
Goal True. idtac "PA:C11_short_read". Abort.
Print Assumptions C11_short_read.

(* with data packets only, a read depends on the bytes alone, not on how they were split *)
Theorem C11_segmentation_independent : forall dz n b1 b2 e1 e2 p1 p2 u1 u2,
  Forall good_ev e1 -> Forall good_ev e2 -> b1 ++ datas e1 = b2 ++ datas e2 -> n <= length (b1 ++ datas e1) ->
  fst (sock_read false dz n {| buf := b1; partial := p1; evs := e1; unm := u1 |}) =
  fst (sock_read false dz n {| buf := b2; partial := p2; evs := e2; unm := u2 |}).
Proof. exact segmentation_independent. Qed.
Goal True. idtac "PA:C11_segmentation_independent". Abort.
Print Assumptions C11_segmentation_independent.

Theorem C11_readline : forall dz s l s',
  sock_readline false dz s = (l, s') ->
  pending s = l ++ pending s' /\ unm s' = unm s /\ partial s' = partial s /\
  (ends_crlf l = true \/ exists s1, pending s = l ++ pending s1 /\ sock_read false dz 1 s1 = ([], s')).
Proof. exact sock_readline_inv. Qed.
Goal True. idtac "PA:C11_readline". Abort.
Print Assumptions C11_readline.

Theorem C11_init : forall dz e, pending (sock_init false dz e) = datas e.
Proof. exact sock_init_datas. Qed.
Goal True. idtac "PA:C11_init". Abort.
Print Assumptions C11_init.

(* consequently the reader over a socket returns the same messages as over a file holding the same bytes:
   for EVERY segmentation of a well-formed item stream (NMEA sentences CRLF-terminated) into non-empty packets *)
Section Reader.
Context {M : Type}.
Variable dz : bytes -> bytes.
Variable construct : bytes -> Z -> outcome M.
Variable nmea_hdr : list bytes.
Hypothesis Hnmea : nmea_hdr_ok nmea_hdr.
Theorem C11_reader_socket_eq_file : forall segs items c fuel n,
  Forall (fun d => d <> []) segs -> concat segs = stream_of items ->
  Forall (wf_item nmea_hdr) items -> Forall crlf_item items ->
  (Z.land (validate c) 1 <> 0%Z \/ no_damaged items) -> parsed c = true ->
  length (stream_of items) < fuel -> length items < n ->
  fst (iterate (sock_ops false dz) construct nmea_hdr [xb5; x62] 1%Z 2%Z 1%Z c fuel n (sock_init false dz (map Data segs)))
    = trace construct (labelmsm c) (quitonerror c) [] items /\
  fst (iterate file_ops construct nmea_hdr [xb5; x62] 1%Z 2%Z 1%Z c fuel n (file_stream (stream_of items)))
    = trace construct (labelmsm c) (quitonerror c) [] items.
Proof. exact (reader_socket_trace_eq_file dz construct nmea_hdr Hnmea (Hcrc_of_self_check crc_self_check)). Qed.
End Reader.
Goal True. idtac "PA:C11_reader_socket_eq_file". Abort.
Print Assumptions C11_reader_socket_eq_file.
