(* C04 — parsing is total: only the library's own errors, and it always terminates.
   For EVERY table set, payload, buffer, label option; every lawful stream, every error mode. *)
From Coq Require Import NArith ZArith List.
From Coq.Strings Require Import Byte.
From PyRtcm Require Import Base.Bytes Model.Types Model.Crc Model.Message Model.Reader Spec.StreamLaw Spec.Frame
  Spec.TotalWf Proofs.DecodeWalk Proofs.DecodeTotal Proofs.ReaderProofs.
Import ListNotations. Open Scope nat_scope.

(* the constructor never lets a foreign exception (IndexError, KeyError, ValueError, TypeError, AttributeError, ...) escape:
   whatever is raised while decoding is converted by the handler, and the handler itself is safe *)
Theorem C04_construct_no_foreign : forall T p lbl, match construct T p lbl with Foreign _ => False | _ => True end.
Proof. exact construct_no_foreign. Qed.
Goal True. idtac "PA:C04_construct_no_foreign". Abort.
Print Assumptions C04_construct_no_foreign.

(* under the decidable table condition tables_total_ok (a per-run table theorem on the regenerated tables) the model has no
   gap left: the constructor returns a message or one of the library's errors -- for every payload and option *)
Theorem C04_construct_total : forall T, tables_total_ok T = true -> forall p lbl,
  match construct T p lbl with Ok _ | Lib _ => True | _ => False end.
Proof. exact construct_total. Qed.
Goal True. idtac "PA:C04_construct_total". Abort.
Print Assumptions C04_construct_total.

(* payloads too short to carry an identity are rejected with the library's message error *)
Theorem C04_construct_short : forall T p lbl, too_short p = true -> construct T (Some p) lbl = Lib EMessage.
Proof. exact construct_short. Qed.
Goal True. idtac "PA:C04_construct_short". Abort.
Print Assumptions C04_construct_short.

Theorem C04_construct_error_kind : forall T p lbl e, too_short p = false -> construct T (Some p) lbl = Lib e -> e = EType.
Proof. exact construct_lib_is_type. Qed.
Goal True. idtac "PA:C04_construct_error_kind". Abort.
Print Assumptions C04_construct_error_kind.

(* the static parser, validation on or off, any buffer (also shorter than 6 bytes): a message or a library error *)
Theorem C04_parse_total : forall T v l m,
  match parse (fun p l' => construct T (Some p) l') 1%Z v l m with Foreign _ => False | _ => True end.
Proof.
  intros T v l m. unfold parse.
  destruct (negb (Z.eqb (Z.land v 1) 0) && negb (N.eqb (calc_crc24q m) 0))%bool; [exact I|].
  apply construct_no_foreign.
Qed.
Goal True. idtac "PA:C04_parse_total". Abort.
Print Assumptions C04_parse_total.

Section Reader.
Context {St M : Type}.
Variable ops : stream_ops St.
Variable content : St -> bytes.
Hypothesis Hlaw : stream_law ops content.
Variable construct : bytes -> Z -> outcome M.
Variable nmea_hdr : list bytes.
Variable ubx_hdr : bytes.
Notation read := (read ops construct nmea_hdr ubx_hdr 1%Z 2%Z 1%Z).
Notation iterate := (iterate ops construct nmea_hdr ubx_hdr 1%Z 2%Z 1%Z).

(* ignore / log modes: read() itself never raises; raise mode adds only the library's errors *)
Theorem C04_read_no_escape : forall c fuel s h r s',
  (forall p l, match construct p l with Ok _ | Lib _ => True | _ => False end) -> quitonerror c <> 2%Z ->
  read c fuel s = (h, r, s') ->
  match r with RRaise _ | RForeign _ | RUnmodelled _ => False | _ => True end.
Proof. exact (read_no_escape ops content Hlaw construct nmea_hdr ubx_hdr). Qed.

(* every pass of the loop consumes at least one byte or ends: fuel = stream length + 1 is never exhausted *)
Theorem C04_read_terminates : forall c fuel s h r s',
  length (content s) < fuel -> read c fuel s = (h, r, s') -> r <> ROutOfFuel.
Proof. exact (read_terminates ops content Hlaw construct nmea_hdr ubx_hdr). Qed.

(* iteration over a finite stream finishes within length+1 reads: some yields, then exactly one non-yield result *)
Theorem C04_iterate_terminates : forall c fuel n s evs s',
  length (content s) < n -> iterate c fuel n s = (evs, s') ->
  exists evs0 h r, evs = evs0 ++ [(h, r)] /\
    Forall (fun hr => exists raw m, snd hr = RYield raw m) evs0 /\
    (forall raw m, r <> RYield raw m) /\ (length (content s) < fuel -> r <> ROutOfFuel).
Proof. exact (iterate_terminates ops content Hlaw construct nmea_hdr ubx_hdr). Qed.
End Reader.
Goal True. idtac "PA:C04_read_no_escape". Abort.
Print Assumptions C04_read_no_escape.
Goal True. idtac "PA:C04_read_terminates". Abort.
Print Assumptions C04_read_terminates.
Goal True. idtac "PA:C04_iterate_terminates". Abort.
Print Assumptions C04_iterate_terminates.
