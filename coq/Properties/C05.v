(* C05 — a damaged frame costs exactly that frame; error modes differ only in reporting.
   For EVERY item list in which some frames have an intact header but damaged payload / checksum bytes that the CRC
   detects (C08 says which damage that is), every constructor. *)
From Coq Require Import NArith ZArith List.
From Coq.Strings Require Import Byte.
From PyRtcm Require Import Base.Bytes Model.Types Model.Crc Model.Reader Spec.Items Proofs.ReaderComplete Proofs.CrcProofs.
Import ListNotations.

Section C05.
Context {M : Type}.
Variable construct : bytes -> Z -> outcome M.
Variable nmea_hdr : list bytes.
Hypothesis Hnmea : nmea_hdr_ok nmea_hdr.
Notation iter := (iterate file_ops construct nmea_hdr [xb5; x62] 1 2 1).
Notation runs := (run_reads file_ops construct nmea_hdr [xb5; x62] 1 2 1).

(* ignore / log: exactly the undamaged frames, in order; handler once per damaged frame in log mode, never in ignore mode *)
Theorem C05_ignore_log : forall c fuel n items,
  Forall (wf_item nmea_hdr) items -> Z.land (validate c) 1 <> 0%Z -> parsed c = true -> quitonerror c <> 2%Z ->
  construct_total construct (labelmsm c) items ->
  (length (stream_of items) < fuel)%nat -> (length items < n)%nat ->
  let evs := fst (iter c fuel n (file_stream (stream_of items))) in
  map snd evs = map (fun '(raw, m) => RYield raw (Some m)) (good construct (labelmsm c) items) ++ [REnd] /\
  yields evs = map (fun '(raw, m) => (raw, Some m)) (good construct (labelmsm c) items) /\
  (quitonerror c = 1%Z -> handler_calls evs = errs construct (labelmsm c) items) /\
  (quitonerror c <> 1%Z -> handler_calls evs = []) /\
  snd (iter c fuel n (file_stream (stream_of items))) = file_stream [].
Proof. exact (ReaderComplete.C05_ignore_log construct nmea_hdr Hnmea (Hcrc_of_self_check crc_self_check)). Qed.

(* raise mode: successive read() calls give the good frames in order with a parse error at each damaged frame,
   and the same reader keeps working afterwards *)
Theorem C05_raise : forall c fuel items,
  Forall (wf_item nmea_hdr) items -> Z.land (validate c) 1 <> 0%Z -> parsed c = true -> quitonerror c = 2%Z ->
  (length (stream_of items) < fuel)%nat ->
  fst (runs c fuel (S (length (filter is_rtcm items))) (file_stream (stream_of items))) =
    map (fun it => ([], result_of construct (labelmsm c) it)) (filter is_rtcm items) ++ [([], REnd)].
Proof. exact (ReaderComplete.C05_raise construct nmea_hdr Hnmea (Hcrc_of_self_check crc_self_check)). Qed.
End C05.

Goal True. idtac "PA:C05_ignore_log". Abort.
Print Assumptions C05_ignore_log.
Goal True. idtac "PA:C05_raise". Abort.
Print Assumptions C05_raise.

(* when every intact frame is accepted, the handler calls are exactly one parse error per damaged frame *)
Theorem C05_errs_only_damaged : forall (M:Type) (construct : bytes -> Z -> outcome M) (c:cfg) items,
  (forall p, In (IFrame p) items -> exists m, construct p (labelmsm c) = Ok m) ->
  errs construct (labelmsm c) items = repeat EParse (length (filter is_damaged items)).
Proof. intros M construct c items H. apply errs_only_damaged. exact H. Qed.
Goal True. idtac "PA:C05_errs_only_damaged". Abort.
Print Assumptions C05_errs_only_damaged.
