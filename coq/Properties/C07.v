(* C07 — serialize and parse are mutual inverses and framing is canonical.  For EVERY table set, payload, label option. *)
From Coq Require Import NArith ZArith List String.
From Coq.Strings Require Import Byte.
From PyRtcm Require Import Base.Bytes Model.Types Model.Crc Model.Message Model.Reader Spec.Frame Spec.Items Spec.PyRepr Proofs.DecodeLabel Proofs.ObjProofs.
Import ListNotations. Open Scope N_scope.

Definition ctor (T:tables) := fun (q:bytes) (l':Z) => construct T (Some q) l'.

(* serialising gives exactly 0xD3, the length as 16 bits big-endian with the top six bits zero, the payload, the CRC-24Q *)
Theorem C07_serialize_shape : forall T, t_rtcm_hdr T = [xd3] -> forall p, (List.length p <= 1023)%nat ->
  exists hi lo c, serialize_payload T p = Ok ([xd3; hi; lo] ++ p ++ c) /\
    bN hi * 256 + bN lo = N.of_nat (List.length p) /\ bN hi < 4 /\ List.length c = 3%nat /\
    be c = calc_crc24q ([xd3; hi; lo] ++ p) /\ wf_frame ([xd3; hi; lo] ++ p ++ c).
Proof. exact serialize_shape. Qed.
Goal True. idtac "PA:C07_serialize_shape". Abort.
Print Assumptions C07_serialize_shape.

(* parsing the serialised output gives back the very same message (payload, identity, attributes), validation on or off *)
Theorem C07_parse_serialize : forall T, t_rtcm_hdr T = [xd3] -> forall p l o,
  construct T (Some p) l = Ok o -> (List.length p <= 1023)%nat ->
  forall v f, serialize T o = Ok f -> parse (ctor T) 1%Z v l f = Ok o.
Proof. exact parse_serialize. Qed.
Goal True. idtac "PA:C07_parse_serialize". Abort.
Print Assumptions C07_parse_serialize.

(* conversely: for every valid frame, parsing then serialising reproduces it byte for byte *)
Theorem C07_serialize_parse : forall T, t_rtcm_hdr T = [xd3] -> forall f v l o,
  wf_frame f -> parse (ctor T) 1%Z v l f = Ok o -> serialize T o = Ok f.
Proof. exact serialize_parse. Qed.
Goal True. idtac "PA:C07_serialize_parse". Abort.
Print Assumptions C07_serialize_parse.

(* repr: CPython's bytes literal printer and reader, modelled exactly (Spec/PyRepr.v), are inverse on every byte string *)
Theorem C07_pyeval_pyrepr : forall b, pyeval (pyrepr b) = Some b.
Proof. exact pyeval_pyrepr. Qed.
Goal True. idtac "PA:C07_pyeval_pyrepr". Abort.
Print Assumptions C07_pyeval_pyrepr.

(* evaluating a message's repr rebuilds a message with the same payload (identity and attributes too, up to the label option) *)
Theorem C07_repr_roundtrip : forall T p l o, construct T (Some p) l = Ok o ->
  exists o', eval_message T (obj_repr o) = Ok o' /\ construct T (Some (o_payload o)) 1%Z = Ok o' /\ o_payload o' = p /\
    obj_identity o' = obj_identity o /\ attrs_agree T (o_attrs o) (o_attrs o') /\ o_satmap o = o_satmap o' /\ o_unknown o = o_unknown o'.
Proof. exact repr_roundtrip. Qed.
Goal True. idtac "PA:C07_repr_roundtrip". Abort.
Print Assumptions C07_repr_roundtrip.
