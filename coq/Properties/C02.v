(* C02 — no valid frame is lost, duplicated or reordered on well-formed mixed input.
   For EVERY list of items (valid frames of any payload length 0..1023, complete NMEA sentences with a listed talker,
   complete UBX frames, noise without sync characters), every constructor, ignore and log modes. *)
From Coq Require Import NArith ZArith List.
From Coq.Strings Require Import Byte.
From PyRtcm Require Import Base.Bytes Model.Types Model.Crc Model.Reader Spec.Items Proofs.ReaderComplete Proofs.CrcProofs.
Import ListNotations.

Section C02.
Context {M : Type}.
Variable construct : bytes -> Z -> outcome M.
Variable nmea_hdr : list bytes.
Hypothesis Hnmea : nmea_hdr_ok nmea_hdr.
Notation iter := (iterate file_ops construct nmea_hdr [xb5; x62] 1 2 1).

Theorem C02_complete : forall c fuel n items,
  Forall (wf_item nmea_hdr) items -> no_damaged items -> parsed c = true -> quitonerror c <> 2%Z ->
  construct_total construct (labelmsm c) items ->
  (length (stream_of items) < fuel)%nat -> (length items < n)%nat ->
  let evs := fst (iter c fuel n (file_stream (stream_of items))) in
  (* exactly the frames whose payload the constructor accepts, byte for byte, in order, then a clean end *)
  map snd evs = map (fun '(raw, m) => RYield raw (Some m)) (good construct (labelmsm c) items) ++ [REnd] /\
  yields evs = map (fun '(raw, m) => (raw, Some m)) (good construct (labelmsm c) items) /\
  handler_calls evs = (if (quitonerror c =? 1)%Z then errs construct (labelmsm c) items else []) /\
  snd (iter c fuel n (file_stream (stream_of items))) = file_stream [].
Proof. exact (ReaderComplete.C02_complete construct nmea_hdr Hnmea (Hcrc_of_self_check crc_self_check)). Qed.

(* a zero-length filler frame between two frames neither ends iteration nor displaces its neighbours *)
Theorem C02_zero_length_frame : forall c fuel n pre post p1 p2 m1 m2 e,
  let items := pre ++ IFrame p1 :: IFrame [] :: IFrame p2 :: post in
  Forall (wf_item nmea_hdr) items -> no_damaged items -> parsed c = true -> quitonerror c <> 2%Z ->
  construct_total construct (labelmsm c) items ->
  construct p1 (labelmsm c) = Ok m1 -> construct [] (labelmsm c) = Lib e -> construct p2 (labelmsm c) = Ok m2 ->
  (length (stream_of items) < fuel)%nat -> (length items < n)%nat ->
  let evs := fst (iter c fuel n (file_stream (stream_of items))) in
  yields evs = map (fun '(raw, m) => (raw, Some m)) (good construct (labelmsm c) pre) ++
               (frame p1, Some m1) :: (frame p2, Some m2) :: map (fun '(raw, m) => (raw, Some m)) (good construct (labelmsm c) post) /\
  (exists evs' h, evs = evs' ++ [(h, REnd)]) /\ length (frame []) = 6%nat.
Proof. exact (ReaderComplete.zero_length_frame_skipped construct nmea_hdr Hnmea (Hcrc_of_self_check crc_self_check)). Qed.

(* a maximum-length frame is consumed exactly *)
Theorem C02_max_length_frame : forall c fuel p m r,
  parsed c = true -> length p = 1023%nat -> construct p (labelmsm c) = Ok m ->
  read file_ops construct nmea_hdr [xb5; x62] 1 2 1 c (S fuel) (file_stream (frame p ++ r)) = ([], RYield (frame p) (Some m), file_stream r) /\
  length (frame p) = 1029%nat.
Proof. exact (ReaderComplete.max_length_frame construct nmea_hdr Hnmea (Hcrc_of_self_check crc_self_check)). Qed.
End C02.

Goal True. idtac "PA:C02_complete". Abort.
Print Assumptions C02_complete.
Goal True. idtac "PA:C02_zero_length_frame". Abort.
Print Assumptions C02_zero_length_frame.
Goal True. idtac "PA:C02_max_length_frame". Abort.
Print Assumptions C02_max_length_frame.
