(* C08 — CRC-24Q is computed correctly and all guaranteed-detectable damage is rejected.
   Statements only; each closed by `exact` of the lemma proved in Proofs/, with Print Assumptions beneath. *)
From Coq Require Import NArith ZArith List.
From Coq.Strings Require Import Byte.
From PyRtcm Require Import Base.Bytes Model.Types Model.Crc Model.Reader Spec.CrcPoly Spec.CrcOrder Spec.Frame Proofs.CrcProofs Proofs.ReaderProofs.
Import ListNotations.
Open Scope N_scope.

(* T8.1 the helper returns the CRC-24Q remainder (generator 0x1864CFB, zero initial value, MSB first, no final xor)
   of every byte string: the unique r < 2^24 with  m·x^24 = q(x)·G(x) + r(x)  over GF(2). *)
Theorem C08_crc_is_remainder : forall m : bytes, is_rem (N.shiftl (be m) 24) (calc_crc24q m).
Proof. exact crc24q_spec. Qed.
Goal True. idtac "PA:C08_crc_is_remainder". Abort.
Print Assumptions C08_crc_is_remainder.

Theorem C08_remainder_unique : forall n r1 r2, is_rem n r1 -> is_rem n r2 -> r1 = r2.
Proof. exact is_rem_unique. Qed.
Goal True. idtac "PA:C08_remainder_unique". Abort.
Print Assumptions C08_remainder_unique.

(* T8.2 the value over a message with its checksum appended is zero *)
Theorem C08_self_check : forall m c, crc2bytes m = Some c -> calc_crc24q (m ++ c) = 0.
Proof. exact crc_self_check. Qed.
Goal True. idtac "PA:C08_self_check". Abort.
Print Assumptions C08_self_check.

Theorem C08_crc2bytes_total : forall m, exists c, crc2bytes m = Some c /\ length c = 3%nat /\ be c = calc_crc24q m.
Proof. exact crc2bytes_total. Qed.
Goal True. idtac "PA:C08_crc2bytes_total". Abort.
Print Assumptions C08_crc2bytes_total.

(* T8.3 linearity: damage adds its own CRC *)
Theorem C08_xor_linear : forall a b, length a = length b ->
  calc_crc24q (xor_bytes a b) = N.lxor (calc_crc24q a) (calc_crc24q b).
Proof. exact crc_xor_linear. Qed.
Goal True. idtac "PA:C08_xor_linear". Abort.
Print Assumptions C08_xor_linear.

(* T8.4-T8.6 error patterns with a non-zero CRC, for patterns of any length and at any position *)
Theorem C08_detect_odd : forall e, N.odd (popcount (be e)) = true -> calc_crc24q e <> 0.
Proof. exact detect_odd. Qed.
Goal True. idtac "PA:C08_detect_odd". Abort.
Print Assumptions C08_detect_odd.

Theorem C08_detect_burst : forall e, be e <> 0 -> (exists k b, be e = N.shiftl b k /\ 0 < b < 2^24) -> calc_crc24q e <> 0.
Proof. exact detect_burst. Qed.
Goal True. idtac "PA:C08_detect_burst". Abort.
Print Assumptions C08_detect_burst.

Theorem C08_detect_single : forall e i, be e = 2^i -> calc_crc24q e <> 0.
Proof. exact detect_single. Qed.
Goal True. idtac "PA:C08_detect_single". Abort.
Print Assumptions C08_detect_single.

(* two flipped bits at any distance below the multiplicative order of x mod G, 2^23-1 (computed in the kernel);
   every RTCM3 frame is at most 8232 bits long *)
Theorem C08_detect_two : forall e i j, i < j -> j - i < 8388607 -> be e = N.lxor (2^i) (2^j) -> calc_crc24q e <> 0.
Proof. exact detect_two. Qed.
Goal True. idtac "PA:C08_detect_two". Abort.
Print Assumptions C08_detect_two.

(* T8.7 with validation on, the static parser rejects every frame altered by a pattern whose CRC is non-zero *)
Theorem C08_parse_rejects : forall (M:Type) (construct : bytes -> Z -> outcome M) (v l : Z) (f e : bytes),
  Z.land v 1 <> 0%Z -> length e = length f -> calc_crc24q f = 0 -> calc_crc24q e <> 0 ->
  parse construct 1 v l (xor_bytes f e) = Lib EParse.
Proof.
  intros M construct v l f e Hv Hlen Hf He.
  apply parse_validate_on_bad; [exact Hv|]. apply damaged_frame_detected; assumption.
Qed.
Goal True. idtac "PA:C08_parse_rejects". Abort.
Print Assumptions C08_parse_rejects.

(* T8.8 with validation off, the checksum bytes do not influence the parse result *)
Theorem C08_validate_off_ignores_crc : forall (M:Type) (construct : bytes -> Z -> outcome M) (v l : Z) (m : bytes),
  Z.land v 1 = 0%Z -> parse construct 1 v l m = construct (payload_of m) l.
Proof. intros M construct v l m Hv. apply parse_validate_off; exact Hv. Qed.
Goal True. idtac "PA:C08_validate_off_ignores_crc". Abort.
Print Assumptions C08_validate_off_ignores_crc.

(* non-vacuity: a concrete frame meets the hypotheses *)
Example C08_nonvacuous :
  calc_crc24q [xd3;x00;x13;x3e;xd0;x00;x03;x8a;x58;xd9;x49;x3c;x87;x2f;x34;x10;x9d;x07;xd6;xaf;x48;x20;x5a;xd7;xf7] = 0.
Proof. vm_compute. reflexivity. Qed.
