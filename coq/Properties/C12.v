(* C12 — chunked transfer decoding is independent of segmentation.
   For EVERY well-formed chunked body (any chunk data, size lines in any case with leading zeros, with or without
   last-chunk), every per-chunk decoding oracle dz (identity, or zlib's gzip / zlib / raw-deflate decompression with its
   error fallback), every placement of receive boundaries, and reads interleaved with receives. *)
From Coq Require Import NArith ZArith List.
From Coq.Strings Require Import Byte.
From PyRtcm Require Import Base.Bytes Model.Types Model.Reader Model.Socket Spec.StreamLaw Spec.ChunkGrammar
  Proofs.SocketProofs Proofs.ChunkProofs Proofs.ChunkReadProofs.
Import ListNotations. Open Scope nat_scope.

Theorem C12_segmentation : forall dz chunks last segs,
  wf_chunked chunks last -> concat segs = render chunks last -> Forall (fun s => s <> []) segs ->
  delivered (feed dz segs) = decoded dz chunks /\ unm (feed dz segs) = false.
Proof. exact ChunkProofs.C12_segmentation. Qed.
Goal True. idtac "PA:C12_segmentation". Abort.
Print Assumptions C12_segmentation.

(* reads interleaved with receives, timeouts and empty packets anywhere: what has been handed out plus what is buffered is
   always the decoding of a prefix of the chunk list, and of all of it once the events are exhausted *)
Theorem C12_reads : forall dz chunks last, wf_chunked chunks last ->
  forall e ns outs s', datas e = render chunks last -> reads_c dz ns (sock_init true dz e) = (outs, s') ->
  unm s' = false /\ Forall2 (fun n o => length o = n \/ o = []) ns outs /\
  (exists done todo, chunks = done ++ todo /\ concat outs ++ buf s' = decoded dz done) /\
  (evs s' = [] -> concat outs ++ buf s' = decoded dz chunks).
Proof. exact ChunkReadProofs.C12_reads. Qed.
Goal True. idtac "PA:C12_reads". Abort.
Print Assumptions C12_reads.

Theorem C12_reads_full : forall dz chunks last, wf_chunked chunks last ->
  forall segs ns outs s', concat segs = render chunks last -> Forall (fun d => d <> []) segs ->
  list_sum ns <= length (decoded dz chunks) -> reads_c dz ns (start (map Data segs)) = (outs, s') ->
  Forall2 (fun n o => length o = n) ns outs /\ concat outs = firstn (list_sum ns) (decoded dz chunks) /\ unm s' = false.
Proof. exact ChunkReadProofs.C12_reads_full. Qed.
Goal True. idtac "PA:C12_reads_full". Abort.
Print Assumptions C12_reads_full.

(* the chunked socket is a lawful stream whose content is the decoded body: the reader theorems (C01, C04) apply to it *)
Theorem C12_stream_content : forall dz chunks last, wf_chunked chunks last ->
  forall e, datas e = render chunks last ->
  cpending true dz (sock_init true dz e) = decoded dz chunks /\ cpending true dz (start e) = decoded dz chunks.
Proof. exact ChunkReadProofs.C12_content. Qed.
Goal True. idtac "PA:C12_stream_content". Abort.
Print Assumptions C12_stream_content.
