(* C12 — chunked transfer decoding is independent of segmentation.
   For EVERY well-formed chunked body (any chunk data, size lines in any case with leading zeros, with or without
   last-chunk), every per-chunk decoding oracle dz (identity, or zlib's gzip / zlib / raw-deflate decompression with its
   error fallback), every placement of receive boundaries, and reads interleaved with receives. *)
From Coq Require Import NArith ZArith List.
From Coq.Strings Require Import Byte.
From PyRtcm Require Import Base.Bytes Model.Types Model.Reader Model.Socket Spec.StreamLaw Spec.ChunkGrammar
  Spec.Items Spec.ExactStream Model.Crc Proofs.SocketProofs Proofs.ChunkProofs Proofs.ChunkReadProofs Proofs.ReaderComplete Proofs.ReaderSocket Proofs.ReaderChunked Proofs.CrcProofs.
Import ListNotations. Open Scope nat_scope.

Theorem C12_segmentation : forall dz chunks last segs,
  wf_chunked chunks last -> concat segs = ChunkGrammar.render chunks last -> Forall (fun s => s <> []) segs ->
  delivered (feed dz segs) = decoded dz chunks /\ unm (feed dz segs) = false.
Proof. exact ChunkProofs.C12_segmentation. Qed.
Goal True. idtac "PA:C12_segmentation". Abort.
Print Assumptions C12_segmentation.

(* reads interleaved with receives, timeouts and empty packets anywhere: what has been handed out plus what is buffered is
   always the decoding of a prefix of the chunk list, and of all of it once the events are exhausted *)
Theorem C12_reads : forall dz chunks last, wf_chunked chunks last ->
  forall e ns outs s', datas e = ChunkGrammar.render chunks last -> reads_c dz ns (sock_init true dz e) = (outs, s') ->
  unm s' = false /\ Forall2 (fun n o => length o = n \/ o = []) ns outs /\
  (exists done todo, chunks = done ++ todo /\ concat outs ++ buf s' = decoded dz done) /\
  (evs s' = [] -> concat outs ++ buf s' = decoded dz chunks).
Proof. exact ChunkReadProofs.C12_reads. Qed.
Goal True. idtac "PA:C12_reads". Abort.
Print Assumptions C12_reads.

Theorem C12_reads_full : forall dz chunks last, wf_chunked chunks last ->
  forall segs ns outs s', concat segs = ChunkGrammar.render chunks last -> Forall (fun d => d <> []) segs ->
  list_sum ns <= length (decoded dz chunks) -> reads_c dz ns (start (map Data segs)) = (outs, s') ->
  Forall2 (fun n o => length o = n) ns outs /\ concat outs = firstn (list_sum ns) (decoded dz chunks) /\ unm s' = false.
Proof. exact ChunkReadProofs.C12_reads_full. Qed.
Goal True. idtac "PA:C12_reads_full". Abort.
Print Assumptions C12_reads_full.

(* the chunked socket is a lawful stream whose content is the decoded body: the reader theorems (C01, C04) apply to it *)
Theorem C12_stream_content : forall dz chunks last, wf_chunked chunks last ->
  forall e, datas e = ChunkGrammar.render chunks last ->
  cpending true dz (sock_init true dz e) = decoded dz chunks /\ cpending true dz (start e) = decoded dz chunks.
Proof. exact ChunkReadProofs.C12_content. Qed.
Goal True. idtac "PA:C12_stream_content". Abort.
Print Assumptions C12_stream_content.

(* END TO END: the reader over a chunked-transfer socket delivers exactly the messages of the decoded body -- the same complete
   per-read trace as over a file holding the decoded bytes -- for every chunking of the body, every rendering of the size lines,
   every placement of the receive boundaries, every error mode and constructor (dz must not lengthen a chunk: true for plain
   chunked transfer; an expanding decompressor can exhaust the model's readline fuel) *)
Section EndToEnd.
Context {M : Type}.
Variable dz : bytes -> bytes.
Hypothesis Hdz : forall c, length (dz c) <= length c.
Variable construct : bytes -> Z -> outcome M.
Variable nmea_hdr : list bytes.
Hypothesis Hnmea : nmea_hdr_ok nmea_hdr.
Theorem C12_reader_chunked_eq_file : forall chunks last segs items c fuel n,
  wf_chunked chunks last -> Forall (fun d => d <> []) segs -> concat segs = ChunkGrammar.render chunks last ->
  decoded dz chunks = stream_of items -> Forall (wf_item nmea_hdr) items -> Forall crlf_item items ->
  (Z.land (validate c) 1 <> 0%Z \/ no_damaged items) -> parsed c = true ->
  length (stream_of items) < fuel -> length items < n ->
  fst (iterate (sock_ops true dz) construct nmea_hdr [xb5; x62] 1%Z 2%Z 1%Z c fuel n (sock_init true dz (map Data segs)))
    = trace construct (labelmsm c) (quitonerror c) [] items /\
  fst (iterate (sock_ops true dz) construct nmea_hdr [xb5; x62] 1%Z 2%Z 1%Z c fuel n (sock_init true dz (map Data segs)))
    = fst (iterate file_ops construct nmea_hdr [xb5; x62] 1%Z 2%Z 1%Z c fuel n (file_stream (stream_of items))).
Proof. exact (reader_chunked_eq_file dz Hdz construct nmea_hdr Hnmea (Hcrc_of_self_check crc_self_check)). Qed.
End EndToEnd.
Goal True. idtac "PA:C12_reader_chunked_eq_file". Abort.
Print Assumptions C12_reader_chunked_eq_file.
