(* C15 — identity is the transmitted message number; unknown types are preserved.
   For EVERY pair / triple of leading bytes, every remaining payload, every table set. *)
From Coq Require Import NArith ZArith List String.
From Coq.Strings Require Import Byte.
From PyRtcm Require Import Base.Bytes Base.Dec Model.Types Model.Message Model.Reader Spec.Frame Spec.Items Proofs.ObjProofs.
Import ListNotations. Open Scope N_scope.

(* the message number is the first 12 payload bits; the 4076 sub-type is payload bits 15..22 *)
Theorem C15_msgnum_is_first_12_bits : forall b0 b1 rest, msgnum b0 b1 = uint (firstn 12 (bits (b0 :: b1 :: rest))).
Proof. exact msgnum_bits. Qed.
Goal True. idtac "PA:C15_msgnum_is_first_12_bits". Abort.
Print Assumptions C15_msgnum_is_first_12_bits.

Theorem C15_subtype_bits : forall b0 b1 b2 rest, subtype b1 b2 = uint (firstn 8 (skipn 15 (bits (b0 :: b1 :: b2 :: rest)))).
Proof. exact subtype_bits. Qed.
Goal True. idtac "PA:C15_subtype_bits". Abort.
Print Assumptions C15_subtype_bits.

(* identity = decimal message number, suffixed with the three-digit sub-type for 4076; the rest of the payload is ignored *)
Theorem C15_identity : forall b0 b1 rest,
  identity (b0 :: b1 :: rest) =
    (if msgnum b0 b1 =? 4076
     then match rest with [] => Foreign XIndex | b2 :: _ => Ok (str_of_N 4076 ++ "_" ++ ddd (subtype b1 b2))%string end
     else Ok (str_of_N (msgnum b0 b1))).
Proof. exact identity_bits. Qed.
Goal True. idtac "PA:C15_identity". Abort.
Print Assumptions C15_identity.

Theorem C15_ranges : forall b0 b1 b2, msgnum b0 b1 < 4096 /\ subtype b1 b2 < 256.
Proof. intros b0 b1 b2. split; [apply msgnum_lt | apply subtype_lt]. Qed.
Goal True. idtac "PA:C15_ranges". Abort.
Print Assumptions C15_ranges.

(* message numbers without a payload definition never cause an error: a stub that keeps the whole payload and serialises
   back to the same frame, which parses to the same stub *)
Theorem C15_unknown_stub : forall T, t_rtcm_hdr T = [xd3] -> forall p l ident,
  too_short p = false -> identity p = Ok ident -> get_dict T ident = None ->
  exists o, construct T (Some p) l = Ok o /\ o_payload o = p /\ o_unknown o = true /\ o_immutable o = true /\ o_labelmsm o = l /\
    o_satmap o = None /\ o_cellmap o = None /\ o_attrs o = [("DF002"%string, VStr (codes ident))] /\
    ((List.length p <= 1023)%nat -> serialize T o = Ok (frame p) /\ wf_frame (frame p) /\
       forall v, parse (fun q l' => construct T (Some q) l') 1%Z v l (frame p) = Ok o).
Proof. exact unknown_stub. Qed.
Goal True. idtac "PA:C15_unknown_stub". Abort.
Print Assumptions C15_unknown_stub.

(* for implemented types the decoded message-number field equals the transmitted number (given the per-run table theorem
   first_field_ok), likewise the IGS sub-type field *)
Theorem C15_df002_is_msgnum : forall T b0 b1 rest l o ident b, first_field_ok T = true ->
  identity (b0 :: b1 :: rest) = Ok ident -> get_dict T ident = Some b -> construct T (Some (b0 :: b1 :: rest)) l = Ok o ->
  assoc "DF002" (o_attrs o) = Some (VInt (Z.of_N (msgnum b0 b1))).
Proof. exact df002_is_msgnum. Qed.
Goal True. idtac "PA:C15_df002_is_msgnum". Abort.
Print Assumptions C15_df002_is_msgnum.

Theorem C15_idf002_is_subtype : forall T b0 b1 b2 rest l o ident b, first_field_ok T = true ->
  identity (b0 :: b1 :: b2 :: rest) = Ok ident -> get_dict T ident = Some b -> In (ident, b) (t_igs T) ->
  construct T (Some (b0 :: b1 :: b2 :: rest)) l = Ok o -> assoc "IDF002" (o_attrs o) = Some (VInt (Z.of_N (subtype b1 b2))).
Proof. exact idf002_is_subtype. Qed.
Goal True. idtac "PA:C15_idf002_is_subtype". Abort.
Print Assumptions C15_idf002_is_subtype.

(* meaning of the per-run table theorems *)
Theorem C15_routing_meaning : forall T, routing_ok T = true ->
  (forall k b, In (k, b) (t_get T) -> get_dict T k = Some b) /\ (forall k b, In (k, b) (t_msm T) -> get_dict T k = Some b) /\
  (forall k b, In (k, b) (t_igs T) -> get_dict T k = Some b) /\
  (forall k, In k (keys (t_get T)) -> ~ In k (keys (t_msm T)) /\ ~ In k (keys (t_igs T))) /\
  (forall k, In k (keys (t_msm T)) -> ~ In k (keys (t_igs T))).
Proof. exact routing_sound. Qed.
Goal True. idtac "PA:C15_routing_meaning". Abort.
Print Assumptions C15_routing_meaning.

Theorem C15_ismsm_meaning : forall T implemented, ismsm_ok T implemented = true ->
  (forall k, In k implemented -> In k (keys (t_msm T)) /\ ismsm_of T k = true) /\
  (forall k, In k (keys (t_msm T)) -> ismsm_of T k = true) /\
  (forall n, n < 4096 -> msm_number n = false -> ismsm_of T (str_of_N n) = false) /\
  (forall s, s < 256 -> ismsm_of T ("4076_" ++ ddd s)%string = false).
Proof. exact ismsm_sound. Qed.
Goal True. idtac "PA:C15_ismsm_meaning". Abort.
Print Assumptions C15_ismsm_meaning.
