(* C06 — fields are never read past the end of the payload.  For EVERY table set, payload and label option. *)
From Coq Require Import NArith ZArith List.
From Coq.Strings Require Import Byte.
From PyRtcm Require Import Base.Bytes Model.Types Model.Message Spec.FieldGrammar Proofs.DecodeBits Proofs.DecodeWalk Proofs.DecodeExtend Proofs.DecodeSingle.
Import ListNotations. Open Scope Z_scope.

(* a field that would reach past the end of the payload is an error, never a value *)
Theorem C06_out_of_bounds_is_error : forall p off w, 0 <= off -> (w < 0 \/ 8 * Z.of_nat (length p) < off + w) ->
  get_bits (be p) (8 * Z.of_nat (length p)) off w = Foreign XValue.
Proof. exact get_bits_oob. Qed.
Goal True. idtac "PA:C06_out_of_bounds_is_error". Abort.
Print Assumptions C06_out_of_bounds_is_error.

(* an extracted value is exactly the payload's own bits at that position *)
Theorem C06_in_bounds_is_slice : forall p off w, 0 <= off -> 0 <= w -> off + w <= 8 * Z.of_nat (length p) ->
  get_bits (be p) (8 * Z.of_nat (length p)) off w = Ok (uint (firstn (Z.to_nat w) (skipn (Z.to_nat off) (bits p)))).
Proof. exact get_bits_slice. Qed.
Goal True. idtac "PA:C06_in_bounds_is_slice". Abort.
Print Assumptions C06_in_bounds_is_slice.

(* a successful decode ends inside the payload (label-typed fields have width 0: a per-run table obligation) *)
Theorem C06_decode_in_bounds : forall T p lbl o t, label_zero_width T = true ->
  decode_run T p lbl = Ok (o, t) -> 0 <= t <= 8 * Z.of_nat (length p).
Proof. exact decode_in_bounds. Qed.
Goal True. idtac "PA:C06_decode_in_bounds". Abort.
Print Assumptions C06_decode_in_bounds.

(* construct = decode_run + the immutable flag: t is the number of bits the message's fields occupy *)
Theorem C06_construct_is_decode_run : forall T p lbl,
  construct T (Some p) lbl = (do s <- decode_run T p lbl; Ok (with_immutable (fst s) true)).
Proof. exact construct_decode_run. Qed.
Goal True. idtac "PA:C06_construct_is_decode_run". Abort.
Print Assumptions C06_construct_is_decode_run.

(* a complete message truncated below the bits its fields occupy, at any length that still contains its identity, is rejected *)
Theorem C06_truncation_rejected : forall T p lbl o t, label_zero_width T = true ->
  decode_run T p lbl = Ok (o, t) ->
  forall n, 8 * Z.of_nat n < t -> too_short (firstn n p) = false ->
  match construct T (Some (firstn n p)) lbl with Lib e => e = EType | Unmodelled _ => True | _ => False end.
Proof. exact truncation_outcome. Qed.
Goal True. idtac "PA:C06_truncation_rejected". Abort.
Print Assumptions C06_truncation_rejected.
