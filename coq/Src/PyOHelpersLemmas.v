(* Generic lemmas for the source tie of rtcmhelpers.att2idx / att2name / datadesc (run/SrcHelpers_inst.v):
   - the interpreter's str operations in the vocabulary of Model/Helpers.v: split_char "_" = split_us, rsplit1_char "_" = rsplit1_aux,
     "_" in s  <->  rsplit1_aux s is Some;
   - the unfolding equation of the tuple comprehension (ETupleRange) with its loop as a top-level function [tr_go], and that loop
     for the body int(a[x]) over a list of str = Helpers.ints;
   - subscripts of a list of str.
   Nothing here depends on the translated source. *)
From Coq Require Import ZArith NArith List String Ascii Bool Lia.
From PyRtcm Require Import Base.Bytes Base.Dec Model.Types Model.Message Model.Helpers Src.PyO Src.PyOLemmas Src.PyOReaderLemmas.
Import ListNotations.
Open Scope string_scope.
Open Scope Z_scope.

(* ================= str.split("_") ================= *)
Lemma sapp_assoc1 (a:string) c h : ((a ++ String c "") ++ h)%string = (a ++ String c h)%string.
Proof. induction a as [|x a IH]; [reflexivity|]. cbn [append]. now rewrite IH. Qed.
Lemma sapp_nil_r (a:string) : (a ++ "")%string = a.
Proof. induction a as [|x a IH]; [reflexivity|]. cbn [append]. now rewrite IH. Qed.

Lemma split_char_nonnil c t : split_char c t <> [].
Proof.
  induction t as [|a r IH]; cbn [split_char]; [discriminate|].
  destruct (Ascii.eqb a c); [discriminate|]. destruct (split_char c r); discriminate.
Qed.

Lemma split_us_aux_char t : forall cur,
  split_us_aux cur t = match split_char "_" t with h :: tl => (cur ++ h)%string :: tl | [] => [cur] end.
Proof.
  induction t as [|a r IH]; intro cur; cbn [split_us_aux split_char].
  - now rewrite sapp_nil_r.
  - destruct (Ascii.eqb a "_").
    + rewrite sapp_nil_r. f_equal. rewrite IH. pose proof (split_char_nonnil "_" r) as N.
      destruct (split_char "_" r) as [|h tl]; [congruence|reflexivity].
    + rewrite IH. pose proof (split_char_nonnil "_" r) as N.
      destruct (split_char "_" r) as [|h tl]; [congruence|]. now rewrite sapp_assoc1.
Qed.

Theorem split_char_split_us t : split_char "_" t = split_us t.
Proof.
  unfold split_us. rewrite split_us_aux_char. pose proof (split_char_nonnil "_" t) as N.
  destruct (split_char "_" t) as [|h tl]; [congruence|reflexivity].
Qed.

(* ================= str.rsplit("_", 1) and "_" in s ================= *)
Theorem rsplit1_char_aux t :
  option_map fst (rsplit1_char "_" t) = rsplit1_aux t.
Proof.
  induction t as [|a r IH]; cbn [rsplit1_char rsplit1_aux]; [reflexivity|].
  rewrite <- IH. destruct (rsplit1_char "_" r) as [[h tl]|]; cbn [option_map fst]; [reflexivity|].
  destruct (Ascii.eqb a "_"); reflexivity.
Qed.

Lemma index0_us t :
  String.index 0 "_" t =
  match t with
  | EmptyString => None
  | String a r => if Ascii.eqb a "_" then Some 0%nat
                  else match String.index 0 "_" r with Some n => Some (S n) | None => None end
  end.
Proof.
  destruct t as [|a r]; [reflexivity|].
  cbn [String.index prefix]. destruct (ascii_dec "_" a) as [E|E].
  - subst a. cbn [Ascii.eqb Bool.eqb]. destruct r; reflexivity.
  - destruct (Ascii.eqb a "_") eqn:Q; [apply Ascii.eqb_eq in Q; congruence|reflexivity].
Qed.

Theorem contains_us_rsplit t :
  str_contains "_" t = match rsplit1_aux t with Some _ => true | None => false end.
Proof.
  unfold str_contains. induction t as [|a r IH]; [reflexivity|].
  rewrite index0_us. cbn [rsplit1_aux].
  destruct (rsplit1_aux r) as [h|].
  - destruct (Ascii.eqb a "_"); [reflexivity|]. destruct (String.index 0 "_" r); [reflexivity|discriminate].
  - destruct (Ascii.eqb a "_"); [reflexivity|]. destruct (String.index 0 "_" r); [discriminate|reflexivity].
Qed.

(* the head of rsplit is shorter than the string *)
Lemma rsplit1_aux_shorter t : forall h, rsplit1_aux t = Some h -> (String.length h < String.length t)%nat.
Proof.
  induction t as [|a r IH]; intros h; cbn [rsplit1_aux]; [discriminate|].
  destruct (rsplit1_aux r) as [h'|].
  - intro E. injection E as <-. specialize (IH h' eq_refl). cbn [String.length]. lia.
  - destruct (Ascii.eqb a "_"); [|discriminate]. intro E. injection E as <-. cbn [String.length]. lia.
Qed.

(* ================= subscripts of a list of str ================= *)
Lemma index_list_str (Ob:Type) (l:list string) (j:nat) a :
  nth_error l j = Some a -> index_list Ob (map (@VStr Ob) l) (Z.of_nat j) = ROk (VStr a).
Proof.
  intro H. unfold index_list, list_pos. rewrite map_length, of_nat_ltb0, of_nat_ltb.
  assert (L : (j < List.length l)%nat) by (apply nth_error_Some; congruence).
  apply Nat.ltb_lt in L. rewrite L, Nat2Z.id, nth_error_map, H. reflexivity.
Qed.

Lemma skipn_cons_nth {A} (l:list A) : forall j a r, skipn j l = a :: r -> nth_error l j = Some a /\ skipn (S j) l = r.
Proof.
  induction l as [|x l IH]; intros [|j] a r; cbn [skipn nth_error]; try discriminate.
  - intro E. injection E as -> ->. split; [reflexivity|]. destruct r; reflexivity.
  - intro E. apply IH in E. exact E.
Qed.

(* range(1, n) *)
Lemma range_from_1 (n:nat) : map (fun k => 1 + Z.of_nat k) (seq 0 n) = map Z.of_nat (seq 1 n).
Proof.
  rewrite <- seq_shift, map_map. apply map_ext. intro k. lia.
Qed.

(* ================= tuple(body for x in range(lo, hi)) ================= *)
Section Comp.
  Variables (Ob W : Type).
  Variable ext : callsig -> list (val Ob) -> W -> res (val Ob) * W.
  Variable M : string -> option (mcall Ob W).
  Notation eval := (eval Ob W ext M).
  Notation state := (state Ob W).

  (* the comprehension's loop: x is bound in front of the locals for the body and removed afterwards *)
  Fixpoint tr_go (x:string) (body:expr) (is:list Z) (acc:list (val Ob)) (s:state) {struct is} : res (val Ob) * state :=
    match is with
    | [] => (ROk (VTuple (rev acc)), s)
    | i::r => match eval body (set_locals Ob W ((x, VInt i) :: locals Ob W s) s) with
              | (ROk v, s') => tr_go x body r (v::acc) (set_locals Ob W (tl (locals Ob W s')) s')
              | (RExc c, s') => (RExc c, set_locals Ob W (tl (locals Ob W s')) s')
              | (RFail f, s') => (RFail f, set_locals Ob W (tl (locals Ob W s')) s')
              end
    end.

  Lemma eval_tuplerange x elo ehi body (s:state) :
    eval (ETupleRange x elo ehi body) s =
      match eval elo s with
      | (ROk (VInt lo), s1) =>
          match eval ehi s1 with
          | (ROk (VInt hi), s2) => tr_go x body (map (fun k => lo + Z.of_nat k) (seq 0 (Z.to_nat (hi - lo)))) [] s2
          | (ROk _, s2) => (RFail (FUnmodelled "range bound"), s2)
          | other => other end
      | (ROk _, s1) => (RFail (FUnmodelled "range bound"), s1)
      | other => other
      end.
  Proof.
    cbn [PyO.eval]. destruct (eval elo s) as [[v|c|f] s1]; try reflexivity.
    destruct v; try reflexivity.
    destruct (eval ehi s1) as [[v|c|f] s2]; try reflexivity.
    destruct v; try reflexivity.
    generalize (map (fun k => z + Z.of_nat k) (seq 0 (Z.to_nat (z0 - z)))) as is.
    generalize (@nil (val Ob)) as acc. intros acc is. revert acc s2.
    induction is as [|i r IH]; intros acc s2; [reflexivity|].
    cbn [tr_go]. destruct (eval body _) as [[v|c|f] s']; try reflexivity. apply IH.
  Qed.

  (* tuple(int(a[x]) for x in <positions j, j+1, .. of a>) on a list of str: Helpers.ints of the rest of the list from j *)
  Lemma tr_go_ints (x a:string) (l:list string) lc sf (w:W) :
    String.eqb x a = false ->
    lookup Ob a lc = Some (VList (map (@VStr Ob) l)) ->
    forall rest j acc, skipn j l = rest ->
    tr_go x (ECallB BIntPy [EIndex (EVar a) (EVar x)]) (map Z.of_nat (seq j (List.length rest))) acc
          {| locals := lc; self := sf; world := w |}
    = (match ints rest with
       | None => RFail (FUnmodelled "int() of an exotic spelling")
       | Some None => RExc "ValueError"
       | Some (Some t) => ROk (VTuple (rev acc ++ map (fun n => VInt (Z.of_N n)) t)%list)
       end, {| locals := lc; self := sf; world := w |}).
  Proof.
    intros Hxa Ha. induction rest as [|t r IH]; intros j acc Hs.
    - cbn [List.length seq map tr_go ints]. now rewrite app_nil_r.
    - cbn [List.length seq map tr_go ints].
      apply skipn_cons_nth in Hs. destruct Hs as [Hn Hs].
      cbn [PyO.eval set_locals locals self world lookup ret]. rewrite Hxa, Ha.
      cbn [set_locals locals self world lookup ret]. rewrite String.eqb_refl.
      cbn [set_locals locals self world ret]. rewrite (index_list_str Ob l j t Hn). cbn [builtin_val].
      destruct (py_int t) as [n| |]; cbv [tl set_locals locals self world]; try reflexivity.
      rewrite (IH (S j) (VInt (Z.of_N n) :: acc) Hs).
      destruct (ints r) as [[tt'|]|]; try reflexivity.
      cbn [rev map]. now rewrite <- app_assoc.
  Qed.
End Comp.
