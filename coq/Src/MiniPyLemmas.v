(* Unfolding equations for the MiniPy interpreter, Z/N transport of the bit operations, loop induction. *)
From Coq Require Import ZArith NArith List String Ascii Lia.
From Coq.Strings Require Import Byte.
From PyRtcm Require Import Base.Bytes Base.Dec Src.MiniPy.
Import ListNotations.
Open Scope Z_scope.

Section Eqs.
  Variable C : calls.

  Lemma exec_list_nil s : exec_list C [] s = POk (FNext s).
  Proof. reflexivity. Qed.
  Lemma exec_list_cons a r s :
    exec_list C (a::r) s = match exec C a s with POk (FNext s') => exec_list C r s' | other => other end.
  Proof. reflexivity. Qed.
  Lemma exec_assign x e s :
    exec C (SAssign x e) s = match eval C e s with POk v => POk (FNext (update x v s)) | PErr e => PErr e end.
  Proof. reflexivity. Qed.
  Lemma exec_aug x o e s :
    exec C (SAug x o e) s = match eval C (EBin o (EVar x) e) s with POk v => POk (FNext (update x v s)) | PErr e => PErr e end.
  Proof. reflexivity. Qed.
  Lemma exec_for x it body s :
    exec C (SFor x it body) s = match iter_values C it s with POk vs => loop (exec_list C body) x vs s | PErr e => PErr e end.
  Proof. reflexivity. Qed.
  Lemma exec_if c th el s :
    exec C (SIf c th el) s =
      match eval C c s with
      | POk v => match truth v with POk true => exec_list C th s | POk false => exec_list C el s | PErr e => PErr e end
      | PErr e => PErr e
      end.
  Proof. reflexivity. Qed.
  Lemma exec_return e s :
    exec C (SReturn e) s = match eval C e s with POk v => POk (FRet v) | PErr e => PErr e end.
  Proof. reflexivity. Qed.

  (* expressions *)
  Lemma eval_int z s : eval C (EInt z) s = POk (PInt z).
  Proof. reflexivity. Qed.
  Lemma eval_var x s : eval C (EVar x) s = match lookup x s with Some PUnbound | None => PErr (PyUnbound x) | Some v => POk v end.
  Proof. reflexivity. Qed.
  Lemma eval_bin o a b s : eval C (EBin o a b) s = bind2 (eval C a s) (eval C b s) (binop_val o).
  Proof. reflexivity. Qed.
  Lemma eval_call f a s :
    eval C (ECall f a) s = match C f with None => PErr (PyNoFunc f) | Some g => match eval C a s with POk v => g v | PErr e => PErr e end end.
  Proof. reflexivity. Qed.
  Lemma eval_bytes bs s : eval C (EBytes bs) s = POk (PBytes bs).
  Proof. reflexivity. Qed.
  Lemma eval_cmpeq a b s : eval C (ECmpEq a b) s = bind2 (eval C a s) (eval C b s) eq_val.
  Proof. reflexivity. Qed.
  Lemma eval_strof a s : eval C (EStrOf a) s = match eval C a s with POk v => str_val v | PErr e => PErr e end.
  Proof. reflexivity. Qed.
  Lemma eval_fmt03d a s : eval C (EFmt03d a) s = match eval C a s with POk v => fmt03d_val v | PErr e => PErr e end.
  Proof. reflexivity. Qed.
  Lemma eval_strlit t s : eval C (EStrLit t) s = POk (PStr t).
  Proof. reflexivity. Qed.
  Lemma eval_strcat a b s : eval C (EStrCat a b) s = bind2 (eval C a s) (eval C b s) strcat_val.
  Proof. reflexivity. Qed.

  (* a loop whose body maps states of a given shape to states of that shape *)
  Lemma loop_shape (A:Type) (shape : A -> pval -> env) (step : A -> pval -> A) body x :
    (forall a u v, body (update x v (shape a u)) = POk (FNext (shape (step a v) v))) ->
    forall vs a u, loop body x vs (shape a u) = POk (FNext (shape (fold_left step vs a) (fold_left (fun _ v => v) vs u))).
  Proof.
    intros Hb vs. induction vs as [|v r IH]; intros a u.
    - reflexivity.
    - cbn [loop fold_left]. rewrite Hb, IH. reflexivity.
  Qed.
End Eqs.

Lemma of_N_lxor a b : Z.lxor (Z.of_N a) (Z.of_N b) = Z.of_N (N.lxor a b).
Proof. destruct a, b; reflexivity. Qed.
Lemma of_N_land a b : Z.land (Z.of_N a) (Z.of_N b) = Z.of_N (N.land a b).
Proof. destruct a, b; reflexivity. Qed.
Lemma of_N_lor a b : Z.lor (Z.of_N a) (Z.of_N b) = Z.of_N (N.lor a b).
Proof. destruct a, b; reflexivity. Qed.
Lemma of_N_shiftl a n : Z.shiftl (Z.of_N a) (Z.of_N n) = Z.of_N (N.shiftl a n).
Proof.
  rewrite Z.shiftl_mul_pow2 by lia. rewrite N.shiftl_mul_pow2.
  rewrite N2Z.inj_mul, N2Z.inj_pow. reflexivity.
Qed.
Lemma of_N_eqb0 a : (Z.of_N a =? 0) = N.eqb a 0.
Proof. destruct a; reflexivity. Qed.

(* fold over [seq]-generated loop values that the body ignores = n-fold iteration *)
Lemma iter_swap (A:Type) (f:A->A) n a : Nat.iter n f (f a) = f (Nat.iter n f a).
Proof. induction n as [|n IH]; [reflexivity|]. simpl. now rewrite <- IH. Qed.
Lemma fold_const (A B:Type) (f:A->A) (l:list B) a : fold_left (fun x _ => f x) l a = Nat.iter (List.length l) f a.
Proof.
  revert a. induction l as [|b r IH]; intro a; [reflexivity|].
  cbn [fold_left List.length]. rewrite IH. change (Nat.iter (S (List.length r)) f a) with (f (Nat.iter (List.length r) f a)). apply iter_swap.
Qed.

(* linking *)
Lemma link_here n f r : link ((n,f)::r) n = Some (call (link r) f).
Proof. cbn [link]. now rewrite String.eqb_refl. Qed.
Lemma link_skip n f r g : String.eqb g n = false -> link ((n,f)::r) g = link r g.
Proof. intro H. cbn [link]. now rewrite H. Qed.

(* more Z/N transport *)
Lemma of_N_shiftr a n : Z.shiftr (Z.of_N a) (Z.of_N n) = Z.of_N (N.shiftr a n).
Proof.
  rewrite Z.shiftr_div_pow2 by lia. rewrite N.shiftr_div_pow2.
  rewrite N2Z.inj_div, N2Z.inj_pow. reflexivity.
Qed.
Lemma of_N_eqb a b : (Z.of_N a =? Z.of_N b) = N.eqb a b.
Proof.
  destruct (N.eqb_spec a b) as [->|NE]; [apply Z.eqb_refl|].
  apply Z.eqb_neq. intro H. apply NE. now apply N2Z.inj.
Qed.

(* int -> text on non-negative ints below the digit limit *)
Lemma str_of_Z_of_N n : str_of_Z (Z.of_N n) = str_of_N n.
Proof. destruct n; reflexivity. Qed.
Lemma small_below_limit : 4096 <= int_str_limit.
Proof. vm_compute. discriminate. Qed.
Lemma str_int_of_N n : (n < 4096)%N -> str_int (Z.of_N n) = POk (str_of_N n).
Proof.
  intro H. unfold str_int.
  replace (Z.abs (Z.of_N n) <? int_str_limit) with true.
  - now rewrite str_of_Z_of_N.
  - symmetry. apply Z.ltb_lt. pose proof small_below_limit. rewrite Z.abs_eq by lia. lia.
Qed.
Lemma fmt03d_int_of_N n : (n < 4096)%N -> fmt03d_int (Z.of_N n) = POk (ddd n).
Proof.
  intro H. unfold fmt03d_int.
  replace (Z.abs (Z.of_N n) <? int_str_limit) with true.
  - destruct n; reflexivity.
  - symmetry. apply Z.ltb_lt. pose proof small_below_limit. rewrite Z.abs_eq by lia. lia.
Qed.
