(* Unfolding equations for the MiniPy interpreter, Z/N transport of the bit operations, loop induction. *)
From Coq Require Import ZArith NArith List String Lia.
From Coq.Strings Require Import Byte.
From PyRtcm Require Import Base.Bytes Src.MiniPy.
Import ListNotations.
Open Scope Z_scope.

Section Eqs.
  Variable C : calls.

  Lemma exec_list_nil s : exec_list C [] s = POk (FNext s).
  Proof. reflexivity. Qed.
  Lemma exec_list_cons a r s :
    exec_list C (a::r) s = match exec C a s with POk (FNext s') => exec_list C r s' | other => other end.
  Proof. reflexivity. Qed.
  Lemma exec_assign x e s :
    exec C (SAssign x e) s = match eval C e s with POk v => POk (FNext (update x v s)) | PErr e => PErr e end.
  Proof. reflexivity. Qed.
  Lemma exec_aug x o e s :
    exec C (SAug x o e) s = match eval C (EBin o (EVar x) e) s with POk v => POk (FNext (update x v s)) | PErr e => PErr e end.
  Proof. reflexivity. Qed.
  Lemma exec_for x it body s :
    exec C (SFor x it body) s = match iter_values C it s with POk vs => loop (exec_list C body) x vs s | PErr e => PErr e end.
  Proof. reflexivity. Qed.
  Lemma exec_if c th el s :
    exec C (SIf c th el) s =
      match eval C c s with
      | POk (PInt z) => if z =? 0 then exec_list C el s else exec_list C th s
      | POk (PBytes b) => match b with [] => exec_list C el s | _ => exec_list C th s end
      | POk PUnbound => PErr (PyType "truth") | PErr e => PErr e
      end.
  Proof. reflexivity. Qed.
  Lemma exec_return e s :
    exec C (SReturn e) s = match eval C e s with POk v => POk (FRet v) | PErr e => PErr e end.
  Proof. reflexivity. Qed.

  (* a loop whose body maps states of a given shape to states of that shape *)
  Lemma loop_shape (A:Type) (shape : A -> pval -> env) (step : A -> pval -> A) body x :
    (forall a u v, body (update x v (shape a u)) = POk (FNext (shape (step a v) v))) ->
    forall vs a u, loop body x vs (shape a u) = POk (FNext (shape (fold_left step vs a) (fold_left (fun _ v => v) vs u))).
  Proof.
    intros Hb vs. induction vs as [|v r IH]; intros a u.
    - reflexivity.
    - cbn [loop fold_left]. rewrite Hb, IH. reflexivity.
  Qed.
End Eqs.

Lemma of_N_lxor a b : Z.lxor (Z.of_N a) (Z.of_N b) = Z.of_N (N.lxor a b).
Proof. destruct a, b; reflexivity. Qed.
Lemma of_N_land a b : Z.land (Z.of_N a) (Z.of_N b) = Z.of_N (N.land a b).
Proof. destruct a, b; reflexivity. Qed.
Lemma of_N_lor a b : Z.lor (Z.of_N a) (Z.of_N b) = Z.of_N (N.lor a b).
Proof. destruct a, b; reflexivity. Qed.
Lemma of_N_shiftl a n : Z.shiftl (Z.of_N a) (Z.of_N n) = Z.of_N (N.shiftl a n).
Proof.
  rewrite Z.shiftl_mul_pow2 by lia. rewrite N.shiftl_mul_pow2.
  rewrite N2Z.inj_mul, N2Z.inj_pow. reflexivity.
Qed.
Lemma of_N_eqb0 a : (Z.of_N a =? 0) = N.eqb a 0.
Proof. destruct a; reflexivity. Qed.

(* fold over [seq]-generated loop values that the body ignores = n-fold iteration *)
Lemma iter_swap (A:Type) (f:A->A) n a : Nat.iter n f (f a) = f (Nat.iter n f a).
Proof. induction n as [|n IH]; [reflexivity|]. simpl. now rewrite <- IH. Qed.
Lemma fold_const (A B:Type) (f:A->A) (l:list B) a : fold_left (fun x _ => f x) l a = Nat.iter (List.length l) f a.
Proof.
  revert a. induction l as [|b r IH]; intro a; [reflexivity|].
  cbn [fold_left List.length]. rewrite IH. change (Nat.iter (S (List.length r)) f a) with (f (Nat.iter (List.length r) f a)). apply iter_swap.
Qed.
