(* The environment in which the translated source of the second array helper of rtcmhelpers
     parse_4076_201
   (tools/gen_src2.py `arr2` -> PyRtcmGen.SrcOArr2, interpreted by Src/PyO.v) is run by run/SrcArr2_inst.v, and how the results of the
   hand-written model (Model/Helpers.v: parse_4076_201) read as interpreter results.  Definitions only; part of the STATEMENT.

   As in Src/ArrEnv.v the message is the reference [VRef "msg"] and every use the source makes of it is a question to the environment,
   answered from the model object [o : obj]:  msg.identity -> obj_identity o;  msg.<name> / getattr(msg, e) -> the data attribute of
   that name or AttributeError; names bound in class RTCMMessage and the eight fixed instance attributes are not answered ([FUnmodelled]).
   COEFFS.values() -> the (field, name) pairs of the regenerated table t_coeffs T, in source order. *)
From Coq Require Import ZArith NArith List String Ascii Bool.
From PyRtcm Require Import Base.Bytes Model.Types Model.Message Model.Helpers Src.PyO Src.ReaderEnv Src.MsgDecEnv Src.ArrEnv.
Import ListNotations.
Open Scope string_scope.
Open Scope Z_scope.

Definition coeff_tuple (e:Z * (string * string)) : val Ob := VTuple [PyO.VStr (fst (snd e)); PyO.VStr (snd (snd e))].

Section Arr2Env.
Variable T : tables.
Variable reserved : list string.       (* the names bound in the body of class RTCMMessage *)
Variable o : obj.                      (* the message *)

Definition arr2_ext (c:callsig) (args:list (val Ob)) (w:W) : res (val Ob) * W :=
  let nm := c_name c in
  match c_kw c with
  | [] =>
      if String.eqb nm "RTCMMessage.identity" then
        match args with
        | [VRef r] => if String.eqb r "msg" then (img_outcome (@PyO.VStr Ob) (obj_identity o), tt) else unm "not the message object"
        | _ => unm "RTCMMessage.identity arguments"
        end
      else if String.eqb nm "getattr" then
        match args with
        | [VRef r; PyO.VStr n] =>
            if negb (String.eqb r "msg") then unm "not the message object"
            else if hidden reserved n then unm "attribute name outside the data attributes"
            else (match assoc n (o_attrs o) with Some v => ROk (img_value v) | None => RExc "AttributeError" end, tt)
        | _ => unm "getattr arguments"
        end
      else if String.eqb nm "COEFFS.values" then
        match args with
        | [] => (ROk (VList (map coeff_tuple (t_coeffs T))), tt)
        | _ => unm "COEFFS.values arguments"
        end
      else unm "unknown callee"
  | _ => unm "unknown callee"
  end.

(* side conditions on the table COEFFS (decided per run on the regenerated one): no attribute name f"{field}_.." can be a hidden name;
   the coefficient names are distinct and none is "Layer Height" (a Python dict could not hold the model's list otherwise) *)
Fixpoint distinct (l:list string) : bool := match l with [] => true | x :: r => negb (existsb (String.eqb x) r) && distinct r end.
Definition coeffs_ok : bool :=
  forallb (fun e => forallb (fun r => negb (prefix (fst (snd e) ++ "_") r)) (reserved ++ fixed_attr_names)) (t_coeffs T)
  && distinct ("Layer Height" :: map (fun e => snd (snd e)) (t_coeffs T)).
End Arr2Env.

(* ---------- the model's result as an interpreter result ---------- *)
(* one layer: {"Layer Height": h, name: [values], ...} *)
Definition img_layer (l:layer_out) : val Ob :=
  VDict ((PyO.VStr "Layer Height", img_value (l_height l)) :: map (fun c => (PyO.VStr (fst c), VList (map img_value (snd c)))) (l_coeffs l)).
(* {0: layer, 1: layer, ...} *)
Definition img_layers (ls:list layer_out) : val Ob :=
  VDict (map (fun jl => (PyO.VInt (Z.of_nat (fst jl)), img_layer (snd jl))) (combine (seq 0 (List.length ls)) ls)).
Definition img_4076 (r:outcome (option (list layer_out))) : res (val Ob) :=
  img_outcome (fun x => match x with None => VNone | Some ls => img_layers ls end) r.

(* the object is not absurdly large: f"{i+1:02d}" is rendered for i up to the number of attributes *)
Definition attrs_small (o:obj) : Prop := Z.of_nat (List.length (o_attrs o)) <= 1048576.
