(* PyO: a deep embedding of the Python subset in which pyrtcm's two stream classes are written --
     socketwrapper.SocketWrapper  (__init__, _recv, read, readline, dechunk)
     rtcmreader.RTCMReader        (read, _parse_ubx, _parse_nmea, _parse_rtcm3, _read_bytes, _read_line, _do_error, parse)
   -- with a structural big-step interpreter.  tools/gen_src2.py translates the CURRENT source text of those methods
   (Python `ast`, fail-closed) into values of type [method]; run/SrcSock_inst.v and run/SrcReader_inst.v then prove, per
   run, that interpreting the translated source gives the hand-written model's function (Model/Socket.v, Model/Reader.v)
   for every state, argument and behaviour of the environment.  No proofs here.

   What a program in this subset can do, and how it is represented:
   * ONE object `self` whose attributes are a store (name -> value); methods of the same class call each other through
     `self.m(...)`; a method can only call methods that come LATER in the program list ([link]), so there is no recursion
     (the translator orders the methods and refuses a cycle).
   * everything outside the class is the ENVIRONMENT: other objects held in attributes of self (the underlying stream,
     the socket, the logger, the error handler), imported functions and classes (calc_crc24q, decompress, RTCMMessage,
     getLogger).  A call into the environment is [ECallX]; its meaning is the parameter [ext] of the interpreter -- a
     state transformer on an abstract world [W] that returns a value or raises.  The theorems instantiate it with the
     model's stream operations / recv events / constructor, i.e. they hold for EVERY behaviour of the environment.
   * exceptions are (class name) only -- the message text of an exception is not modelled; its argument expressions are
     evaluated (so an unbound name in an f-string still raises) and discarded.  `except` matches through the subclass
     table [parent] below (the builtin hierarchy as far as these methods can meet it).
   * `while` has an iteration budget [wfuel] (a parameter): running out is the distinguished failure [FOutOfFuel], never a
     normal result; the equivalence theorems state the bound under which it is unreachable.
   * bytes and bytearray are one value kind [VBytes] (concatenation, slicing, comparison and len agree on them; the
     translated methods never hold two references to one bytearray while it is mutated, see DESIGN.md section 3.4).
   * io.BytesIO objects live in local variables: [VBio data pos]; `.readline()` / `.read(n)` update the variable.
   Anything Python defines but this file does not spell out evaluates to [RFail (FUnmodelled why)], which no theorem's
   right-hand side can produce.  CPython semantics of three builtins are shared with the model files (they are "what
   CPython does" in both places): bytes.strip = Socket.strip, int(b, 16) = Socket.int16, BytesIO.readline = Reader.upto_lf. *)
From Coq Require Import ZArith NArith List String Bool PrimFloat.
From Coq.Strings Require Import Byte.
From PyRtcm Require Import Base.Bytes Base.Dec Model.Types Model.Reader Model.Socket Model.Message Model.Helpers.
Import ListNotations.
Open Scope string_scope.
Open Scope Z_scope.

Section Lang.
Variable Ob : Type.          (* opaque values handed out by the environment (message objects) *)

Inductive val :=
| VNone
| VBool (b:bool)
| VInt (z:Z)
| VBytes (b:bytes)
| VStr (s:string)
| VText                     (* a str whose content is not modelled (message texts built by f-strings) *)
| VTuple (l:list val)       (* tuples; list displays that are only tested for membership *)
| VExc (cls:string)         (* an exception instance *)
| VBio (data:bytes) (pos:nat)
| VRef (r:string)           (* a reference to an object of the environment *)
| VOpq (o:Ob)
| VUnbound                  (* a local that has not been assigned yet; never the value of an expression *)
(* ---- added for the message decoder (RTCMMessage._do_attributes ... _getsatcellmaps) ---- *)
| VFloat (f:float)          (* IEEE-754 binary64 (PrimFloat), only as a resolution and a scaled value *)
| VUStr (u:list N)          (* a str as a list of code points (what chr() makes; VStr is for ASCII names and texts) *)
| VList (l:list val)        (* a list; value semantics -- the translator checks the discipline that makes this exact, see gen_src2.py *)
| VDict (d:list (val * val)).  (* a dict with int / str keys, insertion ordered *)

Inductive fail := FUnmodelled (why:string) | FOutOfFuel | FNoMethod (m:string) | FArity (m:string).
Inductive res (A:Type) := ROk (a:A) | RExc (cls:string) | RFail (f:fail).
Arguments ROk {A}. Arguments RExc {A}. Arguments RFail {A}.

Inductive unop := UNot | UInv | UNeg.
Inductive binop := OAdd | OSub | OMul | OShl | OShr | OAnd | OOr | OXor | ODiv.
Inductive cmpop := CEq | CNe | CLt | CLe | CGt | CGe | CIn | CNotIn | CIs | CIsNot.
Inductive builtin :=
| BLen                      (* len(x) *)
| BBytes                    (* bytes(x) *)
| BInt16                    (* int(x, 16) *)
| BFromLittle               (* int.from_bytes(x, "little", signed=False) *)
| BStrip                    (* x.strip() *)
| BBytesIO                  (* BytesIO(x) *)
| BMin                      (* min(a, b) on two ints *)
| BFromBig                  (* int.from_bytes(x, "big") *)
| BStrOf                    (* str(x) / the f-string piece {x} for an int or a str *)
| BFmtD (w:nat)             (* the f-string piece {x:0<w>d} for a non-negative int (w = 2, 3) *)
| BChr                      (* chr(x) *)
| BPopcount                 (* bin(x).count("1") *)
| BSplit                    (* x.split(sep) for a one-character sep *)
| BIntStr                   (* int(x) for a str of decimal digits, or an int *)
| BIsTuple | BIsInt         (* isinstance(x, tuple) / isinstance(x, int) *)
(* ---- added for rtcmhelpers.att2idx / att2name / datadesc ---- *)
| BIntPy                    (* int(x) on a str as CPython parses it (Helpers.py_int: digits, else ValueError; exotic spellings unmodelled) *)
| BRsplit1                  (* x.rsplit(sep, 1) for a one-character sep *)
| BText.                    (* an f-string / string used as message text: parts evaluated, value not modelled *)

Record callsig := { c_name : string; c_kw : list string }.   (* environment callee; names of the keyword arguments, in order *)

Inductive expr :=
| ENone | EBool (b:bool) | EInt (z:Z) | EBytes (b:bytes) | EStr (s:string)
| EVar (x:string)
| ESelf (a:string)                         (* self.a *)
| ETuple (l:list expr)
| EUn (o:unop) (a:expr)
| EBin (o:binop) (a b:expr)
| EAnd (a b:expr) | EOr (a b:expr)
| ECmp (a:expr) (rest:list (cmpop * expr)) (* a op1 b op2 c ... *)
| EIndex (a i:expr)
| ESlice (a:expr) (lo hi:option expr)
| ECallB (f:builtin) (args:list expr)
| EBioReadline (x:string)                  (* x.readline() for a local x holding a BytesIO *)
| EBioRead (x:string) (n:expr)             (* x.read(n) *)
| ECallM (m:string) (args:list expr)       (* self.m(args) / a static method of the class; keywords resolved by the translator *)
| ECallX (c:callsig) (args:list expr)      (* a callee of the environment that is a global name *)
| ECallRef (obj:expr) (meth:string) (args:list expr)   (* obj.meth(args) / obj(args) [meth = ""] where obj evaluates to a VRef *)
| EExcNew (cls:string) (args:list expr)    (* SomeError(args) *)
(* a class that overrides __setattr__ (RTCMMessage): every attribute assignment, `self.x = v` included, is a call of that method;
   [reserved] = the names bound in the class body (methods, properties): dynamic access to those is not modelled *)
| EGetattrSelf (reserved:list string) (name:expr) (default:option expr)   (* getattr(self, name[, default]) *)
| ESetattrSelf (reserved:list string) (name v:expr)                       (* setattr(self, name, v)  and  self.<name> = v *)
| ESuperSetattr (name v:expr)                                             (* super().__setattr__(name, v): object's own, a plain store *)
(* ---- added for the message decoder ---- *)
| EIf (c a b:expr)                         (* a if c else b *)
| EListLit (l:list expr)                   (* [e1, ..] *)
| EDictEmpty                               (* {} *)
| EListAppend (x:string) (v:expr)          (* x.append(v) for a local x holding a list *)
| EListPop (x:string)                      (* x.pop() *)
| EMethGet (obj k d:expr)                  (* obj.get(k, d) on a dict, or on a table of the environment *)
| ETupleRange (x:string) (lo hi:expr) (body:expr).   (* tuple(body for x in range(lo, hi)): x is local to the comprehension *)

Inductive target := TVar (x:string) | TSelf (a:string) | TTuple (l:list target).

Inductive stmt :=
| SAssign (t:target) (e:expr)
| SAug (t:target) (o:binop) (e:expr)
| SExpr (e:expr)
| SIf (c:expr) (th el:list stmt)
| SWhile (c:expr) (body:list stmt)
| SBreak | SContinue | SPass
| SReturn (e:expr)
| SRaise (e:expr)                          (* raise e   /   raise e from e' (the cause is not modelled) *)
| STry (body:list stmt) (handlers:list (list string * option string * list stmt))
| SFor (t:target) (it:iter) (body:list stmt)   (* for t in range(e) / for t in e *)
| SSetItemLocal (x:string) (k e:expr)          (* x[k] = e for a local x holding a list / dict *)
| SSetItemSelf (a:string) (k e:expr)           (* self.a[k] = e: item assignment on the object held by the attribute (no __setattr__) *)
with iter := ItRange (e:expr) | ItValue (e:expr).

Record method := { m_params : list string; m_locals : list string; m_body : list stmt }.

(* ---------- stores ---------- *)
Definition env := list (string * val).
Fixpoint lookup (x:string) (e:env) : option val :=
  match e with [] => None | (k,v)::r => if String.eqb k x then Some v else lookup x r end.
(* locals: every name is pre-declared (VUnbound), so update never has to extend *)
Fixpoint update (x:string) (v:val) (e:env) : env :=
  match e with [] => [] | (k,w)::r => if String.eqb k x then (k,v)::r else (k,w) :: update x v r end.
(* attributes of self: assignment creates the attribute *)
Fixpoint setattr (x:string) (v:val) (e:env) : env :=
  match e with [] => [(x,v)] | (k,w)::r => if String.eqb k x then (k,v)::r else (k,w) :: setattr x v r end.

(* ---------- the builtin exception hierarchy, as far as these methods can meet it ---------- *)
Definition parent (c:string) : option string :=
  if String.eqb c "TimeoutError" then Some "OSError"
  else if String.eqb c "ConnectionError" then Some "OSError"
  else if String.eqb c "IndexError" then Some "LookupError"
  else if String.eqb c "KeyError" then Some "LookupError"
  else if String.eqb c "OverflowError" then Some "ArithmeticError"
  else if String.eqb c "UnboundLocalError" then Some "NameError"
  else if String.eqb c "Exception" then None
  else Some "Exception".
(* three levels suffice for the table above *)
Definition subclass (c h:string) : bool :=
  String.eqb c h ||
  match parent c with
  | None => false
  | Some p => String.eqb p h ||
      match parent p with
      | None => false
      | Some q => String.eqb q h || match parent q with Some r => String.eqb r h | None => false end
      end
  end.

(* ---------- values ---------- *)
Definition truth (v:val) : res bool :=
  match v with
  | VNone => ROk false
  | VBool b => ROk b
  | VInt z => ROk (negb (z =? 0))
  | VBytes b => ROk (match b with [] => false | _ => true end)
  | VStr s => ROk (match s with EmptyString => false | _ => true end)
  | VTuple l => ROk (match l with [] => false | _ => true end)
  | VExc _ | VBio _ _ | VRef _ | VOpq _ => ROk true      (* default object truth (no __bool__/__len__ on these here) *)
  | VText => RFail (FUnmodelled "truth of a message text")
  | VFloat f => ROk (negb (PrimFloat.eqb f 0%float))
  | VUStr u => ROk (match u with [] => false | _ => true end)
  | VList l => ROk (match l with [] => false | _ => true end)
  | VDict d => ROk (match d with [] => false | _ => true end)
  | VUnbound => RFail (FUnmodelled "truth of unbound")
  end.

Definition int_binop (o:binop) (a b:Z) : res val :=
  match o with
  | OAdd => ROk (VInt (a + b)) | OSub => ROk (VInt (a - b)) | OMul => ROk (VInt (a * b))
  | OShl => if b <? 0 then RExc "ValueError" else ROk (VInt (Z.shiftl a b))
  | OShr => if b <? 0 then RExc "ValueError" else ROk (VInt (Z.shiftr a b))
  | OAnd => ROk (VInt (Z.land a b)) | OOr => ROk (VInt (Z.lor a b)) | OXor => ROk (VInt (Z.lxor a b))
  | ODiv => RFail (FUnmodelled "true division")
  end.
Definition binop_val (o:binop) (a b:val) : res val :=
  match a, b with
  | VInt x, VInt y => int_binop o x y
  | VInt x, VFloat f => match o with
                        | OMul => if Z.abs x <? 2 ^ 53 then ROk (VFloat (float_of_Z x * f)%float) else RFail (FUnmodelled "int beyond 2^53 times float")
                        | _ => RFail (FUnmodelled "float arithmetic") end
  | VFloat f, VInt x => match o with
                        | OMul => if Z.abs x <? 2 ^ 53 then ROk (VFloat (f * float_of_Z x)%float) else RFail (FUnmodelled "int beyond 2^53 times float")
                        | _ => RFail (FUnmodelled "float arithmetic") end
  | VFloat _, VFloat _ => RFail (FUnmodelled "float arithmetic")
  | VStr x, VUStr y => match o with OAdd => ROk (VUStr (codes x ++ y)%list) | _ => RExc "TypeError" end
  | VUStr x, VStr y => match o with OAdd => ROk (VUStr (x ++ codes y)%list) | _ => RExc "TypeError" end
  | VUStr x, VUStr y => match o with OAdd => ROk (VUStr (x ++ y)%list) | _ => RExc "TypeError" end
  | VList x, VList y => match o with OAdd => ROk (VList (x ++ y)%list) | _ => RExc "TypeError" end
  | (VFloat _ | VUStr _ | VList _ | VDict _), _ | _, (VFloat _ | VUStr _ | VList _ | VDict _) => RFail (FUnmodelled "operand kind")
  | VBytes x, VBytes y => match o with OAdd => ROk (VBytes (x ++ y)%list) | _ => RExc "TypeError" end
  | VText, _ | _, VText => RFail (FUnmodelled "message text operand")
  | VBool _, _ | _, VBool _ => RFail (FUnmodelled "bool operand")
  | VUnbound, _ | _, VUnbound => RFail (FUnmodelled "unbound operand")
  | (VBytes _ | VStr _ | VTuple _), VInt _ | VInt _, (VBytes _ | VStr _ | VTuple _) =>
      match o with OMul => RFail (FUnmodelled "sequence repetition") | _ => RExc "TypeError" end
  | VStr x, VStr y => match o with OAdd => ROk (VStr (x ++ y)) | _ => RExc "TypeError" end
  | VTuple _, VTuple _ => RFail (FUnmodelled "tuple operator")
  | _, _ => RExc "TypeError"
  end.

Definition unop_val (o:unop) (a:val) : res val :=
  match o with
  | UNot => match truth a with ROk b => ROk (VBool (negb b)) | RExc c => RExc c | RFail f => RFail f end
  | UInv => match a with VInt z => ROk (VInt (- z - 1)) | VBool _ => RFail (FUnmodelled "~bool") | _ => RExc "TypeError" end
  | UNeg => match a with VInt z => ROk (VInt (- z)) | VBool _ => RFail (FUnmodelled "-bool") | _ => RExc "TypeError" end
  end.

Definition beqb (a b:bytes) : bool := if list_eq_dec Byte.byte_eq_dec a b then true else false.

(* a == b; None stands for "not spelled out here" *)
Definition eq_val (a b:val) : option bool :=
  match a, b with
  | VInt x, VInt y => Some (x =? y)
  | VBytes x, VBytes y => Some (beqb x y)
  | VStr x, VStr y => Some (String.eqb x y)
  | VNone, VNone => Some true
  | VNone, (VInt _ | VBytes _ | VStr _ | VBool _ | VTuple _) | (VInt _ | VBytes _ | VStr _ | VBool _ | VTuple _), VNone => Some false
  | VBytes _, (VInt _ | VStr _) | (VInt _ | VStr _), VBytes _ => Some false
  | VInt _, VStr _ | VStr _, VInt _ => Some false
  | VFloat f, VInt z | VInt z, VFloat f => if Z.abs z <? 2 ^ 53 then Some (PrimFloat.eqb f (float_of_Z z)) else None
  | VFloat f, VFloat g => Some (PrimFloat.eqb f g)
  | VUStr _, VInt _ | VInt _, VUStr _ => Some false
  | VUStr x, VUStr y => Some (if list_eq_dec N.eq_dec x y then true else false)
  | VStr x, VUStr y | VUStr y, VStr x => Some (if list_eq_dec N.eq_dec (codes x) y then true else false)
  | VNone, (VFloat _ | VUStr _ | VList _ | VDict _) | (VFloat _ | VUStr _ | VList _ | VDict _), VNone => Some false
  | _, _ => None
  end.
Fixpoint mem_val (a:val) (l:list val) : option bool :=
  match l with
  | [] => Some false
  | x::r => match eq_val x a with Some true => Some true | Some false => mem_val a r | None => None end
  end.

(* needle in hay, on str (code units are bytes here: names, identities, descriptions are ASCII) *)
Definition str_contains (needle hay:string) : bool :=
  match String.index 0 needle hay with Some _ => true | None => false end.
(* d[k] / d.get(k): None = keys not comparable here *)
Fixpoint dict_get (k:val) (d:list (val * val)) : option (option val) :=
  match d with
  | [] => Some None
  | (k', v)::r => match eq_val k' k with Some true => Some (Some v) | Some false => dict_get k r | None => None end
  end.
Fixpoint dict_set (k v:val) (d:list (val * val)) : option (list (val * val)) :=
  match d with
  | [] => Some [(k, v)]
  | (k', v')::r => match eq_val k' k with
                   | Some true => Some ((k', v)::r)
                   | Some false => match dict_set k v r with Some r' => Some ((k', v')::r') | None => None end
                   | None => None end
  end.
(* l[i] and l[i] = v on a list / tuple: negative indices count from the end *)
Definition list_pos (n:nat) (i:Z) : option nat :=
  if i <? 0 then (if Z.of_nat n + i <? 0 then None else Some (Z.to_nat (Z.of_nat n + i)))
  else if i <? Z.of_nat n then Some (Z.to_nat i) else None.
Definition index_list (l:list val) (i:Z) : res val :=
  match list_pos (List.length l) i with
  | Some k => match nth_error l k with Some v => ROk v | None => RExc "IndexError" end
  | None => RExc "IndexError" end.
Fixpoint set_nth (k:nat) (v:val) (l:list val) : list val :=
  match l, k with [], _ => [] | _::r, O => v::r | x::r, S k' => x :: set_nth k' v r end.

Definition cmp_val (o:cmpop) (a b:val) : res bool :=
  let unm := RFail (FUnmodelled "comparison") in
  match o with
  | CEq => match eq_val a b with Some r => ROk r | None => unm end
  | CNe => match eq_val a b with Some r => ROk (negb r) | None => unm end
  | CLt => match a, b with VInt x, VInt y => ROk (x <? y) | VStr x, VStr y => ROk (String.ltb x y) | _, _ => unm end
  | CLe => match a, b with VInt x, VInt y => ROk (x <=? y) | VStr x, VStr y => ROk (String.leb x y) | _, _ => unm end
  | CGt => match a, b with VInt x, VInt y => ROk (y <? x) | VStr x, VStr y => ROk (String.ltb y x) | _, _ => unm end
  | CGe => match a, b with VInt x, VInt y => ROk (y <=? x) | VStr x, VStr y => ROk (String.leb y x) | _, _ => unm end
  | CIn => match b with
           | VTuple l => match mem_val a l with Some r => ROk r | None => unm end
           | VStr hay => match a with VStr needle => ROk (str_contains needle hay) | _ => RExc "TypeError" end
           | VList l => match mem_val a l with Some r => ROk r | None => unm end
           | _ => unm end
  | CNotIn => match b with
              | VTuple l => match mem_val a l with Some r => ROk (negb r) | None => unm end
              | VStr hay => match a with VStr needle => ROk (negb (str_contains needle hay)) | _ => RExc "TypeError" end
              | VList l => match mem_val a l with Some r => ROk (negb r) | None => unm end
              | _ => unm end
  | CIs => match b with
           | VNone => match a with VNone => ROk true | VUnbound => unm | _ => ROk false end
           | _ => unm end
  | CIsNot => match b with
              | VNone => match a with VNone => ROk false | VUnbound => unm | _ => ROk true end
              | _ => unm end
  end.

(* b[i]: negative indices count from the end *)
Definition index_bytes (b:bytes) (i:Z) : res val :=
  let at_ (k:nat) := match nth_error b k with Some x => ROk (VInt (Z.of_N (bN x))) | None => RExc "IndexError" end in
  match i with
  | Zneg _ => let j := Z.of_nat (List.length b) + i in if j <? 0 then RExc "IndexError" else at_ (Z.to_nat j)
  | _ => at_ (Z.to_nat i)
  end.
(* b[lo:hi] with CPython's clamping; None = omitted bound *)
Definition clamp (len:nat) (i:Z) : nat :=
  if i <? 0 then Z.to_nat (Z.max 0 (Z.of_nat len + i)) else Nat.min (Z.to_nat i) len.
Definition slice_bytes (b:bytes) (lo hi:option Z) : bytes :=
  let n := List.length b in
  let l := match lo with Some i => clamp n i | None => O end in
  let h := match hi with Some i => clamp n i | None => n end in
  firstn (h - l) (skipn l b).

(* s[lo:hi] on str, same clamping as for bytes *)
Definition slice_str (t:string) (lo hi:option Z) : string :=
  let n := String.length t in
  let l := match lo with Some i => clamp n i | None => O end in
  let h := match hi with Some i => clamp n i | None => n end in
  substring l (h - l) t.

Fixpoint le_acc (l:bytes) : N := match l with [] => 0%N | b::r => (bN b + 256 * le_acc r)%N end.   (* little-endian *)

(* t.split(c) for a single character c: the pieces between occurrences of c *)
Fixpoint split_char (c:Ascii.ascii) (t:string) : list string :=
  match t with
  | EmptyString => [EmptyString]
  | String a r => if Ascii.eqb a c then EmptyString :: split_char c r
                  else match split_char c r with [] => [String a EmptyString] | h::tl => String a h :: tl end
  end.

(* t.rsplit(c, 1): (text before the LAST c, text after it), None when c does not occur *)
Fixpoint rsplit1_char (c:Ascii.ascii) (t:string) : option (string * string) :=
  match t with
  | EmptyString => None
  | String a r => match rsplit1_char c r with
                  | Some (h, tl) => Some (String a h, tl)
                  | None => if Ascii.eqb a c then Some (EmptyString, r) else None
                  end
  end.

Definition builtin_val (f:builtin) (args:list val) : res val :=
  match f, args with
  | BLen, [VBytes b] => ROk (VInt (Z.of_nat (List.length b)))
  | BLen, [VTuple l] => ROk (VInt (Z.of_nat (List.length l)))
  | BLen, [VList l] => ROk (VInt (Z.of_nat (List.length l)))
  | BLen, [VDict d] => ROk (VInt (Z.of_nat (List.length d)))
  | BLen, [_] => RFail (FUnmodelled "len")
  | BBytes, [VBytes b] => ROk (VBytes b)
  | BBytes, [_] => RFail (FUnmodelled "bytes()")
  | BInt16, [VBytes b] => match int16 b with
                          | IVal n => ROk (VInt (Z.of_N n))
                          | IValueError => RExc "ValueError"
                          | IUnmodelled => RFail (FUnmodelled "int(x,16) syntax")
                          end
  | BInt16, [_] => RFail (FUnmodelled "int(x,16)")
  | BFromLittle, [VBytes b] => ROk (VInt (Z.of_N (le_acc b)))
  | BFromLittle, [_] => RFail (FUnmodelled "int.from_bytes")
  | BStrip, [VBytes b] => ROk (VBytes (strip b))
  | BStrip, [_] => RFail (FUnmodelled "strip")
  | BBytesIO, [VBytes b] => ROk (VBio b 0)
  | BBytesIO, [_] => RFail (FUnmodelled "BytesIO")
  | BFromBig, [VBytes b] => ROk (VInt (Z.of_N (be b)))
  | BFromBig, [_] => RFail (FUnmodelled "int.from_bytes")
  | BStrOf, [VInt z] => if Z.abs z <? 10 ^ 4300 then ROk (VStr (str_of_Z z)) else RExc "ValueError"   (* CPython's int -> str digit limit *)
  | BStrOf, [VStr t] => ROk (VStr t)
  | BStrOf, [_] => RFail (FUnmodelled "str()")
  | BFmtD w, [VInt z] => if (0 <=? z) && (z <? 10 ^ 4300) then ROk (VStr (fmt_d w (Z.to_N z))) else RFail (FUnmodelled "format of a negative / huge int")
  | BFmtD _, [_] => RFail (FUnmodelled "format spec d on a non-int")
  | BChr, [VInt z] => if (0 <=? z) && (z <? 1114112) then ROk (VUStr [Z.to_N z]) else RExc "ValueError"
  | BChr, [_] => RFail (FUnmodelled "chr")
  | BPopcount, [VInt z] => ROk (VInt (popcount (Z.to_N (Z.abs z))))
  | BPopcount, [_] => RFail (FUnmodelled "bin().count")
  | BSplit, [VStr t; VStr (String c EmptyString)] => ROk (VList (map VStr (split_char c t)))
  | BSplit, [_; _] => RFail (FUnmodelled "split")
  | BIntStr, [VInt z] => ROk (VInt z)
  | BIntStr, [VStr t] => match N_of_str t with Some n => ROk (VInt (Z.of_N n)) | None => RFail (FUnmodelled "int() of a str that is not plain digits") end
  | BIntStr, [_] => RFail (FUnmodelled "int()")
  | BIntPy, [VInt z] => ROk (VInt z)
  | BIntPy, [VStr t] => match py_int t with
                        | PVal n => ROk (VInt (Z.of_N n)) | PValueError => RExc "ValueError"
                        | PUnmodelled => RFail (FUnmodelled "int() of an exotic spelling") end
  | BIntPy, [_] => RFail (FUnmodelled "int()")
  | BRsplit1, [VStr t; VStr (String c EmptyString)] =>
      ROk (VList (match rsplit1_char c t with Some (h, tl) => [VStr h; VStr tl] | None => [VStr t] end))
  | BRsplit1, [_; _] => RFail (FUnmodelled "rsplit")
  | BIsTuple, [VUnbound] | BIsInt, [VUnbound] => RFail (FUnmodelled "isinstance of unbound")
  | BIsTuple, [v] => ROk (VBool (match v with VTuple _ => true | _ => false end))
  | BIsInt, [v] => ROk (VBool (match v with VInt _ | VBool _ => true | _ => false end))
  | BMin, [VInt a; VInt b] => ROk (VInt (Z.min a b))
  | BMin, [_; _] => RFail (FUnmodelled "min")
  | BText, _ => ROk VText
  | _, _ => RFail (FUnmodelled "builtin arity")
  end.

(* ---------- interpreter ---------- *)
Variable W : Type.
Record state := { locals : env; self : env; world : W }.
Definition set_locals (l:env) (s:state) : state := {| locals := l; self := self s; world := world s |}.
Definition set_self (a:env) (s:state) : state := {| locals := locals s; self := a; world := world s |}.
Definition set_world (w:W) (s:state) : state := {| locals := locals s; self := self s; world := w |}.

(* the environment: callee, keyword names, argument values (positional then keyword, in source order) *)
Variable ext : callsig -> list val -> W -> res val * W.
(* methods that may be called from here: name -> arguments -> (self, world) -> result, (self, world) *)
Definition mcall := list val -> env -> W -> res val * (env * W).
Variable M : string -> option mcall.
Variable wfuel : nat.

Definition ret {A} (a:A) (s:state) : res A * state := (ROk a, s).

Fixpoint eval (e:expr) (s:state) {struct e} : res val * state :=
  let eval_list := fix go (l:list expr) (s:state) {struct l} : res (list val) * state :=
    match l with
    | [] => (ROk [], s)
    | a::r => match eval a s with
              | (ROk v, s1) => match go r s1 with
                               | (ROk vs, s2) => (ROk (v::vs), s2)
                               | (RExc c, s2) => (RExc c, s2) | (RFail f, s2) => (RFail f, s2) end
              | (RExc c, s1) => (RExc c, s1) | (RFail f, s1) => (RFail f, s1)
              end
    end in
  let eval_opt := fun (o:option expr) (s:state) =>
    match o with
    | None => (ROk None, s)
    | Some a => match eval a s with
                | (ROk (VInt z), s1) => (ROk (Some z), s1)
                | (ROk VNone, s1) => (ROk None, s1)
                | (ROk _, s1) => (RFail (FUnmodelled "slice bound"), s1)
                | (RExc c, s1) => (RExc c, s1) | (RFail f, s1) => (RFail f, s1)
                end
    end in
  match e with
  | ENone => ret VNone s
  | EBool b => ret (VBool b) s
  | EInt z => ret (VInt z) s
  | EBytes b => ret (VBytes b) s
  | EStr t => ret (VStr t) s
  | EVar x => match lookup x (locals s) with
              | Some VUnbound | None => (RExc "UnboundLocalError", s)
              | Some v => ret v s end
  | ESelf a => match lookup a (self s) with Some v => ret v s | None => (RExc "AttributeError", s) end
  | ETuple l => match eval_list l s with
                | (ROk vs, s1) => ret (VTuple vs) s1
                | (RExc c, s1) => (RExc c, s1) | (RFail f, s1) => (RFail f, s1) end
  | EUn o a => match eval a s with
               | (ROk v, s1) => (unop_val o v, s1)
               | other => other end
  | EBin o a b => match eval a s with
                  | (ROk va, s1) => match eval b s1 with
                                    | (ROk vb, s2) => (binop_val o va vb, s2)
                                    | other => other end
                  | other => other end
  | EAnd a b => match eval a s with
                | (ROk va, s1) => match truth va with
                                  | ROk true => eval b s1
                                  | ROk false => ret va s1
                                  | RExc c => (RExc c, s1) | RFail f => (RFail f, s1) end
                | other => other end
  | EOr a b => match eval a s with
               | (ROk va, s1) => match truth va with
                                 | ROk true => ret va s1
                                 | ROk false => eval b s1
                                 | RExc c => (RExc c, s1) | RFail f => (RFail f, s1) end
               | other => other end
  | ECmp a rest =>
      (* a op1 b op2 c: each operand evaluated once, left to right; stops at the first false *)
      let chain := fix go (l:list (cmpop * expr)) (left:val) (s:state) {struct l} : res val * state :=
        match l with
        | [] => ret (VBool true) s
        | (o, b)::r => match eval b s with
                       | (ROk vb, s1) => match cmp_val o left vb with
                                         | ROk true => go r vb s1
                                         | ROk false => ret (VBool false) s1
                                         | RExc c => (RExc c, s1) | RFail f => (RFail f, s1) end
                       | other => other end
        end in
      match eval a s with
      | (ROk va, s1) => chain rest va s1
      | other => other end
  | EIndex a i => match eval a s with
                  | (ROk va, s1) => match eval i s1 with
                                    | (ROk vi, s2) =>
                                        match va, vi with
                                        | VBytes b, VInt k => (index_bytes b k, s2)
                                        | (VList l | VTuple l), VInt k => (index_list l k, s2)
                                        | VDict d, _ => (match dict_get vi d with
                                                         | Some (Some v) => ROk v | Some None => RExc "KeyError"
                                                         | None => RFail (FUnmodelled "dict key") end, s2)
                                        | VNone, _ => (RExc "TypeError", s2)
                                        | VOpq _, _ => let '(r, w') := ext {| c_name := "[]"; c_kw := [] |} [va; vi] (world s2) in (r, set_world w' s2)
                                        | _, _ => (RFail (FUnmodelled "subscript"), s2)
                                        end
                                    | other => other end
                  | other => other end
  | ESlice a lo hi =>
      match eval a s with
      | (ROk va, s1) =>
          match eval_opt lo s1 with
          | (ROk l, s2) => match eval_opt hi s2 with
                           | (ROk h, s3) => (match va with
                                             | VBytes b => ROk (VBytes (slice_bytes b l h))
                                             | VStr t => ROk (VStr (slice_str t l h))
                                             | _ => RFail (FUnmodelled "slice of non-bytes") end, s3)
                           | (RExc c, s3) => (RExc c, s3) | (RFail f, s3) => (RFail f, s3) end
          | (RExc c, s2) => (RExc c, s2) | (RFail f, s2) => (RFail f, s2) end
      | other => other end
  | ECallB f args => match eval_list args s with
                     | (ROk vs, s1) => (builtin_val f vs, s1)
                     | (RExc c, s1) => (RExc c, s1) | (RFail f, s1) => (RFail f, s1) end
  | EBioReadline x =>
      match lookup x (locals s) with
      | Some (VBio d p) => let '(ln, _) := upto_lf (skipn p d) in
                           ret (VBytes ln) (set_locals (update x (VBio d (p + List.length ln)) (locals s)) s)
      | Some VUnbound | None => (RExc "UnboundLocalError", s)
      | Some _ => (RFail (FUnmodelled "readline on non-BytesIO"), s)
      end
  | EBioRead x n =>
      match lookup x (locals s) with
      | Some (VBio _ _) =>
          match eval n s with
          | (ROk (VInt k), s1) =>
              (* re-read the variable: evaluating n cannot rebind x in this subset, but stay literal *)
              match lookup x (locals s1) with
              | Some (VBio d p) =>
                  if k <? 0 then (RFail (FUnmodelled "read(negative)"), s1) else
                  let out := firstn (Z.to_nat k) (skipn p d) in
                  ret (VBytes out) (set_locals (update x (VBio d (p + List.length out)) (locals s1)) s1)
              | _ => (RFail (FUnmodelled "read on non-BytesIO"), s1)
              end
          | (ROk _, s1) => (RFail (FUnmodelled "read(non-int)"), s1)
          | other => other
          end
      | Some VUnbound | None => (RExc "UnboundLocalError", s)
      | Some _ => (RFail (FUnmodelled "read on non-BytesIO"), s)
      end
  | ECallM m args =>
      match eval_list args s with
      | (ROk vs, s1) =>
          match M m with
          | None => (RFail (FNoMethod m), s1)
          | Some g => let '(r, (a', w')) := g vs (self s1) (world s1) in
                      (r, {| locals := locals s1; self := a'; world := w' |})
          end
      | (RExc c, s1) => (RExc c, s1) | (RFail f, s1) => (RFail f, s1) end
  | ECallX c args =>
      match eval_list args s with
      | (ROk vs, s1) => let '(r, w') := ext c vs (world s1) in (r, set_world w' s1)
      | (RExc c, s1) => (RExc c, s1) | (RFail f, s1) => (RFail f, s1) end
  | ECallRef obj meth args =>
      match eval obj s with
      | (ROk (VRef r), s1) =>
          match eval_list args s1 with
          | (ROk vs, s2) =>
              let name := match meth with EmptyString => r | _ => (r ++ "." ++ meth)%string end in
              let '(res, w') := ext {| c_name := name; c_kw := [] |} vs (world s2) in (res, set_world w' s2)
          | (RExc c, s2) => (RExc c, s2) | (RFail f, s2) => (RFail f, s2) end
      | (ROk VNone, s1) => (RExc (match meth with EmptyString => "TypeError" | _ => "AttributeError" end), s1)
      | (ROk _, s1) => (RFail (FUnmodelled "call on a non-reference"), s1)
      | other => other
      end
  | EExcNew cls args => match eval_list args s with
                        | (ROk _, s1) => ret (VExc cls) s1
                        | (RExc c, s1) => (RExc c, s1) | (RFail f, s1) => (RFail f, s1) end
  | EGetattrSelf reserved en ed =>
      match eval en s with
      | (ROk (VStr n), s1) =>
          (* the default is an argument: evaluated before the lookup *)
          let dflt := match ed with
                      | None => (ROk None, s1)
                      | Some d => match eval d s1 with
                                  | (ROk v, s2) => (ROk (Some v), s2)
                                  | (RExc c, s2) => (RExc c, s2) | (RFail f, s2) => (RFail f, s2) end
                      end in
          match dflt with
          | (ROk dv, s2) =>
              if existsb (String.eqb n) reserved then (RFail (FUnmodelled "getattr of a name bound in the class"), s2) else
              match lookup n (self s2) with
              | Some v => ret v s2
              | None => match dv with Some v => ret v s2 | None => (RExc "AttributeError", s2) end
              end
          | (RExc c, s2) => (RExc c, s2) | (RFail f, s2) => (RFail f, s2)
          end
      | (ROk _, s1) => (RFail (FUnmodelled "getattr name"), s1)
      | other => other
      end
  | ESetattrSelf reserved en ev =>
      match eval en s with
      | (ROk (VStr n), s1) =>
          match eval ev s1 with
          | (ROk v, s2) =>
              if existsb (String.eqb n) reserved then (RFail (FUnmodelled "setattr of a name bound in the class"), s2) else
              match M "__setattr__" with
              | None => (RFail (FNoMethod "__setattr__"), s2)
              | Some g => let '(r, (a', w')) := g [VStr n; v] (self s2) (world s2) in
                          (r, {| locals := locals s2; self := a'; world := w' |})
              end
          | other => other
          end
      | (ROk _, s1) => (RFail (FUnmodelled "setattr name"), s1)
      | other => other
      end
  | ESuperSetattr en ev =>
      match eval en s with
      | (ROk (VStr n), s1) =>
          match eval ev s1 with
          | (ROk v, s2) => ret VNone (set_self (setattr n v (self s2)) s2)
          | other => other
          end
      | (ROk _, s1) => (RFail (FUnmodelled "setattr name"), s1)
      | other => other
      end
  | EIf c a b =>
      match eval c s with
      | (ROk vc, s1) => match truth vc with
                        | ROk true => eval a s1
                        | ROk false => eval b s1
                        | RExc x => (RExc x, s1) | RFail f => (RFail f, s1) end
      | other => other
      end
  | EListLit l => match eval_list l s with
                  | (ROk vs, s1) => ret (VList vs) s1
                  | (RExc c, s1) => (RExc c, s1) | (RFail f, s1) => (RFail f, s1) end
  | EDictEmpty => ret (VDict []) s
  | EListAppend x ev =>
      match eval ev s with
      | (ROk v, s1) =>
          match lookup x (locals s1) with
          | Some (VList l) => ret VNone (set_locals (update x (VList (l ++ [v])%list) (locals s1)) s1)
          | Some VUnbound | None => (RExc "UnboundLocalError", s1)
          | Some _ => (RFail (FUnmodelled "append on a non-list"), s1)
          end
      | other => other
      end
  | EListPop x =>
      match lookup x (locals s) with
      | Some (VList l) => match rev l with
                          | [] => (RExc "IndexError", s)
                          | v::r => ret v (set_locals (update x (VList (rev r)) (locals s)) s)
                          end
      | Some VUnbound | None => (RExc "UnboundLocalError", s)
      | Some _ => (RFail (FUnmodelled "pop on a non-list"), s)
      end
  | EMethGet eo ek ed =>
      match eval eo s with
      | (ROk vo, s1) =>
          match eval ek s1 with
          | (ROk vk, s2) =>
              match eval ed s2 with
              | (ROk vd, s3) =>
                  match vo with
                  | VDict d => (match dict_get vk d with
                                | Some (Some v) => ROk v | Some None => ROk vd
                                | None => RFail (FUnmodelled "dict key") end, s3)
                  | VOpq _ => let '(r, w') := ext {| c_name := ".get"; c_kw := [] |} [vo; vk; vd] (world s3) in (r, set_world w' s3)
                  | _ => (RFail (FUnmodelled ".get on a non-dict"), s3)
                  end
              | other => other end
          | other => other end
      | other => other
      end
  | ETupleRange x elo ehi body =>
      match eval elo s with
      | (ROk (VInt lo), s1) =>
          match eval ehi s1 with
          | (ROk (VInt hi), s2) =>
              (* the comprehension's own scope: x is bound for the body only; the outer value of x (if any) is restored afterwards *)
              let old := lookup x (locals s2) in
              let comp := fix go (is:list Z) (acc:list val) (s:state) {struct is} : res val * state :=
                match is with
                | [] => (ROk (VTuple (rev acc)), s)
                | i::r => match eval body (set_locals ((x, VInt i) :: locals s) s) with
                          | (ROk v, s') => go r (v::acc) (set_locals (tl (locals s')) s')
                          | (RExc c, s') => (RExc c, set_locals (tl (locals s')) s')
                          | (RFail f, s') => (RFail f, set_locals (tl (locals s')) s')
                          end
                end in
              comp (map (fun k => lo + Z.of_nat k) (seq 0 (Z.to_nat (hi - lo)))) [] s2
          | (ROk _, s2) => (RFail (FUnmodelled "range bound"), s2)
          | other => other end
      | (ROk _, s1) => (RFail (FUnmodelled "range bound"), s1)
      | other => other
      end
  end.

Fixpoint eval_list (l:list expr) (s:state) {struct l} : res (list val) * state :=
  match l with
  | [] => (ROk [], s)
  | a::r => match eval a s with
            | (ROk v, s1) => match eval_list r s1 with
                             | (ROk vs, s2) => (ROk (v::vs), s2)
                             | (RExc c, s2) => (RExc c, s2) | (RFail f, s2) => (RFail f, s2) end
            | (RExc c, s1) => (RExc c, s1) | (RFail f, s1) => (RFail f, s1)
            end
  end.

(* assignment to a target; tuple targets unpack a tuple value of the same length *)
Fixpoint assign (t:target) (v:val) (s:state) {struct t} : res unit * state :=
  let assign_list := fix go (ts:list target) (vs:list val) (s:state) {struct ts} : res unit * state :=
    match ts, vs with
    | [], [] => (ROk tt, s)
    | t::tr, v::vr => match assign t v s with (ROk _, s1) => go tr vr s1 | other => other end
    | _, _ => (RExc "ValueError", s)
    end in
  match t with
  | TVar x => (ROk tt, set_locals (update x v (locals s)) s)
  | TSelf a => (ROk tt, set_self (setattr a v (self s)) s)
  | TTuple ts => match v with
                 | VTuple vs | VList vs => assign_list ts vs s
                 | _ => (RFail (FUnmodelled "unpacking a non-sequence"), s)
                 end
  end.

Definition target_expr (t:target) : option expr :=
  match t with TVar x => Some (EVar x) | TSelf a => Some (ESelf a) | TTuple _ => None end.

Inductive ctl := CNext | CBreak | CCont | CRet (v:val).

Section While.
  Variable cond : state -> res val * state.
  Variable body : state -> res ctl * state.
  Fixpoint wloop (k:nat) (s:state) : res ctl * state :=
    match k with
    | O => (RFail FOutOfFuel, s)
    | S k' =>
        match cond s with
        | (ROk v, s1) =>
            match truth v with
            | ROk true => match body s1 with
                          | (ROk CNext, s2) | (ROk CCont, s2) => wloop k' s2
                          | (ROk CBreak, s2) => (ROk CNext, s2)
                          | (ROk (CRet r), s2) => (ROk (CRet r), s2)
                          | (RExc c, s2) => (RExc c, s2) | (RFail f, s2) => (RFail f, s2)
                          end
            | ROk false => (ROk CNext, s1)
            | RExc c => (RExc c, s1) | RFail f => (RFail f, s1)
            end
        | (RExc c, s1) => (RExc c, s1) | (RFail f, s1) => (RFail f, s1)
        end
    end.
End While.

(* the values a `for` runs over: range(n); the elements of a list / tuple; the keys of a dict; for a table of the environment
   its keys, asked of the environment (callee "iter") *)
Definition iter_values (it:iter) (s:state) : res (list val) * state :=
  match it with
  | ItRange e => match eval e s with
                 | (ROk (VInt n), s1) => (ROk (map (fun i => VInt (Z.of_nat i)) (seq 0 (Z.to_nat n))), s1)
                 | (ROk _, s1) => (RFail (FUnmodelled "range of a non-int"), s1)
                 | (RExc c, s1) => (RExc c, s1) | (RFail f, s1) => (RFail f, s1) end
  | ItValue e => match eval e s with
                 | (ROk (VList l), s1) | (ROk (VTuple l), s1) => (ROk l, s1)
                 | (ROk (VDict d), s1) => (ROk (map fst d), s1)
                 | (ROk (VOpq o), s1) =>
                     let '(r, w') := ext {| c_name := "iter"; c_kw := [] |} [VOpq o] (world s1) in
                     (match r with
                      | ROk (VList l) | ROk (VTuple l) => ROk l
                      | ROk _ => RFail (FUnmodelled "iter() of the environment")
                      | RExc c => RExc c | RFail f => RFail f end, set_world w' s1)
                 | (ROk _, s1) => (RFail (FUnmodelled "iteration over this kind of value"), s1)
                 | (RExc c, s1) => (RExc c, s1) | (RFail f, s1) => (RFail f, s1) end
  end.

Section ForLoop.
  Variable bind : val -> state -> res unit * state.     (* assignment of the loop target *)
  Variable body : state -> res ctl * state.
  Fixpoint floop (vs:list val) (s:state) : res ctl * state :=
    match vs with
    | [] => (ROk CNext, s)
    | v::r => match bind v s with
              | (ROk _, s1) => match body s1 with
                               | (ROk CNext, s2) | (ROk CCont, s2) => floop r s2
                               | (ROk CBreak, s2) => (ROk CNext, s2)
                               | (ROk (CRet x), s2) => (ROk (CRet x), s2)
                               | (RExc c, s2) => (RExc c, s2) | (RFail f, s2) => (RFail f, s2)
                               end
              | (RExc c, s1) => (RExc c, s1) | (RFail f, s1) => (RFail f, s1)
              end
    end.
End ForLoop.

Definition matches (cls:string) (hs:list string) : bool := existsb (subclass cls) hs.

Fixpoint exec (st:stmt) (s:state) {struct st} : res ctl * state :=
  let exec_list := fix go (l:list stmt) (s:state) {struct l} : res ctl * state :=
    match l with
    | [] => (ROk CNext, s)
    | a::r => match exec a s with (ROk CNext, s1) => go r s1 | other => other end
    end in
  match st with
  | SAssign t e => match eval e s with
                   | (ROk v, s1) => match assign t v s1 with
                                    | (ROk _, s2) => (ROk CNext, s2)
                                    | (RExc c, s2) => (RExc c, s2) | (RFail f, s2) => (RFail f, s2) end
                   | (RExc c, s1) => (RExc c, s1) | (RFail f, s1) => (RFail f, s1) end
  | SAug t o e =>
      match target_expr t with
      | None => (RFail (FUnmodelled "augmented tuple"), s)
      | Some te =>
          match eval te s with
          | (ROk v0, s0) =>
              match eval e s0 with
              | (ROk v1, s1) => match binop_val o v0 v1 with
                                | ROk v => match assign t v s1 with
                                           | (ROk _, s2) => (ROk CNext, s2)
                                           | (RExc c, s2) => (RExc c, s2) | (RFail f, s2) => (RFail f, s2) end
                                | RExc c => (RExc c, s1) | RFail f => (RFail f, s1) end
              | (RExc c, s1) => (RExc c, s1) | (RFail f, s1) => (RFail f, s1) end
          | (RExc c, s0) => (RExc c, s0) | (RFail f, s0) => (RFail f, s0) end
      end
  | SExpr e => match eval e s with
               | (ROk _, s1) => (ROk CNext, s1)
               | (RExc c, s1) => (RExc c, s1) | (RFail f, s1) => (RFail f, s1) end
  | SIf c th el => match eval c s with
                   | (ROk v, s1) => match truth v with
                                    | ROk true => exec_list th s1
                                    | ROk false => exec_list el s1
                                    | RExc c => (RExc c, s1) | RFail f => (RFail f, s1) end
                   | (RExc c, s1) => (RExc c, s1) | (RFail f, s1) => (RFail f, s1) end
  | SWhile c body => wloop (eval c) (exec_list body) wfuel s
  | SBreak => (ROk CBreak, s)
  | SContinue => (ROk CCont, s)
  | SPass => (ROk CNext, s)
  | SReturn e => match eval e s with
                 | (ROk v, s1) => (ROk (CRet v), s1)
                 | (RExc c, s1) => (RExc c, s1) | (RFail f, s1) => (RFail f, s1) end
  | SRaise e => match eval e s with
                | (ROk (VExc cls), s1) => (RExc cls, s1)
                | (ROk _, s1) => (RFail (FUnmodelled "raise of a non-exception"), s1)
                | (RExc c, s1) => (RExc c, s1) | (RFail f, s1) => (RFail f, s1) end
  | STry body handlers =>
      match exec_list body s with
      | (RExc cls, s1) =>
          (* first handler whose class list matches; `as x` binds the instance and unbinds it afterwards *)
          let pick := fix go (hs:list (list string * option string * list stmt)) {struct hs} : res ctl * state :=
            match hs with
            | [] => (RExc cls, s1)
            | (classes, name, hbody)::r =>
                if matches cls classes then
                  match name with
                  | None => exec_list hbody s1
                  | Some x =>
                      match exec_list hbody (set_locals (update x (VExc cls) (locals s1)) s1) with
                      | (r', s2) => (r', set_locals (update x VUnbound (locals s2)) s2)
                      end
                  end
                else go r
            end in
          pick handlers
      | other => other
      end
  | SSetItemLocal x ek ev =>
      (* Python: value first, then the key *)
      match eval ev s with
      | (ROk v, s0) =>
          match eval ek s0 with
          | (ROk vk, s1) =>
              match lookup x (locals s1), vk with
              | Some (VList l), VInt i => match list_pos (List.length l) i with
                                          | Some k => (ROk CNext, set_locals (update x (VList (set_nth k v l)) (locals s1)) s1)
                                          | None => (RExc "IndexError", s1) end
              | Some (VDict d), _ => match dict_set vk v d with
                                     | Some d' => (ROk CNext, set_locals (update x (VDict d') (locals s1)) s1)
                                     | None => (RFail (FUnmodelled "dict key"), s1) end
              | (Some VUnbound | None), _ => (RExc "UnboundLocalError", s1)
              | _, _ => (RFail (FUnmodelled "item assignment"), s1)
              end
          | (RExc c, s1) => (RExc c, s1) | (RFail f, s1) => (RFail f, s1)
          end
      | (RExc c, s0) => (RExc c, s0) | (RFail f, s0) => (RFail f, s0)
      end
  | SSetItemSelf a ek ev =>
      match eval ev s with
      | (ROk v, s0) =>
          match lookup a (self s0) with
          | None => (RExc "AttributeError", s0)
          | Some vo =>
              match eval ek s0 with
              | (ROk vk, s1) =>
                  match vo with
                  | VDict d => match dict_set vk v d with
                               | Some d' => (ROk CNext, set_self (setattr a (VDict d') (self s1)) s1)
                               | None => (RFail (FUnmodelled "dict key"), s1) end
                  | VNone => (RExc "TypeError", s1)
                  | _ => (RFail (FUnmodelled "item assignment on an attribute"), s1)
                  end
              | (RExc c, s1) => (RExc c, s1) | (RFail f, s1) => (RFail f, s1)
              end
          end
      | (RExc c, s0) => (RExc c, s0) | (RFail f, s0) => (RFail f, s0)
      end
  | SFor t it body =>
      match iter_values it s with
      | (ROk vs, s1) => floop (assign t) (exec_list body) vs s1
      | (RExc c, s1) => (RExc c, s1) | (RFail f, s1) => (RFail f, s1)
      end
  end.

Fixpoint exec_list (l:list stmt) (s:state) {struct l} : res ctl * state :=
  match l with
  | [] => (ROk CNext, s)
  | a::r => match exec a s with (ROk CNext, s1) => exec_list r s1 | other => other end
  end.

Fixpoint bind_params (ps:list string) (vs:list val) : option env :=
  match ps, vs with
  | [], [] => Some []
  | p::pr, v::vr => match bind_params pr vr with Some e => Some ((p, v)::e) | None => None end
  | _, _ => None
  end.

(* a method call: fresh locals, shared self and world; falling off the end returns None *)
Definition call (name:string) (m:method) : mcall := fun args a w =>
  match bind_params (m_params m) args with
  | None => (RFail (FArity name), (a, w))
  | Some ps =>
      let s0 := {| locals := (ps ++ map (fun x => (x, VUnbound)) (m_locals m))%list; self := a; world := w |} in
      match exec_list (m_body m) s0 with
      | (ROk (CRet v), s1) => (ROk v, (self s1, world s1))
      | (ROk CNext, s1) => (ROk VNone, (self s1, world s1))
      | (ROk (CBreak | CCont), s1) => (RFail (FUnmodelled "break/continue outside a loop"), (self s1, world s1))
      | (RExc c, s1) => (RExc c, (self s1, world s1))
      | (RFail f, s1) => (RFail f, (self s1, world s1))
      end
  end.
End Lang.

Arguments VNone {Ob}. Arguments VBool {Ob}. Arguments VInt {Ob}. Arguments VBytes {Ob}. Arguments VStr {Ob}. Arguments VText {Ob}. Arguments VText {Ob}.
Arguments VTuple {Ob}. Arguments VExc {Ob}. Arguments VBio {Ob}. Arguments VRef {Ob}. Arguments VOpq {Ob}. Arguments VUnbound {Ob}.
Arguments VFloat {Ob}. Arguments VUStr {Ob}. Arguments VList {Ob}. Arguments VDict {Ob}.
Arguments ROk {A}. Arguments RExc {A}. Arguments RFail {A}.

(* a program: methods of one class; each may call only the ones AFTER it in the list (callee later), so no recursion *)
Section Link.
Variables (Ob W : Type).
Variable ext : callsig -> list (val Ob) -> W -> res (val Ob) * W.
Variable wfuel : nat.
Fixpoint link (p:list (string * method)) : string -> option (mcall Ob W) :=
  match p with
  | [] => fun _ => None
  | (n, m)::r => let Mr := link r in
                 fun g => if String.eqb g n then Some (call Ob W ext Mr wfuel n m) else Mr g
  end.
Definition run (p:list (string * method)) (m:string) : mcall Ob W :=
  match link p m with Some g => g | None => fun _ a w => (RFail (FNoMethod m), (a, w)) end.

(* a class whose methods call each other recursively (the message decoder): every method may call every method, with a call-depth
   budget d; at depth 0 no method is found ([FNoMethod]: a failure, never a normal result) *)
Fixpoint find_method (g:string) (p:list (string * method)) : option method :=
  match p with [] => None | (n, m)::r => if String.eqb g n then Some m else find_method g r end.
Fixpoint rlink (p:list (string * method)) (d:nat) : string -> option (mcall Ob W) :=
  match d with
  | O => fun _ => None
  | S d' => fun g => match find_method g p with Some m => Some (call Ob W ext (rlink p d') wfuel g m) | None => None end
  end.
Definition rrun (p:list (string * method)) (d:nat) (m:string) : mcall Ob W :=
  match rlink p d m with Some g => g | None => fun _ a w => (RFail (FNoMethod m), (a, w)) end.
End Link.
