(* Generic lemmas for the source tie of rtcmhelpers.parse_msm (run/SrcArr_inst.v): the str representation of Src/ArrEnv.v, names that
   cannot be hidden ones, insertion-ordered dicts with str keys, `x[k] = v` on a local with its continuation as a top-level function,
   the identity comprehension that stands for range(a, b), folds that append.  Nothing here depends on the translated source. *)
From Coq Require Import ZArith NArith List String Ascii Bool Lia.
From PyRtcm Require Import Base.Bytes Base.Dec Model.Types Model.Message Model.Helpers.
From PyRtcm Require Import Src.PyO Src.PyOLemmas Src.PyOReaderLemmas Src.PyOHelpersLemmas Src.ReaderEnv Src.MsgDecEnv Src.ArrEnv.
Import ListNotations.
Open Scope string_scope.
Open Scope Z_scope.

(* ================= str values ================= *)
Lemma uncodes_codes s : uncodes (codes s) = s.
Proof.
  unfold uncodes, codes. rewrite map_map.
  rewrite (map_ext _ (fun a => a)) by (intro; apply ascii_N_embedding).
  rewrite map_id. apply string_of_list_ascii_of_string.
Qed.
Lemma codes_small s : forallb (fun n => (n <? 256)%N) (codes s) = true.
Proof.
  unfold codes. apply forallb_forall. intros n H. apply in_map_iff in H. destruct H as [c [<- _]].
  apply N.ltb_lt. apply N_ascii_bounded.
Qed.
Lemma img_value_codes s : img_value (Types.VStr (codes s)) = PyO.VStr s.
Proof. unfold img_value. now rewrite codes_small, uncodes_codes. Qed.

Lemma sapp_assoc (a b c:string) : ((a ++ b) ++ c)%string = (a ++ (b ++ c))%string.
Proof. induction a as [|x a IH]; [reflexivity|]. cbn [append]. now rewrite IH. Qed.

(* ================= names that are not hidden ================= *)
Lemma eqb_app_prefix p d : forall r, prefix p r = false -> String.eqb (p ++ d) r = false.
Proof.
  induction p as [|x p IH]; intros r H; [destruct r; cbn in H; discriminate H|].
  destruct r as [|y r]; [reflexivity|]. cbn [prefix] in H. cbn [append String.eqb].
  destruct (ascii_dec x y) as [->|NE].
  - rewrite Ascii.eqb_refl. now apply IH.
  - destruct (Ascii.eqb x y) eqn:E; [apply Ascii.eqb_eq in E; congruence|reflexivity].
Qed.
(* no name of the list begins with p *)
Definition no_prefix (names:list string) (p:string) : bool := forallb (fun r => negb (prefix p r)) names.
Lemma hidden_no_prefix R p d : no_prefix (R ++ fixed_attr_names) p = true -> hidden R (p ++ d) = false.
Proof.
  unfold hidden, no_prefix. generalize (R ++ fixed_attr_names)%list as l. induction l as [|r l IH]; [reflexivity|].
  cbn [forallb existsb]. intro H. apply andb_true_iff in H. destruct H as [H1 H2].
  apply negb_true_iff in H1. rewrite (eqb_app_prefix p d r H1). now apply IH.
Qed.

Lemma gnss_ok_hidden T R k g e : gnss_ok T R = true -> assoc k (t_gnssmap T) = Some (g, e) -> hidden R e = false.
Proof.
  unfold gnss_ok. induction (t_gnssmap T) as [|[k' [g' e']] l IH]; [discriminate|].
  cbn [forallb assoc snd]. intro H. apply andb_true_iff in H. destruct H as [H1 H2].
  destruct (String.eqb k' k).
  - intro E. injection E as <- <-. now apply negb_true_iff in H1.
  - now apply IH.
Qed.

(* ================= dicts with str keys ================= *)
Definition sent (kv:string * val Ob) : val Ob * val Ob := (PyO.VStr (fst kv), snd kv).
Lemma dict_set_str_fresh k v (l:list (string * val Ob)) : ~ In k (map fst l) ->
  dict_set Ob (PyO.VStr k) v (map sent l) = Some (map sent (l ++ [(k, v)])).
Proof.
  induction l as [|[k' x] r IH]; intro H; [reflexivity|].
  cbn [map sent fst snd PyO.dict_set eq_val app].
  destruct (String.eqb_spec k' k) as [->|NE]; [exfalso; apply H; left; reflexivity|].
  rewrite IH by (intro H'; apply H; right; exact H'). reflexivity.
Qed.
Lemma img_dict_sent d : img_dict d = VDict (map sent (map (fun kv => (fst kv, img_value (snd kv))) d)).
Proof. unfold img_dict. now rewrite map_map. Qed.

(* ================= folds that append ================= *)
Lemma fold_snoc {A X} (f:X -> A) xs : forall a0, fold_left (fun a x => a ++ [f x])%list xs a0 = (a0 ++ map f xs)%list.
Proof. induction xs as [|x r IH]; intro a0; cbn [fold_left map]; [now rewrite app_nil_r|]. rewrite IH, <- app_assoc. reflexivity. Qed.
Lemma fold_flat {A X} (g:X -> list A) xs : forall a0, fold_left (fun a x => a ++ g x)%list xs a0 = (a0 ++ flat_map g xs)%list.
Proof. induction xs as [|x r IH]; intro a0; cbn [fold_left flat_map]; [now rewrite app_nil_r|]. rewrite IH, <- app_assoc. reflexivity. Qed.
Lemma flat_map_map {A B C} (h:B -> C) (g:A -> list B) l : map h (flat_map g l) = flat_map (fun x => map h (g x)) l.
Proof. induction l as [|x r IH]; [reflexivity|]. cbn [flat_map]. now rewrite map_app, IH. Qed.

(* ================= f"{i:02d}" for a loop index ================= *)
Lemma fmtd_index (k:nat) : Z.of_nat k <= 1048576 ->
  builtin_val Ob (BFmtD 2) [PyO.VInt (1 + Z.of_nat k)] = ROk (PyO.VStr (dd (N.of_nat k + 1))).
Proof.
  intro H. cbn [builtin_val].
  assert (B : (0 <=? 1 + Z.of_nat k) && (1 + Z.of_nat k <? 10 ^ 4300) = true).
  { apply andb_true_iff. split; [apply Z.leb_le; lia|]. apply Z.ltb_lt.
    pose proof (Z.pow_le_mono_r 10 7 4300 ltac:(lia) ltac:(lia)) as P. change (10 ^ 7) with 10000000 in P.
    revert P. generalize (10 ^ 4300). intros z P. lia. }
  rewrite B. unfold dd. do 3 f_equal. lia.
Qed.

Section Interp.
  Variable ext : callsig -> list (val Ob) -> W -> res (val Ob) * W.
  Variable M : string -> option (mcall Ob W).
  Variable wfuel : nat.
  Notation eval := (eval Ob W ext M).
  Notation exec := (exec Ob W ext M wfuel).
  Notation state := (state Ob W).

  (* x[k] = v on a local: what happens once value and key are known *)
  Definition setitem_k (x:string) (v vk:val Ob) (s1:state) : res (ctl Ob) * state :=
    match lookup Ob x (locals Ob W s1), vk with
    | Some (VList l), PyO.VInt i => match list_pos (List.length l) i with
                                    | Some k => (ROk (CNext Ob), set_locals Ob W (update Ob x (VList (set_nth Ob k v l)) (locals Ob W s1)) s1)
                                    | None => (RExc "IndexError", s1) end
    | Some (VDict d), _ => match dict_set Ob vk v d with
                           | Some d' => (ROk (CNext Ob), set_locals Ob W (update Ob x (VDict d') (locals Ob W s1)) s1)
                           | None => (RFail (FUnmodelled "dict key"), s1) end
    | (Some VUnbound | None), _ => (RExc "UnboundLocalError", s1)
    | _, _ => (RFail (FUnmodelled "item assignment"), s1)
    end.
  Lemma exec_setitem_local x ek ev (s:state) :
    exec (SSetItemLocal x ek ev) s =
      match eval ev s with
      | (ROk v, s0) =>
          match eval ek s0 with
          | (ROk vk, s1) => setitem_k x v vk s1
          | (RExc c, s1) => (RExc c, s1) | (RFail f, s1) => (RFail f, s1)
          end
      | (RExc c, s0) => (RExc c, s0) | (RFail f, s0) => (RFail f, s0)
      end.
  Proof. reflexivity. Qed.

  (* tuple(x for x in range(lo, hi)): the ints themselves *)
  Lemma tr_go_id x is : forall acc lc sf (w:W),
    tr_go Ob W ext M x (EVar x) is acc {| locals := lc; self := sf; world := w |}
    = (ROk (VTuple (rev acc ++ map (@PyO.VInt Ob) is)%list), {| locals := lc; self := sf; world := w |}).
  Proof.
    induction is as [|i r IH]; intros acc lc sf w; cbn [tr_go map]; [now rewrite app_nil_r|].
    cbn [PyO.eval set_locals locals self world lookup]. rewrite String.eqb_refl.
    cbv [ret tl set_locals locals self world]. rewrite IH. cbn [rev]. now rewrite <- app_assoc.
  Qed.
End Interp.
