(* The environment in which the translated source of three module-level functions of rtcmhelpers
     att2idx, att2name, datadesc
   (PyRtcmGen.SrcOHelpers, interpreted by Src/PyO.v) is run by run/SrcHelpers_inst.v: what the module table RTCM_DATA_FIELDS
   answers, and how the results of the hand-written model (Model/Helpers.v) read as interpreter results.
   Definitions only; part of the statement of the source tie for the helper functions.

   The three are functions, not methods: they are run as "methods" of a program whose attribute store `self` is never looked at. *)
From Coq Require Import ZArith NArith List String Bool.
From PyRtcm Require Import Base.Bytes Model.Types Model.Message Model.Helpers Src.PyO Src.ReaderEnv Src.MsgDecEnv.
Import ListNotations.
Open Scope string_scope.
Open Scope Z_scope.

(* the environment hands out no opaque objects *)
Definition Ob : Type := Empty_set.
(* RTCM_DATA_FIELDS is an immutable module constant: the world has no state *)
Definition W : Type := unit.

(* the resolution entry of a data-field tuple (an int or a float; when the table translator could not read it: a placeholder --
   datadesc binds it to `_` and never looks at it) *)
Definition res_entry (r:Types.res) : val Ob :=
  match r with RInt z => VInt z | RFloat f => VFloat f | RBad _ => VNone end.

(* RTCM_DATA_FIELDS[k]: (type name, width, resolution, description) *)
Definition field_tuple (fd:dfield) : val Ob :=
  VTuple [VStr (dtype_name (df_ty fd)); VInt (df_bits fd); res_entry (df_res fd); VStr (df_desc fd)].

Section HelpersEnv.
Variable T : tables.

Definition helpers_ext (cs:callsig) (args:list (val Ob)) (w:W) : res (val Ob) * W :=
  let nm := c_name cs in
  match c_kw cs with
  | [] =>
      if String.eqb nm "RTCM_DATA_FIELDS.__contains__" then            (* k in RTCM_DATA_FIELDS *)
        match args with
        | [VStr k] => (ROk (VBool (match find_field T k with Some _ => true | None => false end)), w)
        | _ => (RFail (FUnmodelled "RTCM_DATA_FIELDS.__contains__ arguments"), w)
        end
      else if String.eqb nm "RTCM_DATA_FIELDS[]" then                  (* RTCM_DATA_FIELDS[k] *)
        match args with
        | [VStr k] => (match find_field T k with Some fd => ROk (field_tuple fd) | None => RExc "KeyError" end, w)
        | _ => (RFail (FUnmodelled "RTCM_DATA_FIELDS[] arguments"), w)
        end
      else (RFail (FUnmodelled "unknown callee"), w)
  | _ => (RFail (FUnmodelled "unknown callee"), w)
  end.
End HelpersEnv.

(* the model's results as interpreter results *)
(* att2idx: an int, a tuple of ints; where the model does not say what int() does with an exotic spelling, the interpreter
   fails with int()'s "unmodelled" (never a normal result) *)
Definition img_idx (r:idx_res) : res (val Ob) :=
  match r with
  | IdxInt n => ROk (VInt (Z.of_N n))
  | IdxTuple l => ROk (VTuple (map (fun n => VInt (Z.of_N n)) l))
  | IdxUnmodelled => RFail (FUnmodelled "int() of an exotic spelling")
  end.
(* datadesc (exception classes: Src/ReaderEnv.v) *)
Definition img_desc (o:outcome string) : res (val Ob) :=
  match o with
  | Ok d => ROk (VStr d)
  | Lib e => RExc (liberr_class e)
  | Foreign k => RExc (pyexc_class k)
  | Unmodelled why => RFail (FUnmodelled why)
  end.
