(* Further unfolding equations for the PyO interpreter (the forms the reader's methods use) and facts about the value
   operations (slices, subscripts, membership, from_bytes) in the vocabulary of Model/Reader.v. *)
From Coq Require Import ZArith NArith List String Bool Lia.
From Coq.Strings Require Import Byte.
From PyRtcm Require Import Base.Bytes Model.Types Model.Reader Model.Socket Src.PyO Src.PyOLemmas.
Import ListNotations.
Open Scope string_scope.
Open Scope Z_scope.

Section Eqs.
  Variables (Ob W : Type).
  Variable ext : callsig -> list (val Ob) -> W -> res (val Ob) * W.
  Variable M : string -> option (mcall Ob W).
  Variable wfuel : nat.
  Notation eval := (eval Ob W ext M).
  Notation eval_list := (eval_list Ob W ext M).
  Notation exec := (exec Ob W ext M wfuel).
  Notation exec_list := (exec_list Ob W ext M wfuel).
  Notation state := (state Ob W).

  (* ---- constants ---- *)
  Lemma eval_none (s:state) : eval ENone s = (ROk VNone, s).
  Proof. reflexivity. Qed.
  Lemma eval_bool b (s:state) : eval (EBool b) s = (ROk (VBool b), s).
  Proof. reflexivity. Qed.
  Lemma eval_int z (s:state) : eval (EInt z) s = (ROk (VInt z), s).
  Proof. reflexivity. Qed.
  Lemma eval_bytes b (s:state) : eval (EBytes b) s = (ROk (VBytes b), s).
  Proof. reflexivity. Qed.

  (* ---- and / or ---- *)
  Lemma eval_and a b (s:state) :
    eval (EAnd a b) s = match eval a s with
                        | (ROk va, s1) => match truth Ob va with
                                          | ROk true => eval b s1
                                          | ROk false => (ROk va, s1)
                                          | RExc c => (RExc c, s1) | RFail f => (RFail f, s1) end
                        | other => other end.
  Proof. reflexivity. Qed.

  (* ---- comparisons: one and two operators ---- *)
  Definition cmp_last (r:res bool) (s:state) : res (val Ob) * state :=
    match r with
    | ROk b => (ROk (VBool b), s)
    | RExc c => (RExc c, s) | RFail f => (RFail f, s)
    end.
  Definition cmp_more (r:res bool) (s:state) (k:state -> res (val Ob) * state) : res (val Ob) * state :=
    match r with
    | ROk true => k s
    | ROk false => (ROk (VBool false), s)
    | RExc c => (RExc c, s) | RFail f => (RFail f, s)
    end.
  Lemma eval_cmp1 a o b (s:state) :
    eval (ECmp a [(o, b)]) s =
      match eval a s with
      | (ROk va, s1) => match eval b s1 with
                        | (ROk vb, s2) => cmp_last (cmp_val Ob o va vb) s2
                        | other => other end
      | other => other end.
  Proof.
    cbn [PyO.eval]. destruct (eval a s) as [[va|c|f] s1]; try reflexivity.
    destruct (eval b s1) as [[vb|c|f] s2]; try reflexivity.
    unfold cmp_last. destruct (cmp_val Ob o va vb) as [[|]|c|f]; reflexivity.
  Qed.
  Lemma eval_cmp2 a o b o' b' (s:state) :
    eval (ECmp a [(o, b); (o', b')]) s =
      match eval a s with
      | (ROk va, s1) =>
          match eval b s1 with
          | (ROk vb, s2) =>
              cmp_more (cmp_val Ob o va vb) s2 (fun s2 =>
                match eval b' s2 with
                | (ROk vc, s3) => cmp_last (cmp_val Ob o' vb vc) s3
                | other => other end)
          | other => other end
      | other => other end.
  Proof.
    cbn [PyO.eval]. destruct (eval a s) as [[va|c|f] s1]; try reflexivity.
    destruct (eval b s1) as [[vb|c|f] s2]; try reflexivity.
    unfold cmp_more. destruct (cmp_val Ob o va vb) as [[|]|c|f]; try reflexivity.
    destruct (eval b' s2) as [[vc|c|f] s3]; try reflexivity.
    unfold cmp_last. destruct (cmp_val Ob o' vb vc) as [[|]|c|f]; reflexivity.
  Qed.

  (* ---- subscripts and slices ---- *)
  Lemma eval_index a i (s:state) :
    eval (EIndex a i) s =
      match eval a s with
      | (ROk va, s1) => match eval i s1 with
                        | (ROk vi, s2) =>
                            match va, vi with
                            | VBytes b, VInt k => (index_bytes Ob b k, s2)
                            | (VList l | VTuple l), VInt k => (index_list Ob l k, s2)
                            | VDict d, _ => (match dict_get Ob vi d with
                                             | Some (Some v) => ROk v | Some None => RExc "KeyError"
                                             | None => RFail (FUnmodelled "dict key") end, s2)
                            | VNone, _ => (RExc "TypeError", s2)
                            | VOpq _, _ => let '(r, w') := ext {| c_name := "[]"; c_kw := [] |} [va; vi] (world Ob W s2) in (r, set_world Ob W w' s2)
                            | _, _ => (RFail (FUnmodelled "subscript"), s2)
                            end
                        | other => other end
      | other => other end.
  Proof. reflexivity. Qed.

  Definition eval_opt (o:option expr) (s:state) : res (option Z) * state :=
    match o with
    | None => (ROk None, s)
    | Some a => match eval a s with
                | (ROk (VInt z), s1) => (ROk (Some z), s1)
                | (ROk VNone, s1) => (ROk None, s1)
                | (ROk _, s1) => (RFail (FUnmodelled "slice bound"), s1)
                | (RExc c, s1) => (RExc c, s1) | (RFail f, s1) => (RFail f, s1)
                end
    end.
  Lemma eval_slice a lo hi (s:state) :
    eval (ESlice a lo hi) s =
      match eval a s with
      | (ROk va, s1) =>
          match eval_opt lo s1 with
          | (ROk l, s2) => match eval_opt hi s2 with
                           | (ROk h, s3) => (match va with
                                             | VBytes b => ROk (VBytes (slice_bytes b l h))
                                             | VStr t => ROk (VStr (slice_str t l h))
                                             | _ => RFail (FUnmodelled "slice of non-bytes") end, s3)
                           | (RExc c, s3) => (RExc c, s3) | (RFail f, s3) => (RFail f, s3) end
          | (RExc c, s2) => (RExc c, s2) | (RFail f, s2) => (RFail f, s2) end
      | other => other end.
  Proof. reflexivity. Qed.
  Lemma eval_opt_none (s:state) : eval_opt None s = (ROk None, s).
  Proof. reflexivity. Qed.
  Lemma eval_opt_some a (s:state) :
    eval_opt (Some a) s = match eval a s with
                          | (ROk (VInt z), s1) => (ROk (Some z), s1)
                          | (ROk VNone, s1) => (ROk None, s1)
                          | (ROk _, s1) => (RFail (FUnmodelled "slice bound"), s1)
                          | (RExc c, s1) => (RExc c, s1) | (RFail f, s1) => (RFail f, s1)
                          end.
  Proof. reflexivity. Qed.

  (* ---- calls through a reference, exception instances ---- *)
  Lemma eval_callref obj meth args (s:state) :
    eval (ECallRef obj meth args) s =
      match eval obj s with
      | (ROk (VRef r), s1) =>
          match eval_list args s1 with
          | (ROk vs, s2) =>
              let name := match meth with EmptyString => r | _ => (r ++ "." ++ meth)%string end in
              let '(res, w') := ext {| c_name := name; c_kw := [] |} vs (world Ob W s2) in (res, set_world Ob W w' s2)
          | (RExc c, s2) => (RExc c, s2) | (RFail f, s2) => (RFail f, s2) end
      | (ROk VNone, s1) => (RExc (match meth with EmptyString => "TypeError" | _ => "AttributeError" end), s1)
      | (ROk _, s1) => (RFail (FUnmodelled "call on a non-reference"), s1)
      | other => other
      end.
  Proof. reflexivity. Qed.
  Lemma eval_excnew cls args (s:state) :
    eval (EExcNew cls args) s = match eval_list args s with
                                | (ROk _, s1) => (ROk (VExc cls), s1)
                                | (RExc c, s1) => (RExc c, s1) | (RFail f, s1) => (RFail f, s1) end.
  Proof. reflexivity. Qed.

  (* a display of bytes literals *)
  Lemma eval_list_bytes l (s:state) : eval_list (map EBytes l) s = (ROk (map (@VBytes Ob) l), s).
  Proof. induction l as [|b r IH]; [reflexivity|]. cbn [map]. rewrite eval_list_cons, eval_bytes, IH. reflexivity. Qed.

  (* ---- assignment ---- *)
  Lemma assign_var x v (s:state) :
    assign Ob W (TVar x) v s = (ROk tt, set_locals Ob W (update Ob x v (locals Ob W s)) s).
  Proof. reflexivity. Qed.
  Lemma assign_pair x y v w (s:state) :
    assign Ob W (TTuple [TVar x; TVar y]) (VTuple [v; w]) s =
      (ROk tt, {| locals := update Ob y w (update Ob x v (locals Ob W s)); self := self Ob W s; world := world Ob W s |}).
  Proof. reflexivity. Qed.

  (* ---- while: out of budget ---- *)
  Lemma wloop_O cond body (s:state) : wloop Ob W cond body O s = (RFail FOutOfFuel, s).
  Proof. reflexivity. Qed.
End Eqs.

(* ================= values ================= *)
Lemma beqb_beq a b : beqb a b = beq a b.
Proof. reflexivity. Qed.
Lemma beq_sym a b : beq a b = beq b a.
Proof. unfold beq. destruct (list_eq_dec Byte.byte_eq_dec a b), (list_eq_dec Byte.byte_eq_dec b a); congruence. Qed.
Lemma beq_refl a : beq a a = true.
Proof. unfold beq. destruct (list_eq_dec Byte.byte_eq_dec a a); congruence. Qed.
Lemma beq_single a b : beq [a] [b] = Byte.eqb a b.
Proof.
  unfold beq. destruct (list_eq_dec Byte.byte_eq_dec [a] [b]) as [E|N].
  - inversion E. symmetry. apply Byte.byte_dec_lb. reflexivity.
  - destruct (Byte.eqb a b) eqn:E; [|reflexivity]. apply Byte.byte_dec_bl in E. subst. congruence.
Qed.

(* x in (b1, b2, ...) for a display of bytes literals *)
Lemma mem_val_bytes (Ob:Type) a l : mem_val Ob (VBytes a) (map (@VBytes Ob) l) = Some (existsb (beq a) l).
Proof.
  induction l as [|b r IH]; [reflexivity|].
  cbn [map mem_val eq_val existsb]. rewrite beqb_beq, (beq_sym b a).
  destruct (beq a b); [reflexivity|]. exact IH.
Qed.

(* message[3:-3] *)
Lemma slice_3_m3 (m:bytes) : slice_bytes m (Some 3) (Some (-3)) = firstn (List.length m - 6) (skipn 3 m).
Proof.
  unfold slice_bytes, clamp. change (3 <? 0) with false. change (-3 <? 0) with true. cbv iota.
  destruct (Nat.le_gt_cases 3 (List.length m)) as [H|H].
  - rewrite Nat.min_l by lia. f_equal. lia.
  - rewrite (skipn_all2 m) by lia. rewrite (skipn_all2 m) by lia. now rewrite !firstn_nil.
Qed.

(* data[-1:] *)
Lemma slice_m1 (d:bytes) : slice_bytes d (Some (-1)) None = match rev d with [] => [] | l :: _ => [l] end.
Proof.
  unfold slice_bytes, clamp. change (-1 <? 0) with true. cbv iota.
  destruct d as [|x d'] using rev_ind; [reflexivity|].
  rewrite rev_app_distr. cbn [rev app]. rewrite app_length. cbn [List.length].
  replace (Z.to_nat (Z.max 0 (Z.of_nat (List.length d' + 1) + -1))) with (List.length d') by lia.
  rewrite skipn_app, skipn_all, Nat.sub_diag. cbn [skipn app].
  replace (List.length d' + 1 - List.length d')%nat with 1%nat by lia. reflexivity.
Qed.

(* b[0:k], b[k:k+2] etc. on non-negative bounds *)
Lemma slice_nonneg (b:bytes) (l h:nat) :
  slice_bytes b (Some (Z.of_nat l)) (Some (Z.of_nat h)) =
  firstn (Nat.min h (List.length b) - Nat.min l (List.length b)) (skipn (Nat.min l (List.length b)) b).
Proof.
  unfold slice_bytes, clamp.
  replace (Z.of_nat l <? 0) with false by (symmetry; apply Z.ltb_ge; lia).
  replace (Z.of_nat h <? 0) with false by (symmetry; apply Z.ltb_ge; lia).
  now rewrite !Nat2Z.id.
Qed.

(* b[k] *)
Lemma index_nonneg (Ob:Type) (b:bytes) (k:nat) :
  (k < List.length b)%nat -> index_bytes Ob b (Z.of_nat k) = ROk (VInt (Z.of_N (bN (nth k b x00)))).
Proof.
  intro H. unfold index_bytes.
  assert (E : nth_error b k = Some (nth k b x00)) by (apply nth_error_nth'; exact H).
  destruct (Z.of_nat k) eqn:Ek; try lia.
  - replace k with 0%nat in * by lia. change (Z.to_nat 0) with 0%nat. now rewrite E.
  - rewrite <- Ek, Nat2Z.id. now rewrite E.
Qed.

(* int.from_bytes(b[2:4], "little") on at least four bytes *)
Lemma le_acc_2_4 (b:bytes) :
  (4 <= List.length b)%nat ->
  le_acc (slice_bytes b (Some 2) (Some 4)) = (bN (nth 2 b x00) + 256 * bN (nth 3 b x00))%N.
Proof.
  intro H. destruct b as [|b0 [|b1 [|b2 [|b3 r]]]]; cbn [List.length] in H; try lia.
  change (slice_bytes (b0 :: b1 :: b2 :: b3 :: r) (Some 2) (Some 4))
    with (firstn (Nat.min 4 (List.length (b0 :: b1 :: b2 :: b3 :: r)) - Nat.min 2 (List.length (b0 :: b1 :: b2 :: b3 :: r)))
            (skipn (Nat.min 2 (List.length (b0 :: b1 :: b2 :: b3 :: r))) (b0 :: b1 :: b2 :: b3 :: r))).
  cbn [List.length Nat.min Nat.sub skipn firstn nth le_acc]. lia.
Qed.

(* byte & ~3 == 0 *)
Lemma land_inv3 (x:byte) : (Z.land (Z.of_N (bN x)) (- 3 - 1) =? 0) = N.eqb (N.land (bN x) 252) 0.
Proof. destruct x; reflexivity. Qed.

(* (a << 8) | b on bytes *)
Lemma shl8_or (a b:byte) :
  Z.lor (Z.shiftl (Z.of_N (bN a)) 8) (Z.of_N (bN b)) = Z.of_N (N.lor (N.shiftl (bN a) 8) (bN b)).
Proof.
  assert (L : forall p q, Z.lor (Z.of_N p) (Z.of_N q) = Z.of_N (N.lor p q)) by (intros p q; destruct p, q; reflexivity).
  rewrite <- L. f_equal. change 8 with (Z.of_N 8).
  rewrite Z.shiftl_mul_pow2 by lia. rewrite N.shiftl_mul_pow2, N2Z.inj_mul, N2Z.inj_pow. reflexivity.
Qed.

Lemma of_N_eqb0 a : (Z.of_N a =? 0) = N.eqb a 0.
Proof. destruct a; reflexivity. Qed.
Lemma of_nat_ltb0 n : (Z.of_nat n <? 0) = false.
Proof. apply Z.ltb_ge. lia. Qed.
Lemma of_nat_eqb0 n : (Z.of_nat n =? 0) = Nat.eqb n 0.
Proof. destruct n; reflexivity. Qed.
Lemma of_nat_ltb a b : (Z.of_nat a <? Z.of_nat b) = Nat.ltb a b.
Proof.
  destruct (Nat.ltb_spec a b); [apply Z.ltb_lt|apply Z.ltb_ge]; lia.
Qed.
