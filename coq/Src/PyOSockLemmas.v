(* Generic lemmas for the per-run proofs about PyO programs (run/SrcSock_inst.v): slices against the model's
   suffix tests, BytesIO steps against upto_lf / firstn / skipn on the remaining input, integer conversions, and a
   form of the while-unrolling equation whose continuation is a named function. *)
From Coq Require Import ZArith NArith List String Bool Lia.
From Coq.Strings Require Import Byte.
From PyRtcm Require Import Base.Bytes Model.Types Model.Reader Model.Socket Src.PyO Src.PyOLemmas Src.SockEnv.
Import ListNotations.
Open Scope string_scope.
Open Scope Z_scope.

(* ---------- bytes equality ---------- *)
Lemma beqb_true_iff a b : beqb a b = true <-> a = b.
Proof. unfold beqb. destruct (list_eq_dec Byte.byte_eq_dec a b); split; intro; auto; discriminate. Qed.
Lemma beqb_false_iff a b : beqb a b = false <-> a <> b.
Proof. unfold beqb. destruct (list_eq_dec Byte.byte_eq_dec a b); split; intro; auto; try discriminate; contradiction. Qed.
Lemma byte_eqb_true_iff (a b:byte) : Byte.eqb a b = true <-> a = b.
Proof. split; [apply Byte.byte_dec_bl | apply Byte.byte_dec_lb]. Qed.

(* ---------- slices ---------- *)
Lemma firstn_all_ge {A} (l:list A) n : (List.length l <= n)%nat -> firstn n l = l.
Proof. revert n; induction l as [|x l IH]; intros [|n] H; simpl in *; auto; try lia. f_equal. apply IH. lia. Qed.

Lemma slice_neg_none b k :
  slice_bytes b (Some (Zneg k)) None = skipn (List.length b - Pos.to_nat k) b.
Proof.
  unfold slice_bytes, clamp. change (Zneg k <? 0) with true. cbv iota.
  replace (Z.to_nat (Z.max 0 (Z.of_nat (List.length b) + Z.neg k))) with (List.length b - Pos.to_nat k)%nat by lia.
  apply firstn_all_ge. rewrite skipn_length. lia.
Qed.

Lemma slice_to b n : 0 <= n -> slice_bytes b None (Some n) = firstn (Z.to_nat n) b.
Proof.
  intro H. unfold slice_bytes, clamp. replace (n <? 0) with false by (symmetry; apply Z.ltb_ge; lia).
  rewrite Nat.sub_0_r. cbn [skipn].
  destruct (Nat.le_ge_cases (Z.to_nat n) (List.length b)).
  - now rewrite Nat.min_l.
  - rewrite Nat.min_r by auto. now rewrite !firstn_all_ge by lia.
Qed.

Lemma slice_from b n : 0 <= n -> slice_bytes b (Some n) None = skipn (Z.to_nat n) b.
Proof.
  intro H. unfold slice_bytes, clamp. replace (n <? 0) with false by (symmetry; apply Z.ltb_ge; lia).
  destruct (Nat.le_ge_cases (Z.to_nat n) (List.length b)).
  - rewrite Nat.min_l by auto. apply firstn_all_ge. rewrite skipn_length. lia.
  - rewrite Nat.min_r by auto. rewrite Nat.sub_diag. cbn [firstn]. now rewrite skipn_all2 by lia.
Qed.

(* b[-2:] == b"\r\n"  is the model's ends_crlf *)
Lemma crlf_slice b : beqb (slice_bytes b (Some (-2)) None) [x0d; x0a] = ends_crlf b.
Proof.
  change (-2) with (Zneg 2). rewrite slice_neg_none. unfold ends_crlf.
  rewrite <- (rev_involutive b) at 1 2. destruct (rev b) as [|a [|c r]].
  - reflexivity.
  - apply beqb_false_iff. cbn. discriminate.
  - cbn [rev]. rewrite <- app_assoc. cbn [app]. rewrite app_length. cbn [List.length].
    replace (List.length (rev r) + 2 - Pos.to_nat 2)%nat with (List.length (rev r) + 0)%nat by lia.
    rewrite skipn_app, Nat.add_0_r, skipn_all, Nat.sub_diag. cbn [skipn app].
    apply eq_true_iff_eq. rewrite beqb_true_iff, andb_true_iff, !byte_eqb_true_iff.
    split; [intro H; inversion H; auto | intros [-> ->]; auto].
Qed.

(* b[-1:] == b"\n"  is the model's ends_lf *)
Lemma lf_slice b : beqb (slice_bytes b (Some (-1)) None) [x0a] = ends_lf b.
Proof.
  change (-1) with (Zneg 1). rewrite slice_neg_none. unfold ends_lf.
  rewrite <- (rev_involutive b) at 1 2. destruct (rev b) as [|a r].
  - reflexivity.
  - cbn [rev]. rewrite app_length. cbn [List.length].
    replace (List.length (rev r) + 1 - Pos.to_nat 1)%nat with (List.length (rev r) + 0)%nat by lia.
    rewrite skipn_app, Nat.add_0_r, skipn_all, Nat.sub_diag. cbn [skipn app].
    apply eq_true_iff_eq. rewrite beqb_true_iff, byte_eqb_true_iff.
    split; [intro H; inversion H; auto | intros ->; auto].
Qed.

(* ---------- BytesIO steps on the remaining input [skipn pos data] ---------- *)
Lemma upto_lf_app l a c : upto_lf l = (a, c) -> l = (a ++ c)%list.
Proof.
  revert a c. induction l as [|b r IH]; intros a c H; simpl in H.
  - inversion H; reflexivity.
  - destruct (Byte.eqb b x0a).
    + inversion H; reflexivity.
    + destruct (upto_lf r) as [a' c']. inversion H; subst. simpl. f_equal. now apply IH.
Qed.

Lemma skipn_skipn {A} (l:list A) p q : skipn q (skipn p l) = skipn (p + q) l.
Proof.
  revert l; induction p as [|p IH]; intro l; [reflexivity|].
  destruct l as [|x l]; [destruct q; reflexivity|]. cbn [skipn Nat.add]. apply IH.
Qed.

(* x.readline() *)
Lemma bio_readline (d:bytes) p ln r : upto_lf (skipn p d) = (ln, r) -> skipn (p + List.length ln) d = r.
Proof.
  intro H. apply upto_lf_app in H. rewrite <- skipn_skipn, H, skipn_app, skipn_all, Nat.sub_diag. reflexivity.
Qed.

(* x.read(k) *)
Lemma bio_read (d:bytes) p k : skipn (p + List.length (firstn k (skipn p d))) d = skipn k (skipn p d).
Proof.
  rewrite <- skipn_skipn, firstn_length.
  destruct (Nat.le_ge_cases k (List.length (skipn p d))).
  - now rewrite Nat.min_l.
  - rewrite Nat.min_r by auto. now rewrite !skipn_all2 by lia.
Qed.

Lemma upto_lf_len l a c : upto_lf l = (a, c) -> List.length l = (List.length a + List.length c)%nat.
Proof. intro H. apply upto_lf_app in H. subst l. apply app_length. Qed.

Lemma ends_crlf_len l : ends_crlf l = true -> (2 <= List.length l)%nat.
Proof.
  unfold ends_crlf. rewrite <- (rev_length l). destruct (rev l) as [|a [|b r]]; try discriminate. cbn [List.length]. lia.
Qed.

(* ---------- integers ---------- *)
Lemma min_N_nat_neg n m : (Z.min (Z.of_N n) (Z.of_nat m) <? 0) = false.
Proof. apply Z.ltb_ge. lia. Qed.
Lemma min_N_nat n m : Z.to_nat (Z.min (Z.of_N n) (Z.of_nat m)) = N.to_nat (N.min n (N.of_nat m)).
Proof. lia. Qed.
Lemma eqb_nat_N a n : (Z.of_nat a =? Z.of_N n) = N.eqb (N.of_nat a) n.
Proof. apply eq_true_iff_eq. rewrite Z.eqb_eq, N.eqb_eq. lia. Qed.
Lemma ltb_nat_Z a n : 0 <= n -> (Z.of_nat a <? n) = negb (Nat.leb (Z.to_nat n) a).
Proof.
  intro H. apply eq_true_iff_eq. rewrite negb_true_iff, Z.ltb_lt, Nat.leb_gt. lia.
Qed.
Lemma eqb_len_1 (l:bytes) : (Z.of_nat (List.length l) =? 1) = match l with [_] => true | _ => false end.
Proof. destruct l as [|a [|b r]]; try reflexivity. apply Z.eqb_neq. cbn [List.length]. lia. Qed.
Lemma eqb_len_0 (l:bytes) : (Z.of_nat (List.length l) =? 0) = match l with [] => true | _ => false end.
Proof. destruct l as [|a r]; try reflexivity. Qed.

(* ---------- while: one unrolling, the continuation as a named function ---------- *)
Section While.
  Variables (Ob W : Type).
  Notation state := (state Ob W).
  Variable cond : state -> res (val Ob) * state.
  Variable body : state -> res (ctl Ob) * state.

  Definition wcont (k:nat) (x:res (ctl Ob) * state) : res (ctl Ob) * state :=
    match x with
    | (ROk (CNext _), s2) | (ROk (CCont _), s2) => wloop Ob W cond body k s2
    | (ROk (CBreak _), s2) => (ROk (CNext Ob), s2)
    | (ROk (CRet _ r), s2) => (ROk (CRet Ob r), s2)
    | (RExc c, s2) => (RExc c, s2) | (RFail f, s2) => (RFail f, s2)
    end.

  Lemma wloop_S' k (s:state) :
    wloop Ob W cond body (S k) s =
      match cond s with
      | (ROk v, s1) =>
          match truth Ob v with
          | ROk true => wcont k (body s1)
          | ROk false => (ROk (CNext Ob), s1)
          | RExc c => (RExc c, s1) | RFail f => (RFail f, s1)
          end
      | (RExc c, s1) => (RExc c, s1) | (RFail f, s1) => (RFail f, s1)
      end.
  Proof. reflexivity. Qed.

  (* what a method call keeps of the final frame: result, self, world *)
  Definition proj (x:res (ctl Ob) * state) : res (ctl Ob) * (env Ob * W) :=
    (fst x, (self Ob W (snd x), world Ob W (snd x))).
  Definition ret_of (x:res (ctl Ob) * (env Ob * W)) : res (val Ob) * (env Ob * W) :=
    (match fst x with
     | ROk (CRet _ v) => ROk v
     | ROk (CNext _) => ROk VNone
     | ROk (CBreak _ | CCont _) => RFail (FUnmodelled "break/continue outside a loop")
     | RExc c => RExc c
     | RFail f => RFail f
     end, snd x).
End While.

Section Call.
  Variables (Ob W : Type).
  Variable ext : callsig -> list (val Ob) -> W -> res (val Ob) * W.
  Variable M : string -> option (mcall Ob W).
  Variable wfuel : nat.

  (* a call, with the frame spelled out *)
  Lemma call_eq name m args a w ps :
    bind_params Ob (m_params m) args = Some ps ->
    call Ob W ext M wfuel name m args a w =
      ret_of Ob W (proj Ob W (exec_list Ob W ext M wfuel (m_body m)
        {| locals := (ps ++ map (fun x => (x, VUnbound)) (m_locals m))%list; self := a; world := w |})).
  Proof.
    intro H. unfold call. rewrite H. unfold ret_of, proj.
    destruct (exec_list _ _ _ _ _ _ _) as [[[| | |v]|c|f] s1]; reflexivity.
  Qed.
End Call.

(* ---------- worlds ---------- *)
Definition suffix (w' w : W) : Prop := exists k, w' = skipn k w.
Lemma suffix_refl w : suffix w w.
Proof. now exists 0%nat. Qed.
Lemma suffix_tl w : suffix (tl w) w.
Proof. exists 1%nat. destruct w; reflexivity. Qed.
Lemma suffix_trans a b c : suffix a b -> suffix b c -> suffix a c.
Proof. intros [i ->] [j ->]. exists (j + i)%nat. apply skipn_skipn. Qed.
Lemma suffix_length (w' w : W) : suffix w' w -> (List.length w' <= List.length w)%nat.
Proof. intros [k ->]. rewrite skipn_length. lia. Qed.
Lemma caught_tl w : caught w -> caught (tl w).
Proof. unfold caught. destruct w; cbn [tl]; auto. intro H. now inversion H. Qed.
Lemma caught_suffix w' w : suffix w' w -> caught w -> caught w'.
Proof.
  intros [k ->] H. revert w H. induction k as [|k IH]; intros w H; [exact H|].
  destruct w as [|e w]; [exact H|]. cbn [skipn]. apply IH. now inversion H.
Qed.
(* a suffix is determined by its length *)
Lemma suffix_explicit w' w : suffix w' w -> w' = skipn (List.length w - List.length w') w.
Proof.
  intros [k ->]. rewrite skipn_length.
  destruct (Nat.le_ge_cases k (List.length w)).
  - f_equal. lia.
  - replace (List.length w - (List.length w - k))%nat with (List.length w) by lia.
    now rewrite !skipn_all2 by lia.
Qed.

(* ---------- facts about the model (Model/Socket.v) used to thread the invariants through the loops ---------- *)
Section ModelFacts.
  Variables (chunked : bool) (dz : bytes -> bytes).

  Lemma recv_evs s : evs (snd (recv chunked dz s)) = tl (evs s).
  Proof.
    unfold recv. destruct (evs s) as [|[d|] r] eqn:E; cbn [snd tl]; auto.
    destruct d; cbn [snd evs]; auto. destruct chunked; cbn [snd evs]; auto.
    destruct (dechunk _ _); reflexivity.
  Qed.
  Lemma recv_ok_evs s : fst (recv chunked dz s) = true -> evs s <> [].
  Proof. unfold recv. destruct (evs s); cbn [fst]; congruence. Qed.

  (* unm is never reset *)
  Lemma recv_unm_mono s : unm s = true -> unm (snd (recv chunked dz s)) = true.
  Proof.
    intro H. unfold recv. destruct (evs s) as [|[d|] r]; cbn [snd unm]; auto.
    destruct d; cbn [snd unm]; auto. destruct chunked; cbn [snd unm]; auto.
    destruct (dechunk _ _); cbn [snd unm]; auto.
  Qed.
  Lemma fill_unm_mono f n s : unm s = true -> unm (snd (fill chunked dz f n s)) = true.
  Proof.
    revert s. induction f as [|f IH]; intros s H; cbn [fill]; destruct (Nat.leb n _); cbn [snd]; auto.
    pose proof (recv_unm_mono s H) as H1. destruct (recv chunked dz s) as [ok s']. cbn [snd] in H1.
    destruct ok; cbn [snd]; auto.
  Qed.
  Lemma sock_read_unm_mono n s : unm s = true -> unm (snd (sock_read chunked dz n s)) = true.
  Proof.
    intro H. unfold sock_read. pose proof (fill_unm_mono (S (List.length (evs s))) n s H) as H1.
    destruct (fill _ _ _ _ s) as [ok s']. destruct ok; exact H1.
  Qed.
  Lemma readline_loop_unm_mono f line s : unm s = true -> unm (snd (readline_loop chunked dz f line s)) = true.
  Proof.
    revert line s. induction f as [|f IH]; intros line s H; cbn [readline_loop]; [reflexivity|].
    pose proof (sock_read_unm_mono 1 s H) as H1. destruct (sock_read chunked dz 1 s) as [d s']. cbn [snd] in H1.
    destruct d as [|b [|b2 d2]]; cbn [snd]; auto. destruct (ends_crlf _); cbn [snd]; auto.
  Qed.

  (* the partial chunk handed back is no longer than the segment, so sock_fuel never grows *)
  Lemma dechunk_loop_partial seglen : forall f ins chunks c p,
    dechunk_loop dz seglen f ins chunks = DOk c p -> (List.length p <= List.length ins)%nat.
  Proof.
    induction f as [|f IH]; intros ins chunks c p H; cbn [dechunk_loop] in H; [discriminate|].
    destruct (upto_lf ins) as [lb r1] eqn:E1. apply upto_lf_len in E1.
    destruct (ends_crlf lb); cbn [negb] in H.
    2:{ inversion H; subst. lia. }
    destruct (int16 (strip lb)) as [[|pp]| |]; try (inversion H; subst; cbn [List.length]; lia).
    set (k := N.to_nat (N.min (N.pos pp) (N.of_nat seglen))) in *.
    destruct (upto_lf (skipn k r1)) as [tm r3] eqn:E3. apply upto_lf_len in E3.
    pose proof (firstn_skipn k r1) as E4. apply (f_equal (@List.length _)) in E4. rewrite app_length in E4.
    destruct (_ || _).
    - inversion H; subst. rewrite !app_length. lia.
    - apply IH in H. lia.
  Qed.

  Lemma recv_fuel s : (sock_fuel (snd (recv chunked dz s)) <= sock_fuel s)%nat.
  Proof.
    unfold recv, sock_fuel. destruct (evs s) as [|[d|] r] eqn:E.
    - cbn [snd]. rewrite E. lia.
    - destruct d as [|b d]; [cbn [snd evs partial data_len List.length]; lia|].
      destruct chunked; [|cbn [snd evs partial data_len List.length]; lia].
      destruct (dechunk dz _) as [c p|] eqn:Ed; cbn [snd evs partial data_len List.length]; try lia.
      apply dechunk_loop_partial in Ed. rewrite app_length in Ed. cbn [List.length] in Ed. lia.
    - cbn [snd evs partial data_len List.length]. lia.
  Qed.
  Lemma fill_fuel f n s : (sock_fuel (snd (fill chunked dz f n s)) <= sock_fuel s)%nat.
  Proof.
    revert s. induction f as [|f IH]; intro s; cbn [fill]; destruct (Nat.leb n _); cbn [snd]; try lia.
    pose proof (recv_fuel s) as H. destruct (recv chunked dz s) as [ok s']. cbn [snd] in H.
    destruct ok; cbn [snd]; [|exact H]. specialize (IH s'). lia.
  Qed.
  Lemma sock_read_fuel n s : (sock_fuel (snd (sock_read chunked dz n s)) <= sock_fuel s)%nat.
  Proof.
    unfold sock_read. pose proof (fill_fuel (S (List.length (evs s))) n s) as H.
    destruct (fill _ _ _ _ s) as [ok s']. cbn [snd] in H. destruct ok; cbn [snd]; exact H.
  Qed.
End ModelFacts.
