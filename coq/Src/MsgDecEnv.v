(* The environment of the message decoder (RTCMMessage.__init__ ... _getsatcellmaps, translated by tools/gen_src2.py `msgdec` into
   PyRtcmGen.SrcOMsgDec and interpreted by Src/PyO.v with recursive linking), and how an object of the hand-written model
   (Model/Message.v) is laid out as the attribute store of `self`.  Definitions only -- part of the statement of run/SrcMsgDec_*.v.

   The module tables are objects of the environment.  A layout dict (RTCM_PAYLOADS_GET*[ident], and the dicts nested in it) is the
   opaque value [VOpq (DBody b)]; iterating it, subscripting it and `.get` on the PRN / signal maps are questions to the environment,
   answered from the regenerated [tables] value exactly as Python answers them from the dict objects:
     for k in d            -> the keys in source order
     d[k]                  -> for a field: the field key (a str); for a group: (count, dict) with count an int or a str;
                              for a conditional group: ((key, constant), dict)
     RTCM_DATA_FIELDS[k]   -> (type name, width, resolution, description) or KeyError
     PRNSIGMAP[k]          -> (prn map, signal map) or KeyError;   m.get(i, d) on those maps *)
From Coq Require Import ZArith NArith List String Bool PrimFloat.
From Coq.Strings Require Import Byte.
From PyRtcm Require Import Base.Bytes Model.Types Model.Message Src.PyO Src.ReaderEnv.
Import ListNotations.
Open Scope string_scope.
Open Scope Z_scope.

Inductive dob :=
| DBody (b:body)                                  (* a layout dict *)
| DPrn (m:list (Z * string))                      (* a satellite-id -> PRN label dict *)
| DSig (m:list (Z * (string * string))).          (* a signal-id -> (band, RINEX code) dict *)

Definition W : Type := unit.

(* the type names as rtcmtypes_core spells them (BIT = "BIT", ..., INTS = "SNT", PRN = "PRN", CELPRN = "CPR", CELSIG = "CSG") *)
Definition dtype_name (t:dtype) : string :=
  match t with
  | TBIT => "BIT" | TBITX => "BITX" | TCHA => "CHA" | TSTR => "STR" | TINT => "INT" | TUINT => "UINT" | TSNT => "SNT"
  | TPRN => "PRN" | TCPR => "CPR" | TCSG => "CSG" | TOther s => s
  end.

Section Env.
Variable T : tables.

Definition unm (why:string) : res (val dob) * W := (RFail (FUnmodelled why), tt).

Definition layout_get (l:list (string * body)) (args:list (val dob)) : res (val dob) * W :=
  match args with
  | [VStr k; VNone] => (ROk (match assoc k l with Some b => VOpq (DBody b) | None => VNone end), tt)
  | _ => unm "table .get arguments"
  end.

(* what d[k] is for an entry of a layout dict *)
Definition item_val (it:item) : res (val dob) :=
  match it with
  | IField key => ROk (VStr key)
  | IGroup (CFixed n) b => ROk (VTuple [VInt n; VOpq (DBody b)])
  | IGroup (CNamed k) b => ROk (VTuple [VStr k; VOpq (DBody b)])
  | IGroup (CBad w) _ => RFail (FUnmodelled w)
  | IOpt k con b => ROk (VTuple [VTuple [VStr k; VInt con]; VOpq (DBody b)])
  | IBad w => RFail (FUnmodelled w)
  end.

Definition res_val (r:Types.res) : res (val dob) :=
  match r with RInt z => ROk (VInt z) | RFloat f => ROk (VFloat f) | RBad w => RFail (FUnmodelled w) end.

Definition msgdec_ext (c:callsig) (args:list (val dob)) (w:W) : res (val dob) * W :=
  let nm := c_name c in
  match c_kw c with
  | [] =>
      if String.eqb nm "RTCM_PAYLOADS_GET.get" then layout_get (t_get T) args
      else if String.eqb nm "RTCM_PAYLOADS_GET_MSM.get" then layout_get (t_msm T) args
      else if String.eqb nm "RTCM_PAYLOADS_GET_IGS.get" then layout_get (t_igs T) args
      else if String.eqb nm "iter" then
        match args with
        | [VOpq (DBody (BItems l))] => (ROk (VList (map (fun kv => VStr (fst kv)) l)), tt)
        | [VOpq (DBody (BNotDict why))] => unm why
        | _ => unm "iter arguments"
        end
      else if String.eqb nm "[]" then
        match args with
        | [VOpq (DBody (BItems l)); VStr k] => (match assoc k l with Some it => item_val it | None => RExc "KeyError" end, tt)
        | [VOpq (DBody (BNotDict why)); _] => unm why
        | _ => unm "subscript arguments"
        end
      else if String.eqb nm "RTCM_DATA_FIELDS[]" then
        match args with
        | [VStr k] => (match find_field T k with
                       | Some fd => match res_val (df_res fd) with
                                    | ROk r => ROk (VTuple [VStr (dtype_name (df_ty fd)); VInt (df_bits fd); r; VStr (df_desc fd)])
                                    | RExc c' => RExc c' | RFail f => RFail f end
                       | None => RExc "KeyError" end, tt)
        | _ => unm "RTCM_DATA_FIELDS arguments"
        end
      else if String.eqb nm "PRNSIGMAP[]" then
        match args with
        | [VStr k] => (match assoc k (t_prnsig T) with
                       | Some (pm, sm) => ROk (VTuple [VOpq (DPrn pm); VOpq (DSig sm)])
                       | None => RExc "KeyError" end, tt)
        | _ => unm "PRNSIGMAP arguments"
        end
      else if String.eqb nm ".get" then
        match args with
        | [VOpq (DPrn m); VInt i; d] => (ROk (match zassoc i m with Some x => VStr x | None => d end), tt)
        | [VOpq (DSig m); VInt i; d] => (ROk (match zassoc i m with Some (a, b) => VTuple [VStr a; VStr b] | None => d end), tt)
        | _ => unm ".get arguments"
        end
      else unm "unknown callee"
  | _ => unm "unknown callee"
  end.
End Env.

(* ---------- the model's object as the attribute store ---------- *)
(* a Python str is held either as VStr (ASCII text from the tables / names) or as VUStr (code points, from chr()): both stand for the
   model's VStr (list of code points) *)
Inductive val_rel : val dob -> value -> Prop :=
| VR_int z : val_rel (PyO.VInt z) (Types.VInt z)
| VR_float f : val_rel (PyO.VFloat f) (Types.VFloat f)
| VR_str s : val_rel (PyO.VStr s) (Types.VStr (codes s))
| VR_ustr u : val_rel (PyO.VUStr u) (Types.VStr u).

Definition satmap_val (m:option (list (Z * string))) : val dob :=
  match m with None => VNone | Some l => VDict (map (fun kv => (PyO.VInt (fst kv), PyO.VStr (snd kv))) l) end.
Definition cellmap_val (m:option (list (Z * (string * string)))) : val dob :=
  match m with None => VNone
  | Some l => VDict (map (fun kv => (PyO.VInt (fst kv), VTuple [PyO.VStr (fst (snd kv)); PyO.VStr (snd (snd kv))])) l) end.

(* the eight attributes __init__ assigns first, in that order *)
Definition fixed_store (o:obj) : env dob :=
  [("_immutable", VBool (o_immutable o)); ("_payload", VBytes (o_payload o)); ("_payloadi", PyO.VInt (Z.of_N (o_payloadi o)));
   ("_payblen", PyO.VInt (8 * Z.of_nat (List.length (o_payload o)))); ("_labelmsm", PyO.VInt (o_labelmsm o));
   ("_unknown", VBool (o_unknown o)); ("_satmap", satmap_val (o_satmap o)); ("_cellmap", cellmap_val (o_cellmap o))].

(* [store_rel a o]: a is the fixed part followed by the data attributes of o, name for name in insertion order, values related *)
Definition store_rel (a:env dob) (o:obj) : Prop :=
  exists attrs, a = (fixed_store o ++ attrs)%list /\
    Forall2 (fun (kv:string * val dob) (kw:string * value) => fst kv = fst kw /\ val_rel (snd kv) (snd kw)) attrs (o_attrs o).

(* exception classes: the model's outcome as an interpreter result (liberr_class / pyexc_class as for the reader, except that the
   model's XOther here stands for UnboundLocalError: `bits` read before assignment) *)
Definition dec_exc_class (k:pyexc) : string := match k with XOther => "UnboundLocalError" | _ => pyexc_class k end.
