(* Generic lemmas for the source tie of the message decoder's leaf methods (RTCMMessage._getsatcellmaps and
   _set_attribute_single, run/SrcMsgDecSingle_inst.v): unfolding equations for the PyO nodes added for the decoder (for-loops,
   item assignment, conditional expressions, .get), `for` loops whose body keeps a state shape, how the model's object shows in a
   store related to it by MsgDecEnv.store_rel, the agreement relation between a model outcome and an interpreter result, and the
   value-level facts (bit extraction, bit tests, chr / str concatenation up to val_rel, insertion-ordered dicts, the list
   expressions of Model.getsatcellmaps as left folds).  Nothing here depends on the translated source. *)
From Coq Require Import ZArith NArith List String Ascii Bool Lia PrimFloat.
From Coq.Strings Require Import Byte.
From PyRtcm Require Import Base.Bytes Base.Dec Model.Types Model.Message.
From PyRtcm Require Import Src.PyO Src.PyOLemmas Src.PyOReaderLemmas Src.PyOMsgLemmas Src.ReaderEnv Src.MsgDecEnv.
From PyRtcm Require Src.MiniPyLemmas.
Import ListNotations.
Open Scope string_scope.
Open Scope Z_scope.

(* ================= unfolding equations (all by computation) ================= *)
Section Eqs.
  Variables (Ob W : Type).
  Variable ext : callsig -> list (val Ob) -> W -> res (val Ob) * W.
  Variable M : string -> option (mcall Ob W).
  Variable wfuel : nat.
  Notation eval := (eval Ob W ext M).
  Notation eval_list := (eval_list Ob W ext M).
  Notation exec := (exec Ob W ext M wfuel).
  Notation exec_list := (exec_list Ob W ext M wfuel).
  Notation state := (state Ob W).

  Lemma exec_aug t o e (s:state) :
    exec (SAug t o e) s =
      match target_expr t with
      | None => (RFail (FUnmodelled "augmented tuple"), s)
      | Some te =>
          match eval te s with
          | (ROk v0, s0) =>
              match eval e s0 with
              | (ROk v1, s1) => match binop_val Ob o v0 v1 with
                                | ROk v => match assign Ob W t v s1 with
                                           | (ROk _, s2) => (ROk (CNext Ob), s2)
                                           | (RExc c, s2) => (RExc c, s2) | (RFail f, s2) => (RFail f, s2) end
                                | RExc c => (RExc c, s1) | RFail f => (RFail f, s1) end
              | (RExc c, s1) => (RExc c, s1) | (RFail f, s1) => (RFail f, s1) end
          | (RExc c, s0) => (RExc c, s0) | (RFail f, s0) => (RFail f, s0) end
      end.
  Proof. reflexivity. Qed.

  Lemma exec_for t it body (s:state) :
    exec (SFor t it body) s =
      match iter_values Ob W ext M it s with
      | (ROk vs, s1) => floop Ob W (assign Ob W t) (exec_list body) vs s1
      | (RExc c, s1) => (RExc c, s1) | (RFail f, s1) => (RFail f, s1)
      end.
  Proof. reflexivity. Qed.

  Lemma exec_setitem_self a ek ev (s:state) :
    exec (SSetItemSelf a ek ev) s =
      match eval ev s with
      | (ROk v, s0) =>
          match lookup Ob a (self Ob W s0) with
          | None => (RExc "AttributeError", s0)
          | Some vo =>
              match eval ek s0 with
              | (ROk vk, s1) =>
                  match vo with
                  | VDict d => match dict_set Ob vk v d with
                               | Some d' => (ROk (CNext Ob), set_self Ob W (setattr Ob a (VDict d') (self Ob W s1)) s1)
                               | None => (RFail (FUnmodelled "dict key"), s1) end
                  | VNone => (RExc "TypeError", s1)
                  | _ => (RFail (FUnmodelled "item assignment on an attribute"), s1)
                  end
              | (RExc c, s1) => (RExc c, s1) | (RFail f, s1) => (RFail f, s1)
              end
          end
      | (RExc c, s0) => (RExc c, s0) | (RFail f, s0) => (RFail f, s0)
      end.
  Proof. reflexivity. Qed.

  Lemma floop_nil bind body (s:state) : floop Ob W bind body [] s = (ROk (CNext Ob), s).
  Proof. reflexivity. Qed.
  Lemma floop_cons bind body v r (s:state) :
    floop Ob W bind body (v::r) s =
      match bind v s with
      | (ROk _, s1) => match body s1 with
                       | (ROk (CNext _), s2) | (ROk (CCont _), s2) => floop Ob W bind body r s2
                       | (ROk (CBreak _), s2) => (ROk (CNext Ob), s2)
                       | (ROk (CRet _ x), s2) => (ROk (CRet Ob x), s2)
                       | (RExc c, s2) => (RExc c, s2) | (RFail f, s2) => (RFail f, s2)
                       end
      | (RExc c, s1) => (RExc c, s1) | (RFail f, s1) => (RFail f, s1)
      end.
  Proof. reflexivity. Qed.

  Lemma iter_range e (s:state) :
    iter_values Ob W ext M (ItRange e) s =
      match eval e s with
      | (ROk (VInt n), s1) => (ROk (map (fun i => VInt (Z.of_nat i)) (seq 0 (Z.to_nat n))), s1)
      | (ROk _, s1) => (RFail (FUnmodelled "range of a non-int"), s1)
      | (RExc c, s1) => (RExc c, s1) | (RFail f, s1) => (RFail f, s1) end.
  Proof. reflexivity. Qed.

  Lemma eval_if c a b (s:state) :
    eval (EIf c a b) s =
      match eval c s with
      | (ROk vc, s1) => match truth Ob vc with
                        | ROk true => eval a s1
                        | ROk false => eval b s1
                        | RExc x => (RExc x, s1) | RFail f => (RFail f, s1) end
      | other => other
      end.
  Proof. reflexivity. Qed.

  Lemma eval_methget eo ek ed (s:state) :
    eval (EMethGet eo ek ed) s =
      match eval eo s with
      | (ROk vo, s1) =>
          match eval ek s1 with
          | (ROk vk, s2) =>
              match eval ed s2 with
              | (ROk vd, s3) =>
                  match vo with
                  | VDict d => (match dict_get Ob vk d with
                                | Some (Some v) => ROk v | Some None => ROk vd
                                | None => RFail (FUnmodelled "dict key") end, s3)
                  | VOpq _ => let '(r, w') := ext {| c_name := ".get"; c_kw := [] |} [vo; vk; vd] (world Ob W s3) in (r, set_world Ob W w' s3)
                  | _ => (RFail (FUnmodelled ".get on a non-dict"), s3)
                  end
              | other => other end
          | other => other end
      | other => other
      end.
  Proof. reflexivity. Qed.

  (* ---- `if` with the choice of the branch kept folded until the test is decided (symbolic execution stops there) ---- *)
  Definition branch (t:res bool) (th el:list stmt) (s:state) : res (ctl Ob) * state :=
    match t with
    | ROk true => exec_list th s
    | ROk false => exec_list el s
    | RExc c => (RExc c, s) | RFail f => (RFail f, s)
    end.
  Lemma exec_if_branch c th el (s:state) :
    exec (SIf c th el) s =
      match eval c s with
      | (ROk v, s1) => branch (truth Ob v) th el s1
      | (RExc c, s1) => (RExc c, s1) | (RFail f, s1) => (RFail f, s1) end.
  Proof. reflexivity. Qed.
  Lemma branch_true th el (s:state) : branch (ROk true) th el s = exec_list th s.
  Proof. reflexivity. Qed.
  Lemma branch_false th el (s:state) : branch (ROk false) th el s = exec_list el s.
  Proof. reflexivity. Qed.

  (* ---- a `for` loop whose body takes states of a given shape to states of that shape ---- *)
  Lemma floop_shape (A:Type) (shape : A -> val Ob -> state) (step : A -> val Ob -> A) bind body :
    (forall a u v, match bind v (shape a u) with
                   | (ROk _, s1) => body s1 = (ROk (CNext Ob), shape (step a v) v)
                   | _ => False end) ->
    forall vs a u, floop Ob W bind body vs (shape a u)
                   = (ROk (CNext Ob), shape (fold_left step vs a) (fold_left (fun _ v => v) vs u)).
  Proof.
    intros Hb vs. induction vs as [|v r IH]; intros a u; [reflexivity|].
    rewrite floop_cons. specialize (Hb a u v). destruct (bind v (shape a u)) as [[x|c|f] s1]; try contradiction.
    rewrite Hb. cbn [fold_left]. apply IH.
  Qed.
End Eqs.

(* ================= the callees inside the class (run/SrcMsg_inst.v's specs, for Ob := dob) ================= *)
Definition img_ident (o:outcome string) : res (val dob) :=
  match o with
  | Ok s => ROk (VStr s)
  | Lib e => RExc (liberr_class e)
  | Foreign k => RExc (pyexc_class k)
  | Unmodelled why => RFail (FUnmodelled why)
  end.
Definition id_spec (g:mcall dob W) : Prop :=
  forall a p w, lookup dob "_payload" a = Some (VBytes p) -> g [] a w = (img_ident (identity p), (a, w)).
Definition set_spec (g:mcall dob W) : Prop :=
  forall n v a w,
    (lookup dob "_immutable" a = Some (VBool true) -> g [VStr n; v] a w = (RExc "RTCMMessageError", (a, w))) /\
    (lookup dob "_immutable" a = Some (VBool false) -> v <> VUnbound -> g [VStr n; v] a w = (ROk VNone, (setattr dob n v a, w))).

(* ================= the model's object in a related store ================= *)
Definition fixed_names : list string :=
  ["_immutable"; "_payload"; "_payloadi"; "_payblen"; "_labelmsm"; "_unknown"; "_satmap"; "_cellmap"].
(* a name that may be used for a data attribute: neither one of the eight fixed attributes nor bound in the class body [rs] *)
Definition name_ok (rs:list string) (n:string) : bool :=
  negb (existsb (String.eqb n) fixed_names) && negb (existsb (String.eqb n) rs).

Definition with_sat (o:obj) (sm:list (Z*string)) : obj :=
  {| o_immutable := o_immutable o; o_payload := o_payload o; o_payloadi := o_payloadi o; o_labelmsm := o_labelmsm o; o_unknown := o_unknown o;
     o_satmap := Some sm; o_cellmap := o_cellmap o; o_attrs := o_attrs o |}.
Definition with_cell (o:obj) (cm:list (Z*(string*string))) : obj :=
  {| o_immutable := o_immutable o; o_payload := o_payload o; o_payloadi := o_payloadi o; o_labelmsm := o_labelmsm o; o_unknown := o_unknown o;
     o_satmap := o_satmap o; o_cellmap := Some cm; o_attrs := o_attrs o |}.
Lemma with_maps_eq o sm cm : with_maps o sm cm = with_cell (with_sat o sm) cm.
Proof. reflexivity. Qed.

(* a data attribute in the store and in the model *)
Definition look_rel (x:option (val dob)) (y:option value) : Prop :=
  match x, y with
  | Some v, Some mv => val_rel v mv
  | None, None => True
  | _, _ => False
  end.

Section Store.
  Notation lookup := (lookup dob).
  Notation setattr := (PyO.setattr dob).

  Lemma eqb_sym_false x y : String.eqb x y = false -> String.eqb y x = false.
  Proof. rewrite String.eqb_sym. auto. Qed.

  Lemma store_rel_fixed a o : store_rel a o ->
    lookup "_immutable" a = Some (VBool (o_immutable o)) /\
    lookup "_payload" a = Some (VBytes (o_payload o)) /\
    lookup "_payloadi" a = Some (PyO.VInt (Z.of_N (o_payloadi o))) /\
    lookup "_payblen" a = Some (PyO.VInt (8 * Z.of_nat (List.length (o_payload o)))) /\
    lookup "_labelmsm" a = Some (PyO.VInt (o_labelmsm o)) /\
    lookup "_unknown" a = Some (VBool (o_unknown o)) /\
    lookup "_satmap" a = Some (satmap_val (o_satmap o)) /\
    lookup "_cellmap" a = Some (cellmap_val (o_cellmap o)).
  Proof. intros [attrs [-> _]]. repeat split; reflexivity. Qed.

  Lemma not_fixed n : existsb (String.eqb n) fixed_names = false ->
    String.eqb "_immutable" n = false /\ String.eqb "_payload" n = false /\ String.eqb "_payloadi" n = false /\
    String.eqb "_payblen" n = false /\ String.eqb "_labelmsm" n = false /\ String.eqb "_unknown" n = false /\
    String.eqb "_satmap" n = false /\ String.eqb "_cellmap" n = false.
  Proof.
    cbn [existsb fixed_names]. intro H. repeat (apply orb_false_iff in H; destruct H as [?H H]).
    repeat split; apply eqb_sym_false; assumption.
  Qed.

  Lemma lookup_attrs n attrs mattrs :
    Forall2 (fun (kv:string * val dob) (kw:string * value) => fst kv = fst kw /\ val_rel (snd kv) (snd kw)) attrs mattrs ->
    look_rel (lookup n attrs) (assoc n mattrs).
  Proof.
    induction 1 as [|[k v] [k' mv] r mr [E V] F IH]; cbn [PyO.lookup assoc look_rel]; [exact I|].
    cbn [fst snd] in E, V. subst k'. destruct (String.eqb k n); [exact V|exact IH].
  Qed.

  Lemma store_rel_lookup a o n : store_rel a o -> existsb (String.eqb n) fixed_names = false ->
    look_rel (lookup n a) (assoc n (o_attrs o)).
  Proof.
    intros [attrs [-> F]] Hn. apply not_fixed in Hn. destruct Hn as (H1 & H2 & H3 & H4 & H5 & H6 & H7 & H8).
    cbn [fixed_store app PyO.lookup]. rewrite H1, H2, H3, H4, H5, H6, H7, H8. apply lookup_attrs. exact F.
  Qed.

  Lemma setattr_attrs n v mv attrs mattrs : val_rel v mv ->
    Forall2 (fun (kv:string * val dob) (kw:string * value) => fst kv = fst kw /\ val_rel (snd kv) (snd kw)) attrs mattrs ->
    Forall2 (fun (kv:string * val dob) (kw:string * value) => fst kv = fst kw /\ val_rel (snd kv) (snd kw)) (setattr n v attrs) (upd n mv mattrs).
  Proof.
    intros V. induction 1 as [|[k w] [k' mw] r mr [E V'] F IH]; cbn [PyO.setattr upd].
    - constructor; [split; [reflexivity|exact V]|constructor].
    - cbn [fst snd] in E, V'. subst k'. destruct (String.eqb k n).
      + constructor; [split; [reflexivity|exact V]|exact F].
      + constructor; [split; [reflexivity|exact V']|exact IH].
  Qed.

  Lemma store_rel_setattr a o n v mv : store_rel a o -> existsb (String.eqb n) fixed_names = false -> val_rel v mv ->
    store_rel (setattr n v a) (with_attrs o (upd n mv (o_attrs o))).
  Proof.
    intros [attrs [-> F]] Hn V. apply not_fixed in Hn. destruct Hn as (H1 & H2 & H3 & H4 & H5 & H6 & H7 & H8).
    exists (setattr n v attrs). split.
    - cbn [fixed_store app PyO.setattr]. rewrite H1, H2, H3, H4, H5, H6, H7, H8. reflexivity.
    - cbn [with_attrs o_attrs]. apply setattr_attrs; assumption.
  Qed.

  Lemma store_rel_set_satmap a o sm : store_rel a o ->
    store_rel (setattr "_satmap" (satmap_val (Some sm)) a) (with_sat o sm).
  Proof. intros [attrs [-> F]]. exists attrs. split; [reflexivity|exact F]. Qed.
  Lemma store_rel_set_cellmap a o cm : store_rel a o ->
    store_rel (setattr "_cellmap" (cellmap_val (Some cm)) a) (with_cell o cm).
  Proof. intros [attrs [-> F]]. exists attrs. split; [reflexivity|exact F]. Qed.

  (* assignments to other attributes leave "_payload" alone *)
  Lemma lookup_setattr_payload n v a : String.eqb n "_payload" = false -> lookup "_payload" (setattr n v a) = lookup "_payload" a.
  Proof. apply lookup_setattr_other. Qed.
End Store.

(* ================= a model outcome and an interpreter result ================= *)
(* p = the payload (kept in the store also when an exception leaves the method: the handler of _do_attributes reads self.identity) *)
Definition agree {A} (p:bytes) (R : A -> val dob -> env dob -> Prop) (m:outcome A) (r:res (val dob) * (env dob * W)) : Prop :=
  match m with
  | Ok x => exists v a', r = (ROk v, (a', tt)) /\ R x v a'
  | Lib e => exists a', r = (RExc (liberr_class e), (a', tt)) /\ lookup dob "_payload" a' = Some (VBytes p)
  | Foreign k => exists a', r = (RExc (dec_exc_class k), (a', tt)) /\ lookup dob "_payload" a' = Some (VBytes p)
  | Unmodelled _ => exists f, fst r = RFail f
  end.

(* ================= `for` loops with an invariant ================= *)
Section ForInv.
  Variables (Ob W : Type).
  Notation state := (state Ob W).
  (* the loop runs over [map inj xs]; [shape a u] is the state with accumulated value a and loop variable u;
     [Inv a rest] holds before the elements [rest] are processed *)
  Lemma floop_inv (A X:Type) (inj : X -> val Ob) (shape : A -> val Ob -> state) (step : A -> X -> A)
        (Inv : A -> list X -> Prop) bind body :
    (forall a u x r, Inv a (x::r) ->
       match bind (inj x) (shape a u) with
       | (ROk _, s1) => body s1 = (ROk (CNext Ob), shape (step a x) (inj x))
       | _ => False end /\ Inv (step a x) r) ->
    forall xs a u, Inv a xs ->
      floop Ob W bind body (map inj xs) (shape a u)
      = (ROk (CNext Ob), shape (fold_left step xs a) (fold_left (fun _ x => inj x) xs u)).
  Proof.
    intros Hb xs. induction xs as [|x r IH]; intros a u HI; [reflexivity|].
    cbn [map]. rewrite floop_cons. destruct (Hb a u x r HI) as [H1 H2].
    destruct (bind (inj x) (shape a u)) as [[y|c|f] s1]; try contradiction.
    rewrite H1. cbn [fold_left]. apply IH. exact H2.
  Qed.
End ForInv.

(* ================= lists: numbering, folds that append ================= *)
Section Lists.
  Context {A B : Type}.
  (* 1-based numbering, as the model writes it *)
  Definition number (l:list A) : list (Z * A) := combine (map (fun k => Z.of_nat k + 1) (seq 0 (List.length l))) l.
  Definition number_from (i:nat) (l:list A) : list (Z * A) := combine (map (fun k => Z.of_nat k + 1) (seq i (List.length l))) l.

  Lemma number_from_app i l y : number_from i (l ++ [y]) = (number_from i l ++ [(Z.of_nat (i + List.length l) + 1, y)])%list.
  Proof.
    revert i. induction l as [|x r IH]; intro i.
    - cbn. now rewrite Nat.add_0_r.
    - unfold number_from in *. cbn [List.length app seq map combine]. rewrite IH. cbn [app].
      now replace (S i + List.length r)%nat with (i + S (List.length r))%nat by lia.
  Qed.
  Lemma number_app l y : number (l ++ [y]) = (number l ++ [(Z.of_nat (List.length l) + 1, y)])%list.
  Proof. apply (number_from_app 0). Qed.
  Lemma number_from_length i l : List.length (number_from i l) = List.length l.
  Proof. unfold number_from. rewrite combine_length, map_length, seq_length. apply Nat.min_id. Qed.
  Lemma number_length l : List.length (number l) = List.length l.
  Proof. apply number_from_length. Qed.
  Lemma number_from_keys i l k : In k (map fst (number_from i l)) -> Z.of_nat i + 1 <= k <= Z.of_nat i + Z.of_nat (List.length l).
  Proof.
    revert i. induction l as [|x r IH]; intro i; [intros []|].
    unfold number_from in *. cbn [List.length seq map combine fst In]. intros [H|H]; [lia|].
    apply IH in H. lia.
  Qed.
  Lemma number_keys l k : In k (map fst (number l)) -> 1 <= k <= Z.of_nat (List.length l).
  Proof. intro H. apply (number_from_keys 0) in H. lia. Qed.
  Lemma zassoc_number_from i l (j:nat) d : (j < List.length l)%nat ->
    zassoc (Z.of_nat (i + j) + 1) (number_from i l) = Some (nth j l d).
  Proof.
    revert i j. induction l as [|x r IH]; intros i j H; [cbn in H; lia|].
    unfold number_from in *. cbn [List.length seq map combine zassoc].
    destruct j as [|j].
    - rewrite Nat.add_0_r, Z.eqb_refl. reflexivity.
    - replace (Z.of_nat i + 1 =? Z.of_nat (i + S j) + 1) with false by (symmetry; apply Z.eqb_neq; lia).
      replace (i + S j)%nat with (S i + j)%nat by lia. cbn [nth]. apply IH. cbn [List.length] in H. lia.
  Qed.
  Lemma zassoc_number l (j:nat) d : (j < List.length l)%nat -> zassoc (Z.of_nat j + 1) (number l) = Some (nth j l d).
  Proof. apply (zassoc_number_from 0). Qed.

  (* the loop `if p x: n += 1; acc[n] = f x` *)
  Lemma fold_number (p:B -> bool) (f:B -> A) l l0 :
    fold_left (fun acc x => if p x then (acc ++ [(Z.of_nat (List.length acc) + 1, f x)])%list else acc) l (number l0)
    = number (l0 ++ map f (filter p l)).
  Proof.
    revert l0. induction l as [|x r IH]; intro l0; cbn [fold_left filter map].
    - now rewrite app_nil_r.
    - destruct (p x); [|apply IH].
      rewrite number_length, <- number_app, IH. cbn [map]. now rewrite <- app_assoc.
  Qed.
  (* the loop `if p x: acc.append(f x)` *)
  Lemma fold_append (p:B -> bool) (f:B -> A) l l0 :
    fold_left (fun acc x => if p x then (acc ++ [f x])%list else acc) l l0 = (l0 ++ map f (filter p l))%list.
  Proof.
    revert l0. induction l as [|x r IH]; intro l0; cbn [fold_left filter map].
    - now rewrite app_nil_r.
    - destruct (p x); [|apply IH]. rewrite IH. cbn [map]. now rewrite <- app_assoc.
  Qed.
  (* the loop `idx += 1; if tb idx: hits.append(x)` against filtering the numbered list *)
  Lemma fold_hits (tb:Z -> bool) (l:list A) (i:nat) (h:list A) :
    fold_left (fun (st:nat * list A) x => (S (fst st), if tb (Z.of_nat (fst st) + 1) then (snd st ++ [x])%list else snd st)) l (i, h)
    = ((i + List.length l)%nat, (h ++ map snd (filter (fun '(idx, _) => tb idx) (number_from i l)))%list).
  Proof.
    revert i h. induction l as [|x r IH]; intros i h; cbn [fold_left fst snd].
    - cbn. now rewrite Nat.add_0_r, app_nil_r.
    - rewrite IH. unfold number_from. cbn [List.length seq map combine filter].
      replace (S i + List.length r)%nat with (i + S (List.length r))%nat by lia.
      destruct (tb (Z.of_nat i + 1)); [|reflexivity]. cbn [map snd]. now rewrite <- app_assoc.
  Qed.
  (* iterating over positions and subscripting = iterating over the elements *)
  Lemma fold_seq_nth_gen {C} (f:C -> A -> C) d pre l c :
    fold_left (fun c j => f c (nth j (pre ++ l) d)) (seq (List.length pre) (List.length l)) c = fold_left f l c.
  Proof.
    revert pre c. induction l as [|x r IH]; intros pre c; [reflexivity|].
    cbn [List.length seq fold_left]. rewrite nth_middle.
    replace (pre ++ x :: r)%list with ((pre ++ [x]) ++ r)%list by (now rewrite <- app_assoc).
    replace (S (List.length pre)) with (List.length (pre ++ [x])) by (rewrite app_length; cbn; lia).
    apply IH.
  Qed.
  Lemma fold_seq_nth {C} (f:C -> A -> C) d l c :
    fold_left (fun c j => f c (nth j l d)) (seq 0 (List.length l)) c = fold_left f l c.
  Proof. apply (fold_seq_nth_gen f d []). Qed.
End Lists.

Lemma fold_flat_map {A B C} (f:C -> B -> C) (g:A -> list B) l c :
  fold_left f (flat_map g l) c = fold_left (fun c x => fold_left f (g x) c) l c.
Proof.
  revert c. induction l as [|x r IH]; intro c; [reflexivity|].
  cbn [flat_map fold_left]. rewrite fold_left_app. apply IH.
Qed.
Lemma fold_left_ext_in {A B} (f g:A -> B -> A) l a : (forall a x, In x l -> f a x = g a x) -> fold_left f l a = fold_left g l a.
Proof.
  revert a. induction l as [|x r IH]; intros a H; [reflexivity|].
  cbn [fold_left]. rewrite H by (left; reflexivity). apply IH. intros; apply H; right; assumption.
Qed.


(* ================= Model.getsatcellmaps in named pieces ================= *)
Section Gsm.
  Variable T : tables.
  Definition gsm_sats (df394:Z) : list Z := filter (fun idx => Z.testbit df394 (64 - idx)) (zrange 65).
  Definition gsm_satlab (prnmap:list (Z*string)) (idx:Z) : string := match zassoc idx prnmap with Some s => s | None => t_na T end.
  Definition gsm_satlabels prnmap df394 : list string := map (gsm_satlab prnmap) (gsm_sats df394).
  Definition gsm_sigids (df395:Z) : list Z := filter (fun idx => Z.testbit df395 (32 - idx)) (zrange 33).
  Definition gsm_siglab (sigmap:list (Z*(string*string))) (sigcode:bool) (idx:Z) : string :=
    let sgc := match zassoc idx sigmap with Some p => p | None => (t_na T, t_na T) end in if sigcode then snd sgc else fst sgc.
  Definition gsm_sigs sigmap sigcode df395 : list string := map (gsm_siglab sigmap sigcode) (gsm_sigids df395).
  Definition gsm_pairs (satlabels sigs:list string) : list (string*string) := flat_map (fun s => map (fun g => (s, g)) sigs) satlabels.
  Definition gsm_hits (satlabels sigs:list string) (df396:Z) : list (string*string) :=
    let ncells := Z.of_nat (List.length satlabels) * Z.of_nat (List.length sigs) in
    map snd (filter (fun '(idx, _) => Z.testbit df396 (ncells - idx)) (number (gsm_pairs satlabels sigs))).
  Definition gsm_result (o:obj) prnmap sigmap df394 df395 df396 : obj :=
    let sl := gsm_satlabels prnmap df394 in
    let sg := gsm_sigs sigmap (negb (o_labelmsm o =? 2)) df395 in
    with_maps o (number sl) (number (gsm_hits sl sg df396)).

  Lemma getsatcellmaps_eq ident o :
    getsatcellmaps T ident o =
    match assoc (substring 0 3 ident) (t_prnsig T) with
    | None => Foreign XKey
    | Some (prnmap, sigmap) =>
        do df394 <- getint o "DF394"; do df395 <- getint o "DF395"; do df396 <- getint o "DF396";
        Ok (gsm_result o prnmap sigmap df394 df395 df396)
    end.
  Proof.
    unfold getsatcellmaps. destruct (assoc (substring 0 3 ident) (t_prnsig T)) as [[pm sm]|]; [|reflexivity].
    destruct (getint o "DF394") as [a| | |]; cbn [obind]; [|reflexivity..].
    destruct (getint o "DF395") as [b| | |]; cbn [obind]; [|reflexivity..].
    destruct (getint o "DF396") as [c| | |]; cbn [obind]; [|reflexivity..].
    unfold gsm_result, gsm_hits, gsm_pairs, gsm_sigs, gsm_satlabels, gsm_sigids, gsm_sats, gsm_siglab, gsm_satlab, number. cbv zeta.
    rewrite (map_length (@snd Z (string*string))). reflexivity.
  Qed.

  Definition gsm_ncells prnmap sigmap (sigcode:bool) (df394 df395:Z) : nat :=
    (List.length (gsm_satlabels prnmap df394) * List.length (gsm_sigs sigmap sigcode df395))%nat.
  Lemma gsm_ncells_eq prnmap sigmap sigcode df394 df395 :
    gsm_ncells prnmap sigmap sigcode df394 df395 = (List.length (gsm_satlabels prnmap df394) * List.length (gsm_sigs sigmap sigcode df395))%nat.
  Proof. reflexivity. Qed.
  (* what the source does: DF396 is read inside the nested loop only, i.e. only if some (satellite, signal) pair exists *)
  Definition getsatcellmaps_lazy (ident:string) (o:obj) : outcome obj :=
    match assoc (substring 0 3 ident) (t_prnsig T) with
    | None => Foreign XKey
    | Some (prnmap, sigmap) =>
        do df394 <- getint o "DF394"; do df395 <- getint o "DF395";
        do df396 <- (if Nat.eqb (gsm_ncells prnmap sigmap (negb (o_labelmsm o =? 2)) df394 df395) 0 then Ok 0 else getint o "DF396");
        Ok (gsm_result o prnmap sigmap df394 df395 df396)
    end.

  Lemma gsm_pairs_length sl sg : List.length (gsm_pairs sl sg) = (List.length sl * List.length sg)%nat.
  Proof.
    unfold gsm_pairs. induction sl as [|s r IH]; [reflexivity|].
    cbn [flat_map List.length]. rewrite app_length, map_length, IH. reflexivity.
  Qed.
  Lemma gsm_result_none o pm sm a b c c' : gsm_ncells pm sm (negb (o_labelmsm o =? 2)) a b = 0%nat ->
    gsm_result o pm sm a b c = gsm_result o pm sm a b c'.
  Proof.
    intro E. rewrite gsm_ncells_eq, <- gsm_pairs_length in E. apply length_zero_iff_nil in E.
    unfold gsm_result, gsm_hits. cbv zeta. rewrite E. reflexivity.
  Qed.
  (* the only inputs on which the model (eager read) and the source (lazy read) differ *)
  Definition lazy_same (ident:string) (o:obj) : Prop :=
    match assoc (substring 0 3 ident) (t_prnsig T), getint o "DF394", getint o "DF395" with
    | Some (prnmap, sigmap), Ok a, Ok b =>
        gsm_ncells prnmap sigmap (negb (o_labelmsm o =? 2)) a b = 0%nat ->
        exists c, getint o "DF396" = Ok c
    | _, _, _ => True
    end.
  Lemma lazy_same_eq ident o : lazy_same ident o -> getsatcellmaps_lazy ident o = getsatcellmaps T ident o.
  Proof.
    unfold lazy_same. rewrite getsatcellmaps_eq. unfold getsatcellmaps_lazy.
    destruct (assoc (substring 0 3 ident) (t_prnsig T)) as [[pm sm]|]; [|reflexivity].
    destruct (getint o "DF394") as [a| | |]; cbn [obind]; [|reflexivity..].
    destruct (getint o "DF395") as [b| | |]; cbn [obind]; [|reflexivity..].
    intro H. destruct (Nat.eqb_spec (gsm_ncells pm sm (negb (o_labelmsm o =? 2)) a b) 0) as [E|E]; [|reflexivity].
    destruct (H E) as [c ->]. cbn [obind]. apply f_equal. apply gsm_result_none. exact E.
  Qed.
  Lemma lazy_same_int ident o c : getint o "DF396" = Ok c -> lazy_same ident o.
  Proof.
    intro H. unfold lazy_same. destruct (assoc _ _) as [[pm sm]|]; [|exact I].
    destruct (getint o "DF394"); try exact I. destruct (getint o "DF395"); try exact I. intros _. eauto.
  Qed.
End Gsm.

(* ================= values ================= *)
(* x >> n & 1 as a truth value *)
Lemma shr_and1 z n : 0 <= n -> negb (Z.land (Z.shiftr z n) 1 =? 0) = Z.testbit z n.
Proof.
  intro H. change 1 with (Z.ones 1). rewrite Z.land_ones by lia. change (2 ^ 1) with 2.
  rewrite <- Z.bit0_mod, Z.shiftr_spec by lia. rewrite Z.add_0_l.
  destruct (Z.testbit z n); reflexivity.
Qed.

Section Dicts.
  Notation dict_get := (dict_get dob).
  Notation dict_set := (dict_set dob).
  Variable B : Type.
  Variable G : B -> val dob.
  Let ent (kv:Z * B) : val dob * val dob := (PyO.VInt (fst kv), G (snd kv)).

  Lemma dict_get_int k (l:list (Z * B)) :
    dict_get (PyO.VInt k) (map ent l) = Some (option_map G (zassoc k l)).
  Proof.
    induction l as [|[k' x] r IH]; [reflexivity|].
    cbn [map ent fst snd PyO.dict_get eq_val zassoc]. destruct (k' =? k); [reflexivity|exact IH].
  Qed.
  Lemma dict_set_fresh k v (l:list (Z * B)) : ~ In k (map fst l) ->
    dict_set (PyO.VInt k) v (map ent l) = Some (map ent l ++ [(PyO.VInt k, v)])%list.
  Proof.
    induction l as [|[k' x] r IH]; intro H; [reflexivity|].
    cbn [map ent fst snd PyO.dict_set eq_val].
    destruct (Z.eqb_spec k' k) as [->|NE]; [exfalso; apply H; left; reflexivity|].
    rewrite IH by (intro H'; apply H; right; exact H'). reflexivity.
  Qed.
  (* d[len+1] = v on a dict numbered 1..len *)
  Lemma dict_set_number (l:list B) x :
    dict_set (PyO.VInt (Z.of_nat (List.length l) + 1)) (G x) (map ent (number l)) = Some (map ent (number (l ++ [x]))).
  Proof.
    rewrite dict_set_fresh.
    - rewrite number_app, map_app. reflexivity.
    - intro H. apply number_keys in H. lia.
  Qed.
  Lemma dict_get_number (l:list B) (j:nat) d : (j < List.length l)%nat ->
    dict_get (PyO.VInt (Z.of_nat j + 1)) (map ent (number l)) = Some (Some (G (nth j l d))).
  Proof. intro H. rewrite dict_get_int, (zassoc_number l j d H). reflexivity. Qed.
End Dicts.

Lemma satmap_val_eq l : satmap_val (Some l) = VDict (map (fun kv => (PyO.VInt (fst kv), PyO.VStr (snd kv))) l).
Proof. reflexivity. Qed.
Lemma cellmap_val_eq l :
  cellmap_val (Some l) = VDict (map (fun kv => (PyO.VInt (fst kv), VTuple [PyO.VStr (fst (snd kv)); PyO.VStr (snd (snd kv))])) l).
Proof. reflexivity. Qed.

(* l[j] for a position inside the list *)
Lemma index_list_nth (l:list (val dob)) (j:nat) d : (j < List.length l)%nat -> index_list dob l (Z.of_nat j) = ROk (nth j l d).
Proof.
  intro H. unfold index_list, list_pos.
  replace (Z.of_nat j <? 0) with false by (symmetry; apply Z.ltb_ge; lia).
  replace (Z.of_nat j <? Z.of_nat (List.length l)) with true by (symmetry; apply Z.ltb_lt; lia).
  rewrite Nat2Z.id, (nth_error_nth' l d H). reflexivity.
Qed.

(* setting an attribute twice *)
Lemma setattr_twice x v w (a:env dob) : PyO.setattr dob x v (PyO.setattr dob x w a) = PyO.setattr dob x v a.
Proof.
  induction a as [|[k u] r IH]; cbn [PyO.setattr].
  - now rewrite String.eqb_refl.
  - destruct (String.eqb k x) eqn:E; cbn [PyO.setattr]; rewrite E; [reflexivity|]. now rewrite IH.
Qed.

(* ================= the environment on the calls these methods make ================= *)
Section ExtEqs.
  Variable T : tables.
  Notation ext := (msgdec_ext T).
  Lemma ext_prnsig k w :
    ext {| c_name := "PRNSIGMAP[]"; c_kw := [] |} [VStr k] w =
    (match assoc k (t_prnsig T) with
     | Some (pm, sm) => ROk (VTuple [VOpq (DPrn pm); VOpq (DSig sm)])
     | None => RExc "KeyError" end, tt).
  Proof. reflexivity. Qed.
  Lemma ext_prn_get m i d w :
    ext {| c_name := ".get"; c_kw := [] |} [VOpq (DPrn m); PyO.VInt i; d] w = (ROk (match zassoc i m with Some x => VStr x | None => d end), tt).
  Proof. reflexivity. Qed.
  Lemma ext_sig_get m i d w :
    ext {| c_name := ".get"; c_kw := [] |} [VOpq (DSig m); PyO.VInt i; d] w =
    (ROk (match zassoc i m with Some (a, b) => VTuple [VStr a; VStr b] | None => d end), tt).
  Proof. reflexivity. Qed.
  Lemma ext_fields k w :
    ext {| c_name := "RTCM_DATA_FIELDS[]"; c_kw := [] |} [VStr k] w =
    (match find_field T k with
     | Some fd => match res_val (df_res fd) with
                  | ROk r => ROk (VTuple [VStr (dtype_name (df_ty fd)); PyO.VInt (df_bits fd); r; VStr (df_desc fd)])
                  | RExc c' => RExc c' | RFail f => RFail f end
     | None => RExc "KeyError" end, tt).
  Proof. reflexivity. Qed.
End ExtEqs.

(* ================= small list facts for the loops ================= *)
Lemma fold_last_seq {V} (inj:nat -> V) n u : fold_left (fun _ x => inj x) (seq 0 (S n)) u = inj n.
Proof.
  rewrite seq_S, fold_left_app. reflexivity.
Qed.
Lemma fold_last_seq0 {V} (inj:nat -> V) n u : fold_left (fun _ x => inj x) (seq 0 n) u = match n with O => u | S k => inj k end.
Proof. destruct n; [reflexivity|apply fold_last_seq]. Qed.
Lemma filter_map_comm {A B} (p:B -> bool) (g:A -> B) l : filter p (map g l) = map g (filter (fun x => p (g x)) l).
Proof. induction l as [|x r IH]; [reflexivity|]. cbn [map filter]. destruct (p (g x)); cbn [map]; now rewrite IH. Qed.
Lemma seq_bound s n : Forall (fun i => (i < s + n)%nat) (seq s n).
Proof. apply Forall_forall. intros i H. apply in_seq in H. lia. Qed.
Lemma map_snoc {A B} (f:A -> B) l x : (map f l ++ [f x])%list = map f (l ++ [x]).
Proof. now rewrite map_app. Qed.

(* ================= the nested loop of _getsatcellmaps as a fold ================= *)
Section HitFold.
  Variable tb : Z -> bool.
  Definition hit_step (st:nat * list (string*string)) (p:string*string) : nat * list (string*string) :=
    (S (fst st), if tb (Z.of_nat (fst st) + 1) then (snd st ++ [p])%list else snd st).
  Lemma fold_left_map' {A B C} (f:C -> B -> C) (g:A -> B) l c : fold_left f (map g l) c = fold_left (fun c x => f c (g x)) l c.
  Proof. revert c. induction l as [|x r IH]; intro c; [reflexivity|]. cbn [map fold_left]. apply IH. Qed.
  Lemma hit_fold_fst {X} (g:X -> string*string) l st : fst (fold_left (fun st x => hit_step st (g x)) l st) = (fst st + List.length l)%nat.
  Proof.
    revert st. induction l as [|x r IH]; intro st; cbn [fold_left List.length]; [lia|].
    rewrite IH. cbn [hit_step fst]. lia.
  Qed.
  Lemma hit_fold_nested (sl sg:list string) st :
    fold_left (fun st k => fold_left (fun st j => hit_step st (nth k sl "", nth j sg "")) (seq 0 (List.length sg)) st) (seq 0 (List.length sl)) st
    = fold_left hit_step (gsm_pairs sl sg) st.
  Proof.
    unfold gsm_pairs. rewrite fold_flat_map.
    rewrite <- (fold_seq_nth (fun st s => fold_left hit_step (map (fun g => (s, g)) sg) st) "" sl).
    apply fold_left_ext_in. intros st' k _.
    rewrite fold_left_map'. apply (fold_seq_nth (fun st g => hit_step st (nth k sl "", g)) "" sg).
  Qed.
End HitFold.
Lemma gsm_loop3_fold (sl sg:list string) (c:Z) :
  let tb := fun x => Z.testbit c (Z.of_nat (List.length sl) * Z.of_nat (List.length sg) - x) in
  fold_left (fun st k => fold_left (fun st j => hit_step tb st (nth k sl "", nth j sg "")) (seq 0 (List.length sg)) st) (seq 0 (List.length sl)) (0%nat, [])
  = ((List.length sl * List.length sg)%nat, gsm_hits sl sg c).
Proof.
  intro tb. rewrite hit_fold_nested. unfold hit_step. rewrite (fold_hits tb). cbn [app Nat.add].
  rewrite gsm_pairs_length. reflexivity.
Qed.

Lemma dict_set_cell (l:list (string*string)) x y :
  dict_set dob (PyO.VInt (Z.of_nat (List.length l) + 1)) (VTuple [PyO.VStr x; PyO.VStr y])
    (map (fun kv : Z * (string * string) => (PyO.VInt (fst kv), VTuple [PyO.VStr (fst (snd kv)); PyO.VStr (snd (snd kv))])) (number l))
  = Some (map (fun kv : Z * (string * string) => (PyO.VInt (fst kv), VTuple [PyO.VStr (fst (snd kv)); PyO.VStr (snd (snd kv))])) (number (l ++ [(x, y)]))).
Proof. exact (dict_set_number (string*string) (fun p => VTuple [PyO.VStr (fst p); PyO.VStr (snd p)]) l (x, y)). Qed.

(* a data attribute of the model, read in a related store *)
Lemma store_rel_attr a o n : store_rel a o -> existsb (String.eqb n) fixed_names = false ->
  match assoc n (o_attrs o) with
  | None => lookup dob n a = None
  | Some (Types.VInt z) => lookup dob n a = Some (PyO.VInt z)
  | Some (Types.VFloat f) => lookup dob n a = Some (PyO.VFloat f)
  | Some (Types.VStr s) => (exists t, s = codes t /\ lookup dob n a = Some (PyO.VStr t)) \/ lookup dob n a = Some (PyO.VUStr s)
  end.
Proof.
  intros SR Hn. pose proof (store_rel_lookup a o n SR Hn) as R. unfold look_rel in R.
  destruct (lookup dob n a) as [v|], (assoc n (o_attrs o)) as [mv|]; try contradiction; [|reflexivity].
  inversion R; subst; try reflexivity; [left; eauto|right; reflexivity].
Qed.

(* s[0:k] *)
Lemma slice_str_0_to t (k:nat) : slice_str t (Some 0) (Some (Z.of_nat k)) = substring 0 k t.
Proof.
  unfold slice_str, clamp. change (0 <? 0) with false. cbv iota. rewrite of_nat_ltb0, Nat2Z.id.
  change (Z.to_nat 0) with 0%nat. rewrite Nat.min_0_l, Nat.sub_0_r. apply substring_min.
Qed.

(* no mask attribute holds a str (a str made by chr() shifted by an int is not spelled out in PyO: RFail, where CPython raises TypeError) *)
Definition masks_plain (o:obj) : Prop :=
  forall k, In k ["DF394"; "DF395"; "DF396"] -> forall s, assoc k (o_attrs o) <> Some (Types.VStr s).

(* ================= Model.set_single in named pieces, the _getsatcellmaps call a parameter ================= *)
Section SingleGen.
  Variable T : tables.
  Definition single_asiz (anam:string) (fd:dfield) (o:obj) : outcome Z :=
    if String.eqb anam "DF396"
    then (do a <- getint o (t_nsat T); do b <- getint o (t_nsig T); Ok (a*b)%Z)
    else Ok (df_bits fd).
  Definition single_value (fd:dfield) (asiz:Z) (index:list Z) (o:obj) (offset:Z) : outcome (value * option N) :=
    match df_ty fd with
    | TPRN => do i <- first_index index;
              match o_satmap o with None => Foreign XType | Some m =>
                match zassoc i m with Some x => Ok (Types.VStr (codes x), None) | None => Foreign XKey end end
    | TCPR => do i <- first_index index;
              match o_cellmap o with None => Foreign XType | Some m =>
                match zassoc i m with Some x => Ok (Types.VStr (codes (fst x)), None) | None => Foreign XKey end end
    | TCSG => do i <- first_index index;
              match o_cellmap o with None => Foreign XType | Some m =>
                match zassoc i m with Some x => Ok (Types.VStr (codes (snd x)), None) | None => Foreign XKey end end
    | _ =>
      do bits <- get_bits (o_payloadi o) (8 * Z.of_nat (List.length (o_payload o)))%Z offset asiz;
      let zb := Z.of_N bits in
      match df_ty fd with
      | TSNT =>
          if (asiz <? 1)%Z then Foreign XValue else
          let msb := (2^(asiz-1))%Z in
          let mag := Z.land zb (msb - 1) in
          let val := if (Z.land zb msb =? 0)%Z then mag else (- mag)%Z in
          do v <- scale val (df_res fd); Ok (v, Some bits)
      | TINT =>
          if (asiz <? 1)%Z then Foreign XValue else
          let msb := (2^(asiz-1))%Z in
          let val := if (Z.land zb msb =? 0)%Z then zb else (zb - 2^asiz)%Z in
          do v <- scale val (df_res fd); Ok (v, Some bits)
      | TCHA =>
          if (1114112 <=? bits)%N then Foreign XValue
          else if res_is_unit (df_res fd) then Ok (Types.VStr [bits], Some bits)
          else Unmodelled "scaled CHA"
      | TSTR =>
          if (bits =? 0)%N then Ok (Types.VStr [], Some bits)
          else if (1114112 <=? bits)%N then Foreign XValue else Ok (Types.VStr [bits], Some bits)
      | _ => do v <- scale zb (df_res fd); Ok (v, Some bits)
      end
    end.
  Definition single_store (fd:dfield) (anam anami:string) (val:value) (o:obj) : outcome obj :=
    match df_ty fd with
    | TSTR =>
        match assoc anam (o_attrs o), val with
        | None, _ => Message.setattr o anam val
        | Some (Types.VStr old), Types.VStr new => Message.setattr o anam (Types.VStr (old ++ new)%list)
        | Some _, _ => Foreign XType
        end
    | _ => Message.setattr o anami val
    end.
  Definition single_extras (gsm:obj -> outcome obj) (anam:string) (obits:option N) (o1:obj) : outcome obj :=
    if String.eqb anam "DF394" || String.eqb anam "DF395" || String.eqb anam "DF396" then
      match obits with
      | None => Foreign XOther
      | Some bits =>
          let nb := Types.VInt (popcount bits) in
          if String.eqb anam "DF394" then Message.setattr o1 (t_nsat T) nb
          else if String.eqb anam "DF395" then Message.setattr o1 (t_nsig T) nb
          else do o' <- Message.setattr o1 (t_ncell T) nb; gsm o'
      end
    else Ok o1.
  Definition single_harm (anam:string) (index:list Z) (o2:obj) : outcome obj :=
    if String.eqb anam "IDF038" then
      do i <- first_index index;
      if (i <? 0)%Z then Foreign XValue else
      do n0 <- getint o2 ("IDF037_" ++ dd (Z.to_N i));
      do m0 <- getint o2 ("IDF038_" ++ dd (Z.to_N i));
      let N' := (n0 + 1)%Z in let M' := (m0 + 1)%Z in
      if (2^24 <? Z.abs N')%Z || (2^24 <? Z.abs M')%Z then Unmodelled "harmonic degree beyond exact float range" else
      let nc := (((N' + 1) * (N' + 2)) / 2 - ((N' - M') * (N' - M' + 1)) / 2)%Z in
      let ns := (nc - (N' + 1))%Z in
      do o' <- Message.setattr o2 (t_nharmc T) (Types.VInt nc); Message.setattr o' (t_nharms T) (Types.VInt ns)
    else Ok o2.
  Definition set_single_gen (gsm:obj -> outcome obj) (anam:string) (index:list Z) (s:obj*Z) : outcome (obj*Z) :=
    let '(o, offset) := s in
    match find_field T anam with
    | None => Foreign XKey
    | Some fd =>
        do asiz <- single_asiz anam fd o;
        do vb <- single_value fd asiz index o offset;
        do o1 <- single_store fd anam (render_name anam index) (fst vb) o;
        do o2 <- single_extras gsm anam (snd vb) o1;
        do o3 <- single_harm anam index o2;
        Ok (o3, (offset + asiz)%Z)
    end.
  Lemma set_single_gen_eq ident anam index s :
    set_single T ident anam index s = set_single_gen (getsatcellmaps T ident) anam index s.
  Proof.
    destruct s as [o offset]. unfold set_single, set_single_gen.
    destruct (find_field T anam) as [fd|]; [|reflexivity].
    unfold single_asiz. destruct (if String.eqb anam "DF396" then _ else _) as [asiz| | |]; cbn [obind]; [|reflexivity..].
    unfold single_value. destruct (match df_ty fd with TPRN => _ | _ => _ end) as [[val obits]| | |]; cbn [obind fst snd]; reflexivity.
  Qed.
End SingleGen.

(* ================= values of _set_attribute_single ================= *)
Lemma of_N_ones k : Z.ones (Z.of_N k) = Z.of_N (N.ones k).
Proof.
  rewrite Z.ones_equiv, N.ones_equiv, N2Z.inj_pred, N2Z.inj_pow; [reflexivity|].
  apply N.neq_0_lt_0, N.pow_nonzero. discriminate.
Qed.
(* payloadi >> sh & ((1 << asiz) - 1) *)
Lemma bits_Z p sh asiz : 0 <= sh -> 0 <= asiz ->
  Z.land (Z.shiftr (Z.of_N p) sh) (Z.shiftl 1 asiz - 1) = Z.of_N (N.land (N.shiftr p (Z.to_N sh)) (N.ones (Z.to_N asiz))).
Proof.
  intros H1 H2. change (Z.shiftl 1 asiz - 1) with (Z.ones asiz).
  rewrite <- (Z2N.id sh H1) at 1. rewrite <- (Z2N.id asiz H2) at 1.
  now rewrite MiniPyLemmas.of_N_shiftr, of_N_ones, MiniPyLemmas.of_N_land.
Qed.
Lemma get_bits_eq p L off w :
  get_bits p L off w = if (L - off - w <? 0) || (w <? 0) then Foreign XValue
                       else Ok (N.land (N.shiftr p (Z.to_N (L - off - w))) (N.ones (Z.to_N w))).
Proof. reflexivity. Qed.
Lemma shl1 n : 0 <= n -> Z.shiftl 1 n = 2 ^ n.
Proof. intro H. rewrite Z.shiftl_mul_pow2 by exact H. apply Z.mul_1_l. Qed.
Lemma sub1_ltb w : (w - 1 <? 0) = (w <? 1).
Proof. destruct (Z.ltb_spec (w - 1) 0), (Z.ltb_spec w 1); try reflexivity; lia. Qed.
Lemma mem01_int z : mem_val dob (PyO.VInt z) [PyO.VInt 0; PyO.VInt 1] = Some ((z =? 0) || (z =? 1)).
Proof.
  cbn [mem_val eq_val]. rewrite (Z.eqb_sym 0 z), (Z.eqb_sym 1 z). destruct (z =? 0); [reflexivity|]. destruct (z =? 1); reflexivity.
Qed.
Lemma float_of_Z_0 : float_of_Z 0 = 0%float. Proof. reflexivity. Qed.
Lemma float_of_Z_1 : float_of_Z 1 = 1%float. Proof. reflexivity. Qed.
Lemma mem01_float f : mem_val dob (PyO.VFloat f) [PyO.VInt 0; PyO.VInt 1] = Some ((f =? 0) || (f =? 1))%float.
Proof.
  cbn [mem_val eq_val]. change (Z.abs 0 <? 2 ^ 53) with true. change (Z.abs 1 <? 2 ^ 53) with true. cbv iota.
  rewrite float_of_Z_0, float_of_Z_1. destruct (f =? 0)%float; [reflexivity|]. destruct (f =? 1)%float; reflexivity.
Qed.
Lemma codes_app x y : codes (x ++ y) = (codes x ++ codes y)%list.
Proof. unfold codes. induction x as [|c x IH]; [reflexivity|]. cbn [append list_ascii_of_string map app]. now rewrite IH. Qed.
Lemma popcount_bits b : popcount (Z.to_N (Z.abs (Z.of_N b))) = popcount b.
Proof. rewrite Z.abs_eq by lia. now rewrite N2Z.id. Qed.
Lemma chr_ok (b:N) : (0 <=? Z.of_N b) && (Z.of_N b <? 1114112) = negb (1114112 <=? b)%N.
Proof.
  replace (0 <=? Z.of_N b) with true by (symmetry; apply Z.leb_le; lia). cbn [andb].
  destruct (N.leb_spec 1114112 b); [apply Z.ltb_ge|apply Z.ltb_lt]; lia.
Qed.

(* table side conditions for one field: the resolution is a number, and a type name the source does not know is not one it knows *)
Definition type_names : list string := ["PRN"; "CPR"; "CSG"; "SNT"; "INT"; "CHA"; "STR"].
Definition fd_ok (fd:dfield) : bool :=
  match df_res fd with RBad _ => false | _ => true end &&
  match df_ty fd with TOther s => negb (existsb (String.eqb s) type_names) | _ => true end.

(* ================= what the two methods return ================= *)
Definition gsm_post (o':obj) (v:val dob) (a':env dob) : Prop := v = VNone /\ store_rel a' o'.
Definition single_post (x:obj * Z) (v:val dob) (a':env dob) : Prop := v = PyO.VInt (snd x) /\ store_rel a' (fst x).

(* ================= the conditions on the object under which the source of _set_attribute_single is followed ================= *)
Definition int_or_absent (o:obj) (k:string) : Prop :=
  match assoc k (o_attrs o) with None | Some (Types.VInt _) => True | _ => False end.
Definition str_or_absent (o:obj) (k:string) : Prop :=
  match assoc k (o_attrs o) with None | Some (Types.VStr _) => True | _ => False end.
Definition int_or_absent_b (o:obj) (k:string) : bool :=
  match assoc k (o_attrs o) with None | Some (Types.VInt _) => true | _ => false end.
Definition str_or_absent_b (o:obj) (k:string) : bool :=
  match assoc k (o_attrs o) with None | Some (Types.VStr _) => true | _ => false end.
Definition masks_plain_b (o:obj) : bool :=
  forallb (fun k => match assoc k (o_attrs o) with Some (Types.VStr _) => false | _ => true end) ["DF394"; "DF395"; "DF396"].
Lemma int_or_absent_iff o k : int_or_absent_b o k = true <-> int_or_absent o k.
Proof. unfold int_or_absent_b, int_or_absent. destruct (assoc k (o_attrs o)) as [[| |]|]; split; auto; discriminate. Qed.
Lemma str_or_absent_iff o k : str_or_absent_b o k = true <-> str_or_absent o k.
Proof. unfold str_or_absent_b, str_or_absent. destruct (assoc k (o_attrs o)) as [[| |]|]; split; auto; discriminate. Qed.
Lemma masks_plain_iff o : masks_plain_b o = true -> masks_plain o.
Proof.
  unfold masks_plain_b, masks_plain. rewrite forallb_forall. intros H k Hk s E. specialize (H k Hk). rewrite E in H. discriminate.
Qed.

Section Guard.
  Variable T : tables.
  Definition lazy_same_b (ident:string) (o:obj) : bool :=
    match assoc (substring 0 3 ident) (t_prnsig T), getint o "DF394", getint o "DF395" with
    | Some (prnmap, sigmap), Ok a, Ok b =>
        if Nat.eqb (gsm_ncells T prnmap sigmap (negb (o_labelmsm o =? 2)) a b) 0
        then match getint o "DF396" with Ok _ => true | _ => false end
        else true
    | _, _, _ => true
    end.
  Lemma lazy_same_iff ident o : lazy_same_b ident o = true -> lazy_same T ident o.
  Proof.
    unfold lazy_same_b, lazy_same. destruct (assoc _ _) as [[pm sm]|]; [|auto].
    destruct (getint o "DF394") as [a| | |]; auto. destruct (getint o "DF395") as [b| | |]; auto.
    intros H E. rewrite E in H. cbn [Nat.eqb] in H. destruct (getint o "DF396") as [c| | |]; try discriminate. eauto.
  Qed.

  (* the dynamic side conditions of the tie of _set_attribute_single, as one test on (label, index, object, offset) *)
  Definition single_pre (ident anam:string) (index:list Z) (s:obj * Z) : bool :=
    match find_field T anam with
    | None => true
    | Some fd =>
        (match df_ty fd with TSTR => str_or_absent_b (fst s) anam | _ => true end) &&
        (if String.eqb anam "DF396" then
           int_or_absent_b (fst s) (t_nsat T) && int_or_absent_b (fst s) (t_nsig T) &&
           match set_single_gen T (fun x => Ok x) anam index s with
           | Ok (o2, _) => masks_plain_b o2 && lazy_same_b ident o2
           | _ => true
           end
         else true)
    end.
  (* set_single, "not modelled" where the tie does not reach *)
  Definition set_single_guarded (ident anam:string) (index:list Z) (s:obj * Z) : outcome (obj * Z) :=
    if single_pre ident anam index s then set_single T ident anam index s
    else Unmodelled "outside the conditions of the source tie of _set_attribute_single".

  Lemma setattr_payload o k v o' : Message.setattr o k v = Ok o' -> o_payload o' = o_payload o.
  Proof. unfold Message.setattr. destruct (o_immutable o); [discriminate|]. intro E. inversion E. reflexivity. Qed.
  Lemma single_store_payload fd anam anami v o o' : single_store fd anam anami v o = Ok o' -> o_payload o' = o_payload o.
  Proof.
    unfold single_store. destruct (df_ty fd); try apply setattr_payload.
    destruct (assoc anam (o_attrs o)) as [[| |old]|]; try discriminate; [destruct v; try discriminate|]; apply setattr_payload.
  Qed.
  (* up to the _getsatcellmaps call the payload is not touched *)
  Lemma set_single_gen_payload anam index o offset o2 off :
    anam <> "IDF038" -> set_single_gen T (fun x => Ok x) anam index (o, offset) = Ok (o2, off) -> o_payload o2 = o_payload o.
  Proof.
    intros NH. unfold set_single_gen. destruct (find_field T anam) as [fd|]; [|discriminate].
    destruct (single_asiz T anam fd o) as [asiz| | |]; cbn [obind]; try discriminate.
    destruct (single_value fd asiz index o offset) as [[mv ob]| | |]; cbn [obind fst snd]; try discriminate.
    destruct (single_store fd anam (render_name anam index) mv o) as [o1| | |] eqn:E1; cbn [obind]; try discriminate.
    apply single_store_payload in E1.
    assert (EH : String.eqb anam "IDF038" = false) by (apply String.eqb_neq; exact NH).
    unfold single_harm. rewrite EH.
    destruct (single_extras T (fun x => Ok x) anam ob o1) as [o2'| | |] eqn:E2; cbn [obind]; try discriminate.
    intro E. inversion E; subst. rewrite <- E1. clear E E1.
    unfold single_extras in E2. destruct (_ || _); [|inversion E2; reflexivity].
    destruct ob as [b|]; [|discriminate].
    destruct (String.eqb anam "DF394"); [exact (setattr_payload _ _ _ _ E2)|].
    destruct (String.eqb anam "DF395"); [exact (setattr_payload _ _ _ _ E2)|].
    destruct (Message.setattr o1 (t_ncell T) _) as [o'| | |] eqn:E3; cbn [obind] in E2; try discriminate.
    inversion E2; subst. exact (setattr_payload _ _ _ _ E3).
  Qed.
End Guard.

(* ================= rendered names: a label that is a data attribute name stays one ================= *)
Definition is_digit (c:ascii) : bool := (48 <=? nat_of_ascii c)%nat && (nat_of_ascii c <=? 57)%nat.
Fixpoint last_digit (s:string) : bool :=
  match s with EmptyString => false | String c EmptyString => is_digit c | String _ r => last_digit r end.
Lemma last_digit_app s t : t <> EmptyString -> last_digit (s ++ t) = last_digit t.
Proof.
  intro H. induction s as [|c s IH]; [reflexivity|]. cbn [append last_digit]. rewrite IH.
  destruct (s ++ t)%string eqn:E; [|reflexivity]. destruct s; [cbn in E; congruence|discriminate].
Qed.
Fixpoint all_digits (s:string) : bool := match s with EmptyString => true | String c r => is_digit c && all_digits r end.
Lemma all_digits_last s : s <> EmptyString -> all_digits s = true -> last_digit s = true.
Proof.
  induction s as [|c s IH]; [congruence|]. intros _ H. cbn [all_digits] in H. apply andb_true_iff in H. destruct H as [H1 H2].
  cbn [last_digit]. destruct s; [exact H1|]. apply IH; [discriminate|exact H2].
Qed.
Lemma all_digits_uint u : all_digits (DecimalString.NilEmpty.string_of_uint u) = true.
Proof. induction u; cbn; auto. Qed.
Lemma all_digits_str_of_N n : all_digits (str_of_N n) = true.
Proof.
  unfold str_of_N. destruct (N.to_uint n) eqn:E; try (cbn [DecimalString.NilZero.string_of_uint]; rewrite <- E; apply all_digits_uint || (cbn; apply all_digits_uint)).
  reflexivity.
Qed.
Lemma all_digits_pad k s : all_digits s = true -> all_digits (pad_zeros k s) = true.
Proof. intro H. induction k as [|k IH]; [exact H|]. cbn [pad_zeros all_digits]. rewrite IH. reflexivity. Qed.
Lemma last_digit_suffix i : last_digit (idx_suffix i) = true.
Proof.
  unfold idx_suffix, dd, fmt_d.
  assert (NE : pad_zeros (2 - String.length (str_of_N (Z.to_N i))) (str_of_N (Z.to_N i)) <> EmptyString)
    by (apply pad_zeros_nonempty, str_of_N_nonempty).
  rewrite last_digit_app by exact NE.
  apply all_digits_last; [exact NE|]. apply all_digits_pad, all_digits_str_of_N.
Qed.
Lemma idx_suffix_nonempty i : idx_suffix i <> EmptyString.
Proof. unfold idx_suffix. discriminate. Qed.
Lemma render_name_cases anam index : render_name anam index = anam \/ last_digit (render_name anam index) = true.
Proof.
  unfold render_name.
  assert (G : forall s, (s = anam \/ last_digit s = true) ->
              fold_left (fun s i => if 0 <? i then s ++ idx_suffix i else s) index s = anam \/
              last_digit (fold_left (fun s i => if 0 <? i then s ++ idx_suffix i else s) index s) = true).
  { induction index as [|i r IH]; intros s Q; [exact Q|]. cbn [fold_left]. apply IH.
    destruct (0 <? i); [|exact Q]. right. rewrite last_digit_app by apply idx_suffix_nonempty. apply last_digit_suffix. }
  apply G. left. reflexivity.
Qed.
Lemma existsb_last_digit n l : forallb (fun x => negb (last_digit x)) l = true -> last_digit n = true -> existsb (String.eqb n) l = false.
Proof.
  intros H L. destruct (existsb (String.eqb n) l) eqn:E; [|reflexivity].
  apply existsb_exists in E. destruct E as (x & I & E). apply String.eqb_eq in E. subst x.
  rewrite forallb_forall in H. specialize (H n I). rewrite L in H. discriminate.
Qed.
(* no fixed attribute and no name bound in the class ends in a digit (checked on the translated class): indexed labels are fine *)
Lemma name_ok_render rs anam index :
  forallb (fun x => negb (last_digit x)) (fixed_names ++ rs) = true ->
  name_ok rs anam = true -> name_ok rs (render_name anam index) = true.
Proof.
  intros H N. destruct (render_name_cases anam index) as [->|L]; [exact N|].
  rewrite forallb_app in H. apply andb_true_iff in H. destruct H as [H1 H2].
  unfold name_ok. rewrite (existsb_last_digit _ _ H1 L), (existsb_last_digit _ _ H2 L). reflexivity.
Qed.

(* ================= non-strict agreement; the guarded field step refines set_single ================= *)
(* as [agree], but nothing is claimed where the model (or the guard) says "not modelled" *)
Definition agree_ns {A} (p:bytes) (R : A -> val dob -> env dob -> Prop) (m:outcome A) (r:res (val dob) * (env dob * W)) : Prop :=
  match m with
  | Ok x => exists v a', r = (ROk v, (a', tt)) /\ R x v a'
  | Lib e => exists a', r = (RExc (liberr_class e), (a', tt)) /\ lookup dob "_payload" a' = Some (VBytes p)
  | Foreign k => exists a', r = (RExc (dec_exc_class k), (a', tt)) /\ lookup dob "_payload" a' = Some (VBytes p)
  | Unmodelled _ => True
  end.
Lemma agree_weaken {A} p (R : A -> val dob -> env dob -> Prop) m r : agree p R m r -> agree_ns p R m r.
Proof. destruct m; cbn [agree agree_ns]; auto. Qed.
Lemma set_single_guarded_refines T ident anam index s :
  match set_single_guarded T ident anam index s with
  | Unmodelled _ => True
  | other => set_single T ident anam index s = other
  end.
Proof.
  unfold set_single_guarded. destruct (single_pre T ident anam index s); [|exact I].
  destruct (set_single T ident anam index s); auto.
Qed.
Lemma find_field_In T k fd : find_field T k = Some fd -> In fd (t_fields T).
Proof. unfold find_field. intro H. apply find_some in H. tauto. Qed.
