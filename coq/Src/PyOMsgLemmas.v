(* Unfolding equations for the three PyO nodes of a class that overrides __setattr__, facts about stores, and the value
   operations the small methods of RTCMMessage use (str(int), {x:03d}, s[:4], the identity arithmetic) in the vocabulary
   of Model/Message.v.  Generic: nothing here depends on the translated source. *)
From Coq Require Import ZArith NArith List String Ascii Bool Lia.
From Coq.Strings Require Import Byte.
From PyRtcm Require Import Base.Bytes Base.Dec Model.Types Model.Message Src.PyO Src.PyOLemmas Src.PyOReaderLemmas.
From PyRtcm Require Src.MiniPyLemmas Proofs.ObjIdentity.
Import ListNotations.
Open Scope string_scope.
Open Scope Z_scope.

Section Eqs.
  Variables (Ob W : Type).
  Variable ext : callsig -> list (val Ob) -> W -> res (val Ob) * W.
  Variable M : string -> option (mcall Ob W).
  Variable wfuel : nat.
  Notation eval := (eval Ob W ext M).
  Notation eval_list := (eval_list Ob W ext M).
  Notation exec := (exec Ob W ext M wfuel).
  Notation exec_list := (exec_list Ob W ext M wfuel).
  Notation state := (state Ob W).

  Lemma eval_str t (s:state) : eval (EStr t) s = (ROk (VStr t), s).
  Proof. reflexivity. Qed.

  (* self.a when the attribute is known *)
  Lemma eval_self_some a v l sf (w:W) :
    lookup Ob a sf = Some v -> eval (ESelf a) {| locals := l; self := sf; world := w |} = (ROk v, {| locals := l; self := sf; world := w |}).
  Proof. intro H. rewrite eval_self. cbn [self]. now rewrite H. Qed.

  Lemma eval_or a b (s:state) :
    eval (EOr a b) s = match eval a s with
                       | (ROk va, s1) => match truth Ob va with
                                         | ROk true => (ROk va, s1)
                                         | ROk false => eval b s1
                                         | RExc c => (RExc c, s1) | RFail f => (RFail f, s1) end
                       | other => other end.
  Proof. reflexivity. Qed.

  (* setattr(self, name, v) / self.name = v in a class that overrides __setattr__ *)
  Lemma eval_setattr_self reserved en ev (s:state) :
    eval (ESetattrSelf reserved en ev) s =
      match eval en s with
      | (ROk (VStr n), s1) =>
          match eval ev s1 with
          | (ROk v, s2) =>
              if existsb (String.eqb n) reserved then (RFail (FUnmodelled "setattr of a name bound in the class"), s2) else
              match M "__setattr__" with
              | None => (RFail (FNoMethod "__setattr__"), s2)
              | Some g => let '(r, (a', w')) := g [VStr n; v] (self Ob W s2) (world Ob W s2) in
                          (r, {| locals := locals Ob W s2; self := a'; world := w' |})
              end
          | other => other
          end
      | (ROk _, s1) => (RFail (FUnmodelled "setattr name"), s1)
      | other => other
      end.
  Proof. reflexivity. Qed.

  (* super().__setattr__(name, v) *)
  Lemma eval_super_setattr en ev (s:state) :
    eval (ESuperSetattr en ev) s =
      match eval en s with
      | (ROk (VStr n), s1) =>
          match eval ev s1 with
          | (ROk v, s2) => (ROk VNone, set_self Ob W (setattr Ob n v (self Ob W s2)) s2)
          | other => other
          end
      | (ROk _, s1) => (RFail (FUnmodelled "setattr name"), s1)
      | other => other
      end.
  Proof. reflexivity. Qed.

  Lemma eval_getattr_self reserved en ed (s:state) :
    eval (EGetattrSelf reserved en ed) s =
      match eval en s with
      | (ROk (VStr n), s1) =>
          let dflt := match ed with
                      | None => (ROk None, s1)
                      | Some d => match eval d s1 with
                                  | (ROk v, s2) => (ROk (Some v), s2)
                                  | (RExc c, s2) => (RExc c, s2) | (RFail f, s2) => (RFail f, s2) end
                      end in
          match dflt with
          | (ROk dv, s2) =>
              if existsb (String.eqb n) reserved then (RFail (FUnmodelled "getattr of a name bound in the class"), s2) else
              match lookup Ob n (self Ob W s2) with
              | Some v => (ROk v, s2)
              | None => match dv with Some v => (ROk v, s2) | None => (RExc "AttributeError", s2) end
              end
          | (RExc c, s2) => (RExc c, s2) | (RFail f, s2) => (RFail f, s2)
          end
      | (ROk _, s1) => (RFail (FUnmodelled "getattr name"), s1)
      | other => other
      end.
  Proof. reflexivity. Qed.
End Eqs.

(* ================= stores ================= *)
Section Stores.
  Variable Ob : Type.
  Lemma lookup_setattr_same x v (a:env Ob) : lookup Ob x (setattr Ob x v a) = Some v.
  Proof.
    induction a as [|[k w] r IH]; cbn [setattr lookup].
    - now rewrite String.eqb_refl.
    - destruct (String.eqb k x) eqn:E; cbn [lookup]; rewrite E; [reflexivity|exact IH].
  Qed.
  Lemma lookup_setattr_other x y v (a:env Ob) : String.eqb x y = false -> lookup Ob y (setattr Ob x v a) = lookup Ob y a.
  Proof.
    intro H. induction a as [|[k w] r IH]; cbn [setattr lookup].
    - now rewrite H.
    - destruct (String.eqb k x) eqn:E; cbn [lookup].
      + apply String.eqb_eq in E. subst k. now rewrite H.
      + destruct (String.eqb k y); [reflexivity|exact IH].
  Qed.
End Stores.

(* ================= values ================= *)
(* b[k] beyond the end *)
Lemma index_oob (Ob:Type) (b:bytes) (k:nat) : (List.length b <= k)%nat -> index_bytes Ob b (Z.of_nat k) = RExc "IndexError".
Proof.
  intro H. unfold index_bytes.
  assert (E : nth_error b k = None) by (apply nth_error_None; exact H).
  destruct (Z.of_nat k) eqn:Ek; try lia.
  - replace k with 0%nat in * by lia. change (Z.to_nat 0) with 0%nat. now rewrite E.
  - rewrite <- Ek, Nat2Z.id. now rewrite E.
Qed.

(* "x in s" is the same function in the interpreter and in the model *)
Lemma str_contains_contains n h : str_contains n h = contains n h.
Proof. reflexivity. Qed.

(* s[:k] *)
Lemma substring_min k t : substring 0 (Nat.min k (String.length t)) t = substring 0 k t.
Proof.
  revert k. induction t as [|c t IH]; intro k.
  - destruct k; reflexivity.
  - destruct k as [|k]; [reflexivity|]. cbn [String.length Nat.min substring]. now rewrite IH.
Qed.
Lemma slice_str_to t (k:nat) : slice_str t None (Some (Z.of_nat k)) = substring 0 k t.
Proof.
  unfold slice_str, clamp. rewrite of_nat_ltb0, Nat2Z.id, Nat.sub_0_r. apply substring_min.
Qed.

(* a + b + c on str *)
Lemma app_str_assoc (a b c:string) : ((a ++ b) ++ c)%string = (a ++ b ++ c)%string.
Proof. induction a as [|x a IH]; [reflexivity|]. cbn [append]. now rewrite IH. Qed.

(* str(n), f"{n:03d}" for the numbers in an identity *)
Lemma small_below_limit : 4096 <= 10 ^ 4300.
Proof. change 4096 with (2 ^ 12). transitivity (10 ^ 12); [vm_compute; discriminate|]. apply Z.pow_le_mono_r; lia. Qed.
Lemma strof_small (Ob:Type) n : (n < 4096)%N -> builtin_val Ob BStrOf [VInt (Z.of_N n)] = ROk (VStr (str_of_N n)).
Proof.
  intro H. cbn [builtin_val].
  replace (Z.abs (Z.of_N n) <? 10 ^ 4300) with true.
  - now rewrite MiniPyLemmas.str_of_Z_of_N.
  - symmetry. apply Z.ltb_lt. pose proof small_below_limit as L. revert L. generalize (10 ^ 4300). intros lim L.
    rewrite Z.abs_eq by lia. lia.
Qed.
Lemma strof_str (Ob:Type) t : builtin_val Ob BStrOf [VStr t] = ROk (VStr t).
Proof. reflexivity. Qed.
Lemma fmtd_small (Ob:Type) w n : (n < 4096)%N -> builtin_val Ob (BFmtD w) [VInt (Z.of_N n)] = ROk (VStr (fmt_d w n)).
Proof.
  intro H. cbn [builtin_val].
  replace ((0 <=? Z.of_N n) && (Z.of_N n <? 10 ^ 4300)) with true.
  - now rewrite N2Z.id.
  - symmetry. apply andb_true_iff. split; [apply Z.leb_le; lia|]. apply Z.ltb_lt.
    pose proof small_below_limit as L. revert L. generalize (10 ^ 4300). intros lim L. lia.
Qed.

(* payload[0] << 4 | payload[1] >> 4   and   (payload[1] & 1) << 7 | payload[2] >> 1 *)
Lemma msgnum_Z (b0 b1:byte) :
  Z.lor (Z.shiftl (Z.of_N (bN b0)) 4) (Z.shiftr (Z.of_N (bN b1)) 4) = Z.of_N (msgnum b0 b1).
Proof.
  unfold msgnum. change 4 with (Z.of_N 4).
  now rewrite MiniPyLemmas.of_N_shiftl, MiniPyLemmas.of_N_shiftr, MiniPyLemmas.of_N_lor.
Qed.
Lemma subtype_Z (b1 b2:byte) :
  Z.lor (Z.shiftl (Z.land (Z.of_N (bN b1)) 1) 7) (Z.shiftr (Z.of_N (bN b2)) 1) = Z.of_N (subtype b1 b2).
Proof.
  unfold subtype. change 7 with (Z.of_N 7). change 1 with (Z.of_N 1).
  now rewrite MiniPyLemmas.of_N_land, MiniPyLemmas.of_N_shiftl, MiniPyLemmas.of_N_shiftr, MiniPyLemmas.of_N_lor.
Qed.
Lemma msgnum_lt b0 b1 : (msgnum b0 b1 < 4096)%N.
Proof. apply ObjIdentity.msgnum_lt. Qed.
Lemma subtype_lt b1 b2 : (subtype b1 b2 < 4096)%N.
Proof. pose proof (ObjIdentity.subtype_lt b1 b2). lia. Qed.
Lemma of_N_eqb_const a b : (Z.of_N a =? Z.of_N b) = N.eqb a b.
Proof. apply MiniPyLemmas.of_N_eqb. Qed.

(* identity only ever fails with IndexError *)
Lemma identity_cases p : (exists i, identity p = Ok i) \/ identity p = Foreign XIndex.
Proof.
  destruct p as [|b0 [|b1 r]]; [right; reflexivity|right; reflexivity|].
  cbn [identity]. destruct (N.eqb (msgnum b0 b1) 4076); [destruct r|]; eauto.
Qed.

(* len(p) < k on literals *)
Lemma len_ltb (p:bytes) (k:nat) : (Z.of_nat (List.length p) <? Z.of_nat k) = Nat.ltb (List.length p) k.
Proof. apply of_nat_ltb. Qed.
