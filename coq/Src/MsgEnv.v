(* The environment in which the translated source of the small methods of rtcmmessage.RTCMMessage
     __init__, __setattr__, identity, payload, ismsm, _get_dict, _do_unknown, serialize
   (PyRtcmGen.SrcOMsg, interpreted by Src/PyO.v) is run by run/SrcMsg_inst.v: what the module-level tables and the two
   helper functions mean, and how the results of the hand-written model (Model/Message.v) read as interpreter results.
   Definitions only; part of the statement of the source tie for the message class. *)
From Coq Require Import ZArith NArith List String Bool.
From Coq.Strings Require Import Byte.
From PyRtcm Require Import Base.Bytes Model.Types Model.Crc Model.Message Src.PyO Src.ReaderEnv.
Import ListNotations.
Open Scope string_scope.
Open Scope Z_scope.

(* opaque objects: the payload layouts (dict values) that RTCM_PAYLOADS_GET*.get hands out *)
Definition Ob : Type := body.
(* the tables are immutable module constants and the helpers are pure: the world has no state *)
Definition W : Type := unit.

(* dict.get(k, None) *)
Definition optv (o:option body) : val Ob := match o with Some b => VOpq b | None => VNone end.

Section MsgEnv.
Variable T : tables.

Definition dict_get (d:list (string * body)) (args:list (val Ob)) : res (val Ob) :=
  match args with
  | [VStr k; VNone] => ROk (optv (assoc k d))
  | _ => RFail (FUnmodelled "dict.get arguments")
  end.

(* int.to_bytes raises OverflowError when the number does not fit *)
Definition to_bytes_res (o:option bytes) : res (val Ob) :=
  match o with Some b => ROk (VBytes b) | None => RExc "OverflowError" end.

Definition msg_ext (cs:callsig) (args:list (val Ob)) (w:W) : res (val Ob) * W :=
  let nm := c_name cs in
  match c_kw cs with
  | [] =>
      if String.eqb nm "RTCM_MSGIDS[]" then                       (* RTCM_MSGIDS[k] *)
        match args with
        | [VStr k] => (match assoc k (t_msgids T) with Some d => ROk (VStr d) | None => RExc "KeyError" end, w)
        | _ => (RFail (FUnmodelled "RTCM_MSGIDS[] arguments"), w)
        end
      else if String.eqb nm "RTCM_PAYLOADS_GET.get" then (dict_get (t_get T) args, w)
      else if String.eqb nm "RTCM_PAYLOADS_GET_MSM.get" then (dict_get (t_msm T) args, w)
      else if String.eqb nm "RTCM_PAYLOADS_GET_IGS.get" then (dict_get (t_igs T) args, w)
      else if String.eqb nm "len2bytes" then
        match args with
        | [VBytes p] => (to_bytes_res (len2bytes p), w)
        | _ => (RFail (FUnmodelled "len2bytes arguments"), w)
        end
      else if String.eqb nm "crc2bytes" then
        match args with
        | [VBytes m] => (to_bytes_res (crc2bytes m), w)
        | _ => (RFail (FUnmodelled "crc2bytes arguments"), w)
        end
      else (RFail (FUnmodelled "unknown callee"), w)
  | _ => (RFail (FUnmodelled "unknown callee"), w)
  end.
End MsgEnv.

(* the model's outcomes as interpreter results (exception classes: Src/ReaderEnv.v) *)
Definition img_of {A} (f:A -> val Ob) (o:outcome A) : res (val Ob) :=
  match o with
  | Ok a => ROk (f a)
  | Lib e => RExc (liberr_class e)
  | Foreign k => RExc (pyexc_class k)
  | Unmodelled why => RFail (FUnmodelled why)
  end.
Definition img_str   : outcome string -> res (val Ob) := img_of (@VStr Ob).
Definition img_bytes : outcome bytes -> res (val Ob) := img_of (@VBytes Ob).
Definition img_bool  : outcome bool -> res (val Ob) := img_of (@VBool Ob).
Definition img_dict  : outcome (option body) -> res (val Ob) := img_of optv.

(* self as RTCMMessage.__init__ has set it up when it calls self._do_attributes() *)
Definition init_store (p:bytes) (l:Z) : env Ob :=
  [("_immutable", VBool false); ("_payload", VBytes p); ("_payloadi", VInt (Z.of_N (be p)));
   ("_payblen", VInt (8 * Z.of_nat (List.length p))); ("_labelmsm", VInt l); ("_unknown", VBool false);
   ("_satmap", VNone); ("_cellmap", VNone)].
