(* The environment in which the translated source of the array helper of rtcmhelpers
     parse_msm
   (tools/gen_src2.py `arr` -> PyRtcmGen.SrcOArr, interpreted by Src/PyO.v) is run by run/SrcArr_inst.v, and how the results of the
   hand-written model (Model/Helpers.v: parse_msm) read as interpreter results.  Definitions only; part of the STATEMENT of the
   source tie for C18.

   parse_msm(msg) is a function over a message object that it does not own: `msg` is the reference [VRef "msg"], and every use the
   source makes of it is a question to the environment, answered from the model object [o : obj] and the regenerated [tables] T:
     msg.identity, msg.ismsm         -> "RTCMMessage.identity" / "RTCMMessage.ismsm": the model's obj_identity / obj_ismsm (the properties
                                        of the class, whose own source tie is run/SrcMsg_inst.v);
     msg.<name>, getattr(msg, e)     -> "getattr": the data attribute of that name (o_attrs), AttributeError when there is none;
     hasattr(msg, e)                 -> "hasattr": whether there is one;
     k in RTCM_PAYLOADS_GET_MSM      -> membership in t_msm;      GNSSMAP[k] -> the pair (gnss name, epoch attribute) or KeyError.
   A name that Python would NOT look up among the data attributes -- one bound in the body of class RTCMMessage ([reserved], read from
   the current text by the translator: methods and properties) or one of the eight fixed instance attributes __init__ assigns
   (_payload, ...) -- is not answered at all ([FUnmodelled]: never the value of a right-hand side), so the theorems have to show that
   the source never asks for one.

   A Python str value is held as [VStr] when all its code points are below 256 and as [VUStr] otherwise ([img_value]). *)
From Coq Require Import ZArith NArith List String Ascii Bool.
From PyRtcm Require Import Base.Bytes Model.Types Model.Message Model.Helpers Src.PyO Src.ReaderEnv Src.MsgDecEnv.
Import ListNotations.
Open Scope string_scope.
Open Scope Z_scope.

(* opaque objects are not used by this environment; the type is the decoder's, so that MsgDecEnv's vocabulary applies *)
Definition Ob : Type := dob.
Definition W : Type := unit.

(* ---------- values ---------- *)
Definition uncodes (u:list N) : string := string_of_list_ascii (map ascii_of_N u).
Definition img_value (v:value) : val Ob :=
  match v with
  | Types.VInt z => PyO.VInt z
  | Types.VFloat f => PyO.VFloat f
  | Types.VStr u => if forallb (fun n => (n <? 256)%N) u then PyO.VStr (uncodes u) else PyO.VUStr u
  end.

(* a model outcome as an interpreter result (exception classes: Src/ReaderEnv.v) *)
Definition img_outcome {A} (f:A -> val Ob) (r:outcome A) : res (val Ob) :=
  match r with
  | Ok a => ROk (f a)
  | Lib e => RExc (liberr_class e)
  | Foreign k => RExc (pyexc_class k)
  | Unmodelled why => RFail (FUnmodelled why)
  end.

(* the eight attributes RTCMMessage.__init__ assigns before the data attributes (MsgDecEnv.fixed_store) *)
Definition fixed_attr_names : list string :=
  ["_immutable"; "_payload"; "_payloadi"; "_payblen"; "_labelmsm"; "_unknown"; "_satmap"; "_cellmap"].

Section ArrEnv.
Variable T : tables.
Variable reserved : list string.       (* the names bound in the body of class RTCMMessage *)
Variable o : obj.                      (* the message *)

Definition hidden (n:string) : bool := existsb (String.eqb n) (reserved ++ fixed_attr_names).

Definition unm (why:string) : res (val Ob) * W := (RFail (FUnmodelled why), tt).

Definition arr_ext (c:callsig) (args:list (val Ob)) (w:W) : res (val Ob) * W :=
  let nm := c_name c in
  match c_kw c with
  | [] =>
      if String.eqb nm "RTCMMessage.identity" then
        match args with
        | [VRef r] => if String.eqb r "msg" then (img_outcome (@PyO.VStr Ob) (obj_identity o), tt) else unm "not the message object"
        | _ => unm "RTCMMessage.identity arguments"
        end
      else if String.eqb nm "RTCMMessage.ismsm" then
        match args with
        | [VRef r] => if String.eqb r "msg" then (img_outcome (@VBool Ob) (obj_ismsm T o), tt) else unm "not the message object"
        | _ => unm "RTCMMessage.ismsm arguments"
        end
      else if String.eqb nm "getattr" then
        match args with
        | [VRef r; PyO.VStr n] =>
            if negb (String.eqb r "msg") then unm "not the message object"
            else if hidden n then unm "attribute name outside the data attributes"
            else (match assoc n (o_attrs o) with Some v => ROk (img_value v) | None => RExc "AttributeError" end, tt)
        | _ => unm "getattr arguments"
        end
      else if String.eqb nm "hasattr" then
        match args with
        | [VRef r; PyO.VStr n] =>
            if negb (String.eqb r "msg") then unm "not the message object"
            else if hidden n then unm "attribute name outside the data attributes"
            else (ROk (VBool (match assoc n (o_attrs o) with Some _ => true | None => false end)), tt)
        | _ => unm "hasattr arguments"
        end
      else if String.eqb nm "RTCM_PAYLOADS_GET_MSM.__contains__" then
        match args with
        | [PyO.VStr k] => (ROk (VBool (match assoc k (t_msm T) with Some _ => true | None => false end)), tt)
        | _ => unm "RTCM_PAYLOADS_GET_MSM.__contains__ arguments"
        end
      else if String.eqb nm "GNSSMAP[]" then
        match args with
        | [PyO.VStr k] => (match assoc k (t_gnssmap T) with
                           | Some (gnss, epochkey) => ROk (VTuple [PyO.VStr gnss; PyO.VStr epochkey])
                           | None => RExc "KeyError" end, tt)
        | _ => unm "GNSSMAP[] arguments"
        end
      else unm "unknown callee"
  | _ => unm "unknown callee"
  end.

(* side condition on the tables (decided per run on the regenerated ones): no epoch attribute named in GNSSMAP is a hidden name *)
Definition gnss_ok : bool := forallb (fun e => negb (hidden (snd (snd e)))) (t_gnssmap T).
End ArrEnv.

(* ---------- the model's results as interpreter results ---------- *)
(* a dict with str keys, in insertion order *)
Definition img_dict (d:list (string * value)) : val Ob := VDict (map (fun kv => (PyO.VStr (fst kv), img_value (snd kv))) d).
Definition img_msm_out (m:msm_out) : val Ob :=
  VTuple [img_dict (m_meta m); VList (map img_dict (m_sats m)); VList (map img_dict (m_cells m))].
(* parse_msm: None, or the triple (meta, sats, cells) *)
Definition img_msm (r:outcome (option msm_out)) : res (val Ob) :=
  img_outcome (fun x => match x with None => VNone | Some m => img_msm_out m end) r.

(* the hypotheses of the source theorem, as predicates on the object *)
(* the count attribute, when present, is not a str: `msg.NSat + 1` on a str is TypeError in CPython and "unmodelled" in PyO *)
Definition count_not_str (o:obj) (k:string) : Prop := forall u, assoc k (o_attrs o) <> Some (Types.VStr u).
Definition modelled {A} (r:outcome A) : Prop := forall why, r <> Unmodelled why.
