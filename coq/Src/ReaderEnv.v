(* The environment in which the translated source of rtcmreader.RTCMReader (PyRtcmGen.SrcO, interpreted by Src/PyO.v) is
   run by run/SrcReader_inst.v: what the callees outside the class mean, what a constructed reader's attributes are,
   and how the model's results (Model/Reader.v) read as interpreter results.  Definitions only; part of the statement
   of the source tie for the reader. *)
From Coq Require Import ZArith NArith List String Bool.
From Coq.Strings Require Import Byte.
From PyRtcm Require Import Base.Bytes Model.Types Model.Crc Model.Reader Src.PyO.
Import ListNotations.
Open Scope string_scope.
Open Scope Z_scope.

(* exception classes <-> the model's exception values *)
Definition liberr_class (e:liberr) : string :=
  match e with
  | EMessage => "RTCMMessageError" | EParse => "RTCMParseError" | EStream => "RTCMStreamError" | EType => "RTCMTypeError"
  end.
Definition class_liberr (c:string) : option liberr :=
  if String.eqb c "RTCMMessageError" then Some EMessage
  else if String.eqb c "RTCMParseError" then Some EParse
  else if String.eqb c "RTCMStreamError" then Some EStream
  else if String.eqb c "RTCMTypeError" then Some EType
  else None.
Definition pyexc_class (k:pyexc) : string :=
  match k with
  | XIndex => "IndexError" | XKey => "KeyError" | XValue => "ValueError" | XType => "TypeError"
  | XAttribute => "AttributeError" | XEOF => "EOFError" | XOverflow => "OverflowError" | XOther => "RuntimeError"
  end.

Section ReaderEnv.
Variables St M : Type.                             (* state of the underlying stream; message objects (opaque values) *)
Variable ops : stream_ops St.                      (* self._stream.read / .readline *)
Variable construct : bytes -> Z -> outcome M.      (* RTCMMessage(payload=p, labelmsm=l) *)

(* the world: underlying stream, and the errors passed to the error handler / logger so far (oldest first) *)
Definition W : Type := (St * list liberr)%type.

Definition unm (why:string) (w:W) : res (val M) * W := (RFail (FUnmodelled why), w).

(* RTCMMessage(...) either returns an object or raises *)
Definition outcome_res (o:outcome M) : res (val M) :=
  match o with
  | Ok m => ROk (VOpq m)
  | Lib e => RExc (liberr_class e)
  | Foreign k => RExc (pyexc_class k)
  | Unmodelled why => RFail (FUnmodelled why)
  end.

Definition reader_ext (cs:callsig) (args:list (val M)) (w:W) : res (val M) * W :=
  let '(st, log) := w in
  let nm := c_name cs in
  match c_kw cs with
  | [] =>
      if String.eqb nm "stream.read" then
        match args with
        | [VInt n] => if n <? 0 then unm "stream.read(negative)" w
                      else let '(d, st') := s_read ops (Z.to_nat n) st in (ROk (VBytes d), (st', log))
        | _ => unm "stream.read arguments" w
        end
      else if String.eqb nm "stream.readline" then
        match args with
        | [] => let '(d, st') := s_readline ops st in (ROk (VBytes d), (st', log))
        | _ => unm "stream.readline arguments" w
        end
      else if (String.eqb nm "handler") || (String.eqb nm "logger.error") then
        match args with
        | [VExc cls] => match class_liberr cls with
                        | Some e => (ROk VNone, (st, (log ++ [e])%list))
                        | None => unm "handler of a foreign exception" w
                        end
        | _ => unm "handler arguments" w
        end
      else if String.eqb nm "calc_crc24q" then
        match args with
        | [VBytes m] => (ROk (VInt (Z.of_N (calc_crc24q m))), w)
        | _ => unm "calc_crc24q arguments" w
        end
      else unm "unknown callee" w
  | [k1; k2] =>
      if (String.eqb nm "RTCMMessage") && (String.eqb k1 "payload") && (String.eqb k2 "labelmsm") then
        match args with
        | [VBytes p; VInt l] => (outcome_res (construct p l), w)
        | _ => unm "RTCMMessage arguments" w
        end
      else unm "unknown callee" w
  | _ => unm "unknown callee" w
  end.

(* attributes of a constructed reader, in the order RTCMReader.__init__ assigns them *)
Definition reader_self (c:cfg) (has_handler:bool) : env M :=
  [ ("_stream", VRef "stream");
    ("_quitonerror", VInt (quitonerror c));
    ("_errorhandler", if has_handler then VRef "handler" else VNone);
    ("_validate", VInt (validate c));
    ("_labelmsm", VInt (labelmsm c));
    ("_parsed", VBool (parsed c));
    ("_logger", VRef "logger") ].

(* the model's results as interpreter results *)
Definition optv (m:option M) : val M := match m with Some x => VOpq x | None => VNone end.
Definition image (r:rd_result M) : res (val M) :=
  match r with
  | RYield raw m => ROk (VTuple [VBytes raw; optv m])
  | REnd => ROk (VTuple [VNone; VNone])
  | RRaise e => RExc (liberr_class e)
  | RForeign k => RExc (pyexc_class k)
  | RUnmodelled w => RFail (FUnmodelled w)
  | ROutOfFuel => RFail FOutOfFuel
  end.
End ReaderEnv.
