(* The recursive walk of the message decoder (RTCMMessage._set_attribute / _set_attribute_group / _set_attribute_optional,
   translated into PyRtcmGen.SrcOMsgDec and interpreted by Src/PyO.v with recursive linking) against the model's
   dec_item / dec_body (Model/Message.v).  Generic part: nothing here depends on the translated source.
     1. the model's walk over an arbitrary field step `leaf` and with ONE outcome refined: a str-valued repeat count is "not modelled"
        (dec_item_s); how it relates to dec_item (refines; coarsens for leaf = set_single)
     2. the conditions on a layout (no label "IDF038", no duplicate labels, count / condition keys that are data attributes, depth)
     3. how outcomes of the model read as results of a method call / of a statement; the specifications of the methods
     4. the attribute store against the model's object
     5. values: split("+"), the "_%02d" suffix, list index / item assignment / pop
     6. the three loops (keys of a dict, the suffix loop, the repeat loop) for an arbitrary loop body that meets a step equation
     7. the induction over the layout with the call-depth budget, for an abstract family of method tables
   run/SrcMsgDecWalk_inst.v proves the step equations and the three method-level lemmas by symbolic execution of the translated
   source and instantiates section 7 with rlink. *)
From Coq Require Import ZArith NArith List String Ascii Bool Lia PrimFloat.
From Coq.Strings Require Import Byte.
From PyRtcm Require Import Base.Bytes Base.Dec Model.Types Model.Message.
From PyRtcm Require Import Src.PyO Src.PyOLemmas Src.PyOReaderLemmas Src.PyOMsgLemmas Src.ReaderEnv Src.MsgDecEnv.
From PyRtcm Require Import Proofs.DecodeWalk Proofs.DecodeExtend.
Import ListNotations.
Open Scope string_scope.
Open Scope Z_scope.

(* ================= 1. the model, a str-valued repeat count set apart ================= *)
(* `range(gsiz)` on a str: CPython raises TypeError (the model: Foreign XType); PyO has no range of a non-int
   (RFail (FUnmodelled "range of a non-int")).  The walk is therefore proved against dec_item_s, which differs from dec_item in
   exactly this outcome (Unmodelled instead of Foreign XType); [refines] says that every other outcome is the model's. *)
Section SModel.
Variable T : tables.

Definition getint_s (o:obj) (k:string) : outcome Z :=
  do v <- getattr o k;
  match v with
  | Types.VInt z => Ok z | Types.VFloat _ => Unmodelled "float used as integer" | Types.VStr _ => Unmodelled "str used as a repeat count"
  end.

Definition group_size_s (c:count) (index:list Z) (o:obj) : outcome Z :=
  match c with
  | CFixed n => Ok n
  | CBad w => Unmodelled w
  | CNamed key =>
      do anam <- (match split_plus key with
                  | (k, None) => Ok k
                  | (k, Some nl) =>
                      if contains "+" nl then Foreign XValue else
                      match N_of_str nl with
                      | None => Unmodelled "nest level not a plain number"
                      | Some n => suffix_first (N.to_nat n) index k
                      end
                  end);
      do g <- getint_s o anam;
      Ok (if String.eqb anam "IDF035" then (g + 1)%Z else g)
  end.

Section Walk.
Variable ident : string.
(* the field step: set_single, or set_single cut down to "not modelled" outside the conditions under which the source of
   _set_attribute_single can be followed (run/SrcMsgDecSingle_inst.v) *)
Variable leaf : string -> list Z -> st -> outcome st.
Fixpoint dec_item_s (lbl:string) (it:item) (index:list Z) (s:st) {struct it} : outcome st :=
  match it with
  | IField _ => leaf lbl index s
  | IBad w => Unmodelled w
  | IGroup c b =>
      do n <- group_size_s c index (fst s);
      if (max_count <? n)%Z then Unmodelled "repeat count beyond model bound"
      else rep (dec_body_s b) index (Z.to_nat n) 1%Z s
  | IOpt k con b =>
      do v <- getattr (fst s) k;
      match v with
      | Types.VInt z => if (z =? con)%Z then dec_body_s b index s else Ok s
      | Types.VFloat _ => Unmodelled "float condition"
      | Types.VStr _ => Ok s
      end
  end
with dec_body_s (b:body) (index:list Z) (s:st) {struct b} : outcome st :=
  match b with
  | BNotDict w => Unmodelled w
  | BItems l =>
      (fix go (l:list (string*item)) (s:st) : outcome st :=
         match l with [] => Ok s | (lbl,it)::r => do s1 <- dec_item_s lbl it index s; go r s1 end) l s
  end.

Definition dec_items_s (index:list Z) : list (string*item) -> st -> outcome st :=
  fix go (l:list (string*item)) (s:st) : outcome st :=
    match l with [] => Ok s | (lbl,it)::r => do s1 <- dec_item_s lbl it index s; go r s1 end.
Lemma dec_body_items_s l index s : dec_body_s (BItems l) index s = dec_items_s index l s.
Proof. reflexivity. Qed.
Lemma dec_item_s_group lbl c b index s :
  dec_item_s lbl (IGroup c b) index s =
  (do n <- group_size_s c index (fst s);
   if (max_count <? n)%Z then Unmodelled "repeat count beyond model bound"
   else rep (dec_body_s b) index (Z.to_nat n) 1%Z s).
Proof. reflexivity. Qed.
Lemma dec_item_s_opt lbl k con b index s :
  dec_item_s lbl (IOpt k con b) index s =
  (do v <- getattr (fst s) k;
   match v with
   | Types.VInt z => if (z =? con)%Z then dec_body_s b index s else Ok s
   | Types.VFloat _ => Unmodelled "float condition"
   | Types.VStr _ => Ok s
   end).
Proof. reflexivity. Qed.

(* r_s is the model's outcome r, or "not modelled" *)
Definition refines {A} (r_s r:outcome A) : Prop := match r_s with Unmodelled _ => True | _ => r = r_s end.
Lemma refines_refl {A} (r:outcome A) : refines r r.
Proof. destruct r; reflexivity. Qed.
Lemma refines_bind {A B} (r_s r:outcome A) (f_s f:A -> outcome B) :
  refines r_s r -> (forall a, refines (f_s a) (f a)) -> refines (obind r_s f_s) (obind r f).
Proof.
  intros H Hf. destruct r_s as [a|e|k|w]; cbn [refines] in H; try subst r; cbn [obind refines]; try reflexivity.
  apply Hf.
Qed.

Lemma getint_refines o k : refines (getint_s o k) (getint o k).
Proof. unfold getint_s, getint. destruct (getattr o k) as [[z|f|u]|e|x|w]; reflexivity. Qed.
Lemma group_size_refines c index o : refines (group_size_s c index o) (group_size c index o).
Proof.
  destruct c as [n|key|w]; try reflexivity. unfold group_size_s, group_size.
  apply refines_bind; [apply refines_refl|]. intro anam.
  apply refines_bind; [apply getint_refines|]. intro g. reflexivity.
Qed.
Lemma rep_refines (f_s f:list Z -> st -> outcome st) index :
  (forall idx s, refines (f_s idx s) (f idx s)) -> forall n i s, refines (rep f_s index n i s) (rep f index n i s).
Proof.
  intros Hf n. induction n as [|n IH]; intros i s; [reflexivity|]. cbn [rep].
  apply refines_bind; [apply Hf|]. intro s'. apply IH.
Qed.
Hypothesis leaf_refines : forall anam index s, refines (leaf anam index s) (set_single T ident anam index s).
Lemma walk_refines :
  (forall it lbl index s, refines (dec_item_s lbl it index s) (dec_item T ident lbl it index s)) /\
  (forall b index s, refines (dec_body_s b index s) (dec_body T ident b index s)).
Proof.
  apply item_body_ind.
  - intros k lbl index s. apply leaf_refines.
  - intros w lbl index s. reflexivity.
  - intros c b IH lbl index s. cbn [dec_item_s dec_item].
    apply refines_bind; [apply group_size_refines|]. intro n.
    destruct (max_count <? n); [reflexivity|]. apply rep_refines. exact IH.
  - intros k con b IH lbl index s. cbn [dec_item_s dec_item].
    apply refines_bind; [apply refines_refl|]. intros [z|f|u]; try reflexivity.
    destruct (z =? con); [apply IH|reflexivity].
  - intros l IH index s. rewrite dec_body_items_s, dec_body_items. revert s.
    induction IH as [|[lbl it] r Hit _ IHr]; intro s; [reflexivity|].
    cbn [dec_items_s dec_items]. apply refines_bind; [apply Hit|]. exact IHr.
  - intros w index s. reflexivity.
Qed.
Definition dec_item_refines := proj1 walk_refines.
Definition dec_body_refines := proj2 walk_refines.

End Walk.
End SModel.

(* for leaf = set_single the two walks differ in that one outcome only *)
Section Coarse.
Variable T : tables.
Variable ident : string.
Definition coarsens {A} (r_s r:outcome A) : Prop := r = r_s \/ (r = Foreign XType /\ exists w, r_s = Unmodelled w).
Lemma coarsens_refl {A} (r:outcome A) : coarsens r r.
Proof. left. reflexivity. Qed.
Lemma coarsens_bind {A B} (r_s r:outcome A) (f_s f:A -> outcome B) :
  coarsens r_s r -> (forall a, coarsens (f_s a) (f a)) -> coarsens (obind r_s f_s) (obind r f).
Proof.
  intros [H|[H [w Hw]]] Hf.
  - subst r. destruct r_s; cbn [obind]; try apply coarsens_refl. apply Hf.
  - subst r r_s. right. split; [reflexivity|]. exists w. reflexivity.
Qed.
Lemma getint_coarsens o k : coarsens (getint_s o k) (getint o k).
Proof.
  unfold getint_s, getint. destruct (getattr o k) as [[z|f|u]|e|x|w]; cbn [obind]; try apply coarsens_refl.
  right. split; [reflexivity|]. eexists. reflexivity.
Qed.
Lemma group_size_coarsens c index o : coarsens (group_size_s c index o) (group_size c index o).
Proof.
  destruct c as [n|key|w]; try apply coarsens_refl. unfold group_size_s, group_size.
  apply coarsens_bind; [apply coarsens_refl|]. intro anam.
  apply coarsens_bind; [apply getint_coarsens|]. intro g. apply coarsens_refl.
Qed.
Lemma rep_coarsens (f_s f:list Z -> st -> outcome st) index :
  (forall idx s, coarsens (f_s idx s) (f idx s)) -> forall n i s, coarsens (rep f_s index n i s) (rep f index n i s).
Proof.
  intros Hf n. induction n as [|n IH]; intros i s; [apply coarsens_refl|]. cbn [rep].
  apply coarsens_bind; [apply Hf|]. intro s'. apply IH.
Qed.
Lemma walk_coarsens :
  (forall it lbl index s, coarsens (dec_item_s (set_single T ident) lbl it index s) (dec_item T ident lbl it index s)) /\
  (forall b index s, coarsens (dec_body_s (set_single T ident) b index s) (dec_body T ident b index s)).
Proof.
  apply item_body_ind.
  - intros k lbl index s. apply coarsens_refl.
  - intros w lbl index s. apply coarsens_refl.
  - intros c b IH lbl index s. rewrite dec_item_s_group, dec_item_group.
    apply coarsens_bind; [apply group_size_coarsens|]. intro n.
    destruct (max_count <? n); [apply coarsens_refl|]. apply rep_coarsens. exact IH.
  - intros k con b IH lbl index s. rewrite dec_item_s_opt, dec_item_opt.
    apply coarsens_bind; [apply coarsens_refl|]. intros [z|f|u]; try apply coarsens_refl.
    destruct (z =? con); [apply IH|apply coarsens_refl].
  - intros l IH index s. rewrite dec_body_items_s, dec_body_items. revert s.
    induction IH as [|[lbl it] r Hit _ IHr]; intro s; [apply coarsens_refl|].
    cbn [dec_items_s dec_items]. apply coarsens_bind; [apply Hit|]. exact IHr.
  - intros w index s. apply coarsens_refl.
Qed.
Definition dec_item_coarsens := proj1 walk_coarsens.
End Coarse.

(* ================= 2. conditions on a layout ================= *)
(* nesting depth, in method calls: _set_attribute -> _set_attribute_group / _optional -> _set_attribute -> ... *)
Fixpoint item_depth (it:item) : nat :=
  match it with
  | IGroup _ b | IOpt _ _ b => 2 + body_depth b
  | IField _ | IBad _ => 0
  end
with body_depth (b:body) : nat :=
  match b with
  | BItems l => (fix go (l:list (string*item)) : nat := match l with [] => O | (_,it)::r => Nat.max (item_depth it) (go r) end) l
  | BNotDict _ => 0
  end.
Lemma body_depth_in l lbl it : In (lbl, it) l -> (item_depth it <= body_depth (BItems l))%nat.
Proof.
  induction l as [|[k x] r IH]; [intros []|]. intros [E|I].
  - inversion E. subst. cbn [body_depth]. apply Nat.le_max_l.
  - specialize (IH I). cbn [body_depth] in *. etransitivity; [exact IH|apply Nat.le_max_r].
Qed.

(* a check on every entry (label, item) and on every dict of a layout, at all levels *)
Section LayoutAll.
Variable pent : string -> item -> bool.
Variable pdict : list (string*item) -> bool.
Fixpoint item_all (it:item) : bool :=
  match it with
  | IGroup _ b | IOpt _ _ b => body_all b
  | IField _ | IBad _ => true
  end
with body_all (b:body) : bool :=
  match b with
  | BItems l => pdict l && (fix go (l:list (string*item)) : bool :=
                              match l with [] => true | (lbl,it)::r => pent lbl it && item_all it && go r end) l
  | BNotDict _ => true
  end.
Lemma body_all_items l : body_all (BItems l) = true ->
  pdict l = true /\ forall lbl it, In (lbl, it) l -> pent lbl it = true /\ item_all it = true.
Proof.
  cbn [body_all]. intro H. apply andb_true_iff in H. destruct H as [H1 H2]. split; [exact H1|].
  clear H1. induction l as [|[k x] r IH]; [intros ? ? []|].
  apply andb_true_iff in H2. destruct H2 as [H2 H3]. apply andb_true_iff in H2. destruct H2 as [H2 H4].
  intros lbl it [E|I]; [inversion E; subst; auto|apply (IH H3); assumption].
Qed.
End LayoutAll.

(* the eight attributes of MsgDecEnv.fixed_store *)
Definition fixed_names : list string :=
  ["_immutable"; "_payload"; "_payloadi"; "_payblen"; "_labelmsm"; "_unknown"; "_satmap"; "_cellmap"].

Fixpoint nodupb (l:list string) : bool :=
  match l with [] => true | x::r => negb (existsb (String.eqb x) r) && nodupb r end.
Lemma nodupb_NoDup l : nodupb l = true -> NoDup l.
Proof.
  induction l as [|x r IH]; [constructor|]. cbn [nodupb]. intro H. apply andb_true_iff in H. destruct H as [H1 H2].
  constructor; [|apply IH, H2]. intro I. apply negb_true_iff in H1.
  assert (E : existsb (String.eqb x) r = true) by (apply existsb_exists; exists x; split; [exact I|apply String.eqb_refl]).
  congruence.
Qed.

Section Conds.
(* the names bound in the class body (the translator's srco_msgdec_reserved) *)
Variable reserved : list string.
(* what the field step asks of a label (Section 3: it is a precondition of single_spec) *)
Variable name_ok : string -> bool.

(* a name read with getattr(self, k) / getattr(self, k + "_01" ...): not a prefix of a fixed attribute or of a name bound in the class
   (for those Python answers with the fixed attribute / the method, the model with the data attributes only) *)
Definition key_ok (k:string) : bool := forallb (fun r => negb (String.prefix k r)) (reserved ++ fixed_names).
Definition ent_keys_ok (it:item) : bool :=
  match it with
  | IGroup (CNamed key) _ => key_ok (fst (split_plus key))
  | IOpt k _ _ => key_ok k
  | _ => true
  end.

Definition no_idf038 (b:body) : bool := body_all (fun lbl _ => negb (String.eqb lbl "IDF038")) (fun _ => true) b.
Definition nodup_labels (b:body) : bool := body_all (fun _ _ => true) (fun l => nodupb (map fst l)) b.
Definition keys_ok (b:body) : bool := body_all (fun _ it => ent_keys_ok it) (fun _ => true) b.
Definition labels_ok (b:body) : bool := body_all (fun lbl _ => name_ok lbl) (fun _ => true) b.
Definition walk_ok (b:body) : bool := no_idf038 b && nodup_labels b && keys_ok b && labels_ok b.

Definition sub_ok (it:item) : bool := match it with IGroup _ b | IOpt _ _ b => walk_ok b | _ => true end.

Lemma walk_ok_items l : walk_ok (BItems l) = true ->
  NoDup (map fst l) /\
  forall lbl it, In (lbl, it) l -> lbl <> "IDF038" /\ name_ok lbl = true /\ ent_keys_ok it = true /\ sub_ok it = true.
Proof.
  unfold walk_ok. intro H. repeat (apply andb_true_iff in H; destruct H as [H ?]).
  apply body_all_items in H. destruct H as [_ H038].
  apply body_all_items in H0. destruct H0 as [_ Hlab].
  apply body_all_items in H1. destruct H1 as [_ Hkey].
  apply body_all_items in H2. destruct H2 as [Hnd Hnd'].
  split; [apply nodupb_NoDup, Hnd|].
  intros lbl it I.
  destruct (H038 _ _ I) as [A1 A2]. destruct (Hlab _ _ I) as [B1 B2]. destruct (Hkey _ _ I) as [C1 C2]. destruct (Hnd' _ _ I) as [_ D2].
  split; [|split; [exact B1|split; [exact C1|]]].
  - apply negb_true_iff, String.eqb_neq in A1. exact A1.
  - unfold sub_ok, walk_ok, no_idf038, nodup_labels, keys_ok, labels_ok.
    destruct it as [k|c b|k con b|w]; try reflexivity.
    + change (body_all (fun lbl _ => negb (String.eqb lbl "IDF038")) (fun _ => true) b = true) in A2.
      change (body_all (fun lbl _ => name_ok lbl) (fun _ => true) b = true) in B2.
      change (body_all (fun _ it => ent_keys_ok it) (fun _ => true) b = true) in C2.
      change (body_all (fun _ _ => true) (fun l => nodupb (map fst l)) b = true) in D2.
      now rewrite A2, B2, C2, D2.
    + change (body_all (fun lbl _ => negb (String.eqb lbl "IDF038")) (fun _ => true) b = true) in A2.
      change (body_all (fun lbl _ => name_ok lbl) (fun _ => true) b = true) in B2.
      change (body_all (fun _ it => ent_keys_ok it) (fun _ => true) b = true) in C2.
      change (body_all (fun _ _ => true) (fun l => nodupb (map fst l)) b = true) in D2.
      now rewrite A2, B2, C2, D2.
Qed.

(* with distinct labels, the entry at a position is the one the label finds *)
Lemma assoc_in_nodup {A} (l:list (string*A)) lbl x : NoDup (map fst l) -> In (lbl, x) l -> assoc lbl l = Some x.
Proof.
  induction l as [|[k y] r IH]; [intros _ []|]. cbn [map fst]. intros N I. inversion N as [|? ? N1 N2]. subst.
  cbn [assoc]. destruct I as [E|I].
  - inversion E. subst. now rewrite String.eqb_refl.
  - destruct (String.eqb k lbl) eqn:Ek; [|apply IH; assumption].
    apply String.eqb_eq in Ek. subst k. exfalso. apply N1. apply in_map_iff. exists (lbl, x). auto.
Qed.

(* key_ok: the name, however suffixed, is a data attribute name *)
Lemma prefix_app k sfx : String.prefix k (k ++ sfx) = true.
Proof. induction k as [|c k IH]; [destruct sfx; reflexivity|]. cbn [append String.prefix]. destruct (ascii_dec c c); [exact IH|congruence]. Qed.
Lemma key_ok_spec k sfx : key_ok k = true -> ~ In (k ++ sfx) reserved /\ ~ In (k ++ sfx) fixed_names.
Proof.
  unfold key_ok. rewrite forallb_forall. intro H.
  assert (G : forall r, In r (reserved ++ fixed_names) -> r <> k ++ sfx).
  { intros r I E. specialize (H r I). subst r. rewrite prefix_app in H. discriminate. }
  split; intro I; eapply G; try reflexivity; apply in_or_app; [left|right]; exact I.
Qed.
Lemma key_ok_reserved k sfx : key_ok k = true -> existsb (String.eqb (k ++ sfx)) reserved = false.
Proof.
  intro H. destruct (existsb (String.eqb (k ++ sfx)) reserved) eqn:E; [|reflexivity].
  apply existsb_exists in E. destruct E as [r [I E]]. apply String.eqb_eq in E. subst r.
  exfalso. exact (proj1 (key_ok_spec k sfx H) I).
Qed.
Lemma append_nil_r (k:string) : k ++ "" = k.
Proof. induction k as [|c k IH]; [reflexivity|]. cbn [append]. now rewrite IH. Qed.
Lemma key_ok_reserved0 k : key_ok k = true -> existsb (String.eqb k) reserved = false.
Proof. intro H. rewrite <- (append_nil_r k). apply key_ok_reserved, H. Qed.
Lemma key_ok_fixed0 k : key_ok k = true -> ~ In k fixed_names.
Proof. intro H. rewrite <- (append_nil_r k). exact (proj2 (key_ok_spec k "" H)). Qed.
End Conds.

(* ================= 3. outcomes of the model as results of the interpreter; specifications ================= *)
Definition mres : Type := res (val dob) * (env dob * W).          (* result of a method call *)
Definition sres : Type := res (ctl dob) * state dob W.            (* result of a statement *)

(* after an exception the store still holds the payload (the handler of _do_attributes evaluates self.identity on it) *)
Definition kept (p:bytes) (a:env dob) : Prop := lookup dob "_payload" a = Some (VBytes p).

(* strict: "not modelled" on the model's side is a failure of the interpreter; otherwise nothing is claimed for it *)
Definition out_rel {A} (strict:bool) (p:bytes) (okimg : A -> val dob -> env dob -> Prop) (out:outcome A) (r:mres) : Prop :=
  match out with
  | Ok x => exists v a', r = (ROk v, (a', tt)) /\ okimg x v a'
  | Lib e => exists a', r = (RExc (liberr_class e), (a', tt)) /\ kept p a'
  | Foreign k => exists a', r = (RExc (dec_exc_class k), (a', tt)) /\ kept p a'
  | Unmodelled _ => if strict then exists f, fst r = RFail f else True
  end.
Definition sout_rel {A} (p:bytes) (okimg : A -> state dob W -> Prop) (out:outcome A) (r:sres) : Prop :=
  match out with
  | Ok x => fst r = ROk (CNext dob) /\ okimg x (snd r)
  | Lib e => fst r = RExc (liberr_class e) /\ kept p (self dob W (snd r))
  | Foreign k => fst r = RExc (dec_exc_class k) /\ kept p (self dob W (snd r))
  | Unmodelled _ => True
  end.
(* a statement list that ends in `return v` *)
Definition sret_rel {A} (p:bytes) (okimg : A -> val dob -> env dob -> Prop) (out:outcome A) (r:sres) : Prop :=
  match out with
  | Ok x => exists v, fst r = ROk (CRet dob v) /\ okimg x v (self dob W (snd r))
  | Lib e => fst r = RExc (liberr_class e) /\ kept p (self dob W (snd r))
  | Foreign k => fst r = RExc (dec_exc_class k) /\ kept p (self dob W (snd r))
  | Unmodelled _ => True
  end.
Lemma out_rel_weaken {A} p (okimg : A -> val dob -> env dob -> Prop) out r : out_rel true p okimg out r -> out_rel false p okimg out r.
Proof. destruct out; cbn [out_rel]; auto. Qed.

(* the object under construction, as the walk meets it; p is its payload, which the walk never changes *)
Definition inv (p:bytes) (a:env dob) (o:obj) : Prop :=
  store_rel a o /\ o_immutable o = false /\ o_payload o = p.
(* group indices that f"{i:02d}" can render (CPython's int -> str digit limit; the indices the walk makes are <= max_count) *)
Definition idx_ok (index:list Z) : Prop := Forall (fun i => i < 10 ^ 4300) index.

Notation vidx index := (@VList dob (map (@VInt dob) index)).

Section Specs.
Variable ident : string.
Variable leaf : string -> list Z -> st -> outcome st.
Variable name_ok : string -> bool.

(* _set_attribute_single: assumed here, proved in run/SrcMsgDecSingle_inst.v *)
Definition single_spec_gen (strict:bool) (g:mcall dob W) : Prop :=
  forall anam index offset a o,
    anam <> "IDF038" -> name_ok anam = true -> idx_ok index ->
    store_rel a o -> o_immutable o = false -> identity (o_payload o) = Ok ident ->
    out_rel strict (o_payload o) (fun x v a' => v = VInt (snd x) /\ store_rel a' (fst x))
      (leaf anam index (o, offset)) (g [VStr anam; VInt offset; vidx index] a tt).
(* what the walk needs: nothing is asked where the field step is "not modelled" (with a leaf cut down by a guard the source may well
   return normally there) *)
Definition single_spec := single_spec_gen false.
Lemma single_spec_of_strict g : single_spec_gen true g -> single_spec g.
Proof. intros H anam index offset a o H1 H2 H3 H4 H5 H6. apply out_rel_weaken. apply H; assumption. Qed.

(* (offset, index) comes back with the index list UNCHANGED *)
Definition walk_img (p:bytes) (index:list Z) (x:st) (v:val dob) (a':env dob) : Prop :=
  v = VTuple [VInt (snd x); vidx index] /\ inv p a' (fst x).

(* _set_attribute(lbl, pdict, offset, index) *)
Definition item_spec (g:mcall dob W) (lbl:string) (l:list (string*item)) (it:item) : Prop :=
  forall p index offset a o, identity p = Ok ident -> idx_ok index -> inv p a o ->
    out_rel false p (walk_img p index) (dec_item_s leaf lbl it index (o, offset))
      (g [VStr lbl; VOpq (DBody (BItems l)); VInt offset; vidx index] a tt).
(* _set_attribute_group(adef, offset, index) / _set_attribute_optional(adef, offset, index) *)
Definition adef_spec (g:mcall dob W) (it:item) : Prop :=
  forall adef p index offset a o, item_val it = ROk adef -> identity p = Ok ident -> idx_ok index -> inv p a o ->
    out_rel false p (walk_img p index) (dec_item_s leaf "" it index (o, offset))
      (g [adef; VInt offset; vidx index] a tt).
End Specs.

(* ================= 4. the store against the model's object ================= *)
Lemma store_rel_kept a o : store_rel a o -> kept (o_payload o) a.
Proof. intros [attrs [E _]]. subst a. reflexivity. Qed.

Lemma lookup_app_skip n (l1 l2:env dob) : (forall k, In k (map fst l1) -> k <> n) -> lookup dob n (l1 ++ l2)%list = lookup dob n l2.
Proof.
  induction l1 as [|[k v] r IH]; [reflexivity|]. intro H. cbn [app lookup].
  destruct (String.eqb k n) eqn:E.
  - apply String.eqb_eq in E. exfalso. apply (H k); [left; reflexivity|exact E].
  - apply IH. intros k' I. apply H. right. exact I.
Qed.

(* getattr(self, n) for a data attribute name *)
Lemma store_rel_lookup a o n : store_rel a o -> ~ In n fixed_names ->
  match assoc n (o_attrs o) with
  | Some v => exists pv, lookup dob n a = Some pv /\ val_rel pv v
  | None => lookup dob n a = None
  end.
Proof.
  intros [attrs [E F]] Hn. subst a. rewrite lookup_app_skip.
  2:{ intros k I E. subst k. apply Hn. exact I. }
  induction F as [|[k pv] [k' v] ra ro [Hk Hv] _ IH]; [reflexivity|].
  cbn [fst snd] in Hk, Hv. subst k'. cbn [assoc lookup]. destruct (String.eqb k n); [|exact IH].
  exists pv. split; [reflexivity|exact Hv].
Qed.

(* ================= 5. values ================= *)
(* "+" in s *)
Lemma contains_plus_cons c r : contains "+" (String c r) = if Ascii.eqb c "+" then true else contains "+" r.
Proof.
  unfold contains. cbn [String.index String.prefix].
  destruct (ascii_dec "+" c) as [E|E].
  - subst c. destruct r; reflexivity.
  - replace (Ascii.eqb c "+") with false by (symmetry; apply Ascii.eqb_neq; congruence).
    destruct (String.index 0 "+" r); reflexivity.
Qed.

(* anam.split("+") against split_plus *)
Lemma split_plus_none k a : split_plus k = (a, None) -> contains "+" k = false /\ a = k.
Proof.
  revert a. induction k as [|c r IH]; intros a H.
  - inversion H. split; reflexivity.
  - cbn [split_plus] in H. rewrite contains_plus_cons. destruct (Ascii.eqb c "+"); [discriminate|].
    destruct (split_plus r) as [a' b'] eqn:E. inversion H. subst. destruct (IH a' eq_refl) as [I1 I2]. subst. split; [exact I1|reflexivity].
Qed.
Lemma split_char_nonempty c t : split_char c t <> [].
Proof. destruct t as [|a r]; [discriminate|]. cbn [split_char]. destruct (Ascii.eqb a c); [discriminate|]. destruct (split_char c r); discriminate. Qed.
Lemma split_plus_some k a nl : split_plus k = (a, Some nl) ->
  contains "+" k = true /\ split_char "+" k = a :: split_char "+" nl.
Proof.
  revert a. induction k as [|c r IH]; intros a H.
  - inversion H.
  - cbn [split_plus] in H. rewrite contains_plus_cons. cbn [split_char]. destruct (Ascii.eqb c "+").
    + inversion H. subst. split; reflexivity.
    + destruct (split_plus r) as [a' b'] eqn:E. inversion H. subst. destruct (IH a' eq_refl) as [I1 I2].
      split; [exact I1|]. rewrite I2. reflexivity.
Qed.
Lemma split_char_noplus t : contains "+" t = false -> split_char "+" t = [t].
Proof.
  induction t as [|c r IH]; [reflexivity|]. rewrite contains_plus_cons. cbn [split_char].
  destruct (Ascii.eqb c "+"); [discriminate|]. intro H. rewrite (IH H). reflexivity.
Qed.
Lemma split_char_plus t : contains "+" t = true -> exists x y r, split_char "+" t = x :: y :: r.
Proof.
  induction t as [|c r IH]; [discriminate|]. rewrite contains_plus_cons. cbn [split_char].
  destruct (Ascii.eqb c "+").
  - intros _. destruct (split_char "+" r) as [|y q] eqn:E; [exfalso; eapply split_char_nonempty; exact E|]. eauto.
  - intro H. destruct (IH H) as [x [y [q E]]]. rewrite E. eauto.
Qed.

(* index[j] on a list of ints *)
Lemma list_pos_nat n j : list_pos n (Z.of_nat j) = if Nat.ltb j n then Some j else None.
Proof.
  unfold list_pos. rewrite of_nat_ltb0, of_nat_ltb, Nat2Z.id. reflexivity.
Qed.
Lemma index_list_nat (l:list Z) j :
  index_list dob (map (@VInt dob) l) (Z.of_nat j) = match nth_error l j with Some z => ROk (VInt z) | None => RExc "IndexError" end.
Proof.
  unfold index_list. rewrite list_pos_nat, map_length.
  destruct (Nat.ltb j (List.length l)) eqn:E.
  - rewrite nth_error_map. destruct (nth_error l j) eqn:N; [reflexivity|].
    apply Nat.ltb_lt in E. apply nth_error_None in N. lia.
  - apply Nat.ltb_ge in E. apply nth_error_None in E. now rewrite E.
Qed.

(* index[-1] = v on a list that ends with the level added by append *)
Lemma list_pos_last n : list_pos (S n) (-1) = Some n.
Proof.
  unfold list_pos. change (-1 <? 0) with true. cbv beta iota.
  replace (Z.of_nat (S n) + -1) with (Z.of_nat n) by lia. now rewrite of_nat_ltb0, Nat2Z.id.
Qed.
Lemma set_nth_last (l:list (val dob)) x v : set_nth dob (List.length l) v (l ++ [x])%list = (l ++ [v])%list.
Proof. induction l as [|y r IH]; [reflexivity|]. cbn [List.length app set_nth]. now rewrite IH. Qed.
Lemma set_last_idx (index:list Z) j v :
  match list_pos (List.length (map (@VInt dob) (index ++ [j])%list)) (-1) with
  | Some k => Some (set_nth dob k (VInt v) (map (@VInt dob) (index ++ [j])%list))
  | None => None
  end = Some (map (@VInt dob) (index ++ [v])%list).
Proof.
  rewrite map_length, app_length. cbn [List.length]. rewrite Nat.add_1_r, list_pos_last.
  rewrite !map_app. cbn [map]. rewrite <- (map_length (@VInt dob) index). now rewrite set_nth_last.
Qed.
Lemma map_snoc (index:list Z) j : (map (@VInt dob) index ++ [VInt j])%list = map (@VInt dob) (index ++ [j])%list.
Proof. now rewrite map_app. Qed.
Lemma list_pos_idx_last (index:list Z) j : list_pos (List.length (map (@VInt dob) (index ++ [j])%list)) (-1) = Some (List.length index).
Proof. rewrite map_length, app_length. cbn [List.length]. rewrite Nat.add_1_r. apply list_pos_last. Qed.
Lemma set_nth_idx_last (index:list Z) j v :
  set_nth dob (List.length index) (VInt v) (map (@VInt dob) (index ++ [j])%list) = map (@VInt dob) (index ++ [v])%list.
Proof. rewrite !map_app. cbn [map]. rewrite <- (map_length (@VInt dob) index). apply set_nth_last. Qed.
(* index.pop() *)
Lemma rev_idx_last (index:list Z) j :
  rev (map (@VInt dob) (index ++ [j])%list) = VInt j :: rev (map (@VInt dob) index).
Proof. rewrite map_app, rev_app_distr. reflexivity. Qed.

(* f"{z:02d}" *)
Lemma fmtd2 z : 0 <= z -> z < 10 ^ 4300 -> builtin_val dob (BFmtD 2) [VInt z] = ROk (VStr (dd (Z.to_N z))).
Proof.
  intros H0 H1. cbn [builtin_val].
  replace ((0 <=? z) && (z <? 10 ^ 4300)) with true; [reflexivity|].
  symmetry. apply andb_true_iff. split; [apply Z.leb_le, H0|apply Z.ltb_lt, H1].
Qed.
Lemma max_count_below_limit : max_count < 10 ^ 4300.
Proof.
  unfold max_count. apply Z.lt_le_trans with (10 ^ 7); [vm_compute; reflexivity|]. apply Z.pow_le_mono_r; lia.
Qed.
Lemma fmtd_guard z : 0 <= z -> z < 10 ^ 4300 -> (0 <=? z) && (z <? 10 ^ 4300) = true.
Proof. intros H0 H1. apply andb_true_iff. split; [apply Z.leb_le, H0|apply Z.ltb_lt, H1]. Qed.
Lemma idx_ok_snoc index j : idx_ok index -> j <= max_count -> idx_ok (index ++ [j])%list.
Proof.
  intros H Hj. apply Forall_app. split; [exact H|]. constructor; [|constructor].
  pose proof max_count_below_limit as L. revert L. generalize (10 ^ 4300). intros lim L. lia.
Qed.
Lemma idx_ok_nth index j z : idx_ok index -> nth_error index j = Some z -> z < 10 ^ 4300.
Proof. intros H E. apply nth_error_In in E. unfold idx_ok in H. rewrite Forall_forall in H. apply H, E. Qed.
(* the suffixed name extends the name *)
Lemma suffix_first_app n : forall idx s s', suffix_first n idx s = Ok s' -> exists sfx, s' = s ++ sfx.
Proof.
  induction n as [|n IH]; intros idx s s' H; cbn [suffix_first] in H.
  - inversion H. subst. exists "". symmetry. apply append_nil_r.
  - destruct idx as [|i r]; [discriminate|]. destruct (i <? 0); [discriminate|].
    destruct (IH _ _ _ H) as [sfx E]. exists (idx_suffix i ++ sfx). rewrite E. apply app_str_assoc.
Qed.
Lemma fmtd2_neg z : z < 0 -> exists f, builtin_val dob (BFmtD 2) [VInt z] = RFail f.
Proof.
  intro H. cbn [builtin_val]. replace (0 <=? z) with false by (symmetry; apply Z.leb_gt, H). cbn [andb]. eauto.
Qed.

(* ================= 6. loops ================= *)
Section ForEqs.
  Variables (Ob W : Type).
  Variable ext : callsig -> list (val Ob) -> W -> res (val Ob) * W.
  Variable M : string -> option (mcall Ob W).
  Variable wfuel : nat.
  Notation eval := (eval Ob W ext M).
  Notation exec := (exec Ob W ext M wfuel).
  Notation exec_list := (exec_list Ob W ext M wfuel).
  Notation state := (state Ob W).

  Lemma exec_for t it body (s:state) :
    exec (SFor t it body) s =
      match iter_values Ob W ext M it s with
      | (ROk vs, s1) => floop Ob W (assign Ob W t) (exec_list body) vs s1
      | (RExc c, s1) => (RExc c, s1) | (RFail f, s1) => (RFail f, s1)
      end.
  Proof. reflexivity. Qed.
  Lemma floop_nil bind body (s:state) : floop Ob W bind body [] s = (ROk (CNext Ob), s).
  Proof. reflexivity. Qed.
  Lemma floop_cons bind body v r (s:state) :
    floop Ob W bind body (v::r) s =
      match bind v s with
      | (ROk _, s1) => match body s1 with
                       | (ROk (CNext _), s2) | (ROk (CCont _), s2) => floop Ob W bind body r s2
                       | (ROk (CBreak _), s2) => (ROk (CNext Ob), s2)
                       | (ROk (CRet _ x), s2) => (ROk (CRet Ob x), s2)
                       | (RExc c, s2) => (RExc c, s2) | (RFail f, s2) => (RFail f, s2)
                       end
      | (RExc c, s1) => (RExc c, s1) | (RFail f, s1) => (RFail f, s1)
      end.
  Proof. reflexivity. Qed.
  Lemma exec_list_app l1 l2 (s:state) :
    exec_list (l1 ++ l2)%list s = match exec_list l1 s with (ROk (CNext _), s1) => exec_list l2 s1 | other => other end.
  Proof.
    revert s. induction l1 as [|a r IH]; intro s; [reflexivity|].
    cbn [app]. rewrite !exec_list_cons. destruct (exec a s) as [[[| | |v]|c|f] s1]; try reflexivity. apply IH.
  Qed.
  Lemma exec_aug x o e (s:state) :
    exec (SAug (TVar x) o e) s =
      match eval (EVar x) s with
      | (ROk v0, s0) =>
          match eval e s0 with
          | (ROk v1, s1) => match binop_val Ob o v0 v1 with
                            | ROk v => (ROk (CNext Ob), set_locals Ob W (update Ob x v (locals Ob W s1)) s1)
                            | RExc c => (RExc c, s1) | RFail f => (RFail f, s1) end
          | (RExc c, s1) => (RExc c, s1) | (RFail f, s1) => (RFail f, s1) end
      | (RExc c, s0) => (RExc c, s0) | (RFail f, s0) => (RFail f, s0) end.
  Proof. reflexivity. Qed.
  Lemma iter_range e (s:state) :
    iter_values Ob W ext M (ItRange e) s =
      match eval e s with
      | (ROk (VInt n), s1) => (ROk (map (fun i => VInt (Z.of_nat i)) (seq 0 (Z.to_nat n))), s1)
      | (ROk _, s1) => (RFail (FUnmodelled "range of a non-int"), s1)
      | (RExc c, s1) => (RExc c, s1) | (RFail f, s1) => (RFail f, s1) end.
  Proof. reflexivity. Qed.
End ForEqs.

(* ---- `for x in d: offset, index = self._set_attribute(x, d, offset, index)` ----
   H: the locals as a function of the values of offset, index and the loop variable; the loop body is any statement list that
   meets the step equation H_step (proved for the translated source by computation) *)
Section KeysLoop.
Variable ident : string.
Variable leaf : string -> list Z -> st -> outcome st.
Variable p : bytes.
Hypothesis Hid : identity p = Ok ident.
Variable g_a : mcall dob W.
Variable l : list (string*item).
Variable H : val dob -> val dob -> val dob -> env dob.
Variable x : string.
Variable body : state dob W -> sres.
Hypothesis H_bind : forall vo vi vx v, update dob x v (H vo vi vx) = H vo vi v.
Hypothesis H_step : forall k off idx a r a',
  g_a [VStr k; VOpq (DBody (BItems l)); VInt off; vidx idx] a tt = (r, (a', tt)) ->
  let s := {| locals := H (VInt off) (vidx idx) (VStr k); self := a; world := tt |} in
  match r with
  | ROk (VTuple [vo'; vi']) => body s = (ROk (CNext dob), {| locals := H vo' vi' (VStr k); self := a'; world := tt |})
  | ROk _ => True
  | RExc c => fst (body s) = RExc c /\ self dob W (snd (body s)) = a'
  | RFail _ => True
  end.

Definition keys_img (index:list Z) (y:st) (s':state dob W) : Prop :=
  exists vx' a', s' = {| locals := H (VInt (snd y)) (vidx index) vx'; self := a'; world := tt |} /\ inv p a' (fst y).

Lemma keys_loop r : (forall lbl it, In (lbl, it) r -> item_spec ident leaf g_a lbl l it) ->
  forall index offset a o vx, idx_ok index -> inv p a o ->
  sout_rel p (keys_img index) (dec_items_s leaf index r (o, offset))
    (floop dob W (assign dob W (TVar x)) body (map (fun kv => VStr (fst kv)) r)
       {| locals := H (VInt offset) (vidx index) vx; self := a; world := tt |}).
Proof.
  induction r as [|[lbl it] r IH]; intros Hsub index offset a o vx Hi Hinv.
  - cbn [dec_items_s map sout_rel]. rewrite floop_nil. cbn [fst snd]. split; [reflexivity|]. exists vx, a. split; [reflexivity|exact Hinv].
  - cbn [map fst]. rewrite floop_cons.
    change (assign dob W (TVar x) (VStr lbl) {| locals := H (VInt offset) (vidx index) vx; self := a; world := tt |})
      with (@ROk unit tt, {| locals := update dob x (VStr lbl) (H (VInt offset) (vidx index) vx); self := a; world := tt |}).
    cbv beta iota. rewrite H_bind.
    pose proof (Hsub lbl it (or_introl eq_refl) p index offset a o Hid Hi Hinv) as S.
    destruct (g_a [VStr lbl; VOpq (DBody (BItems l)); VInt offset; vidx index] a tt) as [r0 [a0 []]] eqn:Eg.
    pose proof (H_step lbl offset index a r0 a0 Eg) as St. cbv zeta in St.
    change (dec_items_s leaf index ((lbl, it) :: r) (o, offset))
      with (obind (dec_item_s leaf lbl it index (o, offset)) (dec_items_s leaf index r)).
    destruct (dec_item_s leaf lbl it index (o, offset)) as [[o1 off1]|e|k|w]; cbn [out_rel obind] in *.
    + destruct S as [v [a' [E [Ev Hinv1]]]]. inversion E. subst r0 a0. cbn [snd fst] in Ev, Hinv1. subst v.
      rewrite St. apply IH; [|exact Hi|exact Hinv1]. intros lbl' it' I. apply Hsub. right. exact I.
    + destruct S as [a' [E K]]. inversion E. subst r0 a0. destruct St as [St1 St2].
      destruct (body _) as [rb sb]. cbn [fst snd] in St1, St2. subst rb. cbn [sout_rel fst snd]. rewrite St2. auto.
    + destruct S as [a' [E K]]. inversion E. subst r0 a0. destruct St as [St1 St2].
      destruct (body _) as [rb sb]. cbn [fst snd] in St1, St2. subst rb. cbn [sout_rel fst snd]. rewrite St2. auto.
    + exact I.
Qed.
End KeysLoop.

Lemma skipn_nth_none {A} (l:list A) j : nth_error l j = None -> skipn j l = [].
Proof. revert l. induction j as [|j IH]; intros [|y r]; cbn [nth_error skipn]; try reflexivity; try discriminate. apply IH. Qed.
Lemma skipn_nth_some {A} (l:list A) j z : nth_error l j = Some z -> skipn j l = z :: skipn (S j) l.
Proof.
  revert l. induction j as [|j IH]; intros [|y r]; cbn [nth_error]; try discriminate.
  - intro E. inversion E. reflexivity.
  - intro E. change (skipn (S j) (y :: r)) with (skipn j r). rewrite (IH r E). reflexivity.
Qed.

(* ---- `for i in range(n): anam += f"_{index[i]:02d}"` against suffix_first ----
   F: the locals as a function of the values of anam and of the loop variable *)
Section SuffixLoop.
Variable p : bytes.
Variable index : list Z.
Variable a : env dob.
Hypothesis Hk : kept p a.
Variable F : val dob -> val dob -> env dob.
Variable x : string.
Variable body : state dob W -> sres.
Hypothesis F_bind : forall va vi v, update dob x v (F va vi) = F va v.
Hypothesis F_step : forall s j,
  let s0 := {| locals := F (VStr s) (VInt (Z.of_nat j)); self := a; world := tt |} in
  match nth_error index j with
  | None => body s0 = (RExc "IndexError", s0)
  | Some z => if z <? 0 then True
              else body s0 = (ROk (CNext dob), {| locals := F (VStr (s ++ idx_suffix z)) (VInt (Z.of_nat j)); self := a; world := tt |})
  end.

Lemma suffix_loop n : forall j s vi,
  sout_rel p (fun s' st' => exists vi', st' = {| locals := F (VStr s') vi'; self := a; world := tt |})
    (suffix_first n (skipn j index) s)
    (floop dob W (assign dob W (TVar x)) body (map (fun i => VInt (Z.of_nat i)) (seq j n))
       {| locals := F (VStr s) vi; self := a; world := tt |}).
Proof.
  induction n as [|n IH]; intros j s vi.
  - cbn [suffix_first seq map sout_rel]. rewrite floop_nil. split; [reflexivity|]. exists vi. reflexivity.
  - cbn [seq map]. rewrite floop_cons.
    change (assign dob W (TVar x) (VInt (Z.of_nat j)) {| locals := F (VStr s) vi; self := a; world := tt |})
      with (@ROk unit tt, {| locals := update dob x (VInt (Z.of_nat j)) (F (VStr s) vi); self := a; world := tt |}).
    cbv beta iota. rewrite F_bind.
    pose proof (F_step s j) as St. cbv zeta in St.
    destruct (nth_error index j) as [z|] eqn:En.
    + rewrite (skipn_nth_some _ _ _ En). cbn [suffix_first]. destruct (z <? 0); [exact I|].
      rewrite St. apply IH.
    + rewrite (skipn_nth_none _ _ En). cbn [suffix_first sout_rel]. rewrite St. cbn [fst snd self]. split; [reflexivity|exact Hk].
Qed.
End SuffixLoop.

(* ---- `for i in range(n): index[-1] = i + 1; <the keys loop>` against rep ----
   G: the locals as a function of the values of offset, index, the loop variable, and the inner loop variable *)
Section RepLoop.
Variable p : bytes.
Variable f : list Z -> st -> outcome st.
Variable index : list Z.
Variable G : val dob -> val dob -> val dob -> val dob -> env dob.
Variable x : string.
Variable body : state dob W -> sres.
Variable nmax : nat.
Hypothesis G_bind : forall vo vi v1 vx v, update dob x v (G vo vi v1 vx) = G vo vi v vx.
Hypothesis G_step : forall k jprev offset a o vx, (k < nmax)%nat -> inv p a o ->
  sout_rel p (fun y s' => exists vx' a', s' = {| locals := G (VInt (snd y)) (vidx (index ++ [Z.of_nat k + 1])%list) (VInt (Z.of_nat k)) vx'; self := a'; world := tt |}
                                        /\ inv p a' (fst y))
    (f (index ++ [Z.of_nat k + 1])%list (o, offset))
    (body {| locals := G (VInt offset) (vidx (index ++ [jprev])%list) (VInt (Z.of_nat k)) vx; self := a; world := tt |}).

Definition rep_img (y:st) (s':state dob W) : Prop :=
  exists j' vi' vx' a', s' = {| locals := G (VInt (snd y)) (vidx (index ++ [j'])%list) vi' vx'; self := a'; world := tt |} /\ inv p a' (fst y).

Lemma rep_loop n : forall k jprev offset a o vi vx, (k + n <= nmax)%nat -> inv p a o ->
  sout_rel p rep_img (rep f index n (Z.of_nat k + 1) (o, offset))
    (floop dob W (assign dob W (TVar x)) body (map (fun i => VInt (Z.of_nat i)) (seq k n))
       {| locals := G (VInt offset) (vidx (index ++ [jprev])%list) vi vx; self := a; world := tt |}).
Proof.
  induction n as [|n IH]; intros k jprev offset a o vi vx Hn Hinv.
  - cbn [rep seq map sout_rel]. rewrite floop_nil. split; [reflexivity|]. exists jprev, vi, vx, a. split; [reflexivity|exact Hinv].
  - cbn [seq map rep]. rewrite floop_cons.
    change (assign dob W (TVar x) (VInt (Z.of_nat k)) {| locals := G (VInt offset) (vidx (index ++ [jprev])%list) vi vx; self := a; world := tt |})
      with (@ROk unit tt, {| locals := update dob x (VInt (Z.of_nat k)) (G (VInt offset) (vidx (index ++ [jprev])%list) vi vx); self := a; world := tt |}).
    cbv beta iota. rewrite G_bind.
    assert (Hk : (k < nmax)%nat) by lia.
    pose proof (G_step k jprev offset a o vx Hk Hinv) as St.
    destruct (f (index ++ [Z.of_nat k + 1])%list (o, offset)) as [[o1 off1]|e|c|w]; cbn [obind sout_rel] in *.
    + destruct St as [St1 [vx' [a' [St2 Hinv1]]]]. destruct (body _) as [rb sb]. cbn [fst snd] in *. subst rb sb.
      replace (Z.of_nat k + 1 + 1) with (Z.of_nat (S k) + 1) by lia.
      apply IH; [lia|exact Hinv1].
    + destruct St as [St1 St2]. destruct (body _) as [rb sb]. cbn [fst snd] in *. subst rb. auto.
    + destruct St as [St1 St2]. destruct (body _) as [rb sb]. cbn [fst snd] in *. subst rb. auto.
    + exact I.
Qed.
End RepLoop.

(* ================= 7. the induction over the layout, with the call-depth budget ================= *)
(* m_attr, m_grp, m_opt: the three translated methods; what is asked of them (attr_ok, grp_ok, opt_ok) is proved per run by symbolic
   execution, in an arbitrary method table whose callees meet their specifications.
   M: a family of method tables indexed by the remaining call depth, as rlink makes it; from depth c0 on the table has a
   "_set_attribute_single" that meets single_spec. *)
Section Induction.
Variable T : tables.
Variable wfuel : nat.
Variable reserved : list string.
Variable ident : string.
Variable leaf : string -> list Z -> st -> outcome st.
Variable name_ok : string -> bool.
Variables m_attr m_grp m_opt : method.
Notation ext := (msgdec_ext T).
Notation mtab := (string -> option (mcall dob W)).

Hypothesis attr_ok : forall (MT:mtab) g_s g_g g_o lbl l it,
  MT "_set_attribute_single" = Some g_s -> single_spec ident leaf name_ok g_s ->
  MT "_set_attribute_group" = Some g_g -> MT "_set_attribute_optional" = Some g_o ->
  assoc lbl l = Some it -> lbl <> "IDF038" -> name_ok lbl = true ->
  (forall c b, it = IGroup c b -> adef_spec ident leaf g_g it) ->
  (forall k con b, it = IOpt k con b -> adef_spec ident leaf g_o it) ->
  item_spec ident leaf (call dob W ext MT wfuel "_set_attribute" m_attr) lbl l it.
Hypothesis grp_ok : forall (MT:mtab) g_a c b,
  MT "_set_attribute" = Some g_a -> ent_keys_ok reserved (IGroup c b) = true ->
  (forall l, b = BItems l -> forall lbl it, In (lbl, it) l -> item_spec ident leaf g_a lbl l it) ->
  adef_spec ident leaf (call dob W ext MT wfuel "_set_attribute_group" m_grp) (IGroup c b).
Hypothesis opt_ok : forall (MT:mtab) g_a k con b,
  MT "_set_attribute" = Some g_a -> key_ok reserved k = true ->
  (forall l, b = BItems l -> forall lbl it, In (lbl, it) l -> item_spec ident leaf g_a lbl l it) ->
  adef_spec ident leaf (call dob W ext MT wfuel "_set_attribute_optional" m_opt) (IOpt k con b).

Variable M : nat -> mtab.
Variable c0 : nat.
Hypothesis c0_pos : (1 <= c0)%nat.
Hypothesis M_attr : forall d, M (S d) "_set_attribute" = Some (call dob W ext (M d) wfuel "_set_attribute" m_attr).
Hypothesis M_grp : forall d, M (S d) "_set_attribute_group" = Some (call dob W ext (M d) wfuel "_set_attribute_group" m_grp).
Hypothesis M_opt : forall d, M (S d) "_set_attribute_optional" = Some (call dob W ext (M d) wfuel "_set_attribute_optional" m_opt).
Hypothesis M_single : forall d, (c0 <= d)%nat -> exists g, M d "_set_attribute_single" = Some g /\ single_spec ident leaf name_ok g.

Let P (it:item) : Prop := forall d lbl l,
  (c0 + item_depth it <= d)%nat -> assoc lbl l = Some it -> lbl <> "IDF038" -> name_ok lbl = true ->
  ent_keys_ok reserved it = true -> sub_ok reserved name_ok it = true ->
  item_spec ident leaf (call dob W ext (M d) wfuel "_set_attribute" m_attr) lbl l it.
Let Q (b:body) : Prop := forall d l,
  (c0 + body_depth b <= d)%nat -> walk_ok reserved name_ok b = true -> b = BItems l ->
  forall lbl it, In (lbl, it) l -> item_spec ident leaf (call dob W ext (M d) wfuel "_set_attribute" m_attr) lbl l it.

Lemma walk_PQ : (forall it, P it) /\ (forall b, Q b).
Proof.
  apply item_body_ind.
  - (* a field *)
    intros key d lbl l Hd Hl H038 Hn _ _. cbn [item_depth] in Hd.
    destruct d as [|d']; [lia|]. destruct (M_single (S d')) as [g_s [Hs Gs]]; [lia|].
    eapply attr_ok; try eassumption; try apply M_grp; try apply M_opt; intros; discriminate.
  - (* a bad entry *)
    intros w d lbl l Hd Hl H038 Hn _ _. cbn [item_depth] in Hd.
    destruct d as [|d']; [lia|]. destruct (M_single (S d')) as [g_s [Hs Gs]]; [lia|].
    eapply attr_ok; try eassumption; try apply M_grp; try apply M_opt; intros; discriminate.
  - (* a repeating group *)
    intros c b IH d lbl l Hd Hl H038 Hn Hk Hsub.
    change (item_depth (IGroup c b)) with (S (S (body_depth b))) in Hd.
    destruct d as [|[|d'']]; try lia. destruct (M_single (S (S d''))) as [g_s [Hs Gs]]; [lia|].
    eapply attr_ok; try eassumption; try apply M_grp; try apply M_opt; [|intros; discriminate].
    intros c' b' E. apply grp_ok with (g_a := call dob W ext (M d'') wfuel "_set_attribute" m_attr); [apply M_attr|exact Hk|].
    intros l' El lbl' it' I. apply (IH d'' l'); [lia|exact Hsub|exact El|exact I].
  - (* a conditional group *)
    intros k con b IH d lbl l Hd Hl H038 Hn Hk Hsub.
    change (item_depth (IOpt k con b)) with (S (S (body_depth b))) in Hd.
    destruct d as [|[|d'']]; try lia. destruct (M_single (S (S d''))) as [g_s [Hs Gs]]; [lia|].
    eapply attr_ok; try eassumption; try apply M_grp; try apply M_opt; [intros; discriminate|].
    intros k' con' b' E. apply opt_ok with (g_a := call dob W ext (M d'') wfuel "_set_attribute" m_attr); [apply M_attr|exact Hk|].
    intros l' El lbl' it' I. apply (IH d'' l'); [lia|exact Hsub|exact El|exact I].
  - (* a dict *)
    intros l0 IH d l Hd Hok E lbl it I. inversion E. subst l0. clear E.
    destruct (walk_ok_items reserved name_ok l Hok) as [Hnd Hent].
    destruct (Hent lbl it I) as [H038 [Hn [Hk Hsub]]].
    rewrite Forall_forall in IH. apply (IH (lbl, it) I); try assumption.
    + pose proof (body_depth_in l lbl it I). cbn [snd]. lia.
    + apply assoc_in_nodup; assumption.
  - intros w d l _ _ E. discriminate.
Qed.

(* _set_attribute on an entry of a dict that passes walk_ok *)
Theorem walk_item_ok d l lbl it :
  walk_ok reserved name_ok (BItems l) = true -> assoc lbl l = Some it -> (c0 + body_depth (BItems l) <= d)%nat ->
  item_spec ident leaf (call dob W ext (M d) wfuel "_set_attribute" m_attr) lbl l it.
Proof.
  intros Hok Hl Hd. apply (proj2 walk_PQ (BItems l) d l Hd Hok eq_refl).
  clear -Hl. induction l as [|[k x] r IH]; [discriminate|]. cbn [assoc] in Hl.
  destruct (String.eqb k lbl) eqn:E; [left; apply String.eqb_eq in E; inversion Hl; subst; reflexivity|right; apply IH, Hl].
Qed.
End Induction.
