(* The guard of the guarded field step (Src/PyOMsgDecLemmas.v: set_single_guarded = set_single where single_pre holds, "not modelled"
   elsewhere) and the one refined outcome of the walk (Src/PyOMsgDecWalkLemmas.v: dec_item_s, a str-valued repeat count is "not
   modelled") are never met along the walk of a layout, under DECIDABLE conditions on the tables and on the layout.  So, under those
   conditions, the walk over the guarded step IS the model's walk:
       guarded_body_eq :  gt_ok = true -> g_body false b = true -> Inv o ->
                          dec_body_s (set_single_guarded T ident) b [] (o, off) = dec_body T ident b [] (o, off)
   Nothing here depends on the translated source; it is a fact about the model (Model/Message.v).

   The invariant (Inv) is a typing of the data attributes set so far:
     - an attribute named like a STR data field (is_strname) holds a str                 [single_pre: str_or_absent at a STR field]
     - the attributes NSAT, NSIG, DF394, DF395, DF396 hold ints                           [single_pre: int_or_absent, masks_plain]
     - an attribute whose name starts with a repeat-count key of the layout (cks) holds an int   [dec_item_s: no str-valued count]
   and at the field DF396 the attribute DF396 itself has just been set (lazy_same), provided the field is not inside a repeated
   group (there it would be stored as DF396_nn).
   Conditions on the tables (gt_ok; cks = the repeat-count keys, "+n" stripped, of the layouts considered):
     - no STR field key, none of the five names and no count key contains "_" (a rendered name anam_01_02 cannot be one of them)
     - every data field whose key is one of the five names or starts with a count key is an int field (not CHA / STR / PRN / CPR / CSG,
       resolution 0 or 1: the value stored is the plain integer)
     - NSAT, NSIG, NCELL are not keys of STR fields
   Conditions on a layout (g_body false b): no label "IDF038"; the count key of every group is in cks; no label "DF396" inside a
   repeated group. *)
From Coq Require Import ZArith NArith List String Ascii Bool Lia.
From PyRtcm Require Import Base.Bytes Base.Dec Model.Types Model.Message.
From PyRtcm Require Import Proofs.DecodeWalk.
From PyRtcm Require Import Src.PyOMsgDecLemmas Src.PyOMsgDecWalkLemmas.
Import ListNotations.
Open Scope string_scope.

(* ================= strings ================= *)
Fixpoint has_us (s:string) : bool := match s with EmptyString => false | String c r => Ascii.eqb c "_" || has_us r end.
Lemma has_us_app s t : has_us (s ++ t) = has_us s || has_us t.
Proof. induction s as [|c s IH]; [reflexivity|]. cbn [append has_us]. rewrite IH. apply orb_assoc. Qed.
Lemma str_app_assoc (a b c:string) : (a ++ b) ++ c = a ++ (b ++ c).
Proof. induction a as [|x a IH]; [reflexivity|]. cbn [append]. now rewrite IH. Qed.
Lemma prefix_nil s : String.prefix "" s = true.
Proof. destruct s; reflexivity. Qed.
Lemma prefix_refl k : String.prefix k k = true.
Proof. rewrite <- (append_nil_r k) at 2. apply prefix_app. Qed.
(* a name without "_" that starts a ++ "_" ++ r starts a *)
Lemma prefix_cut k : has_us k = false -> forall a r, String.prefix k (a ++ String "_" r) = true -> String.prefix k a = true.
Proof.
  induction k as [|c k IH]; intros H a r P; [apply prefix_nil|].
  cbn [has_us] in H. apply orb_false_iff in H. destruct H as [Hc Hk].
  destruct a as [|d a]; cbn [append String.prefix] in P |- *.
  - destruct (ascii_dec c "_") as [E|E]; [|discriminate]. subst c. discriminate.
  - destruct (ascii_dec c d); [|discriminate]. eapply IH; eassumption.
Qed.

(* the rendered name is the label, or the label and a tail that starts with "_" *)
Definition sfx_ok (S:string) : Prop := S = "" \/ exists r, S = String "_" r.
Lemma render_name_sfx anam index : exists S, render_name anam index = anam ++ S /\ sfx_ok S.
Proof.
  unfold render_name.
  assert (G : forall S0, sfx_ok S0 ->
            exists S, fold_left (fun s i => if (0 <? i)%Z then s ++ idx_suffix i else s) index (anam ++ S0) = anam ++ S /\ sfx_ok S).
  { induction index as [|i r IH]; intros S0 H0; [exists S0; split; [reflexivity|exact H0]|].
    cbn [fold_left]. destruct (0 <? i)%Z; [|apply IH, H0].
    rewrite str_app_assoc. apply IH. unfold idx_suffix.
    destruct H0 as [->|[q ->]]; right; eexists; reflexivity. }
  destruct (G "" (or_introl eq_refl)) as [S [E H]]. rewrite append_nil_r in E. exists S. split; assumption.
Qed.
Lemma suffix_first_prefix n : forall index k s, suffix_first n index k = Ok s -> String.prefix k s = true.
Proof.
  assert (G : forall index acc s, suffix_first n index acc = Ok s -> exists t, s = acc ++ t).
  { induction n as [|n IH]; intros index acc s E; cbn [suffix_first] in E.
    - inversion E. exists "". now rewrite append_nil_r.
    - destruct index as [|i r]; [discriminate|]. destruct (i <? 0)%Z; [discriminate|].
      destruct (IH _ _ _ E) as [t ->]. rewrite str_app_assoc. eexists. reflexivity. }
  intros index k s E. destruct (G _ _ _ E) as [t ->]. apply prefix_app.
Qed.

(* ================= attribute lists ================= *)
Lemma assoc_upd {A} n k (v:A) l : assoc n (upd k v l) = if String.eqb k n then Some v else assoc n l.
Proof.
  induction l as [|[k' v'] r IH]; cbn [upd assoc]; [reflexivity|].
  destruct (String.eqb k' k) eqn:E; cbn [assoc].
  - apply String.eqb_eq in E. subst k'. destruct (String.eqb k n); reflexivity.
  - rewrite IH. destruct (String.eqb k' n) eqn:E1; [|reflexivity].
    destruct (String.eqb k n) eqn:E2; [|reflexivity].
    apply String.eqb_eq in E1, E2. subst. rewrite String.eqb_refl in E. discriminate.
Qed.
Lemma setattr_attrs o k v o' : Message.setattr o k v = Ok o' -> o_attrs o' = upd k v (o_attrs o).
Proof. unfold Message.setattr. destruct (o_immutable o); [discriminate|]. intro E. inversion E. reflexivity. Qed.

Definition is_str (v:value) : bool := match v with Types.VStr _ => true | _ => false end.
Definition is_int (v:value) : bool := match v with Types.VInt _ => true | _ => false end.
Definition is_textual (t:dtype) : bool := match t with TCHA | TSTR | TPRN | TCPR | TCSG => true | _ => false end.
(* a field whose value is stored as the plain integer read *)
Definition int_field (fd:dfield) : bool := negb (is_textual (df_ty fd)) && res_is_unit (df_res fd).

Lemma scale_unit v r : res_is_unit r = true -> scale v r = Ok (Types.VInt v).
Proof. unfold res_is_unit, scale. destruct r; intro H; [rewrite H|rewrite H|discriminate]; reflexivity. Qed.

Lemma single_value_int fd asiz index o off val ob :
  int_field fd = true -> single_value fd asiz index o off = Ok (val, ob) -> is_int val = true.
Proof.
  unfold int_field, single_value. intro H. apply andb_true_iff in H. destruct H as [H1 H2].
  destruct (df_ty fd); cbn [is_textual negb] in H1; try discriminate;
    destruct (get_bits _ _ _ _) as [bits| | |]; cbn [obind]; try discriminate;
    try (destruct (asiz <? 1)%Z; [discriminate|]); rewrite (scale_unit _ _ H2); cbn [obind]; intro E; inversion E; reflexivity.
Qed.
Lemma single_value_str fd asiz index o off val ob :
  df_ty fd = TSTR -> single_value fd asiz index o off = Ok (val, ob) -> is_str val = true.
Proof.
  unfold single_value. intros ->. destruct (get_bits _ _ _ _) as [bits| | |]; cbn [obind]; try discriminate.
  destruct (bits =? 0)%N; [intro E; inversion E; reflexivity|].
  destruct (1114112 <=? bits)%N; [discriminate|]. intro E. inversion E. reflexivity.
Qed.

(* ================= the layout conditions ================= *)
Section Layout.
Variable cks : list string.
Definition g_ent (deep:bool) (lbl:string) : bool := negb (String.eqb lbl "IDF038") && negb (deep && String.eqb lbl "DF396").
Definition g_count (c:count) : bool :=
  match c with CNamed key => existsb (String.eqb (fst (split_plus key))) cks | _ => true end.
(* deep: inside a repeated group *)
Fixpoint g_item (deep:bool) (it:item) : bool :=
  match it with
  | IGroup c b => g_count c && g_body true b
  | IOpt _ _ b => g_body deep b
  | IField _ | IBad _ => true
  end
with g_body (deep:bool) (b:body) : bool :=
  match b with
  | BItems l => (fix go (l:list (string*item)) : bool :=
                   match l with [] => true | (lbl,it)::r => g_ent deep lbl && g_item deep it && go r end) l
  | BNotDict _ => true
  end.
Definition g_items (deep:bool) : list (string*item) -> bool :=
  fix go (l:list (string*item)) : bool := match l with [] => true | (lbl,it)::r => g_ent deep lbl && g_item deep it && go r end.
Lemma g_body_items deep l : g_body deep (BItems l) = g_items deep l.
Proof. reflexivity. Qed.
End Layout.

(* the repeat-count keys of a layout ("+n" stripped): a candidate for cks (only the checks above matter) *)
Fixpoint count_keys_item (it:item) : list string :=
  match it with
  | IGroup c b => ((match c with CNamed key => [fst (split_plus key)] | _ => [] end) ++ count_keys_body b)%list
  | IOpt _ _ b => count_keys_body b
  | IField _ | IBad _ => []
  end
with count_keys_body (b:body) : list string :=
  match b with
  | BItems l => (fix go (l:list (string*item)) : list string := match l with [] => [] | (_,it)::r => (count_keys_item it ++ go r)%list end) l
  | BNotDict _ => []
  end.

(* ================= the invariant ================= *)
Section Guard.
Variable T : tables.
Variable cks : list string.

Definition intbase : list string := [t_nsat T; t_nsig T; "DF394"; "DF395"; "DF396"].
Definition intname (n:string) : bool := existsb (String.eqb n) intbase || existsb (fun k => String.prefix k n) cks.
Definition is_strname (k:string) : bool :=
  match find_field T k with Some fd => match df_ty fd with TSTR => true | _ => false end | None => false end.

Definition Inv (o:obj) : Prop :=
  forall n v, assoc n (o_attrs o) = Some v -> (is_strname n = true -> is_str v = true) /\ (intname n = true -> is_int v = true).

Definition gt_ok : bool :=
  forallb (fun fd => match df_ty fd with TSTR => negb (has_us (df_key fd)) | _ => true end) (t_fields T) &&
  forallb (fun k => negb (has_us k)) (intbase ++ cks)%list &&
  forallb (fun fd => negb (intname (df_key fd)) || int_field fd) (t_fields T) &&
  forallb (fun k => negb (is_strname k)) [t_nsat T; t_nsig T; t_ncell T].

Lemma Inv_nil o : o_attrs o = [] -> Inv o.
Proof. intros E n v H. rewrite E in H. discriminate. Qed.
Lemma Inv_attrs o o' : o_attrs o' = o_attrs o -> Inv o -> Inv o'.
Proof. intros E H n v A. rewrite E in A. exact (H n v A). Qed.
Lemma setattr_inv o k v o' :
  Inv o -> (is_strname k = true -> is_str v = true) -> (intname k = true -> is_int v = true) ->
  Message.setattr o k v = Ok o' -> Inv o'.
Proof.
  intros HI H1 H2 E n w A. rewrite (setattr_attrs _ _ _ _ E), assoc_upd in A.
  destruct (String.eqb k n) eqn:Ek; [|exact (HI n w A)].
  apply String.eqb_eq in Ek. subst n. inversion A. subst w. split; assumption.
Qed.

Lemma find_field_key k fd : find_field T k = Some fd -> In fd (t_fields T) /\ df_key fd = k.
Proof. unfold find_field. intro H. apply find_some in H. destruct H as [H1 H2]. split; [exact H1|apply String.eqb_eq, H2]. Qed.

Section WithTables.
Hypothesis GT : gt_ok = true.

Lemma gt_parts :
  (forall n, is_strname n = true -> has_us n = false) /\
  (forall k, In k (intbase ++ cks)%list -> has_us k = false) /\
  (forall n fd, find_field T n = Some fd -> intname n = true -> int_field fd = true) /\
  is_strname (t_nsat T) = false /\ is_strname (t_nsig T) = false /\ is_strname (t_ncell T) = false.
Proof.
  pose proof GT as G. unfold gt_ok in G.
  apply andb_true_iff in G. destruct G as [G G4]. apply andb_true_iff in G. destruct G as [G G3'].
  apply andb_true_iff in G. destruct G as [G1' G2'].
  rewrite forallb_forall in G1', G2', G3'. cbn [forallb] in G4.
  apply andb_true_iff in G4. destruct G4 as [S1 G4]. apply andb_true_iff in G4. destruct G4 as [S2 G4].
  apply andb_true_iff in G4. destruct G4 as [S3 _].
  split; [|split; [|split; [|repeat split; apply negb_true_iff; assumption]]].
  - intros n Hn. unfold is_strname in Hn. destruct (find_field T n) as [fd|] eqn:EF; [|discriminate].
    destruct (find_field_key _ _ EF) as [I K]. specialize (G1' fd I). destruct (df_ty fd); try discriminate.
    rewrite K in G1'. apply negb_true_iff, G1'.
  - intros k I. apply negb_true_iff, G2', I.
  - intros n fd EF Hn. destruct (find_field_key _ _ EF) as [I K]. specialize (G3' fd I). rewrite K, Hn in G3'. exact G3'.
Qed.
Definition G1 := proj1 gt_parts.
Definition G2 := proj1 (proj2 gt_parts).
Definition G3 := proj1 (proj2 (proj2 gt_parts)).

Lemma intname_base k : In k intbase -> intname k = true.
Proof.
  intro I. unfold intname. apply orb_true_iff. left. apply existsb_exists. exists k. split; [exact I|apply String.eqb_refl].
Qed.
Lemma intname_prefix k n : In k cks -> String.prefix k n = true -> intname n = true.
Proof. intros I P. unfold intname. apply orb_true_iff. right. apply existsb_exists. exists k. split; assumption. Qed.
(* an int name with an index tail: the label is an int name *)
Lemma intname_sfx anam r : intname (anam ++ String "_" r) = true -> intname anam = true.
Proof.
  unfold intname. intro H. apply orb_true_iff in H. destruct H as [H|H]; apply existsb_exists in H; destruct H as [k [I E]].
  - apply String.eqb_eq in E. subst k. pose proof (G2 _ (in_or_app _ _ _ (or_introl I))) as U.
    rewrite has_us_app in U. cbn [has_us Ascii.eqb Bool.eqb] in U. rewrite orb_true_r in U. discriminate.
  - apply orb_true_iff. right. apply existsb_exists. exists k. split; [exact I|].
    eapply prefix_cut; [apply G2, in_or_app; right; exact I|exact E].
Qed.

Lemma gsm_attrs ident o o2 : getsatcellmaps T ident o = Ok o2 -> o_attrs o2 = o_attrs o.
Proof.
  rewrite getsatcellmaps_eq. destruct (assoc _ _) as [[pm sm]|]; [|discriminate].
  destruct (getint o "DF394"); cbn [obind]; try discriminate.
  destruct (getint o "DF395"); cbn [obind]; try discriminate.
  destruct (getint o "DF396"); cbn [obind]; try discriminate.
  intro E. inversion E. reflexivity.
Qed.

(* ---------- the field step keeps the invariant ---------- *)
Lemma store_inv fd anam index val ob asiz o off o1 :
  find_field T anam = Some fd -> single_value fd asiz index o off = Ok (val, ob) ->
  Inv o -> single_store fd anam (render_name anam index) val o = Ok o1 -> Inv o1.
Proof.
  intros EF EV HI ES. unfold single_store in ES.
  destruct (match df_ty fd with TSTR => true | _ => false end) eqn:Ety.
  - (* STR: stored under the label, a str *)
    assert (Et : df_ty fd = TSTR) by (destruct (df_ty fd); try discriminate; reflexivity).
    rewrite Et in ES. pose proof (single_value_str _ _ _ _ _ _ _ Et EV) as Hs.
    assert (Hn : intname anam = true -> False).
    { intro Hn. pose proof (G3 _ _ EF Hn) as F. unfold int_field in F. rewrite Et in F. discriminate. }
    destruct (assoc anam (o_attrs o)) as [[z|f|old]|] eqn:EA; try discriminate.
    + destruct val as [z|f|new]; try discriminate.
      eapply setattr_inv; [exact HI| | |exact ES]; [reflexivity|intro; exfalso; auto].
    + eapply setattr_inv; [exact HI| | |exact ES]; [intro; exact Hs|intro; exfalso; auto].
  - (* any other type: stored under the rendered name *)
    assert (ES' : Message.setattr o (render_name anam index) val = Ok o1) by (destruct (df_ty fd); try discriminate; exact ES).
    destruct (render_name_sfx anam index) as [S [ER HS]]. rewrite ER in ES'.
    eapply setattr_inv; [exact HI| | |exact ES'].
    + intro Hn. exfalso. destruct HS as [->|[r ->]].
      * rewrite append_nil_r in Hn. unfold is_strname in Hn. rewrite EF in Hn. destruct (df_ty fd); discriminate.
      * pose proof (G1 _ Hn) as U. rewrite has_us_app in U. cbn [has_us Ascii.eqb Bool.eqb] in U. rewrite orb_true_r in U. discriminate.
    + intro Hn. assert (Ha : intname anam = true).
      { destruct HS as [->|[r ->]]; [rewrite append_nil_r in Hn; exact Hn|eapply intname_sfx; exact Hn]. }
      eapply single_value_int; [exact (G3 _ _ EF Ha)|exact EV].
Qed.
Lemma extras_inv gsm anam ob o1 o2 :
  (forall o o', gsm o = Ok o' -> o_attrs o' = o_attrs o) ->
  Inv o1 -> single_extras T gsm anam ob o1 = Ok o2 -> Inv o2.
Proof.
  intros Hg HI E. unfold single_extras in E. destruct gt_parts as [_ [_ [_ [S1 [S2 S3]]]]].
  destruct (_ || _); [|inversion E; subst; exact HI].
  destruct ob as [bits|]; [|discriminate].
  destruct (String.eqb anam "DF394").
  { eapply setattr_inv; [exact HI| | |exact E]; [rewrite S1; discriminate|reflexivity]. }
  destruct (String.eqb anam "DF395").
  { eapply setattr_inv; [exact HI| | |exact E]; [rewrite S2; discriminate|reflexivity]. }
  destruct (Message.setattr o1 (t_ncell T) _) as [o'| | |] eqn:E1; cbn [obind] in E; try discriminate.
  eapply Inv_attrs; [exact (Hg _ _ E)|].
  eapply setattr_inv; [exact HI| | |exact E1]; [rewrite S3; discriminate|reflexivity].
Qed.
Lemma gen_inv gsm anam index o off o' off' :
  (forall o o', gsm o = Ok o' -> o_attrs o' = o_attrs o) ->
  anam <> "IDF038" -> Inv o -> set_single_gen T gsm anam index (o, off) = Ok (o', off') -> Inv o'.
Proof.
  intros Hg NH HI E. unfold set_single_gen in E.
  destruct (find_field T anam) as [fd|] eqn:EF; [|discriminate].
  destruct (single_asiz T anam fd o) as [asiz| | |]; cbn [obind] in E; try discriminate.
  destruct (single_value fd asiz index o off) as [[val ob]| | |] eqn:EV; cbn [obind fst snd] in E; try discriminate.
  destruct (single_store fd anam (render_name anam index) val o) as [o1| | |] eqn:ES; cbn [obind] in E; try discriminate.
  destruct (single_extras T gsm anam ob o1) as [o2| | |] eqn:EX; cbn [obind] in E; try discriminate.
  unfold single_harm in E. apply String.eqb_neq in NH. rewrite NH in E. cbn [obind] in E. inversion E. subst o' off'.
  eapply extras_inv; [exact Hg| |exact EX]. eapply store_inv; eassumption.
Qed.
Lemma single_inv ident anam index o off o' off' :
  anam <> "IDF038" -> Inv o -> set_single T ident anam index (o, off) = Ok (o', off') -> Inv o'.
Proof. intros NH HI E. rewrite set_single_gen_eq in E. eapply gen_inv; [apply gsm_attrs|exact NH|exact HI|exact E]. Qed.

(* ---------- the invariant gives the guard ---------- *)
Lemma setattr_present o k v o' n : Message.setattr o k v = Ok o' -> assoc n (o_attrs o) <> None -> assoc n (o_attrs o') <> None.
Proof. intros E H. rewrite (setattr_attrs _ _ _ _ E), assoc_upd. destruct (String.eqb k n); [discriminate|exact H]. Qed.
Lemma setattr_same o k v o' : Message.setattr o k v = Ok o' -> assoc k (o_attrs o') <> None.
Proof. intro E. rewrite (setattr_attrs _ _ _ _ E), assoc_upd, String.eqb_refl. discriminate. Qed.

Lemma df396_present index o off o2 off2 :
  set_single_gen T (fun x => Ok x) "DF396" index (o, off) = Ok (o2, off2) -> render_name "DF396" index = "DF396" ->
  assoc "DF396" (o_attrs o2) <> None.
Proof.
  intros E ER. unfold set_single_gen in E. rewrite ER in E.
  destruct (find_field T "DF396") as [fd|]; [|discriminate].
  destruct (single_asiz T "DF396" fd o) as [asiz| | |]; cbn [obind] in E; try discriminate.
  destruct (single_value fd asiz index o off) as [[val ob]| | |]; cbn [obind fst snd] in E; try discriminate.
  destruct (single_store fd "DF396" "DF396" val o) as [o1| | |] eqn:ES; cbn [obind] in E; try discriminate.
  destruct (single_extras T (fun x => Ok x) "DF396" ob o1) as [o2'| | |] eqn:EX; cbn [obind] in E; try discriminate.
  unfold single_harm in E. cbn [String.eqb Ascii.eqb Bool.eqb obind] in E. inversion E. subst o2' off2.
  assert (P1 : assoc "DF396" (o_attrs o1) <> None).
  { unfold single_store in ES.
    destruct (df_ty fd); try exact (setattr_same _ _ _ _ ES).
    destruct (assoc "DF396" (o_attrs o)) as [[z|f|old]|]; try discriminate; [destruct val; try discriminate|]; exact (setattr_same _ _ _ _ ES). }
  unfold single_extras in EX. cbn [String.eqb Ascii.eqb Bool.eqb orb] in EX.
  destruct ob as [bits|]; [|discriminate].
  destruct (Message.setattr o1 (t_ncell T) _) as [o'| | |] eqn:E1; cbn [obind] in EX; try discriminate.
  inversion EX. subst o'. eapply setattr_present; eassumption.
Qed.

Ltac inb := cbn [In]; first [left; reflexivity | right; inb].
Lemma inv_int o k : Inv o -> intname k = true -> int_or_absent_b o k = true.
Proof.
  intros HI Hk. unfold int_or_absent_b. destruct (assoc k (o_attrs o)) as [v|] eqn:EA; [|reflexivity].
  pose proof (proj2 (HI k v EA) Hk) as H. destruct v; try discriminate; reflexivity.
Qed.

Lemma inv_single_pre ident anam index o off :
  anam <> "IDF038" -> Inv o -> (anam = "DF396" -> render_name anam index = anam) ->
  single_pre T ident anam index (o, off) = true.
Proof.
  intros NH HI H396. unfold single_pre. destruct (find_field T anam) as [fd|] eqn:EF; [|reflexivity].
  apply andb_true_iff. split.
  - destruct (df_ty fd) eqn:Ety; try reflexivity. cbn [fst]. unfold str_or_absent_b.
    destruct (assoc anam (o_attrs o)) as [v|] eqn:EA; [|reflexivity].
    assert (Hs : is_strname anam = true) by (unfold is_strname; rewrite EF, Ety; reflexivity).
    pose proof (proj1 (HI anam v EA) Hs) as H. destruct v; try discriminate; reflexivity.
  - destruct (String.eqb anam "DF396") eqn:E396; [|reflexivity]. apply String.eqb_eq in E396. subst anam. cbn [fst].
    rewrite (inv_int o (t_nsat T) HI) by (apply intname_base; unfold intbase; inb).
    rewrite (inv_int o (t_nsig T) HI) by (apply intname_base; unfold intbase; inb). cbn [andb].
    destruct (set_single_gen T (fun x => Ok x) "DF396" index (o, off)) as [[o2 off2]| | |] eqn:EG; try reflexivity.
    assert (HI2 : Inv o2) by (apply (gen_inv (fun x => Ok x) "DF396" index o off o2 off2); [intros ? ? E; inversion E; reflexivity|exact NH|exact HI|exact EG]).
    pose proof (df396_present _ _ _ _ _ EG (H396 eq_refl)) as P.
    apply andb_true_iff. split.
    + unfold masks_plain_b. apply forallb_forall. intros k Ik.
      destruct (assoc k (o_attrs o2)) as [v|] eqn:EA; [|reflexivity].
      assert (Hk : intname k = true) by (apply intname_base; cbn in Ik |- *; tauto).
      pose proof (proj2 (HI2 k v EA) Hk) as H. destruct v; try discriminate; reflexivity.
    + assert (G : exists z, getint o2 "DF396" = Ok z).
      { unfold getint, getattr. destruct (assoc "DF396" (o_attrs o2)) as [v|] eqn:EA; [|congruence].
        assert (Hk : intname "DF396" = true) by (apply intname_base; unfold intbase; inb).
        pose proof (proj2 (HI2 _ v EA) Hk) as H. destruct v; try discriminate. eexists. reflexivity. }
      destruct G as [z G]. unfold lazy_same_b.
      destruct (assoc _ (t_prnsig T)) as [[pm sm]|]; [|reflexivity].
      destruct (getint o2 "DF394"); try reflexivity. destruct (getint o2 "DF395"); try reflexivity.
      rewrite G. destruct (Nat.eqb _ 0); reflexivity.
Qed.

(* ---------- a repeat count is never a str ---------- *)
Lemma getint_s_eq o k : Inv o -> intname k = true -> getint_s o k = getint o k.
Proof.
  intros HI Hk. unfold getint_s, getint, getattr. destruct (assoc k (o_attrs o)) as [v|] eqn:EA; [|reflexivity].
  pose proof (proj2 (HI k v EA) Hk) as H. destruct v; try discriminate; reflexivity.
Qed.
Lemma group_size_eq c index o : Inv o -> g_count cks c = true -> group_size_s c index o = group_size c index o.
Proof.
  intros HI Hc. destruct c as [n|key|w]; try reflexivity. cbn [g_count] in Hc.
  apply existsb_exists in Hc. destruct Hc as [k0 [I E]]. apply String.eqb_eq in E. subst k0.
  unfold group_size_s, group_size. destruct (split_plus key) as [k [nl|]] eqn:ES; cbn [fst] in I.
  - destruct (contains "+" nl); [reflexivity|]. destruct (N_of_str nl) as [n|]; [|reflexivity].
    destruct (suffix_first (N.to_nat n) index k) as [anam| | |] eqn:EF; cbn [obind]; try reflexivity.
    rewrite (getint_s_eq o anam HI) by (eapply intname_prefix; [exact I|eapply suffix_first_prefix; exact EF]). reflexivity.
  - cbn [obind]. rewrite (getint_s_eq o k HI) by (eapply intname_prefix; [exact I|apply prefix_refl]). reflexivity.
Qed.

(* ================= the walk ================= *)
Section Walk.
Variable ident : string.
Notation leaf_g := (set_single_guarded T ident).

(* on states that satisfy the invariant: the same outcome, and the invariant is kept *)
Definition same_on (f_s f : st -> outcome st) : Prop :=
  forall s, Inv (fst s) -> f_s s = f s /\ forall s', f s = Ok s' -> Inv (fst s').

Lemma rep_same f_s f index : (forall idx, same_on (f_s idx) (f idx)) -> forall n i, same_on (rep f_s index n i) (rep f index n i).
Proof.
  intros H n. induction n as [|n IH]; intros i s HI; cbn [rep].
  - split; [reflexivity|]. intros s' E. inversion E. subst. exact HI.
  - destruct (H (index ++ [i])%list s HI) as [E P]. rewrite E.
    destruct (f (index ++ [i])%list s) as [s1| | |]; cbn [obind]; try (split; [reflexivity|discriminate]).
    apply IH, P. reflexivity.
Qed.

Lemma walk_same :
  (forall it deep lbl index, g_item cks deep it = true -> g_ent deep lbl = true -> (deep = false -> index = []) ->
     same_on (dec_item_s leaf_g lbl it index) (dec_item T ident lbl it index)) /\
  (forall b deep index, g_body cks deep b = true -> (deep = false -> index = []) ->
     same_on (dec_body_s leaf_g b index) (dec_body T ident b index)).
Proof.
  apply item_body_ind.
  - (* a field *)
    intros key deep lbl index _ Hent Hidx [o off] HI. cbn [fst] in HI.
    unfold g_ent in Hent. apply andb_true_iff in Hent. destruct Hent as [H1 H2].
    apply negb_true_iff, String.eqb_neq in H1. apply negb_true_iff in H2.
    cbn [dec_item_s]. rewrite dec_item_field. unfold set_single_guarded.
    rewrite (inv_single_pre ident lbl index o off H1 HI).
    + split; [reflexivity|]. intros [o' off'] E. cbn [fst]. eapply single_inv; eassumption.
    + intro E. subst lbl. destruct deep; [cbn in H2; discriminate|]. rewrite (Hidx eq_refl). reflexivity.
  - (* not an entry the model knows *)
    intros w deep lbl index _ _ _ s HI. split; [reflexivity|discriminate].
  - (* a repeated group *)
    intros c b IH deep lbl index Hg _ _ s HI. cbn [g_item] in Hg. apply andb_true_iff in Hg. destruct Hg as [Hc Hb].
    rewrite dec_item_s_group, dec_item_group, (group_size_eq c index (fst s) HI Hc).
    destruct (group_size c index (fst s)) as [n| | |]; cbn [obind]; try (split; [reflexivity|discriminate]).
    destruct (max_count <? n)%Z; [split; [reflexivity|discriminate]|].
    apply rep_same; [|exact HI]. intro idx. apply (IH true idx Hb). discriminate.
  - (* a conditional group *)
    intros k con b IH deep lbl index Hg _ Hidx s HI. cbn [g_item] in Hg.
    rewrite dec_item_s_opt, dec_item_opt.
    destruct (getattr (fst s) k) as [[z|f|u]| | |]; cbn [obind]; try (split; [reflexivity|discriminate]).
    + destruct (z =? con)%Z; [apply (IH deep index Hg Hidx s HI)|].
      split; [reflexivity|]. intros s' E. inversion E. subst. exact HI.
    + split; [reflexivity|]. intros s' E. inversion E. subst. exact HI.
  - (* a dict *)
    intros l IH deep index Hg Hidx. rewrite g_body_items in Hg.
    intro s. rewrite dec_body_items_s, dec_body_items. revert s.
    induction IH as [|[lbl it] r Hit _ IHr]; intros s HI.
    + split; [reflexivity|]. intros s' E. inversion E. subst. exact HI.
    + cbn [g_items] in Hg. apply andb_true_iff in Hg. destruct Hg as [Hg Hr]. apply andb_true_iff in Hg. destruct Hg as [He Hi].
      cbn [dec_items_s]. rewrite dec_items_cons. cbn [snd] in Hit.
      destruct (Hit deep lbl index Hi He Hidx s HI) as [E P]. rewrite E.
      destruct (dec_item T ident lbl it index s) as [s1| | |]; cbn [obind]; try (split; [reflexivity|discriminate]).
      apply (IHr Hr). apply P. reflexivity.
  - intros w deep index _ _ s HI. split; [reflexivity|discriminate].
Qed.

Theorem guarded_body_eq b o off :
  g_body cks false b = true -> Inv o -> dec_body_s leaf_g b [] (o, off) = dec_body T ident b [] (o, off).
Proof. intros Hg HI. exact (proj1 (proj2 walk_same b false [] Hg (fun _ => eq_refl) (o, off) HI)). Qed.
End Walk.
End WithTables.
End Guard.
