(* Unfolding equations for the PyO interpreter (all by computation), used by the per-run equivalence proofs. *)
From Coq Require Import ZArith NArith List String Bool Lia.
From Coq.Strings Require Import Byte.
From PyRtcm Require Import Base.Bytes Model.Types Model.Reader Model.Socket Src.PyO.
Import ListNotations.
Open Scope string_scope.
Open Scope Z_scope.

Section Eqs.
  Variables (Ob W : Type).
  Variable ext : callsig -> list (val Ob) -> W -> res (val Ob) * W.
  Variable M : string -> option (mcall Ob W).
  Variable wfuel : nat.
  Notation eval := (eval Ob W ext M).
  Notation eval_list := (eval_list Ob W ext M).
  Notation exec := (exec Ob W ext M wfuel).
  Notation exec_list := (exec_list Ob W ext M wfuel).
  Notation state := (state Ob W).

  (* ---- statement lists ---- *)
  Lemma exec_list_nil (s:state) : exec_list [] s = (ROk (CNext Ob), s).
  Proof. reflexivity. Qed.
  Lemma exec_list_cons a r (s:state) :
    exec_list (a::r) s = match exec a s with (ROk (CNext _), s1) => exec_list r s1 | other => other end.
  Proof. reflexivity. Qed.

  (* ---- statements ---- *)
  Lemma exec_assign t e (s:state) :
    exec (SAssign t e) s =
      match eval e s with
      | (ROk v, s1) => match assign Ob W t v s1 with
                       | (ROk _, s2) => (ROk (CNext Ob), s2)
                       | (RExc c, s2) => (RExc c, s2) | (RFail f, s2) => (RFail f, s2) end
      | (RExc c, s1) => (RExc c, s1) | (RFail f, s1) => (RFail f, s1) end.
  Proof. reflexivity. Qed.
  Lemma exec_expr e (s:state) :
    exec (SExpr e) s = match eval e s with
                       | (ROk _, s1) => (ROk (CNext Ob), s1)
                       | (RExc c, s1) => (RExc c, s1) | (RFail f, s1) => (RFail f, s1) end.
  Proof. reflexivity. Qed.
  Lemma exec_if c th el (s:state) :
    exec (SIf c th el) s =
      match eval c s with
      | (ROk v, s1) => match truth Ob v with
                       | ROk true => exec_list th s1
                       | ROk false => exec_list el s1
                       | RExc c => (RExc c, s1) | RFail f => (RFail f, s1) end
      | (RExc c, s1) => (RExc c, s1) | (RFail f, s1) => (RFail f, s1) end.
  Proof. reflexivity. Qed.
  Lemma exec_while c body (s:state) :
    exec (SWhile c body) s = wloop Ob W (eval c) (exec_list body) wfuel s.
  Proof. reflexivity. Qed.
  Lemma exec_return e (s:state) :
    exec (SReturn e) s = match eval e s with
                         | (ROk v, s1) => (ROk (CRet Ob v), s1)
                         | (RExc c, s1) => (RExc c, s1) | (RFail f, s1) => (RFail f, s1) end.
  Proof. reflexivity. Qed.
  Lemma exec_raise e (s:state) :
    exec (SRaise e) s = match eval e s with
                        | (ROk (VExc cls), s1) => (RExc cls, s1)
                        | (ROk _, s1) => (RFail (FUnmodelled "raise of a non-exception"), s1)
                        | (RExc c, s1) => (RExc c, s1) | (RFail f, s1) => (RFail f, s1) end.
  Proof. reflexivity. Qed.
  Lemma exec_break (s:state) : exec SBreak s = (ROk (CBreak Ob), s).
  Proof. reflexivity. Qed.
  Lemma exec_continue (s:state) : exec SContinue s = (ROk (CCont Ob), s).
  Proof. reflexivity. Qed.
  Lemma exec_pass (s:state) : exec SPass s = (ROk (CNext Ob), s).
  Proof. reflexivity. Qed.

  (* try: the handler search as a top-level function *)
  Fixpoint pick (cls:string) (s1:state) (hs:list (list string * option string * list stmt)) : res (ctl Ob) * state :=
    match hs with
    | [] => (RExc cls, s1)
    | (classes, name, hbody)::r =>
        if matches cls classes then
          match name with
          | None => exec_list hbody s1
          | Some x =>
              match exec_list hbody (set_locals Ob W (update Ob x (VExc cls) (locals Ob W s1)) s1) with
              | (r', s2) => (r', set_locals Ob W (update Ob x VUnbound (locals Ob W s2)) s2)
              end
          end
        else pick cls s1 r
    end.
  Lemma exec_try body hs (s:state) :
    exec (STry body hs) s = match exec_list body s with
                            | (RExc cls, s1) => pick cls s1 hs
                            | other => other end.
  Proof.
    cbn [PyO.exec]. change ((fix go (l : list stmt) (s0 : state) {struct l} := _) body s) with (exec_list body s).
    destruct (exec_list body s) as [[c|cls|f] s1]; try reflexivity.
    induction hs as [|[[classes name] hbody] r IH]; [reflexivity|].
    cbn [pick]. destruct (matches cls classes); [|exact IH]. destruct name; reflexivity.
  Qed.

  (* ---- expressions ---- *)
  Lemma eval_var x (s:state) :
    eval (EVar x) s = match lookup Ob x (locals Ob W s) with
                      | Some VUnbound | None => (RExc "UnboundLocalError", s)
                      | Some v => (ROk v, s) end.
  Proof. reflexivity. Qed.
  Lemma eval_self a (s:state) :
    eval (ESelf a) s = match lookup Ob a (self Ob W s) with Some v => (ROk v, s) | None => (RExc "AttributeError", s) end.
  Proof. reflexivity. Qed.
  Lemma eval_bin o a b (s:state) :
    eval (EBin o a b) s = match eval a s with
                          | (ROk va, s1) => match eval b s1 with
                                            | (ROk vb, s2) => (binop_val Ob o va vb, s2)
                                            | other => other end
                          | other => other end.
  Proof. reflexivity. Qed.
  Lemma eval_un o a (s:state) :
    eval (EUn o a) s = match eval a s with (ROk v, s1) => (unop_val Ob o v, s1) | other => other end.
  Proof. reflexivity. Qed.
  Lemma eval_callb f args (s:state) :
    eval (ECallB f args) s = match eval_list args s with
                             | (ROk vs, s1) => (builtin_val Ob f vs, s1)
                             | (RExc c, s1) => (RExc c, s1) | (RFail f, s1) => (RFail f, s1) end.
  Proof. reflexivity. Qed.
  Lemma eval_callm m args (s:state) :
    eval (ECallM m args) s =
      match eval_list args s with
      | (ROk vs, s1) =>
          match M m with
          | None => (RFail (FNoMethod m), s1)
          | Some g => let '(r, (a', w')) := g vs (self Ob W s1) (world Ob W s1) in
                      (r, {| locals := locals Ob W s1; self := a'; world := w' |})
          end
      | (RExc c, s1) => (RExc c, s1) | (RFail f, s1) => (RFail f, s1) end.
  Proof. reflexivity. Qed.
  Lemma eval_callx c args (s:state) :
    eval (ECallX c args) s =
      match eval_list args s with
      | (ROk vs, s1) => let '(r, w') := ext c vs (world Ob W s1) in (r, set_world Ob W w' s1)
      | (RExc c, s1) => (RExc c, s1) | (RFail f, s1) => (RFail f, s1) end.
  Proof. reflexivity. Qed.
  Lemma eval_tuple l (s:state) :
    eval (ETuple l) s = match eval_list l s with
                        | (ROk vs, s1) => (ROk (VTuple vs), s1)
                        | (RExc c, s1) => (RExc c, s1) | (RFail f, s1) => (RFail f, s1) end.
  Proof. reflexivity. Qed.
  Lemma eval_list_nil (s:state) : eval_list [] s = (ROk [], s).
  Proof. reflexivity. Qed.
  Lemma eval_list_cons a r (s:state) :
    eval_list (a::r) s = match eval a s with
                         | (ROk v, s1) => match eval_list r s1 with
                                          | (ROk vs, s2) => (ROk (v::vs), s2)
                                          | (RExc c, s2) => (RExc c, s2) | (RFail f, s2) => (RFail f, s2) end
                         | (RExc c, s1) => (RExc c, s1) | (RFail f, s1) => (RFail f, s1) end.
  Proof. reflexivity. Qed.

  (* ---- while: one unrolling ---- *)
  Lemma wloop_S cond body k (s:state) :
    wloop Ob W cond body (S k) s =
      match cond s with
      | (ROk v, s1) =>
          match truth Ob v with
          | ROk true => match body s1 with
                        | (ROk (CNext _), s2) | (ROk (CCont _), s2) => wloop Ob W cond body k s2
                        | (ROk (CBreak _), s2) => (ROk (CNext Ob), s2)
                        | (ROk (CRet _ r), s2) => (ROk (CRet Ob r), s2)
                        | (RExc c, s2) => (RExc c, s2) | (RFail f, s2) => (RFail f, s2)
                        end
          | ROk false => (ROk (CNext Ob), s1)
          | RExc c => (RExc c, s1) | RFail f => (RFail f, s1)
          end
      | (RExc c, s1) => (RExc c, s1) | (RFail f, s1) => (RFail f, s1)
      end.
  Proof. reflexivity. Qed.
End Eqs.

(* ---- linking ---- *)
Section LinkEqs.
  Variables (Ob W : Type).
  Variable ext : callsig -> list (val Ob) -> W -> res (val Ob) * W.
  Variable wfuel : nat.
  Lemma link_here n m r : link Ob W ext wfuel ((n, m)::r) n = Some (call Ob W ext (link Ob W ext wfuel r) wfuel n m).
  Proof. cbn [link]. now rewrite String.eqb_refl. Qed.
  Lemma link_skip n m r g : String.eqb g n = false -> link Ob W ext wfuel ((n, m)::r) g = link Ob W ext wfuel r g.
  Proof. intro H. cbn [link]. now rewrite H. Qed.
End LinkEqs.
