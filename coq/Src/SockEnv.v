(* The environment of socketwrapper.SocketWrapper for the PyO interpreter (Src/PyO.v): what the socket, zlib and the
   logger do, and how a state of the hand-written model (Model/Socket.v) is laid out as the attributes of `self`.
   Definitions only -- this file is part of the statement of run/SrcSock_inst.v. *)
From Coq Require Import ZArith NArith List String Bool.
From Coq.Strings Require Import Byte.
From PyRtcm Require Import Base.Bytes Model.Types Model.Reader Model.Socket Src.PyO.
Import ListNotations.
Open Scope string_scope.
Open Scope Z_scope.

(* the environment hands out no opaque objects here *)
Definition Ob : Type := unit.

(* the world: what the socket does at each recv() call; an exhausted list = the peer has closed (recv returns b"") *)
Inductive pev := PData (d:bytes) | PFail (cls:string).
Definition W : Type := list pev.

Definition ev_of (e:pev) : recv_ev := match e with PData d => Data d | PFail _ => Fail end.

(* every failure of recv() is of a class that `_recv` catches: except (OSError, TimeoutError) *)
Definition caught (w:W) : Prop :=
  Forall (fun e => match e with PFail c => matches c ["OSError"; "TimeoutError"] = true | PData _ => True end) w.

(* `self._encoding & BIT` as a condition *)
Definition bit_set (enc b:Z) : bool := negb (Z.land enc b =? 0).

Section Zlib.
(* zlib.decompress(chunk, wbits=w); None = zlib.error *)
Variable zl : Z -> bytes -> option bytes.

(* one `if self._encoding & BIT: chunk = decompress(chunk, wbits=w)` inside the try; [k] = the stages after it.
   A zlib.error leaves chunk as it was before this stage and skips the later stages. *)
Definition stage (on:bool) (w:Z) (k:bytes -> bytes) (chunk:bytes) : bytes :=
  if on then match zl w chunk with Some d => k d | None => chunk end else k chunk.

(* the per-chunk function of the model; gz co de mw = ENCODE_GZIP, ENCODE_COMPRESS, ENCODE_DEFLATE, MAX_WBITS *)
Definition dz_of (gz co de mw:Z) (enc:Z) : bytes -> bytes :=
  stage (bit_set enc gz) (Z.lor mw 16)
    (stage (bit_set enc co) mw
       (stage (bit_set enc de) (- mw) (fun chunk => chunk))).

(* calls into the environment *)
Definition sock_ext (c:callsig) (args:list (val Ob)) (w:W) : res (val Ob) * W :=
  let unmodelled := (RFail (FUnmodelled "environment call"), w) in
  if String.eqb (c_name c) "sock.recv" then
    match c_kw c, args with
    | [], [VInt _] => match w with
                      | [] => (ROk (VBytes []), [])
                      | PData d :: r => (ROk (VBytes d), r)
                      | PFail cls :: r => (RExc cls, r)
                      end
    | _, _ => unmodelled
    end
  else if String.eqb (c_name c) "decompress" then
    match c_kw c, args with
    | [kw], [VBytes chunk; VInt wb] =>
        if String.eqb kw "wbits" then
          match zl wb chunk with Some d => (ROk (VBytes d), w) | None => (RExc "zlib.error", w) end
        else unmodelled
    | _, _ => unmodelled
    end
  else if String.eqb (c_name c) "logger.error" then
    match c_kw c, args with [], [_] => (ROk VNone, w) | _, _ => unmodelled end
  else if String.eqb (c_name c) "getLogger" then
    match c_kw c, args with [], [_] => (ROk (VRef "logger"), w) | _, _ => unmodelled end
  else unmodelled.
End Zlib.

(* the attributes of self, in the order SocketWrapper.__init__ assigns them *)
Definition sock_self (enc bufsize:Z) (s:sock) : env Ob :=
  [("logger", VRef "logger"); ("_socket", VRef "sock"); ("_bufsize", VInt bufsize); ("_encoding", VInt enc);
   ("_buffer", VBytes (buf s)); ("_partial", VBytes (partial s))].

(* dechunk's result as a Python value; DUnm is the one failure the interpreter can reach here (int(x,16) on exotic syntax) *)
Definition dres_img (d:dres) : res (val Ob) :=
  match d with
  | DOk c p => ROk (VTuple [VBytes c; VBytes p])
  | DUnm => RFail (FUnmodelled "int(x,16) syntax")
  end.

(* the model state before the constructor's _recv *)
Definition sock0 (e:list recv_ev) : sock := {| buf := []; partial := []; evs := e; unm := false |}.

(* an iteration budget that suffices for every `while` a method runs from state s (dechunk: the segment is
   partial + one event's data; read: one pass per event); readline needs  sock_fuel s + len(buffer) *)
Definition sock_fuel (s:sock) : nat := S (List.length (evs s) + List.length (partial s) + data_len (evs s)).
