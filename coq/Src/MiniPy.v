(* MiniPy: a deep embedding of the small Python subset in which pyrtcm's integer kernels are written, with a
   structural big-step interpreter.  tools/gen_src.py translates the *current* source text of those functions
   (Python `ast`, fail-closed) into values of type [func]; run/Src_inst.v then proves, per run, that interpreting
   the translated source gives the hand-written model's function for every argument.  No proofs here.

   Semantics covered (CPython 3.12): unbounded ints with + - * << >> & | ^ (negative shift count = ValueError),
   truthiness of ints, locals are function-scoped and reading an unassigned one is UnboundLocalError,
   `for x in <bytes>` yields the byte values as ints, `for x in range(<int>)`, `len(<bytes>)`,
   `<int>.to_bytes(n, "big")` (OverflowError when it does not fit or is negative), calls of other translated
   one-argument functions, `return`. *)
From Coq Require Import ZArith NArith List String.
From Coq.Strings Require Import Byte.
From PyRtcm Require Import Base.Bytes.
Import ListNotations.
Open Scope Z_scope.

Inductive pval := PInt (z:Z) | PBytes (b:list byte) | PUnbound.
Inductive perr := PyUnbound (x:string) | PyType (why:string) | PyValue (why:string) | PyOverflow | PyNoReturn | PyNoFunc (f:string).
Inductive pres (A:Type) := POk (a:A) | PErr (e:perr).
Arguments POk {A}. Arguments PErr {A}.

Inductive binop := OAdd | OSub | OMul | OShl | OShr | OAnd | OOr | OXor.
Inductive expr :=
| EInt (z:Z)
| EVar (x:string)
| EBin (o:binop) (a b:expr)
| ELen (a:expr)
| EToBytesBig (a:expr) (n:Z)
| ECall (f:string) (a:expr).
Inductive iter := IBytes (e:expr) | IRange (e:expr).
Inductive stmt :=
| SAssign (x:string) (e:expr)
| SAug (x:string) (o:binop) (e:expr)
| SFor (x:string) (it:iter) (body:list stmt)
| SIf (c:expr) (th el:list stmt)
| SReturn (e:expr).
Record func := { f_param : string; f_locals : list string; f_body : list stmt }.

Definition env := list (string * pval).
Fixpoint lookup (x:string) (e:env) : option pval :=
  match e with [] => None | (k,v)::r => if String.eqb k x then Some v else lookup x r end.
Fixpoint update (x:string) (v:pval) (e:env) : env :=
  match e with [] => [] | (k,w)::r => if String.eqb k x then (k,v)::r else (k,w) :: update x v r end.

Definition binop_sem (o:binop) (a b:Z) : pres Z :=
  match o with
  | OAdd => POk (a + b) | OSub => POk (a - b) | OMul => POk (a * b)
  | OShl => if b <? 0 then PErr (PyValue "negative shift count") else POk (Z.shiftl a b)
  | OShr => if b <? 0 then PErr (PyValue "negative shift count") else POk (Z.shiftr a b)
  | OAnd => POk (Z.land a b) | OOr => POk (Z.lor a b) | OXor => POk (Z.lxor a b)
  end.

Definition calls := string -> option (pval -> pres pval).

Section Interp.
  Variable C : calls.

  Fixpoint eval (e:expr) (s:env) : pres pval :=
    match e with
    | EInt z => POk (PInt z)
    | EVar x => match lookup x s with Some PUnbound | None => PErr (PyUnbound x) | Some v => POk v end
    | EBin o a b =>
        match eval a s with
        | POk (PInt x) => match eval b s with
                          | POk (PInt y) => match binop_sem o x y with POk z => POk (PInt z) | PErr e => PErr e end
                          | POk _ => PErr (PyType "operand") | PErr e => PErr e end
        | POk _ => PErr (PyType "operand") | PErr e => PErr e
        end
    | ELen a => match eval a s with POk (PBytes b) => POk (PInt (Z.of_nat (List.length b))) | POk _ => PErr (PyType "len") | PErr e => PErr e end
    | EToBytesBig a n =>
        match eval a s with
        | POk (PInt z) => if orb (z <? 0) (n <? 0) then PErr PyOverflow else
                          match to_bytes (Z.to_nat n) (Z.to_N z) with Some b => POk (PBytes b) | None => PErr PyOverflow end
        | POk _ => PErr (PyType "to_bytes") | PErr e => PErr e
        end
    | ECall f a => match C f with
                   | None => PErr (PyNoFunc f)
                   | Some g => match eval a s with POk v => g v | PErr e => PErr e end
                   end
    end.

  Inductive flow := FNext (s:env) | FRet (v:pval).

  Definition iter_values (it:iter) (s:env) : pres (list pval) :=
    match it with
    | IBytes e => match eval e s with POk (PBytes b) => POk (map (fun x => PInt (Z.of_N (bN x))) b) | POk _ => PErr (PyType "iter") | PErr e => PErr e end
    | IRange e => match eval e s with POk (PInt n) => POk (map (fun i => PInt (Z.of_nat i)) (seq 0 (Z.to_nat n))) | POk _ => PErr (PyType "range") | PErr e => PErr e end
    end.

  Section Loop.
    Variable body : env -> pres flow.
    Variable x : string.
    Fixpoint loop (vs:list pval) (s:env) : pres flow :=
      match vs with
      | [] => POk (FNext s)
      | v::r => match body (update x v s) with POk (FNext s') => loop r s' | other => other end
      end.
  End Loop.

  Fixpoint exec (st:stmt) (s:env) {struct st} : pres flow :=
    let exec_list := fix go (l:list stmt) (s:env) {struct l} : pres flow :=
      match l with [] => POk (FNext s)
      | a::r => match exec a s with POk (FNext s') => go r s' | other => other end end in
    match st with
    | SAssign x e => match eval e s with POk v => POk (FNext (update x v s)) | PErr e => PErr e end
    | SAug x o e =>
        match eval (EBin o (EVar x) e) s with POk v => POk (FNext (update x v s)) | PErr e => PErr e end
    | SFor x it body =>
        match iter_values it s with POk vs => loop (exec_list body) x vs s | PErr e => PErr e end
    | SIf c th el =>
        match eval c s with
        | POk (PInt z) => if z =? 0 then exec_list el s else exec_list th s
        | POk (PBytes b) => match b with [] => exec_list el s | _ => exec_list th s end
        | POk PUnbound => PErr (PyType "truth") | PErr e => PErr e
        end
    | SReturn e => match eval e s with POk v => POk (FRet v) | PErr e => PErr e end
    end.

  Fixpoint exec_list (l:list stmt) (s:env) {struct l} : pres flow :=
    match l with [] => POk (FNext s)
    | a::r => match exec a s with POk (FNext s') => exec_list r s' | other => other end end.

  Definition call (f:func) (arg:pval) : pres pval :=
    let s0 := (f_param f, arg) :: map (fun x => (x, PUnbound)) (f_locals f) in
    match exec_list (f_body f) s0 with
    | POk (FRet v) => POk v
    | POk (FNext _) => PErr PyNoReturn      (* the kernels always return a value; None is not modelled *)
    | PErr e => PErr e
    end.
End Interp.

(* a program: functions in dependency order; each may call the ones before it *)
Fixpoint link (p:list (string * func)) : calls :=
  match p with
  | [] => fun _ => None
  | (n,f)::r => let C := link r in fun g => if String.eqb g n then Some (call C f) else C g
  end.
(* [link] takes the list in REVERSE dependency order (callee later in the list) *)
Definition run (p:list (string * func)) (f:string) (arg:pval) : pres pval :=
  match link p f with Some g => g arg | None => PErr (PyNoFunc f) end.
