(* MiniPy: a deep embedding of the small Python subset in which pyrtcm's integer kernels and two small methods of
   RTCMMessage (serialize, identity) are written, with a structural big-step interpreter.  tools/gen_src.py translates
   the *current* source text of those functions (Python `ast`, fail-closed) into values of type [func];
   run/Src_inst.v then proves, per run, that interpreting the translated source gives the hand-written model's
   function for every argument.  No proofs here.

   Semantics covered (CPython 3.12): unbounded ints with + - * << >> & | ^ (negative shift count = ValueError),
   `+` on two bytes / two str values (concatenation), truthiness of ints / bytes / str / bool, locals are
   function-scoped and reading an unassigned one is UnboundLocalError, `for x in <bytes>` yields the byte values as
   ints, `for x in range(<int>)`, `len(<bytes>)`, `<int>.to_bytes(n, "big")` (OverflowError when it does not fit or is
   negative), bytes literals, `<bytes>[<int>]` (negative indices count from the end, IndexError outside), `a == b` on
   ints (a bool), `str(e)` and the f-string pieces `{e}` / `{e:03d}` (with CPython's 4300-digit limit on int -> str),
   calls of other translated one-argument functions, `return`.  A method `def f(self)` is a function of the VALUE of
   `self._payload` (the translator checks that nothing else of `self` is touched); the variable is then literally
   named "self._payload".

   Whatever Python defines but this file does not spell out (bool arithmetic, sequence repetition, str(bytes), ...)
   evaluates to the distinguished error [PyUnmodelled], which no theorem's right-hand side can produce. *)
From Coq Require Import ZArith NArith List String Ascii.
From Coq.Strings Require Import Byte.
From PyRtcm Require Import Base.Bytes Base.Dec.
Import ListNotations.
Open Scope Z_scope.

Inductive pval := PInt (z:Z) | PBytes (b:list byte) | PUnbound | PStr (s:string) | PBool (b:bool).
Inductive perr := PyUnbound (x:string) | PyType (why:string) | PyValue (why:string) | PyOverflow | PyNoReturn | PyNoFunc (f:string)
                | PyIndex | PyUnmodelled (why:string).
Inductive pres (A:Type) := POk (a:A) | PErr (e:perr).
Arguments POk {A}. Arguments PErr {A}.

Inductive binop := OAdd | OSub | OMul | OShl | OShr | OAnd | OOr | OXor.
Inductive expr :=
| EInt (z:Z)
| EVar (x:string)
| EBin (o:binop) (a b:expr)
| ELen (a:expr)
| EToBytesBig (a:expr) (n:Z)
| ECall (f:string) (a:expr)
| EBytes (bs:list byte)              (* a bytes literal (or a module constant resolved by the translator) *)
| EIndex (a i:expr)                  (* a[i] *)
| ECmpEq (a b:expr)                  (* a == b *)
| EStrOf (a:expr)                    (* str(a), and the f-string piece {a} (format(a, "") -- the same on int, str, bool) *)
| EFmt03d (a:expr)                   (* the f-string piece {a:03d} *)
| EStrLit (s:string)                 (* literal text of an f-string *)
| EStrCat (a b:expr).                (* joining the pieces of an f-string, left to right *)
Inductive iter := IBytes (e:expr) | IRange (e:expr).
Inductive stmt :=
| SAssign (x:string) (e:expr)
| SAug (x:string) (o:binop) (e:expr)
| SFor (x:string) (it:iter) (body:list stmt)
| SIf (c:expr) (th el:list stmt)
| SReturn (e:expr).
Record func := { f_param : string; f_locals : list string; f_body : list stmt }.

Definition env := list (string * pval).
Fixpoint lookup (x:string) (e:env) : option pval :=
  match e with [] => None | (k,v)::r => if String.eqb k x then Some v else lookup x r end.
Fixpoint update (x:string) (v:pval) (e:env) : env :=
  match e with [] => [] | (k,w)::r => if String.eqb k x then (k,v)::r else (k,w) :: update x v r end.

Definition binop_sem (o:binop) (a b:Z) : pres Z :=
  match o with
  | OAdd => POk (a + b) | OSub => POk (a - b) | OMul => POk (a * b)
  | OShl => if b <? 0 then PErr (PyValue "negative shift count") else POk (Z.shiftl a b)
  | OShr => if b <? 0 then PErr (PyValue "negative shift count") else POk (Z.shiftr a b)
  | OAnd => POk (Z.land a b) | OOr => POk (Z.lor a b) | OXor => POk (Z.lxor a b)
  end.

(* a binary operator on two already evaluated operands *)
Definition is_seq (v:pval) : bool := match v with PBytes _ | PStr _ => true | _ => false end.
Definition binop_val (o:binop) (a b:pval) : pres pval :=
  match a, b with
  | PInt x, PInt y => match binop_sem o x y with POk z => POk (PInt z) | PErr e => PErr e end
  | PBytes x, PBytes y => match o with OAdd => POk (PBytes (x ++ y)) | _ => PErr (PyType "operand") end
  | PStr x, PStr y => match o with OAdd => POk (PStr (x ++ y)) | _ => PErr (PyType "operand") end
  | PBool _, _ | _, PBool _ => PErr (PyUnmodelled "bool operand")          (* bool is an int in Python *)
  | PUnbound, _ | _, PUnbound => PErr (PyType "operand")                   (* never the value of an expression *)
  | _, _ => match o with
            | OMul => if xorb (is_seq a) (is_seq b) then PErr (PyUnmodelled "sequence repetition") else PErr (PyType "operand")
            | _ => PErr (PyType "operand")
            end
  end.

(* b[i] on bytes: the byte as an int; i < 0 counts from the end *)
Definition index_bytes (b:list byte) (i:Z) : pres pval :=
  let at_ (k:nat) := match nth_error b k with Some x => POk (PInt (Z.of_N (bN x))) | None => PErr PyIndex end in
  match i with
  | Zneg _ => let j := Z.of_nat (List.length b) + i in if j <? 0 then PErr PyIndex else at_ (Z.to_nat j)
  | _ => at_ (Z.to_nat i)
  end.

(* int -> decimal text.  CPython >= 3.11 refuses more than sys.int_max_str_digits (4300) digits, sign not counted *)
Definition int_str_limit : Z := 10 ^ 4300.
Definition str_int (z:Z) : pres string :=
  if Z.abs z <? int_str_limit then POk (str_of_Z z) else PErr (PyValue "int max str digits").
(* format(z, "03d"): zero padding to width 3, the sign counts towards the width *)
Definition fmt03d_int (z:Z) : pres string :=
  if Z.abs z <? int_str_limit then
    POk (match z with Zneg p => String "-"%char (fmt_d 2 (Npos p)) | _ => fmt_d 3 (Z.to_N z) end)
  else PErr (PyValue "int max str digits").

Definition str_val (v:pval) : pres pval :=
  match v with
  | PInt z => match str_int z with POk s => POk (PStr s) | PErr e => PErr e end
  | PStr s => POk (PStr s)
  | PBool b => POk (PStr (if b then "True" else "False"))
  | PBytes _ => PErr (PyUnmodelled "str of bytes")
  | PUnbound => PErr (PyType "str")
  end.
Definition fmt03d_val (v:pval) : pres pval :=
  match v with
  | PInt z => match fmt03d_int z with POk s => POk (PStr s) | PErr e => PErr e end
  | PStr _ => PErr (PyValue "format code d for str")
  | PBool _ => PErr (PyUnmodelled "format of bool")
  | PBytes _ | PUnbound => PErr (PyType "format")
  end.
Definition eq_val (a b:pval) : pres pval :=
  match a, b with
  | PInt x, PInt y => POk (PBool (x =? y))
  | _, _ => PErr (PyUnmodelled "== on non-ints")
  end.
Definition strcat_val (a b:pval) : pres pval :=
  match a, b with
  | PStr x, PStr y => POk (PStr (x ++ y))
  | _, _ => PErr (PyType "f-string piece")                                 (* pieces are str by construction *)
  end.

Definition calls := string -> option (pval -> pres pval).

Section Interp.
  Variable C : calls.

  (* operands are evaluated left to right, then the operation is applied *)
  Definition bind2 (x y:pres pval) (f:pval -> pval -> pres pval) : pres pval :=
    match x with POk a => match y with POk b => f a b | PErr e => PErr e end | PErr e => PErr e end.

  Fixpoint eval (e:expr) (s:env) : pres pval :=
    match e with
    | EInt z => POk (PInt z)
    | EVar x => match lookup x s with Some PUnbound | None => PErr (PyUnbound x) | Some v => POk v end
    | EBin o a b => bind2 (eval a s) (eval b s) (binop_val o)
    | ELen a => match eval a s with
                | POk (PBytes b) => POk (PInt (Z.of_nat (List.length b)))
                | POk (PStr _) => PErr (PyUnmodelled "len of str")
                | POk _ => PErr (PyType "len") | PErr e => PErr e end
    | EToBytesBig a n =>
        match eval a s with
        | POk (PInt z) => if orb (z <? 0) (n <? 0) then PErr PyOverflow else
                          match to_bytes (Z.to_nat n) (Z.to_N z) with Some b => POk (PBytes b) | None => PErr PyOverflow end
        | POk (PBool _) => PErr (PyUnmodelled "to_bytes of bool")
        | POk _ => PErr (PyType "to_bytes") | PErr e => PErr e
        end
    | ECall f a => match C f with
                   | None => PErr (PyNoFunc f)
                   | Some g => match eval a s with POk v => g v | PErr e => PErr e end
                   end
    | EBytes bs => POk (PBytes bs)
    | EIndex a i =>
        bind2 (eval a s) (eval i s) (fun va vi =>
          match va, vi with
          | PBytes b, PInt k => index_bytes b k
          | PBytes _, PBool _ => PErr (PyUnmodelled "bool index")
          | PStr _, (PInt _ | PBool _) => PErr (PyUnmodelled "str index")
          | _, _ => PErr (PyType "subscript")
          end)
    | ECmpEq a b => bind2 (eval a s) (eval b s) eq_val
    | EStrOf a => match eval a s with POk v => str_val v | PErr e => PErr e end
    | EFmt03d a => match eval a s with POk v => fmt03d_val v | PErr e => PErr e end
    | EStrLit t => POk (PStr t)
    | EStrCat a b => bind2 (eval a s) (eval b s) strcat_val
    end.

  Inductive flow := FNext (s:env) | FRet (v:pval).

  Definition iter_values (it:iter) (s:env) : pres (list pval) :=
    match it with
    | IBytes e => match eval e s with
                  | POk (PBytes b) => POk (map (fun x => PInt (Z.of_N (bN x))) b)
                  | POk (PStr _) => PErr (PyUnmodelled "iterating a str")
                  | POk _ => PErr (PyType "iter") | PErr e => PErr e end
    | IRange e => match eval e s with
                  | POk (PInt n) => POk (map (fun i => PInt (Z.of_nat i)) (seq 0 (Z.to_nat n)))
                  | POk (PBool _) => PErr (PyUnmodelled "range of bool")
                  | POk _ => PErr (PyType "range") | PErr e => PErr e end
    end.

  Section Loop.
    Variable body : env -> pres flow.
    Variable x : string.
    Fixpoint loop (vs:list pval) (s:env) : pres flow :=
      match vs with
      | [] => POk (FNext s)
      | v::r => match body (update x v s) with POk (FNext s') => loop r s' | other => other end
      end.
  End Loop.

  (* truth value of an evaluated condition *)
  Definition truth (v:pval) : pres bool :=
    match v with
    | PInt z => POk (negb (z =? 0))
    | PBytes b => POk (match b with [] => false | _ => true end)
    | PStr t => POk (match t with EmptyString => false | _ => true end)
    | PBool b => POk b
    | PUnbound => PErr (PyType "truth")
    end.

  Fixpoint exec (st:stmt) (s:env) {struct st} : pres flow :=
    let exec_list := fix go (l:list stmt) (s:env) {struct l} : pres flow :=
      match l with [] => POk (FNext s)
      | a::r => match exec a s with POk (FNext s') => go r s' | other => other end end in
    match st with
    | SAssign x e => match eval e s with POk v => POk (FNext (update x v s)) | PErr e => PErr e end
    | SAug x o e =>
        match eval (EBin o (EVar x) e) s with POk v => POk (FNext (update x v s)) | PErr e => PErr e end
    | SFor x it body =>
        match iter_values it s with POk vs => loop (exec_list body) x vs s | PErr e => PErr e end
    | SIf c th el =>
        match eval c s with
        | POk v => match truth v with POk true => exec_list th s | POk false => exec_list el s | PErr e => PErr e end
        | PErr e => PErr e
        end
    | SReturn e => match eval e s with POk v => POk (FRet v) | PErr e => PErr e end
    end.

  Fixpoint exec_list (l:list stmt) (s:env) {struct l} : pres flow :=
    match l with [] => POk (FNext s)
    | a::r => match exec a s with POk (FNext s') => exec_list r s' | other => other end end.

  Definition call (f:func) (arg:pval) : pres pval :=
    let s0 := (f_param f, arg) :: map (fun x => (x, PUnbound)) (f_locals f) in
    match exec_list (f_body f) s0 with
    | POk (FRet v) => POk v
    | POk (FNext _) => PErr PyNoReturn      (* the kernels always return a value; None is not modelled *)
    | PErr e => PErr e
    end.
End Interp.

(* a program: functions in dependency order; each may call the ones before it *)
Fixpoint link (p:list (string * func)) : calls :=
  match p with
  | [] => fun _ => None
  | (n,f)::r => let C := link r in fun g => if String.eqb g n then Some (call C f) else C g
  end.
(* [link] takes the list in REVERSE dependency order (callee later in the list) *)
Definition run (p:list (string * func)) (f:string) (arg:pval) : pres pval :=
  match link p f with Some g => g arg | None => PErr (PyNoFunc f) end.
