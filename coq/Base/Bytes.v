(* Bytes, big-endian integers, MSB-first bit lists.  Python `bytes` = list byte. *)
From Coq Require Import NArith ZArith List Lia Bool.
From Coq.Strings Require Import Byte.
Import ListNotations.
Open Scope N_scope.

Definition bytes := list byte.
Definition bN (b:byte) : N := Byte.to_N b.

Lemma bN_lt b : bN b < 256.
Proof. unfold bN. pose proof (Byte.to_N_bounded b). lia. Qed.

(* total inverse on 0..255 (reduces mod 256) *)
Definition byte_of_N (n:N) : byte :=
  match Byte.of_N (n mod 256) with Some b => b | None => x00 end.

Lemma byte_of_bN b : byte_of_N (bN b) = b.
Proof.
  unfold byte_of_N, bN. rewrite N.mod_small by (pose proof (Byte.to_N_bounded b); lia).
  now rewrite Byte.of_to_N.
Qed.

Lemma bN_byte_of n : n < 256 -> bN (byte_of_N n) = n.
Proof.
  intro H. unfold byte_of_N, bN. rewrite N.mod_small by exact H.
  destruct (Byte.of_N n) eqn:E.
  - now apply Byte.to_of_N.
  - apply Byte.of_N_None_iff in E. lia.
Qed.

Lemma bN_inj a b : bN a = bN b -> a = b.
Proof. intro H. rewrite <- (byte_of_bN a), <- (byte_of_bN b). now rewrite H. Qed.

(* int.from_bytes(b, "big") *)
Fixpoint be_acc (acc:N) (l:bytes) : N :=
  match l with [] => acc | b::r => be_acc (acc*256 + bN b) r end.
Definition be (l:bytes) : N := be_acc 0 l.

Lemma be_acc_app a l1 l2 : be_acc a (l1 ++ l2) = be_acc (be_acc a l1) l2.
Proof. revert a; induction l1 as [|x l IH]; intro a; simpl; auto. Qed.

Lemma be_acc_spec a l : be_acc a l = a * 256^(N.of_nat (length l)) + be l.
Proof.
  unfold be. revert a. induction l as [|x l IH]; intro a.
  - simpl. lia.
  - cbn [be_acc length]. rewrite IH, (IH (0*256 + bN x)).
    rewrite Nat2N.inj_succ, N.pow_succ_r'. lia.
Qed.

Lemma be_app l1 l2 : be (l1 ++ l2) = be l1 * 256^(N.of_nat (length l2)) + be l2.
Proof. unfold be at 1. rewrite be_acc_app. fold (be l1). apply be_acc_spec. Qed.

Lemma be_lt l : be l < 256^(N.of_nat (length l)).
Proof.
  induction l as [|x l IH] using rev_ind.
  - vm_compute. reflexivity.
  - rewrite be_app, app_length, Nat2N.inj_add, N.pow_add_r. simpl length.
    change (256^N.of_nat 1) with 256. unfold be at 2. simpl. pose proof (bN_lt x).
    set (P := 256 ^ N.of_nat (length l)) in *. lia.
Qed.

(* n.to_bytes(k, "big") : None models OverflowError *)
Fixpoint to_be (k:nat) (n:N) : bytes :=
  match k with O => [] | S k' => to_be k' (n / 256) ++ [byte_of_N n] end.
Definition to_bytes (k:nat) (n:N) : option bytes :=
  if n <? 256^(N.of_nat k) then Some (to_be k n) else None.

Lemma to_be_length k n : length (to_be k n) = k.
Proof. revert n; induction k as [|k IH]; intro n; simpl; auto. rewrite app_length, IH. simpl. lia. Qed.

Lemma be_to_be k n : n < 256^(N.of_nat k) -> be (to_be k n) = n.
Proof.
  revert n. induction k as [|k IH]; intros n H.
  - simpl in *. unfold be. simpl. lia.
  - cbn [to_be]. rewrite be_app. simpl length. change (256^N.of_nat 1) with 256.
    rewrite Nat2N.inj_succ, N.pow_succ_r' in H.
    rewrite IH by (apply N.div_lt_upper_bound; lia).
    unfold be at 1. simpl. unfold byte_of_N.
    assert (Hm: n mod 256 < 256) by (apply N.mod_lt; lia).
    destruct (Byte.of_N (n mod 256)) eqn:E.
    + apply Byte.to_of_N in E. unfold bN. rewrite E. pose proof (N.div_mod n 256). lia.
    + apply Byte.of_N_None_iff in E. lia.
Qed.

(* ---------- MSB-first bit lists ---------- *)
Fixpoint uint (l:list bool) : N :=
  match l with [] => 0 | b::r => (if b then 2^(N.of_nat (length r)) else 0) + uint r end.

Lemma uint_lt l : uint l < 2^(N.of_nat (length l)).
Proof.
  induction l as [|b r IH]; simpl length; [simpl; lia|].
  rewrite Nat2N.inj_succ, N.pow_succ_r'. cbn [uint]. destruct b; lia.
Qed.

Lemma uint_app a b : uint (a ++ b) = uint a * 2^(N.of_nat (length b)) + uint b.
Proof.
  induction a as [|x a IH]; cbn [uint app]; [lia|].
  rewrite IH, app_length, Nat2N.inj_add, N.pow_add_r. destruct x; lia.
Qed.

(* w bits of n, MSB first *)
Fixpoint bits_of (w:nat) (n:N) : list bool :=
  match w with O => [] | S w' => bits_of w' (n / 2) ++ [N.odd n] end.

Lemma bits_of_length w n : length (bits_of w n) = w.
Proof. revert n; induction w as [|w IH]; intro n; simpl; auto. rewrite app_length, IH; simpl; lia. Qed.

Lemma uint_bits_of w n : uint (bits_of w n) = n mod 2^(N.of_nat w).
Proof.
  revert n. induction w as [|w IH]; intro n.
  - simpl. now rewrite N.mod_1_r.
  - cbn [bits_of]. rewrite uint_app, IH. simpl length. change (2^N.of_nat 1) with 2.
    rewrite Nat2N.inj_succ, N.pow_succ_r'.
    cbn [uint length]. change (2^N.of_nat 0) with 1.
    assert (P: 2 ^ N.of_nat w <> 0) by (apply N.pow_nonzero; lia).
    rewrite N.mod_mul_r by (auto; lia).
    replace (if N.odd n then 1 else 0) with (n mod 2).
    2:{ rewrite <- N.bit0_mod. now rewrite N.bit0_odd. }
    lia.
Qed.

Definition byte_bits (b:byte) : list bool := bits_of 8 (bN b).
Definition bits (l:bytes) : list bool := flat_map byte_bits l.

Lemma bits_length l : length (bits l) = (8 * length l)%nat.
Proof.
  induction l as [|x l IH]; [reflexivity|].
  unfold bits in *. cbn [flat_map]. rewrite app_length, IH. unfold byte_bits. rewrite bits_of_length. simpl length. lia.
Qed.

Lemma bits_app a b : bits (a ++ b) = bits a ++ bits b.
Proof. unfold bits. apply flat_map_app. Qed.

Lemma bits_single x : bits [x] = byte_bits x.
Proof. unfold bits. cbn [flat_map]. apply app_nil_r. Qed.

Lemma uint_bits l : uint (bits l) = be l.
Proof.
  induction l as [|x l IH] using rev_ind; [reflexivity|].
  rewrite bits_app, uint_app, be_app, IH, bits_single. unfold byte_bits.
  rewrite bits_of_length, uint_bits_of. simpl length.
  change (2 ^ N.of_nat 8) with 256. change (256 ^ N.of_nat 1) with 256.
  f_equal. unfold be. simpl. apply N.mod_small. apply bN_lt.
Qed.

(* the payload integer and the shift-and-mask extraction used by the field decoder *)
Definition extract (V:N) (L o w:N) : N := N.land (N.shiftr V (L - o - w)) (N.ones w).

Lemma extract_is_slice a m c :
  extract (uint (a ++ m ++ c)) (N.of_nat (length (a++m++c))) (N.of_nat (length a)) (N.of_nat (length m)) = uint m.
Proof.
  unfold extract. rewrite !app_length, !Nat2N.inj_add.
  replace (N.of_nat (length a) + (N.of_nat (length m) + N.of_nat (length c)) - N.of_nat (length a) - N.of_nat (length m))
    with (N.of_nat (length c)) by lia.
  rewrite N.shiftr_div_pow2, N.land_ones.
  rewrite !uint_app, app_length, Nat2N.inj_add, N.pow_add_r.
  assert (Hc := uint_lt c). assert (Hm := uint_lt m).
  set (C := 2^N.of_nat (length c)) in *. set (M := 2^N.of_nat (length m)) in *.
  assert (C <> 0) by (apply N.pow_nonzero; lia). assert (M <> 0) by (apply N.pow_nonzero; lia).
  replace (uint a * (M * C) + (uint m * C + uint c)) with ((uint a * M + uint m) * C + uint c) by lia.
  rewrite N.div_add_l by auto. rewrite (N.div_small (uint c)) by auto. rewrite N.add_0_r.
  rewrite N.add_comm, N.mod_add by auto. apply N.mod_small; auto.
Qed.

Lemma extract_firstn_skipn l o w : (o + w <= length l)%nat ->
  extract (uint l) (N.of_nat (length l)) (N.of_nat o) (N.of_nat w) = uint (firstn w (skipn o l)).
Proof.
  intro H.
  pose (a := firstn o l). pose (m := firstn w (skipn o l)). pose (c := skipn w (skipn o l)).
  assert (E : l = a ++ m ++ c) by (unfold a, m, c; now rewrite !firstn_skipn).
  assert (Ha : length a = o) by (unfold a; rewrite firstn_length; lia).
  assert (Hm : length m = w) by (unfold m; rewrite firstn_length, skipn_length; lia).
  fold m. rewrite E, <- Ha, <- Hm. apply extract_is_slice.
Qed.
