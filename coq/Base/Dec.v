(* Decimal rendering / parsing: str(int), f"{i:02d}", f"{i:03d}", int(s) on digit strings. *)
From Coq Require Import NArith ZArith List String Ascii Bool Lia.
From Coq Require Import DecimalString DecimalN Decimal.
Open Scope string_scope.

Definition str_of_N (n:N) : string := NilZero.string_of_uint (N.to_uint n).
(* Python int(s) restricted to non-empty [0-9]+ ; anything else -> None (ValueError / unmodelled) *)
Definition N_of_str (s:string) : option N :=
  match s with EmptyString => None | _ => option_map N.of_uint (NilEmpty.uint_of_string s) end.

Fixpoint pad_zeros (k:nat) (s:string) : string :=
  match k with O => s | S k' => String "0"%char (pad_zeros k' s) end.
(* f"{n:0{w}d}" for n >= 0 *)
Definition fmt_d (w:nat) (n:N) : string :=
  let s := str_of_N n in pad_zeros (w - String.length s) s.
Definition dd  := fmt_d 2.
Definition ddd := fmt_d 3.

Definition str_of_Z (z:Z) : string :=
  match z with Z0 => "0" | Zpos p => str_of_N (Npos p) | Zneg p => String "-"%char (str_of_N (Npos p)) end.

Lemma str_of_N_nonempty n : str_of_N n <> "".
Proof. unfold str_of_N. destruct (N.to_uint n); simpl; discriminate. Qed.

Lemma uint_of_string_pad k s : NilEmpty.uint_of_string (pad_zeros k s) =
  option_map (fun u => Nat.iter k D0 u) (NilEmpty.uint_of_string s).
Proof.
  induction k as [|k IH]; simpl.
  - destruct (NilEmpty.uint_of_string s); reflexivity.
  - rewrite IH. destruct (NilEmpty.uint_of_string s); reflexivity.
Qed.

Lemma of_uint_D0 u : N.of_uint (D0 u) = N.of_uint u.
Proof. reflexivity. Qed.

Lemma of_uint_iter_D0 k u : N.of_uint (Nat.iter k D0 u) = N.of_uint u.
Proof. induction k as [|k IH]; simpl; auto. Qed.

Lemma NilZero_NilEmpty u : u <> Nil -> NilZero.string_of_uint u = NilEmpty.string_of_uint u.
Proof. destruct u; simpl; congruence. Qed.

Lemma to_uint_nonnil n : N.to_uint n <> Nil.
Proof.
  destruct n as [|p]; simpl; [discriminate|].
  unfold Pos.to_uint. intro H.
  pose proof (DecimalPos.Unsigned.to_uint_nonnil p). contradiction.
Qed.

Lemma N_of_str_str_of_N n : N_of_str (str_of_N n) = Some n.
Proof.
  unfold N_of_str. pose proof (str_of_N_nonempty n) as NE.
  destruct (str_of_N n) eqn:E; [congruence|]. rewrite <- E.
  unfold str_of_N. rewrite NilZero_NilEmpty by apply to_uint_nonnil.
  rewrite NilEmpty.usu. simpl. f_equal. apply DecimalN.Unsigned.of_to.
Qed.

Lemma pad_zeros_nonempty k s : s <> "" -> pad_zeros k s <> "".
Proof. destruct k; simpl; auto. intros _ H; discriminate H. Qed.

(* int(f"{n:0wd}") = n, for every width and every n (any number of digits) *)
Lemma N_of_str_fmt_d w n : N_of_str (fmt_d w n) = Some n.
Proof.
  unfold fmt_d, N_of_str.
  pose proof (pad_zeros_nonempty (w - String.length (str_of_N n)) _ (str_of_N_nonempty n)) as NE.
  destruct (pad_zeros _ _) eqn:E; [congruence|]. rewrite <- E.
  rewrite uint_of_string_pad. unfold str_of_N.
  rewrite NilZero_NilEmpty by apply to_uint_nonnil. rewrite NilEmpty.usu. simpl.
  f_equal. rewrite of_uint_iter_D0. apply DecimalN.Unsigned.of_to.
Qed.
