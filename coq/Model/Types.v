(* Shared datatypes: table syntax emitted by tools/gen_tables.py, outcomes, values.  No proofs. *)
From Coq Require Import NArith ZArith List String Ascii PrimFloat.
From PyRtcm Require Import Base.Bytes.
Import ListNotations.

(* ---- table syntax (constructors only; the translator emits nothing else) ---- *)
Inductive dtype := TBIT | TBITX | TCHA | TSTR | TINT | TUINT | TSNT | TPRN | TCPR | TCSG | TOther (s:string).
Inductive res   := RInt (z:Z) | RFloat (f:float) | RBad (why:string).
Record  dfield  := { df_key:string; df_ty:dtype; df_bits:Z; df_res:res; df_desc:string }.
Inductive count := CFixed (n:Z) | CNamed (key:string) | CBad (why:string).    (* key kept verbatim, e.g. "DF379+1" *)
Inductive item  := IField (key:string)
                 | IGroup (c:count) (b:body)
                 | IOpt   (key:string) (con:Z) (b:body)
                 | IBad   (why:string)
with     body   := BItems (l:list (string*item))      (* dict: label -> item, source order *)
                 | BNotDict (why:string).

Record tables := {
  t_fields   : list dfield;
  t_get      : list (string*body);
  t_msm      : list (string*body);
  t_igs      : list (string*body);
  t_msgids   : list (string*string);
  t_prnsig   : list (string * (list (Z*string) * list (Z*(string*string))));
  t_gnssmap  : list (string * (string*string));
  t_coeffs   : list (Z * (string*string));
  t_nmea_hdr : list bytes;
  t_ubx_hdr  : bytes;
  t_rtcm_hdr : bytes;
  t_na       : string;
  t_nsat : string; t_nsig : string; t_ncell : string;
  t_nharmc : string; t_nharms : string;
  t_valcksum : Z; t_err_raise : Z; t_err_log : Z; t_err_ignore : Z;
  t_enc_chunked : Z; t_enc_gzip : Z; t_enc_compress : Z; t_enc_deflate : Z
}.

(* ---- outcomes: exceptions are values ---- *)
Inductive liberr := EMessage | EParse | EStream | EType.
Inductive pyexc  := XIndex | XKey | XValue | XType | XAttribute | XEOF | XOverflow | XOther.
Inductive outcome (A:Type) := Ok (a:A) | Lib (e:liberr) | Foreign (k:pyexc) | Unmodelled (why:string).
Arguments Ok {A}. Arguments Lib {A}. Arguments Foreign {A}. Arguments Unmodelled {A}.

Definition obind {A B} (x:outcome A) (f:A -> outcome B) : outcome B :=
  match x with Ok a => f a | Lib e => Lib e | Foreign k => Foreign k | Unmodelled w => Unmodelled w end.
Notation "'do' x <- e ; f" := (obind e (fun x => f)) (at level 200, x pattern, e at level 100, f at level 200, right associativity).

(* ---- attribute values: int | float | str (list of code points) ---- *)
Inductive value := VInt (z:Z) | VFloat (f:float) | VStr (s:list N).

Definition codes (s:string) : list N := map (fun a => N_of_ascii a) (list_ascii_of_string s).
