(* Mirror of rtcmhelpers: att2idx, att2name, datadesc (as repaired), parse_msm (as repaired), parse_4076_201.  No proofs. *)
From Coq Require Import NArith ZArith List String Ascii Bool.
From PyRtcm Require Import Base.Bytes Base.Dec Model.Types Model.Message.
Import ListNotations.
Open Scope string_scope.

(* str.split("_") *)
Fixpoint split_us_aux (cur:string) (s:string) : list string :=
  match s with
  | EmptyString => [cur]
  | String c r => if Ascii.eqb c "_"%char then cur :: split_us_aux "" r
                  else split_us_aux (cur ++ String c "") r
  end.
Definition split_us (s:string) : list string := split_us_aux "" s.

(* str.rsplit("_", 1)[0] when "_" in s *)
Fixpoint rsplit1_aux (s:string) : option string :=     (* None: no "_" in s *)
  match s with
  | EmptyString => None
  | String c r =>
      match rsplit1_aux r with
      | Some h => Some (String c h)
      | None => if Ascii.eqb c "_"%char then Some "" else None
      end
  end.

(* int(s) for the strings att2idx meets *)
Inductive int_res := PVal (n:N) | PValueError | PUnmodelled.
Definition is_digit (c:ascii) : bool := let n := N_of_ascii c in (48 <=? n)%N && (n <=? 57)%N.
Definition maybe_int10_char (c:ascii) : bool :=
  let n := N_of_ascii c in
  is_digit c || (n =? 43)%N || (n =? 45)%N || (n =? 32)%N || ((9 <=? n)%N && (n <=? 13)%N) || (128 <=? n)%N.
Fixpoint all_chars (f:ascii -> bool) (s:string) : bool :=
  match s with EmptyString => true | String c r => f c && all_chars f r end.
(* CPython >= 3.11 refuses to convert digit strings longer than sys.int_max_str_digits (default 4300): ValueError *)
Definition int_max_str_digits : nat := 4300.
Definition py_int (s:string) : int_res :=
  match s with
  | EmptyString => PValueError
  | _ => if all_chars is_digit s then
           (if Nat.ltb int_max_str_digits (String.length s) then PValueError
            else match N_of_str s with Some n => PVal n | None => PUnmodelled end)
         else if all_chars maybe_int10_char s then PUnmodelled else PValueError
  end.

Inductive idx_res := IdxInt (n:N) | IdxTuple (l:list N) | IdxUnmodelled.

Fixpoint ints (l:list string) : option (option (list N)) :=   (* None = unmodelled; Some None = ValueError *)
  match l with
  | [] => Some (Some [])
  | s::r => match py_int s with
            | PUnmodelled => None
            | PValueError => Some None
            | PVal n => match ints r with
                        | None => None
                        | Some None => Some None
                        | Some (Some t) => Some (Some (n::t))
                        end
            end
  end.

Definition att2idx (att:string) : idx_res :=
  match split_us att with
  | [_] | [] => IdxInt 0
  | [_; a] => match py_int a with PVal n => IdxInt n | PValueError => IdxInt 0 | PUnmodelled => IdxUnmodelled end
  | _ :: rest => match ints rest with
                 | None => IdxUnmodelled
                 | Some None => IdxInt 0
                 | Some (Some l) => IdxTuple l
                 end
  end.

Definition att2name (att:string) : string := match split_us att with h::_ => h | [] => "" end.

Section H.
Variable T : tables.

(* datadesc: exact key first, then strip "_suffix" groups *)
Fixpoint datadesc_loop (fuel:nat) (key:string) : outcome string :=
  match find_field T key with
  | Some d => Ok (df_desc d)
  | None =>
      match fuel with
      | O => Unmodelled "fuel"
      | S f => match rsplit1_aux key with
               | Some k' => datadesc_loop f k'
               | None => Foreign XKey
               end
      end
  end.
Definition datadesc (datafield:string) : outcome string := datadesc_loop (S (String.length datafield)) datafield.

(* ---- parse_msm ---- *)
Definition sat_keys  := ["PRN"; "DF397"; "DF398"; "DF399"; "DF419"; "ExtSatInfo"].
Definition cell_keys := ["CELLPRN"; "CELLSIG"; "DF400"; "DF401"; "DF402"; "DF403"; "DF404"; "DF405"; "DF406"; "DF407"; "DF408"; "DF420"].

Record msm_out := { m_meta : list (string * value); m_sats : list (list (string*value)); m_cells : list (list (string*value)) }.

Definition pick (o:obj) (keys:list string) (i:N) : list (string*value) :=
  flat_map (fun a => match assoc (a ++ "_" ++ dd i) (o_attrs o) with Some v => [(a, v)] | None => [] end) keys.

Definition nrange1 (n:Z) : list N := map (fun k => N.of_nat k + 1)%N (seq 0 (Z.to_nat n)).

Definition parse_msm (o:obj) : outcome (option msm_out) :=
  do ident <- obj_identity o;
  if negb (ismsm_of T ident) then Ok None else
  match assoc ident (t_msm T) with
  | None => Ok None
  | Some _ =>
      match assoc (substring 0 3 ident) (t_gnssmap T) with
      | None => Foreign XKey
      | Some (gnss, epochkey) =>
          do station <- getattr o "DF003";
          do epoch <- getattr o epochkey;
          do nsatv <- getattr o "NSat";
          do ncellv <- getattr o "NCell";
          do nsat <- getint o "NSat";
          do ncell <- getint o "NCell";
          if (1048576 <? nsat)%Z || (1048576 <? ncell)%Z then Unmodelled "count" else
          Ok (Some {| m_meta := [("identity", VStr (codes ident)); ("gnss", VStr (codes gnss)); ("station", station);
                                 ("epoch", epoch); ("sats", nsatv); ("cells", ncellv)];
                      m_sats := map (pick o sat_keys) (nrange1 nsat);
                      m_cells := map (pick o cell_keys) (nrange1 ncell) |})
      end
  end.

(* ---- parse_4076_201 ---- *)
Fixpoint collect (fuel:nat) (o:obj) (pre:string) (i:N) : option (list value) :=
  match fuel with
  | O => None
  | S f => match assoc (pre ++ "_" ++ dd (i+1)) (o_attrs o) with
           | None => Some []
           | Some v => option_map (cons v) (collect f o pre (i+1)%N)
           end
  end.

Record layer_out := { l_height : value; l_coeffs : list (string * list value) }.

Fixpoint all_some {A} (l:list (option A)) : option (list A) :=
  match l with [] => Some [] | None::_ => None | Some a::r => option_map (cons a) (all_some r) end.
Fixpoint all_ok {A} (l:list (outcome A)) : outcome (list A) :=
  match l with [] => Ok [] | x::r => do a <- x; do t <- all_ok r; Ok (a::t) end.

Definition parse_4076_201 (o:obj) : outcome (option (list layer_out)) :=
  do ident <- obj_identity o;
  if negb (String.eqb ident "4076_201") then Ok None else
  do nl <- getint o "IDF035";
  if (1048576 <? nl)%Z then Unmodelled "count" else
  do layers <- all_ok (map (fun lyr =>
      do h <- getattr o ("IDF036_" ++ dd lyr);
      match all_some (map (fun '(_, (field, coeff)) =>
               option_map (fun l => (coeff, l)) (collect (S (List.length (o_attrs o))) o (field ++ "_" ++ dd lyr) 0%N)) (t_coeffs T)) with
      | None => Unmodelled "fuel"
      | Some cs => Ok {| l_height := h; l_coeffs := cs |}
      end) (nrange1 (nl + 1)));
  Ok (Some layers).

End H.
