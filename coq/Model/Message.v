(* Mirror of rtcmmessage.RTCMMessage (constructor, table-driven field decoder, MSM maps,
   identity / dispatch, immutability flag, serialize, ismsm).  Statement-by-statement; exceptions
   are values.  No proofs in this file. *)
From Coq Require Import NArith ZArith List String Ascii Bool PrimFloat Uint63.
From Coq.Strings Require Import Byte.
From PyRtcm Require Import Base.Bytes Base.Dec Model.Types Model.Crc.
Import ListNotations.
Open Scope string_scope.

(* ---------- Python dict on string keys: insertion ordered, update in place ---------- *)
Fixpoint assoc {A} (k:string) (l:list (string*A)) : option A :=
  match l with [] => None | (k',v)::r => if String.eqb k' k then Some v else assoc k r end.
Fixpoint upd {A} (k:string) (v:A) (l:list (string*A)) : list (string*A) :=
  match l with [] => [(k,v)] | (k',v')::r => if String.eqb k' k then (k',v)::r else (k',v')::upd k v r end.
Fixpoint zassoc {A} (k:Z) (l:list (Z*A)) : option A :=
  match l with [] => None | (k',v)::r => if Z.eqb k' k then Some v else zassoc k r end.

(* "x in s" for strings *)
Definition contains (needle hay:string) : bool :=
  match String.index 0 needle hay with Some _ => true | None => false end.

(* ---------- the message object ---------- *)
Record obj := {
  o_immutable : bool;
  o_payload   : bytes;
  o_payloadi  : N;                                      (* int.from_bytes(payload, "big"), computed once *)
  o_labelmsm  : Z;
  o_unknown   : bool;
  o_satmap    : option (list (Z * string));            (* None = Python None *)
  o_cellmap   : option (list (Z * (string * string)));
  o_attrs     : list (string * value)                   (* remaining __dict__ entries, insertion order *)
}.
Definition with_attrs (o:obj) (a:list (string*value)) : obj :=
  {| o_immutable := o_immutable o; o_payload := o_payload o; o_payloadi := o_payloadi o; o_labelmsm := o_labelmsm o; o_unknown := o_unknown o;
     o_satmap := o_satmap o; o_cellmap := o_cellmap o; o_attrs := a |}.
Definition with_maps (o:obj) (sm:list (Z*string)) (cm:list (Z*(string*string))) : obj :=
  {| o_immutable := o_immutable o; o_payload := o_payload o; o_payloadi := o_payloadi o; o_labelmsm := o_labelmsm o; o_unknown := o_unknown o;
     o_satmap := Some sm; o_cellmap := Some cm; o_attrs := o_attrs o |}.
Definition with_unknown (o:obj) (u:bool) : obj :=
  {| o_immutable := o_immutable o; o_payload := o_payload o; o_payloadi := o_payloadi o; o_labelmsm := o_labelmsm o; o_unknown := u;
     o_satmap := o_satmap o; o_cellmap := o_cellmap o; o_attrs := o_attrs o |}.
Definition with_immutable (o:obj) (i:bool) : obj :=
  {| o_immutable := i; o_payload := o_payload o; o_payloadi := o_payloadi o; o_labelmsm := o_labelmsm o; o_unknown := o_unknown o;
     o_satmap := o_satmap o; o_cellmap := o_cellmap o; o_attrs := o_attrs o |}.

(* RTCMMessage.__setattr__ on a data attribute *)
Definition setattr (o:obj) (k:string) (v:value) : outcome obj :=
  if o_immutable o then Lib EMessage else Ok (with_attrs o (upd k v (o_attrs o))).
Definition getattr (o:obj) (k:string) : outcome value :=
  match assoc k (o_attrs o) with Some v => Ok v | None => Foreign XAttribute end.
Definition getint (o:obj) (k:string) : outcome Z :=
  do v <- getattr o k;
  match v with VInt z => Ok z | VFloat _ => Unmodelled "float used as integer" | VStr _ => Foreign XType end.

(* ---------- identity ---------- *)
Definition msgnum (b0 b1:byte) : N := N.lor (N.shiftl (bN b0) 4) (N.shiftr (bN b1) 4).
Definition subtype (b1 b2:byte) : N := N.lor (N.shiftl (N.land (bN b1) 1) 7) (N.shiftr (bN b2) 1).

Definition identity (p:bytes) : outcome string :=
  match p with
  | b0::b1::rest =>
      let mid := msgnum b0 b1 in
      if N.eqb mid 4076 then
        match rest with
        | b2::_ => Ok (str_of_N mid ++ "_" ++ ddd (subtype b1 b2))
        | [] => Foreign XIndex
        end
      else Ok (str_of_N mid)
  | _ => Foreign XIndex
  end.

(* guard added by the C04 repair: payload must be long enough to carry its identity *)
Definition too_short (p:bytes) : bool :=
  match p with
  | [] | [_] => true
  | [b0;b1] => N.eqb (msgnum b0 b1) 4076
  | _ => false
  end.

Section WithTables.
Variable T : tables.

Definition find_field (k:string) : option dfield :=
  find (fun d => String.eqb (df_key d) k) (t_fields T).

(* _get_dict : string-range dispatch *)
Definition get_dict (ident:string) : option body :=
  if String.leb "1070" ident && String.leb ident "1229" then assoc ident (t_msm T)
  else if String.eqb (substring 0 4 ident) "4076" then assoc ident (t_igs T)
  else assoc ident (t_get T).

Definition ismsm_of (ident:string) : bool :=
  match assoc ident (t_msgids T) with Some d => contains "MSM" d | None => false end.

(* ---------- scaling: val *= ares ---------- *)
Definition float_of_Z (z:Z) : float :=
  let m := of_uint63 (Uint63.of_Z (Z.abs z)) in if (z <? 0)%Z then (- m)%float else m.

Definition scale (v:Z) (r:res) : outcome value :=
  match r with
  | RInt z => if (z =? 0)%Z || (z =? 1)%Z then Ok (VInt v) else Ok (VInt (v*z))
  | RFloat f =>
      if (f =? 0)%float || (f =? 1)%float then Ok (VInt v)
      else if (Z.abs v <? 2^53)%Z then Ok (VFloat (float_of_Z v * f)%float)
      else Unmodelled "integer beyond 2^53 scaled by float"
  | RBad w => Unmodelled w
  end.
Definition res_is_unit (r:res) : bool :=
  match r with RInt z => (z =? 0)%Z || (z =? 1)%Z | RFloat f => (f =? 0)%float || (f =? 1)%float | RBad _ => false end.

(* anami : name suffixed with one "_%02d" per non-zero index level *)
Definition idx_suffix (i:Z) : string := "_" ++ dd (Z.to_N i).
Definition render_name (anam:string) (index:list Z) : string :=
  fold_left (fun s i => if (0 <? i)%Z then s ++ idx_suffix i else s) index anam.

Definition popcount (n:N) : Z :=
  match n with N0 => 0%Z | Npos p => (fix pc (p:positive) : Z := match p with xH => 1 | xO q => pc q | xI q => 1 + pc q end)%Z p end.

(* bits = payloadi >> (payblen - offset - asiz) & ((1 << asiz) - 1) ; negative counts raise ValueError *)
Definition get_bits (payloadi:N) (payblen:Z) (offset asiz:Z) : outcome N :=
  let sh := (payblen - offset - asiz)%Z in
  if (sh <? 0)%Z || (asiz <? 0)%Z then Foreign XValue
  else Ok (N.land (N.shiftr payloadi (Z.to_N sh)) (N.ones (Z.to_N asiz))).

Definition zrange (n:nat) : list Z := map Z.of_nat (seq 0 n).

(* _getsatcellmaps *)
Definition getsatcellmaps (ident:string) (o:obj) : outcome obj :=
  match assoc (substring 0 3 ident) (t_prnsig T) with
  | None => Foreign XKey
  | Some (prnmap, sigmap) =>
      let sigcode := negb (o_labelmsm o =? 2)%Z in
      do df394 <- getint o "DF394";
      do df395 <- getint o "DF395";
      do df396 <- getint o "DF396";
      let sats := filter (fun idx => Z.testbit df394 (64 - idx)) (zrange 65) in
      let satlabels := map (fun idx => match zassoc idx prnmap with Some s => s | None => t_na T end) sats in
      let satmap := combine (map (fun k => Z.of_nat k + 1)%Z (seq 0 (List.length satlabels))) satlabels in
      let sigids := filter (fun idx => Z.testbit df395 (32 - idx)) (zrange 33) in
      let sigs := map (fun idx => let sgc := match zassoc idx sigmap with Some p => p | None => (t_na T, t_na T) end in
                                  if sigcode then snd sgc else fst sgc) sigids in
      let nsat := Z.of_nat (List.length satlabels) in
      let nsig := Z.of_nat (List.length sigs) in
      let ncells := (nsat * nsig)%Z in
      let pairs := flat_map (fun s => map (fun g => (s, g)) sigs) satlabels in
      let numbered := combine (map (fun k => Z.of_nat k + 1)%Z (seq 0 (List.length pairs))) pairs in
      let hit := filter (fun '(idx, _) => Z.testbit df396 (ncells - idx)) numbered in
      let cellmap := combine (map (fun k => Z.of_nat k + 1)%Z (seq 0 (List.length hit))) (map snd hit) in
      Ok (with_maps o satmap cellmap)
  end.

Definition first_index (index:list Z) : outcome Z :=
  match index with i::_ => Ok i | [] => Foreign XIndex end.

(* _set_attribute_single *)
Definition set_single (ident:string) (anam:string) (index:list Z) (s:obj*Z) : outcome (obj*Z) :=
  let '(o, offset) := s in
  let anami := render_name anam index in
  match find_field anam with
  | None => Foreign XKey
  | Some fd =>
      let atyp := df_ty fd in
      do asiz <- (if String.eqb anam "DF396"
                  then (do a <- getint o (t_nsat T); do b <- getint o (t_nsig T); Ok (a*b)%Z)
                  else Ok (df_bits fd));
      do vb <- (match atyp with
        | TPRN => do i <- first_index index;
                  match o_satmap o with None => Foreign XType | Some m =>
                    match zassoc i m with Some x => Ok (VStr (codes x), None) | None => Foreign XKey end end
        | TCPR => do i <- first_index index;
                  match o_cellmap o with None => Foreign XType | Some m =>
                    match zassoc i m with Some x => Ok (VStr (codes (fst x)), None) | None => Foreign XKey end end
        | TCSG => do i <- first_index index;
                  match o_cellmap o with None => Foreign XType | Some m =>
                    match zassoc i m with Some x => Ok (VStr (codes (snd x)), None) | None => Foreign XKey end end
        | _ =>
          do bits <- get_bits (o_payloadi o) (8 * Z.of_nat (List.length (o_payload o)))%Z offset asiz;
          let zb := Z.of_N bits in
          match atyp with
          | TSNT =>
              if (asiz <? 1)%Z then Foreign XValue else
              let msb := (2^(asiz-1))%Z in
              let mag := Z.land zb (msb - 1) in
              let val := if (Z.land zb msb =? 0)%Z then mag else (- mag)%Z in
              do v <- scale val (df_res fd); Ok (v, Some bits)
          | TINT =>
              if (asiz <? 1)%Z then Foreign XValue else
              let msb := (2^(asiz-1))%Z in
              let val := if (Z.land zb msb =? 0)%Z then zb else (zb - 2^asiz)%Z in
              do v <- scale val (df_res fd); Ok (v, Some bits)
          | TCHA =>
              if (1114112 <=? bits)%N then Foreign XValue
              else if res_is_unit (df_res fd) then Ok (VStr [bits], Some bits)
              else Unmodelled "scaled CHA"
          | TSTR =>
              if (bits =? 0)%N then Ok (VStr [], Some bits)
              else if (1114112 <=? bits)%N then Foreign XValue else Ok (VStr [bits], Some bits)
          | _ => do v <- scale zb (df_res fd); Ok (v, Some bits)
          end
        end);
      let '(val, obits) := vb in
      do o1 <- (match atyp with
        | TSTR =>
            match assoc anam (o_attrs o), val with
            | None, _ => setattr o anam val
            | Some (VStr old), VStr new => setattr o anam (VStr (old ++ new)%list)
            | Some _, _ => Foreign XType
            end
        | _ => setattr o anami val
        end);
      let offset1 := (offset + asiz)%Z in
      do o2 <- (if String.eqb anam "DF394" || String.eqb anam "DF395" || String.eqb anam "DF396" then
                  match obits with
                  | None => Foreign XOther      (* `bits` unbound *)
                  | Some bits =>
                      let nb := VInt (popcount bits) in
                      if String.eqb anam "DF394" then setattr o1 (t_nsat T) nb
                      else if String.eqb anam "DF395" then setattr o1 (t_nsig T) nb
                      else do o' <- setattr o1 (t_ncell T) nb; getsatcellmaps ident o'
                  end
                else Ok o1);
      do o3 <- (if String.eqb anam "IDF038" then
                  do i <- first_index index;
                  if (i <? 0)%Z then Foreign XValue else
                  do n0 <- getint o2 ("IDF037_" ++ dd (Z.to_N i));
                  do m0 <- getint o2 ("IDF038_" ++ dd (Z.to_N i));
                  let N' := (n0 + 1)%Z in let M' := (m0 + 1)%Z in
                  if (2^24 <? Z.abs N')%Z || (2^24 <? Z.abs M')%Z then Unmodelled "harmonic degree beyond exact float range" else
                  let nc := (((N' + 1) * (N' + 2)) / 2 - ((N' - M') * (N' - M' + 1)) / 2)%Z in
                  let ns := (nc - (N' + 1))%Z in
                  do o' <- setattr o2 (t_nharmc T) (VInt nc); setattr o' (t_nharms T) (VInt ns)
                else Ok o2);
      Ok (o3, offset1)
  end.

(* split "KEY+n" ; Python: anam, nestlevel = anam.split("+") *)
Fixpoint split_plus (s:string) : string * option string :=
  match s with
  | EmptyString => (EmptyString, None)
  | String c r => if Ascii.eqb c "+"%char then (EmptyString, Some r)
                  else let '(a, b) := split_plus r in (String c a, b)
  end.

Fixpoint suffix_first (n:nat) (index:list Z) (s:string) : outcome string :=
  match n with O => Ok s | S k =>
    match index with
    | [] => Foreign XIndex
    | i::r => if (i <? 0)%Z then Unmodelled "negative index" else suffix_first k r (s ++ idx_suffix i)
    end end.

(* number of repeats of a group *)
Definition group_size (c:count) (index:list Z) (o:obj) : outcome Z :=
  match c with
  | CFixed n => Ok n
  | CBad w => Unmodelled w
  | CNamed key =>
      do anam <- (match split_plus key with
                  | (k, None) => Ok k
                  | (k, Some nl) =>
                      if contains "+" nl then Foreign XValue else
                      match N_of_str nl with
                      | None => Unmodelled "nest level not a plain number"
                      | Some n => suffix_first (N.to_nat n) index k
                      end
                  end);
      do g <- getint o anam;
      Ok (if String.eqb anam "IDF035" then (g + 1)%Z else g)
  end.

Definition st := (obj * Z)%type.

Fixpoint rep (f : list Z -> st -> outcome st) (index:list Z) (n:nat) (i:Z) (s:st) : outcome st :=
  match n with O => Ok s | S k => do s' <- f (index ++ [i])%list s; rep f index k (i+1)%Z s' end.

Definition max_count : Z := 1048576.

Section Walk.
Variable ident : string.

Fixpoint dec_item (lbl:string) (it:item) (index:list Z) (s:st) {struct it} : outcome st :=
  match it with
  | IField _ => set_single ident lbl index s
  | IBad w => Unmodelled w
  | IGroup c b =>
      do n <- group_size c index (fst s);
      if (max_count <? n)%Z then Unmodelled "repeat count beyond model bound"
      else rep (dec_body b) index (Z.to_nat n) 1%Z s
  | IOpt k con b =>
      do v <- getattr (fst s) k;
      match v with
      | VInt z => if (z =? con)%Z then dec_body b index s else Ok s
      | VFloat _ => Unmodelled "float condition"
      | VStr _ => Ok s
      end
  end
with dec_body (b:body) (index:list Z) (s:st) {struct b} : outcome st :=
  match b with
  | BNotDict w => Unmodelled w
  | BItems l =>
      (fix go (l:list (string*item)) (s:st) : outcome st :=
         match l with [] => Ok s | (lbl,it)::r => do s1 <- dec_item lbl it index s; go r s1 end) l s
  end.
End Walk.

(* _do_attributes : everything raised inside is re-raised as RTCMTypeError *)
Definition do_attributes (o:obj) : outcome obj :=
  let r :=
    do ident <- identity (o_payload o);
    match get_dict ident with
    | None => do o1 <- setattr o "DF002" (VStr (codes ident)); Ok (with_unknown o1 true)
    | Some pdict => do s <- dec_body ident pdict [] (o, 0%Z); Ok (fst s)
    end in
  match r with
  | Ok o' => Ok o'
  | Unmodelled w => Unmodelled w
  | Lib _ | Foreign _ =>
      (* except Exception: raise RTCMTypeError(f"... {self.identity} ...") — the handler evaluates identity *)
      match identity (o_payload o) with Ok _ => Lib EType | Lib e => Lib e | Foreign k => Foreign k | Unmodelled w => Unmodelled w end
  end.

(* RTCMMessage(payload, labelmsm) ; payload=None is RTCMMessageError *)
Definition construct (payload:option bytes) (labelmsm:Z) : outcome obj :=
  match payload with
  | None => Lib EMessage
  | Some p =>
      if too_short p then Lib EMessage else
      let o0 := {| o_immutable := false; o_payload := p; o_payloadi := be p; o_labelmsm := labelmsm; o_unknown := false;
                   o_satmap := None; o_cellmap := None; o_attrs := [] |} in
      do o <- do_attributes o0;
      Ok (with_immutable o true)
  end.

Definition obj_identity (o:obj) : outcome string := identity (o_payload o).
Definition obj_ismsm (o:obj) : outcome bool := do i <- obj_identity o; Ok (ismsm_of i).

(* serialize *)
Definition serialize_payload (p:bytes) : outcome bytes :=
  match len2bytes p with
  | None => Foreign XOverflow
  | Some size =>
      let message := (t_rtcm_hdr T ++ size ++ p)%list in
      match crc2bytes message with None => Foreign XOverflow | Some c => Ok (message ++ c)%list end
  end.
Definition serialize (o:obj) : outcome bytes := serialize_payload (o_payload o).

End WithTables.
