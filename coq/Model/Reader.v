(* Mirror of rtcmreader.RTCMReader: _read_bytes, _read_line, _parse_ubx, _parse_nmea, _parse_rtcm3,
   read() loop with the three error modes, static parse().  Parameterised over the underlying stream
   (any state type with read(n) / readline()) and over the message constructor.  No proofs. *)
From Coq Require Import NArith ZArith List String Bool.
From Coq.Strings Require Import Byte.
From PyRtcm Require Import Base.Bytes Model.Types Model.Crc.
Import ListNotations.

(* ---------- underlying streams ---------- *)
Record stream_ops (St:Type) := {
  s_read     : nat -> St -> bytes * St;
  s_readline : St -> bytes * St
}.
Arguments s_read {St}. Arguments s_readline {St}.

(* file-like stream with a fault schedule: one directive is consumed per call *)
Inductive directive := Full | Short (k:nat).
Record fstream := { rest : bytes; sched : list directive }.
Definition pop_dir (s:fstream) : directive * list directive :=
  match sched s with [] => (Full, []) | d::r => (d, r) end.
Definition f_read (n:nat) (s:fstream) : bytes * fstream :=
  let '(d, sc) := pop_dir s in
  let k := match d with Full => n | Short k => Nat.min k n end in
  (firstn k (rest s), {| rest := skipn k (rest s); sched := sc |}).
Fixpoint upto_lf (l:bytes) : bytes * bytes :=
  match l with
  | [] => ([], [])
  | b::r => if Byte.eqb b x0a then ([b], r) else let '(a,c) := upto_lf r in (b::a, c)
  end.
Definition f_readline (s:fstream) : bytes * fstream :=
  let '(d, sc) := pop_dir s in
  let '(ln, rs) := upto_lf (rest s) in
  match d with
  | Full => (ln, {| rest := rs; sched := sc |})
  | Short k => let k' := Nat.min k (List.length ln) in
               (firstn k' (rest s), {| rest := skipn k' (rest s); sched := sc |})
  end.
Definition file_ops : stream_ops fstream := {| s_read := f_read; s_readline := f_readline |}.
Definition file_stream (b:bytes) : fstream := {| rest := b; sched := [] |}.

(* ---------- reader ---------- *)
Record cfg := { validate : Z; quitonerror : Z; labelmsm : Z; parsed : bool }.

Inductive rd_result (M:Type) :=
  | RYield (raw:bytes) (m:option M)
  | REnd
  | RRaise (e:liberr)
  | RForeign (k:pyexc)
  | RUnmodelled (w:string)
  | ROutOfFuel.
Arguments RYield {M}. Arguments REnd {M}. Arguments RRaise {M}. Arguments RForeign {M}.
Arguments RUnmodelled {M}. Arguments ROutOfFuel {M}.

(* internal exceptions of one loop pass *)
Inductive exc := ELib (e:liberr) | EEOF | EForeign (k:pyexc) | EUnm (w:string).
Inductive res (A:Type) := ROk (a:A) | RExc (e:exc).
Arguments ROk {A}. Arguments RExc {A}.

Section Reader.
Context {St M : Type}.
Variable ops : stream_ops St.
Variable construct : bytes -> Z -> outcome M.     (* RTCMMessage(payload=p, labelmsm=l) *)
Variable nmea_hdr : list bytes.
Variable ubx_hdr : bytes.
Variable valcksum err_raise err_log : Z.

Definition bind {A B} (x: res A * St) (f: A -> St -> res B * St) : res B * St :=
  match x with (ROk a, s) => f a s | (RExc e, s) => (RExc e, s) end.

(* _read_bytes *)
Definition read_bytes (n:nat) (s:St) : res bytes * St :=
  let '(d, s') := s_read ops n s in
  if Nat.eqb (List.length d) 0 && negb (Nat.eqb n 0) then (RExc EEOF, s')
  else if Nat.ltb 0 (List.length d) && Nat.ltb (List.length d) n then (RExc (ELib EStream), s')
  else (ROk d, s').

(* _read_line *)
Definition read_line (s:St) : res bytes * St :=
  let '(d, s') := s_readline ops s in
  match rev d with
  | [] => (RExc EEOF, s')
  | l::_ => if Byte.eqb l x0a then (ROk d, s') else (RExc (ELib EStream), s')
  end.

(* RTCMReader.parse (static) *)
Definition parse (vald lbl:Z) (m:bytes) : outcome M :=
  if negb (Z.eqb (Z.land vald valcksum) 0) && negb (N.eqb (calc_crc24q m) 0) then Lib EParse
  else construct (firstn (List.length m - 6) (skipn 3 m)) lbl.       (* message[3:-3] *)

Definition of_outcome {A} (o:outcome A) : res A :=
  match o with Ok a => ROk a | Lib e => RExc (ELib e) | Foreign k => RExc (EForeign k) | Unmodelled w => RExc (EUnm w) end.

Definition beq (a b:bytes) : bool := if list_eq_dec Byte.byte_eq_dec a b then true else false.

(* _parse_rtcm3 *)
Definition parse_rtcm3 (c:cfg) (hdr:bytes) (s:St) : res (bytes * option M) * St :=
  bind (read_bytes 1 s) (fun hdr3 s =>
  let size := N.to_nat (N.lor (N.shiftl (bN (nth 1 hdr x00)) 8) (bN (nth 0 hdr3 x00))) in
  bind (read_bytes size s) (fun payload s =>
  bind (read_bytes 3 s) (fun crc s =>
  let raw := hdr ++ hdr3 ++ payload ++ crc in
  if parsed c then
    match of_outcome (parse (validate c) (labelmsm c) raw) with
    | ROk m => (ROk (raw, Some m), s)
    | RExc e => (RExc e, s)
    end
  else (ROk (raw, None), s)))).

(* _parse_ubx *)
Definition parse_ubx (s:St) : res unit * St :=
  bind (read_bytes 4 s) (fun byten s =>
  let leni := N.to_nat (bN (nth 2 byten x00) + 256 * bN (nth 3 byten x00)) in
  bind (read_bytes (leni + 2) s) (fun _ s => (ROk tt, s))).

(* _parse_nmea *)
Definition parse_nmea (s:St) : res unit * St :=
  bind (read_line s) (fun _ s => (ROk tt, s)).

Definition is_sync (b:bytes) : bool := beq b [xb5] || beq b [x24] || beq b [xd3].

(* one pass of the while body; None = `continue` *)
Definition attempt (c:cfg) (s:St) : res (option (bytes * option M)) * St :=
  bind (read_bytes 1 s) (fun byte1 s =>
  if negb (is_sync byte1) then (ROk None, s) else
  bind (read_bytes 1 s) (fun byte2 s =>
  let bytehdr := byte1 ++ byte2 in
  if beq bytehdr ubx_hdr then bind (parse_ubx s) (fun _ s => (ROk None, s))
  else if existsb (beq bytehdr) nmea_hdr then bind (parse_nmea s) (fun _ s => (ROk None, s))
  else if beq byte1 [xd3] && N.eqb (N.land (bN (nth 0 byte2 x00)) 252) 0
       then bind (parse_rtcm3 c bytehdr s) (fun r s => (ROk (Some r), s))
  else (RExc (ELib EParse), s))).

(* RTCMReader.read(): handler invocations (log mode), result, stream afterwards *)
Fixpoint read (c:cfg) (fuel:nat) (s:St) : list liberr * rd_result M * St :=
  match fuel with
  | O => ([], ROutOfFuel, s)
  | S f =>
      match attempt c s with
      | (ROk (Some (raw, m)), s') => ([], RYield raw m, s')
      | (ROk None, s') => read c f s'
      | (RExc EEOF, s') => ([], REnd, s')
      | (RExc (ELib e), s') =>
          if Z.eqb (quitonerror c) 0 then read c f s'
          else if Z.eqb (quitonerror c) err_raise then ([], RRaise e, s')
          else if Z.eqb (quitonerror c) err_log then
            let '(h, r, s'') := read c f s' in (e :: h, r, s'')
          else read c f s'
      | (RExc (EForeign k), s') => ([], RForeign k, s')
      | (RExc (EUnm w), s') => ([], RUnmodelled w, s')
      end
  end.

(* k successive read() calls on the same reader *)
Fixpoint run_reads (c:cfg) (fuel:nat) (k:nat) (s:St) : list (list liberr * rd_result M) * St :=
  match k with
  | O => ([], s)
  | S k' => let '(h, r, s') := read c fuel s in
            let '(evs, s'') := run_reads c fuel k' s' in ((h, r) :: evs, s'')
  end.

(* for x in reader: stops at the first (None, None); an exception ends the loop too *)
Fixpoint iterate (c:cfg) (fuel:nat) (n:nat) (s:St) : list (list liberr * rd_result M) * St :=
  match n with
  | O => ([], s)
  | S n' =>
      let '(h, r, s') := read c fuel s in
      match r with
      | RYield _ _ => let '(evs, s'') := iterate c fuel n' s' in ((h, r) :: evs, s'')
      | _ => ([(h, r)], s')
      end
  end.

End Reader.
