(* Mirror of rtcmhelpers.calc_crc24q / crc2bytes / len2bytes.  No proofs. *)
From Coq Require Import NArith List.
From Coq.Strings Require Import Byte.
From PyRtcm Require Import Base.Bytes.
Import ListNotations.
Open Scope N_scope.

Definition poly : N := 0x1864CFB.

(* crc <<= 1 ; if crc & 0x1000000: crc ^= poly *)
Definition bitstep (crc:N) : N :=
  let c := N.shiftl crc 1 in
  if N.eqb (N.land c 0x1000000) 0 then c else N.lxor c poly.

(* crc ^= octet << 16 ; for _ in range(8): ... *)
Definition octet_step (crc:N) (o:byte) : N :=
  N.iter 8 bitstep (N.lxor crc (N.shiftl (bN o) 16)).

Definition crc_reg (m:bytes) : N := fold_left octet_step m 0.
Definition calc_crc24q (m:bytes) : N := N.land (crc_reg m) 0xFFFFFF.

(* int.to_bytes(3,"big") : None = OverflowError *)
Definition crc2bytes (m:bytes) : option bytes := to_bytes 3 (calc_crc24q m).
Definition len2bytes (p:bytes) : option bytes := to_bytes 2 (N.of_nat (length p)).
