(* Mirror of socketwrapper.SocketWrapper: _recv, read, readline, dechunk (as repaired, twice).  No proofs. *)
From Coq Require Import NArith ZArith List Bool.
From Coq.Strings Require Import Byte.
From PyRtcm Require Import Base.Bytes Model.Types Model.Reader.
Import ListNotations.

(* what the socket does at each recv() call; an exhausted list means the peer has closed (recv -> b"") *)
Inductive recv_ev := Data (d:bytes) | Fail.      (* Fail = OSError / TimeoutError *)

(* ---------- chunked transfer decoding ---------- *)
Definition ends_crlf (l:bytes) : bool :=
  match rev l with a::b::_ => Byte.eqb a x0a && Byte.eqb b x0d | _ => false end.
Definition ends_lf (l:bytes) : bool :=
  match rev l with a::_ => Byte.eqb a x0a | _ => false end.
(* bytes.strip(): ASCII whitespace *)
Definition is_ws (b:byte) : bool := existsb (Byte.eqb b) [x20; x09; x0a; x0d; x0b; x0c].
Fixpoint lstrip (l:bytes) : bytes := match l with b::r => if is_ws b then lstrip r else l | [] => [] end.
Definition strip (l:bytes) : bytes := rev (lstrip (rev (lstrip l))).

Definition hexdigit (b:byte) : option N :=
  let n := bN b in
  if (48 <=? n)%N && (n <=? 57)%N then Some (n-48)%N else
  if (65 <=? n)%N && (n <=? 70)%N then Some (n-55)%N else
  if (97 <=? n)%N && (n <=? 102)%N then Some (n-87)%N else None.
Fixpoint hexval (acc:N) (l:bytes) : option N :=
  match l with [] => Some acc | b::r => match hexdigit b with Some d => hexval (acc*16+d)%N r | None => None end end.
(* characters int(x,16) may additionally accept in some positions: sign, underscore, 0x prefix, inner blanks *)
Definition maybe_int_char (b:byte) : bool :=
  match hexdigit b with Some _ => true | None => existsb (Byte.eqb b) [x2b; x2d; x5f; x78; x58] || is_ws b end.
Inductive int16_res := IVal (n:N) | IValueError | IUnmodelled.
Definition int16 (l:bytes) : int16_res :=
  match l with
  | [] => IValueError
  | _ => match hexval 0 l with
         | Some n => IVal n
         | None => if forallb maybe_int_char l then IUnmodelled else IValueError
         end
  end.

Section Sock.
Variable chunked : bool.                (* self._encoding & ENCODE_CHUNKED *)
Variable dz : bytes -> bytes.           (* per-chunk decompression incl. its error fallback (zlib is an oracle) *)

Inductive dres := DOk (chunks partial:bytes) | DUnm.

(* dechunk(segment): fuel = length of segment + 1; seglen = len(segment), the cap of the chunk read
   (chunk = instream.read(min(chunk_length, len(segment)))) *)
Fixpoint dechunk_loop (seglen:nat) (fuel:nat) (ins:bytes) (chunks:bytes) : dres :=
  match fuel with
  | O => DUnm
  | S f =>
      let '(lb, r1) := upto_lf ins in
      if negb (ends_crlf lb) then DOk chunks lb else
      match int16 (strip lb) with
      | IValueError => DOk chunks []
      | IUnmodelled => DUnm
      | IVal 0%N => DOk chunks []
      | IVal n =>
          let k := N.to_nat (N.min n (N.of_nat seglen)) in
          let chunk := firstn k r1 in
          let '(term, r3) := upto_lf (skipn k r1) in
          if negb (N.eqb (N.of_nat (length chunk)) n) || negb (ends_lf term) then DOk chunks (lb ++ chunk ++ term)
          else dechunk_loop seglen f r3 (chunks ++ dz chunk)
      end
  end.
Definition dechunk (segment:bytes) : dres := dechunk_loop (length segment) (S (length segment)) segment [].

Record sock := { buf : bytes; partial : bytes; evs : list recv_ev; unm : bool }.

(* _recv : success flag *)
Definition recv (s:sock) : bool * sock :=
  match evs s with
  | [] => (false, s)
  | Fail :: r => (false, {| buf := buf s; partial := partial s; evs := r; unm := unm s |})
  | Data [] :: r => (false, {| buf := buf s; partial := partial s; evs := r; unm := unm s |})
  | Data d :: r =>
      if chunked then
        match dechunk (partial s ++ d) with
        | DOk c p => (true, {| buf := buf s ++ c; partial := p; evs := r; unm := unm s |})
        | DUnm => (false, {| buf := buf s; partial := partial s; evs := r; unm := true |})
        end
      else (true, {| buf := buf s ++ d; partial := partial s; evs := r; unm := unm s |})
  end.

(* SocketWrapper(sock, ...) : the constructor performs one _recv *)
Definition sock_init (e:list recv_ev) : sock :=
  snd (recv {| buf := []; partial := []; evs := e; unm := false |}).

(* read(num): while len(buffer) < num: if not _recv(): return b"" *)
Fixpoint fill (fuel:nat) (n:nat) (s:sock) : bool * sock :=
  if Nat.leb n (length (buf s)) then (true, s) else
  match fuel with
  | O => (false, s)
  | S f => let '(ok, s') := recv s in if ok then fill f n s' else (false, s')
  end.
Definition sock_read (n:nat) (s:sock) : bytes * sock :=
  let '(ok, s') := fill (S (length (evs s))) n s in
  if ok then (firstn n (buf s'), {| buf := skipn n (buf s'); partial := partial s'; evs := evs s'; unm := unm s' |})
  else ([], s').

(* readline(): byte-wise until CRLF or an empty read *)
Fixpoint readline_loop (fuel:nat) (line:bytes) (s:sock) : bytes * sock :=
  match fuel with
  | O => (line, {| buf := buf s; partial := partial s; evs := evs s; unm := true |})   (* fuel: only reachable when dz expands data *)
  | S f =>
      let '(d, s') := sock_read 1 s in
      match d with
      | [b] => let line' := line ++ [b] in
               if ends_crlf line' then (line', s') else readline_loop f line' s'
      | _ => (line, s')
      end
  end.
Fixpoint data_len (e:list recv_ev) : nat :=
  match e with [] => 0 | Data d :: r => length d + data_len r | Fail :: r => data_len r end.
Definition sock_readline (s:sock) : bytes * sock :=
  readline_loop (S (length (buf s) + length (partial s) + data_len (evs s))) [] s.

Definition sock_ops : stream_ops sock := {| s_read := sock_read; s_readline := sock_readline |}.
End Sock.
