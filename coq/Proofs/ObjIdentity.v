(* C15: the identity is the transmitted message number.

   identity_bits / msgnum_arith / subtype_arith / msgnum_bits / subtype_bits / identity_ignores_rest :
     the identity string is the decimal rendering of payload bits 0..11, and for 4076 it is suffixed with
     "_" and the three-digit rendering of payload bits 15..22; nothing else of the payload matters.
   Table obligations, as boolean checkers run by vm_compute on the regenerated tables, with soundness lemmas:
     routing_ok      the string-range dispatch of _get_dict reaches every table entry; tables are disjoint
     ismsm_ok        ismsm is true on every implemented MSM identity and false outside 1070..1229
     first_field_ok  every layout starts with DF002 (UINT 12, unscaled), IGS layouts continue IDF001 (3 bits),
                     IDF002 (UINT 8, unscaled), and nothing later writes those names
   and the consequences  df002_is_msgnum, idf002_is_subtype  (decoded attribute = number in the identity). *)
From Coq Require Import NArith ZArith List String Ascii Bool Lia.
From Coq.Strings Require Import Byte.
From PyRtcm Require Import Base.Bytes Base.Dec Model.Types Model.Crc Model.Message.
From PyRtcm Require Import Spec.FieldGrammar.
From PyRtcm Require Import Proofs.DecodeBits Proofs.DecodeWalk Proofs.DecodeExtend Proofs.DecodeSingle.
Import ListNotations.
Open Scope list_scope.

(* ================= 7. identity = the first 12 bits (and bits 15..22 for 4076) ================= *)
Lemma lor_shiftl_add (a b k:N) : (b < 2^k)%N -> N.lor (N.shiftl a k) b = (a * 2^k + b)%N.
Proof.
  intro Hb.
  assert (L : N.land (N.shiftl a k) b = 0%N).
  { apply N.bits_inj_0. intro i. rewrite N.land_spec.
    destruct (N.lt_ge_cases i k) as [Hlt|Hge].
    - now rewrite N.shiftl_spec_low.
    - destruct (N.eq_dec b 0) as [->|NZ]; [now rewrite N.bits_0, andb_false_r|].
      rewrite (N.bits_above_log2 b i), andb_false_r; [reflexivity|].
      apply N.lt_le_trans with k; [|exact Hge]. apply N.log2_lt_pow2; [lia|exact Hb]. }
  rewrite <- N.lxor_lor by exact L. rewrite <- N.add_nocarry_lxor by exact L.
  rewrite N.shiftl_mul_pow2. reflexivity.
Qed.

Theorem msgnum_arith : forall b0 b1, msgnum b0 b1 = (bN b0 * 16 + bN b1 / 16)%N.
Proof.
  intros b0 b1. unfold msgnum. rewrite N.shiftr_div_pow2. change (2^4)%N with 16%N.
  rewrite lor_shiftl_add; [reflexivity|].
  change (2^4)%N with 16%N. apply N.div_lt_upper_bound; [discriminate|]. pose proof (bN_lt b1). lia.
Qed.

Theorem subtype_arith : forall b1 b2, subtype b1 b2 = ((bN b1 mod 2) * 128 + bN b2 / 2)%N.
Proof.
  intros b1 b2. unfold subtype. rewrite N.shiftr_div_pow2. change (2^1)%N with 2%N.
  change 1%N with (N.ones 1) at 1. rewrite N.land_ones. change (2^1)%N with 2%N.
  rewrite lor_shiftl_add; [reflexivity|].
  change (2^7)%N with 128%N. apply N.div_lt_upper_bound; [discriminate|]. pose proof (bN_lt b2). lia.
Qed.

Theorem msgnum_lt : forall b0 b1, (msgnum b0 b1 < 4096)%N.
Proof.
  intros b0 b1. rewrite msgnum_arith. pose proof (bN_lt b0).
  assert (bN b1 / 16 < 16)%N by (apply N.div_lt_upper_bound; [discriminate|]; pose proof (bN_lt b1); lia).
  lia.
Qed.

Theorem subtype_lt : forall b1 b2, (subtype b1 b2 < 256)%N.
Proof.
  intros b1 b2. rewrite subtype_arith.
  assert (bN b1 mod 2 < 2)%N by (apply N.mod_lt; discriminate).
  assert (bN b2 / 2 < 128)%N by (apply N.div_lt_upper_bound; [discriminate|]; pose proof (bN_lt b2); lia).
  lia.
Qed.

(* every 12-bit number / 8-bit sub-type is the number of some header bytes *)
Theorem msgnum_surj : forall n, (n < 4096)%N -> exists b0 b1, msgnum b0 b1 = n.
Proof.
  intros n H. exists (byte_of_N (n / 16)), (byte_of_N ((n mod 16) * 16)).
  rewrite msgnum_arith.
  assert (n / 16 < 256)%N by (apply N.div_lt_upper_bound; [discriminate|lia]).
  assert (n mod 16 < 16)%N by (apply N.mod_lt; discriminate).
  rewrite !bN_byte_of by lia. rewrite N.div_mul by discriminate.
  pose proof (N.div_mod n 16). lia.
Qed.

Theorem subtype_surj : forall s, (s < 256)%N -> forall b1, exists b1' b2, subtype b1' b2 = s /\ (bN b1' / 16 = bN b1 / 16)%N.
Proof.
  intros s H b1.
  exists (byte_of_N ((bN b1 / 16) * 16 + s / 128)), (byte_of_N ((s mod 128) * 2)).
  pose proof (bN_lt b1) as B1.
  assert (D : (bN b1 / 16 < 16)%N) by (apply N.div_lt_upper_bound; [discriminate|lia]).
  assert (S1 : (s / 128 < 2)%N) by (apply N.div_lt_upper_bound; [discriminate|lia]).
  assert (S2 : (s mod 128 < 128)%N) by (apply N.mod_lt; discriminate).
  rewrite subtype_arith. rewrite !bN_byte_of by lia. split.
  - rewrite N.div_mul by discriminate.
    replace (bN b1 / 16 * 16 + s / 128)%N with (s / 128 + (bN b1 / 16 * 8) * 2)%N by lia.
    rewrite N.mod_add by discriminate. rewrite N.mod_small by exact S1.
    pose proof (N.div_mod s 128). lia.
  - rewrite N.add_comm, N.div_add by discriminate. rewrite (N.div_small (s / 128)) by lia. reflexivity.
Qed.

Theorem identity_bits : forall b0 b1 rest,
  identity (b0 :: b1 :: rest) =
  if (msgnum b0 b1 =? 4076)%N
  then match rest with
       | b2 :: _ => Ok (str_of_N 4076 ++ "_" ++ ddd (subtype b1 b2))%string
       | [] => Foreign XIndex
       end
  else Ok (str_of_N (msgnum b0 b1)).
Proof.
  intros b0 b1 rest. unfold identity. cbv zeta.
  destruct (msgnum b0 b1 =? 4076)%N eqn:E; [|reflexivity].
  apply N.eqb_eq in E. rewrite E. reflexivity.
Qed.

Theorem identity_short : forall p, (List.length p < 2)%nat -> identity p = Foreign XIndex.
Proof. intros [|b0 [|b1 r]] H; cbn in H; try reflexivity. lia. Qed.

Theorem identity_ignores_rest : forall b0 b1 b2 r r',
  identity (b0 :: b1 :: b2 :: r) = identity (b0 :: b1 :: b2 :: r').
Proof. intros. rewrite !identity_bits. reflexivity. Qed.

Theorem identity_ignores_rest_plain : forall b0 b1 r r',
  msgnum b0 b1 <> 4076%N -> identity (b0 :: b1 :: r) = identity (b0 :: b1 :: r').
Proof.
  intros b0 b1 r r' H. rewrite !identity_bits. apply N.eqb_neq in H. rewrite H. reflexivity.
Qed.

(* ---- the same numbers as bit slices of the payload ---- *)
Lemma byte_bits_length b : List.length (byte_bits b) = 8%nat.
Proof. apply bits_of_length. Qed.

Lemma uint_byte_bits b : uint (byte_bits b) = bN b.
Proof. destruct b; vm_compute; reflexivity. Qed.
Lemma uint_byte_hi4 b : uint (firstn 4 (byte_bits b)) = (bN b / 16)%N.
Proof. destruct b; vm_compute; reflexivity. Qed.
Lemma uint_byte_hi7 b : uint (firstn 7 (byte_bits b)) = (bN b / 2)%N.
Proof. destruct b; vm_compute; reflexivity. Qed.
Lemma uint_byte_lo1 b : uint (skipn 7 (byte_bits b)) = (bN b mod 2)%N.
Proof. destruct b; vm_compute; reflexivity. Qed.

Lemma bits_cons b r : bits (b :: r) = byte_bits b ++ bits r.
Proof. reflexivity. Qed.

Lemma firstn_short_app {A} n (a b:list A) : (n <= List.length a)%nat -> firstn n (a ++ b) = firstn n a.
Proof.
  intro H. rewrite firstn_app. replace (n - List.length a)%nat with 0%nat by lia.
  cbn [firstn]. apply app_nil_r.
Qed.

Theorem msgnum_bits : forall b0 b1 rest, msgnum b0 b1 = uint (firstn 12 (bits (b0 :: b1 :: rest))).
Proof.
  intros b0 b1 rest. rewrite !bits_cons.
  change 12%nat with (8 + 4)%nat. rewrite <- (byte_bits_length b0) at 1. rewrite firstn_app_2.
  rewrite firstn_short_app by (rewrite byte_bits_length; lia).
  rewrite uint_app, uint_byte_bits, uint_byte_hi4, firstn_length, byte_bits_length.
  rewrite msgnum_arith. reflexivity.
Qed.

Theorem subtype_bits : forall b0 b1 b2 rest,
  subtype b1 b2 = uint (firstn 8 (skipn 15 (bits (b0 :: b1 :: b2 :: rest)))).
Proof.
  intros b0 b1 b2 rest. rewrite !bits_cons.
  rewrite skipn_app, byte_bits_length. rewrite (skipn_all2 (byte_bits b0)) by (rewrite byte_bits_length; lia).
  cbn [app]. change (15 - 8)%nat with 7%nat.
  rewrite skipn_app, byte_bits_length. change (7 - 8)%nat with 0%nat. rewrite skipn_O.
  assert (L1 : List.length (skipn 7 (byte_bits b1)) = 1%nat) by (rewrite skipn_length, byte_bits_length; reflexivity).
  change 8%nat with (1 + 7)%nat. rewrite <- L1 at 1. rewrite firstn_app_2.
  rewrite firstn_short_app by (rewrite byte_bits_length; lia).
  rewrite uint_app, uint_byte_lo1, uint_byte_hi7, firstn_length, byte_bits_length.
  rewrite subtype_arith. reflexivity.
Qed.

Corollary msgnum_slice : forall b0 b1 rest,
  unsigned (slice (b0 :: b1 :: rest) 0 12) = Z.of_N (msgnum b0 b1).
Proof. intros. unfold unsigned, slice. rewrite (msgnum_bits b0 b1 rest). reflexivity. Qed.

Corollary subtype_slice : forall b0 b1 b2 rest,
  unsigned (slice (b0 :: b1 :: b2 :: rest) 15 8) = Z.of_N (subtype b1 b2).
Proof. intros. unfold unsigned, slice. rewrite (subtype_bits b0 b1 b2 rest). reflexivity. Qed.

(* ================= 9. table obligations ================= *)
Definition keys {A} (l:list (string*A)) : list string := map fst l.

Fixpoint nodupb (l:list string) : bool :=
  match l with [] => true | x :: r => negb (existsb (String.eqb x) r) && nodupb r end.

Lemma existsb_eqb_in x l : existsb (String.eqb x) l = true <-> In x l.
Proof.
  rewrite existsb_exists. split.
  - intros [y [I E]]. apply String.eqb_eq in E. subst y. exact I.
  - intro I. exists x. split; [exact I|apply String.eqb_refl].
Qed.

Lemma assoc_some_in {A} k (l:list (string*A)) v : assoc k l = Some v -> In (k, v) l.
Proof.
  induction l as [|[k' v'] r IH]; cbn [assoc]; [discriminate|].
  destruct (String.eqb k' k) eqn:E.
  - apply String.eqb_eq in E. subst k'. intro H. injection H as ->. left. reflexivity.
  - intro H. right. apply IH, H.
Qed.

Lemma in_keys {A} k v (l:list (string*A)) : In (k, v) l -> In k (keys l).
Proof. intro H. unfold keys. change k with (fst (k, v)). apply in_map, H. Qed.

Lemma nodupb_assoc {A} (l:list (string*A)) k v : nodupb (keys l) = true -> In (k, v) l -> assoc k l = Some v.
Proof.
  induction l as [|[k' v'] r IH]; intros N I; [destruct I|].
  cbn [keys map fst nodupb] in N. apply andb_true_iff in N. destruct N as [N1 N2].
  apply negb_true_iff in N1. cbn [assoc]. destruct I as [I|I].
  - injection I as -> ->. rewrite String.eqb_refl. reflexivity.
  - destruct (String.eqb k' k) eqn:E.
    + apply String.eqb_eq in E. subst k'. apply in_keys in I. apply existsb_eqb_in in I.
      unfold keys in I. rewrite I in N1. discriminate N1.
    + apply IH; assumption.
Qed.

(* ---- routing ---- *)
Definition in_msm_range (k:string) : bool := String.leb "1070" k && String.leb k "1229".
Definition is_4076 (k:string) : bool := String.eqb (substring 0 4 k) "4076".

Lemma get_dict_class T k :
  get_dict T k = if in_msm_range k then assoc k (t_msm T) else if is_4076 k then assoc k (t_igs T) else assoc k (t_get T).
Proof. reflexivity. Qed.

Definition routing_ok (T:tables) : bool :=
  forallb in_msm_range (keys (t_msm T)) &&
  forallb (fun k => negb (in_msm_range k) && is_4076 k) (keys (t_igs T)) &&
  forallb (fun k => negb (in_msm_range k) && negb (is_4076 k)) (keys (t_get T)) &&
  nodupb (keys (t_msm T)) && nodupb (keys (t_igs T)) && nodupb (keys (t_get T)).

Theorem routing_sound : forall T, routing_ok T = true ->
  (forall k b, In (k, b) (t_get T) -> get_dict T k = Some b) /\
  (forall k b, In (k, b) (t_msm T) -> get_dict T k = Some b) /\
  (forall k b, In (k, b) (t_igs T) -> get_dict T k = Some b) /\
  (forall k, In k (keys (t_get T)) -> ~ In k (keys (t_msm T)) /\ ~ In k (keys (t_igs T))) /\
  (forall k, In k (keys (t_msm T)) -> ~ In k (keys (t_igs T))).
Proof.
  intros T H. unfold routing_ok in H.
  repeat (apply andb_true_iff in H; let X := fresh "N" in destruct H as [H X]).
  rename H into Cm, N3 into Ci, N2 into Cg, N1 into Nm, N0 into Ni, N into Ng.
  rewrite forallb_forall in Cm, Ci, Cg.
  assert (Gi : forall k, In k (keys (t_igs T)) -> in_msm_range k = false /\ is_4076 k = true).
  { intros k I. specialize (Ci k I). apply andb_true_iff in Ci. destruct Ci as [A B].
    apply negb_true_iff in A. auto. }
  assert (Gg : forall k, In k (keys (t_get T)) -> in_msm_range k = false /\ is_4076 k = false).
  { intros k I. specialize (Cg k I). apply andb_true_iff in Cg. destruct Cg as [A B].
    apply negb_true_iff in A, B. auto. }
  repeat split.
  - intros k b I. rewrite get_dict_class. destruct (Gg k (in_keys _ _ _ I)) as [-> ->].
    apply nodupb_assoc; assumption.
  - intros k b I. rewrite get_dict_class. rewrite (Cm k (in_keys _ _ _ I)). apply nodupb_assoc; assumption.
  - intros k b I. rewrite get_dict_class. destruct (Gi k (in_keys _ _ _ I)) as [-> ->].
    apply nodupb_assoc; assumption.
  - intro I2. destruct (Gg k H) as [A _]. rewrite (Cm k I2) in A. discriminate A.
  - intro I2. destruct (Gg k H) as [_ A]. destruct (Gi k I2) as [_ B]. congruence.
  - intros k I I2. destruct (Gi k I2) as [A _]. rewrite (Cm k I) in A. discriminate A.
Qed.

(* conversely (no obligation): whatever the dispatcher returns is an entry of one of the tables under that key *)
Theorem get_dict_some_in : forall T k b, get_dict T k = Some b ->
  In (k, b) (t_get T) \/ In (k, b) (t_msm T) \/ In (k, b) (t_igs T).
Proof.
  intros T k b. rewrite get_dict_class.
  destruct (in_msm_range k); [|destruct (is_4076 k)]; intro H; apply assoc_some_in in H; auto.
Qed.

Theorem get_dict_none_iff : forall T, routing_ok T = true -> forall k,
  get_dict T k = None <-> ~ In k (keys (t_get T) ++ keys (t_msm T) ++ keys (t_igs T)).
Proof.
  intros T R k. destruct (routing_sound T R) as (Sg & Sm & Si & _). split.
  - intros E I. apply in_app_or in I. destruct I as [I|I]; [|apply in_app_or in I; destruct I as [I|I]];
      unfold keys in I; apply in_map_iff in I; destruct I as [[k' b] [<- I]]; cbn [fst] in E.
    + rewrite (Sg _ _ I) in E. discriminate E.
    + rewrite (Sm _ _ I) in E. discriminate E.
    + rewrite (Si _ _ I) in E. discriminate E.
  - intro NI. destruct (get_dict T k) as [b|] eqn:E; [|reflexivity]. exfalso. apply NI.
    apply get_dict_some_in in E. rewrite !in_app_iff.
    destruct E as [E|[E|E]]; apply in_keys in E; auto.
Qed.

(* ---- ismsm ---- *)
Definition nrange (k:nat) : list N := map N.of_nat (seq 0 k).

Lemma in_nrange k n : (n < N.of_nat k)%N -> In n (nrange k).
Proof.
  intro H. unfold nrange. apply in_map_iff. exists (N.to_nat n). split; [apply N2Nat.id|].
  apply in_seq. lia.
Qed.

Definition msm_number (n:N) : bool := (1070 <=? n)%N && (n <=? 1229)%N.

Definition ismsm_ok (T:tables) (implemented:list string) : bool :=
  forallb (fun k => existsb (String.eqb k) (keys (t_msm T))) implemented &&
  forallb (ismsm_of T) (keys (t_msm T)) &&
  forallb (fun n => msm_number n || negb (ismsm_of T (str_of_N n))) (nrange 4096) &&
  forallb (fun s => negb (ismsm_of T ("4076_" ++ ddd s)%string)) (nrange 256).

Theorem ismsm_sound : forall T implemented, ismsm_ok T implemented = true ->
  (forall k, In k implemented -> In k (keys (t_msm T)) /\ ismsm_of T k = true) /\
  (forall k, In k (keys (t_msm T)) -> ismsm_of T k = true) /\
  (forall n, (n < 4096)%N -> msm_number n = false -> ismsm_of T (str_of_N n) = false) /\
  (forall s, (s < 256)%N -> ismsm_of T ("4076_" ++ ddd s)%string = false).
Proof.
  intros T impl H. unfold ismsm_ok in H.
  repeat (apply andb_true_iff in H; let X := fresh "C" in destruct H as [H X]).
  rewrite forallb_forall in H, C, C0, C1.
  assert (K : forall k, In k (keys (t_msm T)) -> ismsm_of T k = true) by exact C1.
  repeat split.
  - apply existsb_eqb_in. apply H. assumption.
  - apply K. apply existsb_eqb_in. apply H. assumption.
  - exact K.
  - intros n L M. specialize (C0 n (in_nrange 4096 n L)). rewrite M in C0. cbn [orb] in C0.
    apply negb_true_iff in C0. exact C0.
  - intros s L. specialize (C s (in_nrange 256 s L)). apply negb_true_iff in C. exact C.
Qed.

(* on message objects: outside 1070..1229 the MSM flag is false, whatever the rest of the payload *)
Theorem ismsm_identity : forall T implemented, ismsm_ok T implemented = true ->
  forall b0 b1 rest i, identity (b0 :: b1 :: rest) = Ok i -> msm_number (msgnum b0 b1) = false ->
  ismsm_of T i = false.
Proof.
  intros T impl H b0 b1 rest i I M. destruct (ismsm_sound T impl H) as (_ & _ & S1 & S2).
  rewrite identity_bits in I. destruct (msgnum b0 b1 =? 4076)%N.
  - destruct rest as [|b2 r]; [discriminate I|]. apply ok_inj in I. subst i.
    change (str_of_N 4076 ++ "_" ++ ddd (subtype b1 b2))%string with ("4076_" ++ ddd (subtype b1 b2))%string.
    apply S2, subtype_lt.
  - apply ok_inj in I. subst i. apply S1; [apply msgnum_lt|exact M].
Qed.

(* ---- the first fields of every layout ---- *)
Fixpoint item_avoids (k:string) (lbl:string) (it:item) {struct it} : bool :=
  match it with
  | IField _ => negb (String.eqb lbl k)
  | IBad _ => true
  | IGroup _ b => body_avoids k b
  | IOpt _ _ b => body_avoids k b
  end
with body_avoids (k:string) (b:body) {struct b} : bool :=
  match b with
  | BItems l =>
      (fix go (l:list (string*item)) : bool :=
         match l with [] => true | (lbl, it) :: r => item_avoids k lbl it && go r end) l
  | BNotDict _ => true
  end.

Definition items_avoid (k:string) : list (string*item) -> bool :=
  fix go (l:list (string*item)) : bool :=
    match l with [] => true | (lbl, it) :: r => item_avoids k lbl it && go r end.

Lemma body_avoids_items k l : body_avoids k (BItems l) = items_avoid k l.
Proof. reflexivity. Qed.
Lemma items_avoid_cons k lbl it r : items_avoid k ((lbl, it) :: r) = item_avoids k lbl it && items_avoid k r.
Proof. reflexivity. Qed.

Definition unit_uint (T:tables) (name:string) (w:Z) : bool :=
  match find_field T name with
  | Some fd => match df_ty fd with TUINT => true | _ => false end && (df_bits fd =? w)%Z && res_is_unit (df_res fd)
  | None => false
  end.

Definition specials_avoid (T:tables) (k:string) : bool :=
  negb (String.eqb (t_nsat T) k) && negb (String.eqb (t_nsig T) k) && negb (String.eqb (t_ncell T) k) &&
  negb (String.eqb (t_nharmc T) k) && negb (String.eqb (t_nharms T) k).

Definition layout_df002 (b:body) : bool :=
  match b with
  | BItems ((l1, IField _) :: r) => String.eqb l1 "DF002" && items_avoid "DF002" r
  | _ => false
  end.

Definition layout_igs (b:body) : bool :=
  match b with
  | BItems ((l1, IField _) :: (l2, IField _) :: (l3, IField _) :: r) =>
      String.eqb l1 "DF002" && String.eqb l2 "IDF001" && String.eqb l3 "IDF002" && items_avoid "IDF002" r
  | _ => false
  end.

Definition first_field_ok (T:tables) : bool :=
  unit_uint T "DF002" 12 && specials_avoid T "DF002" &&
  forallb (fun kb => layout_df002 (snd kb)) (t_get T ++ t_msm T ++ t_igs T) &&
  unit_uint T "IDF001" 3 && unit_uint T "IDF002" 8 && specials_avoid T "IDF002" &&
  forallb (fun kb => layout_igs (snd kb)) (t_igs T).

Lemma unit_uint_spec T name w : unit_uint T name w = true ->
  exists fd, find_field T name = Some fd /\ df_ty fd = TUINT /\ df_bits fd = w /\ res_is_unit (df_res fd) = true.
Proof.
  unfold unit_uint. destruct (find_field T name) as [fd|]; [|discriminate]. intro H.
  apply andb_true_iff in H. destruct H as [H U]. apply andb_true_iff in H. destruct H as [Ty W].
  exists fd. split; [reflexivity|]. split; [destruct (df_ty fd); try discriminate Ty; reflexivity|].
  split; [apply Z.eqb_eq, W|exact U].
Qed.

(* table-level meaning of the checker *)
Theorem first_field_sound : forall T, first_field_ok T = true ->
  (exists fd, find_field T "DF002" = Some fd /\ df_ty fd = TUINT /\ df_bits fd = 12%Z /\ res_is_unit (df_res fd) = true) /\
  (exists fd, find_field T "IDF001" = Some fd /\ df_ty fd = TUINT /\ df_bits fd = 3%Z /\ res_is_unit (df_res fd) = true) /\
  (exists fd, find_field T "IDF002" = Some fd /\ df_ty fd = TUINT /\ df_bits fd = 8%Z /\ res_is_unit (df_res fd) = true) /\
  specials_avoid T "DF002" = true /\ specials_avoid T "IDF002" = true /\
  (forall k b, In (k, b) (t_get T) \/ In (k, b) (t_msm T) \/ In (k, b) (t_igs T) ->
     exists key r, b = BItems (("DF002"%string, IField key) :: r) /\ items_avoid "DF002" r = true) /\
  (forall k b, In (k, b) (t_igs T) ->
     exists k1 k2 k3 r, b = BItems (("DF002"%string, IField k1) :: ("IDF001"%string, IField k2) :: ("IDF002"%string, IField k3) :: r) /\
                        items_avoid "IDF002" r = true).
Proof.
  intros T H. unfold first_field_ok in H.
  repeat (apply andb_true_iff in H; let X := fresh "C" in destruct H as [H X]).
  rewrite forallb_forall in C, C3.
  split; [apply unit_uint_spec, H|]. split; [apply unit_uint_spec, C2|]. split; [apply unit_uint_spec, C1|].
  split; [exact C4|]. split; [exact C0|]. split.
  - intros k b I.
    assert (I' : In (k, b) (t_get T ++ t_msm T ++ t_igs T)) by (rewrite !in_app_iff; tauto).
    specialize (C3 _ I'). cbn [snd] in C3. unfold layout_df002 in C3.
    destruct b as [[|[l1 [key| | |]] r]|]; try discriminate C3.
    apply andb_true_iff in C3. destruct C3 as [E A]. apply String.eqb_eq in E. subst l1. eauto.
  - intros k b I. specialize (C _ I). cbn [snd] in C. unfold layout_igs in C.
    destruct b as [[|[l1 [k1| | |]] [|[l2 [k2| | |]] [|[l3 [k3| | |]] r]]]|]; try discriminate C.
    repeat (apply andb_true_iff in C; let X := fresh "E" in destruct C as [C X]).
    apply String.eqb_eq in C, E1, E0. subst l1 l2 l3. eauto 6.
Qed.

(* ---- names with index suffixes never collide with an un-suffixed name without "_" ---- *)
Fixpoint has_us (s:string) : bool :=
  match s with EmptyString => false | String c r => Ascii.eqb c "_" || has_us r end.

Lemma has_us_app a b : has_us (a ++ b) = has_us a || has_us b.
Proof. induction a as [|c a IH]; [reflexivity|]. cbn [String.append has_us]. rewrite IH. apply orb_assoc. Qed.

Lemma render_step_us (s:string) (i:Z) :
  has_us s = true -> has_us (if (0 <? i)%Z then s ++ idx_suffix i else s)%string = true.
Proof. intro H. destruct (0 <? i)%Z; [|exact H]. rewrite has_us_app, H. reflexivity. Qed.

Lemma fold_us idx : forall s, has_us s = true ->
  has_us (fold_left (fun s i => if (0 <? i)%Z then s ++ idx_suffix i else s)%string idx s) = true.
Proof. induction idx as [|i r IH]; intros s H; [exact H|]. cbn [fold_left]. apply IH. apply render_step_us, H. Qed.

Lemma render_name_cases anam idx : render_name anam idx = anam \/ has_us (render_name anam idx) = true.
Proof.
  unfold render_name. revert anam. induction idx as [|i r IH]; intro anam; [left; reflexivity|].
  cbn [fold_left]. destruct (0 <? i)%Z.
  - right. apply fold_us. rewrite has_us_app. unfold idx_suffix. cbn. apply orb_true_r.
  - apply IH.
Qed.

Lemma render_name_eq anam idx k : has_us k = false -> render_name anam idx = k -> anam = k.
Proof.
  intros U E. destruct (render_name_cases anam idx) as [R|R]; [congruence|].
  rewrite E, U in R. discriminate R.
Qed.

(* ---- a field step leaves every other attribute alone ---- *)
Lemma assoc_upd_other {A} k k' (v:A) l : k' <> k -> assoc k (upd k' v l) = assoc k l.
Proof.
  intro NE. induction l as [|[k2 v2] r IH]; cbn [upd assoc].
  - destruct (String.eqb k' k) eqn:E; [apply String.eqb_eq in E; contradiction|reflexivity].
  - destruct (String.eqb k2 k') eqn:E2; cbn [assoc].
    + apply String.eqb_eq in E2. subst k2.
      destruct (String.eqb k' k) eqn:E; [apply String.eqb_eq in E; contradiction|reflexivity].
    + destruct (String.eqb k2 k); [reflexivity|exact IH].
Qed.

Lemma assoc_upd_same {A} k (v:A) l : assoc k (upd k v l) = Some v.
Proof.
  induction l as [|[k2 v2] r IH]; cbn [upd assoc]; [now rewrite String.eqb_refl|].
  destruct (String.eqb k2 k) eqn:E; cbn [assoc]; rewrite E; [reflexivity|exact IH].
Qed.

Lemma setattr_keeps o n v o1 k : setattr o n v = Ok o1 -> n <> k -> assoc k (o_attrs o1) = assoc k (o_attrs o).
Proof.
  unfold setattr. destruct (o_immutable o); [discriminate|]. intros E NE. apply ok_inj in E. subst o1.
  cbn [o_attrs with_attrs]. apply assoc_upd_other, NE.
Qed.

Lemma getsatcellmaps_attrs T ident o o1 : getsatcellmaps T ident o = Ok o1 -> o_attrs o1 = o_attrs o.
Proof.
  unfold getsatcellmaps. destruct (assoc (substring 0 3 ident) (t_prnsig T)) as [[prnmap sigmap]|]; [|discriminate].
  intro E.
  apply obind_ok_inv in E. destruct E as [d4 [_ E]].
  apply obind_ok_inv in E. destruct E as [d5 [_ E]].
  apply obind_ok_inv in E. destruct E as [d6 [_ E]].
  apply ok_inj in E. rewrite <- E. reflexivity.
Qed.

Lemma neqb_neq a b : negb (String.eqb a b) = true -> a <> b.
Proof. intro H. apply negb_true_iff in H. apply String.eqb_neq, H. Qed.

Section Keeps.
Variable T : tables.
Variable k : string.
Hypothesis KU : has_us k = false.
Hypothesis KS : specials_avoid T k = true.

Lemma specials_neq : t_nsat T <> k /\ t_nsig T <> k /\ t_ncell T <> k /\ t_nharmc T <> k /\ t_nharms T <> k.
Proof.
  pose proof KS as H. unfold specials_avoid in H.
  repeat (apply andb_true_iff in H; let X := fresh "S" in destruct H as [H X]).
  repeat split; apply neqb_neq; assumption.
Qed.

Lemma store_value_keeps ty anam idx v o o1 : anam <> k ->
  store_value ty anam idx v o = Ok o1 -> assoc k (o_attrs o1) = assoc k (o_attrs o).
Proof.
  intros NE E.
  assert (R : render_name anam idx <> k) by (intro X; apply NE; eapply render_name_eq; eauto).
  unfold store_value in E.
  destruct ty; try (eapply setattr_keeps; [exact E|exact R]).
  destruct (assoc anam (o_attrs o)) as [old|].
  - destruct old as [z|f|old]; try discriminate. destruct v as [z|f|new]; try discriminate.
    eapply setattr_keeps; [exact E|exact NE].
  - eapply setattr_keeps; [exact E|exact NE].
Qed.

Lemma post_mask_keeps ident anam ob o o1 :
  post_mask T ident anam ob o = Ok o1 -> assoc k (o_attrs o1) = assoc k (o_attrs o).
Proof.
  destruct specials_neq as (S1 & S2 & S3 & _).
  unfold post_mask. destruct (is_mask_name anam).
  - destruct ob as [b|]; [|discriminate].
    destruct (String.eqb anam "DF394"); [intro E; eapply setattr_keeps; eauto|].
    destruct (String.eqb anam "DF395"); [intro E; eapply setattr_keeps; eauto|].
    intro E. apply obind_ok_inv in E. destruct E as [o' [E1 E2]].
    rewrite (getsatcellmaps_attrs _ _ _ _ E2). eapply setattr_keeps; eauto.
  - intro E. apply ok_inj in E. subst o1. reflexivity.
Qed.

Lemma post_harm_keeps anam idx o o1 :
  post_harm T anam idx o = Ok o1 -> assoc k (o_attrs o1) = assoc k (o_attrs o).
Proof.
  destruct specials_neq as (_ & _ & _ & S4 & S5).
  unfold post_harm. destruct (String.eqb anam "IDF038").
  - unfold harmonic_counts. intro E.
    apply obind_ok_inv in E. destruct E as [i [_ E]].
    destruct (i <? 0)%Z; [discriminate|].
    apply obind_ok_inv in E. destruct E as [n0 [_ E]].
    apply obind_ok_inv in E. destruct E as [m0 [_ E]].
    destruct ((2 ^ 24 <? Z.abs (n0 + 1))%Z || (2 ^ 24 <? Z.abs (m0 + 1))%Z); [discriminate|].
    apply obind_ok_inv in E. destruct E as [o' [E1 E2]].
    rewrite (setattr_keeps _ _ _ _ k E2 S5). eapply setattr_keeps; eauto.
  - intro E. apply ok_inj in E. subst o1. reflexivity.
Qed.

Lemma set_single_keeps ident anam idx o off o1 off1 : anam <> k ->
  set_single T ident anam idx (o, off) = Ok (o1, off1) -> assoc k (o_attrs o1) = assoc k (o_attrs o).
Proof.
  intros NE E. apply set_single_inv in E. destruct E as [fd [_ E]].
  apply field_stages_inv in E.
  destruct E as [asiz [vb [oa [ob [oc [_ [_ [E3 [E4 [E5 E6]]]]]]]]]].
  injection E6 as -> _.
  rewrite (post_harm_keeps _ _ _ _ E5), (post_mask_keeps _ _ _ _ _ E4).
  eapply store_value_keeps; eauto.
Qed.

(* ---- the walk over a layout none of whose field labels is k ---- *)
Variable ident : string.
Variable Inv : st -> Prop.
Hypothesis H_single : forall anam idx s s1, anam <> k -> Inv s -> set_single T ident anam idx s = Ok s1 -> Inv s1.

Lemma avoid_rep (f:list Z -> st -> outcome st) :
  (forall idx s s1, Inv s -> f idx s = Ok s1 -> Inv s1) ->
  forall n idx i s s1, Inv s -> rep f idx n i s = Ok s1 -> Inv s1.
Proof.
  intro Hf. induction n as [|n IH]; intros idx i s s1 I E; cbn [rep] in E.
  - apply ok_inj in E. subst s1. exact I.
  - apply obind_ok_inv in E. destruct E as [s' [E1 E2]]. eapply IH; [|exact E2]. eapply Hf; eauto.
Qed.

Lemma avoid_walk :
  (forall it lbl idx s s1, item_avoids k lbl it = true -> Inv s -> dec_item T ident lbl it idx s = Ok s1 -> Inv s1) /\
  (forall b idx s s1, body_avoids k b = true -> Inv s -> dec_body T ident b idx s = Ok s1 -> Inv s1).
Proof.
  apply item_body_ind.
  - intros key lbl idx s s1 A I E. rewrite dec_item_field in E. cbn [item_avoids] in A.
    eapply H_single; [apply neqb_neq, A|exact I|exact E].
  - intros w lbl idx s s1 A I E. discriminate E.
  - intros c b IHb lbl idx s s1 A I E. rewrite dec_item_group in E. cbn [item_avoids] in A.
    apply obind_ok_inv in E. destruct E as [n [_ E]].
    destruct (max_count <? n)%Z; [discriminate|].
    eapply avoid_rep; [|exact I|exact E]. intros idx0 s0 s2 I0 E0. eapply IHb; eauto.
  - intros key con b IHb lbl idx s s1 A I E. rewrite dec_item_opt in E. cbn [item_avoids] in A.
    apply obind_ok_inv in E. destruct E as [v [_ E]].
    destruct v as [z|f|str]; [|discriminate|apply ok_inj in E; subst s1; exact I].
    destruct (z =? con)%Z; [eapply IHb; eauto|apply ok_inj in E; subst s1; exact I].
  - intros l IHl idx s s1 A I E. rewrite dec_body_items in E. rewrite body_avoids_items in A.
    revert s A I E. induction IHl as [|[lbl it] r Hit Hr IHr]; intros s A I E.
    + rewrite dec_items_nil in E. apply ok_inj in E. subst s1. exact I.
    + rewrite dec_items_cons in E. rewrite items_avoid_cons in A.
      apply andb_true_iff in A. destruct A as [A1 A2].
      apply obind_ok_inv in E. destruct E as [s' [E1 E2]].
      eapply IHr; [exact A2| |exact E2]. eapply Hit; eauto.
  - intros w idx s s1 A I E. discriminate E.
Qed.
End Keeps.

Theorem walk_keeps : forall T k ident l s s1,
  has_us k = false -> specials_avoid T k = true -> items_avoid k l = true ->
  dec_items T ident [] l s = Ok s1 -> assoc k (o_attrs (fst s1)) = assoc k (o_attrs (fst s)).
Proof.
  intros T k ident l s s1 KU KS A E.
  set (Inv := fun s' : st => assoc k (o_attrs (fst s')) = assoc k (o_attrs (fst s))).
  assert (HS : forall anam idx (s0 s2:st), anam <> k -> Inv s0 -> set_single T ident anam idx s0 = Ok s2 -> Inv s2).
  { intros anam idx [o off] [o1 off1] NE I E0. unfold Inv in *. cbn [fst] in *. rewrite <- I.
    eapply set_single_keeps; eauto. }
  pose proof (proj2 (avoid_walk T k ident Inv HS)) as W.
  apply W with (b := BItems l) (idx := @nil Z) (s := s); [exact A|reflexivity|exact E].
Qed.

(* ---- one unscaled unsigned field at the top level of a layout ---- *)
Lemma scale_unit v r : res_is_unit r = true -> scale v r = Ok (VInt v).
Proof.
  unfold res_is_unit, scale. destruct r as [z|f|w]; [| |discriminate]; intro H; rewrite H; reflexivity.
Qed.

Lemma uint_step T ident name fd o off :
  find_field T name = Some fd -> df_ty fd = TUINT -> res_is_unit (df_res fd) = true -> plain_name name = true ->
  pwf o -> o_immutable o = false -> (0 <= off)%Z -> (1 <= df_bits fd)%Z -> (off + df_bits fd <= nbits (o_payload o))%Z ->
  set_single T ident name [] (o, off) =
  Ok (with_attrs o (upd name (VInt (unsigned (slice (o_payload o) off (df_bits fd)))) (o_attrs o)), (off + df_bits fd)%Z).
Proof.
  intros F Ty U PN P M H0 H1 HB.
  rewrite (set_single_plain T ident name [] fd o off F) by (try assumption; rewrite Ty; reflexivity).
  unfold field_value, store_value. rewrite Ty. rewrite (scale_unit _ _ U). cbn [obind].
  change (render_name name []) with name. unfold setattr. rewrite M. reflexivity.
Qed.

Lemma nbits_cons b p : nbits (b :: p) = (8 + nbits p)%Z.
Proof. unfold nbits. cbn [List.length]. lia. Qed.
Lemma nbits_nonneg p : (0 <= nbits p)%Z.
Proof. unfold nbits. lia. Qed.

(* 9. consequence: the decoded DF002 attribute is the message number of the identity *)
Theorem df002_is_msgnum : forall T b0 b1 rest l o ident b,
  first_field_ok T = true ->
  identity (b0 :: b1 :: rest) = Ok ident -> get_dict T ident = Some b ->
  construct T (Some (b0 :: b1 :: rest)) l = Ok o ->
  assoc "DF002" (o_attrs o) = Some (VInt (Z.of_N (msgnum b0 b1))).
Proof.
  intros T b0 b1 rest l o ident b FF I D C.
  destruct (first_field_sound T FF) as ((fd & F & Ty & W & U) & _ & _ & S2 & _ & L & _).
  apply get_dict_some_in in D as D'. destruct (L ident b D') as (key & r & -> & A).
  apply construct_ok_run in C. destruct C as [o1 [t [E ->]]].
  apply decode_run_ok_inv in E. destruct E as [_ E].
  unfold decode_raw in E. change (o_payload (obj0 (b0 :: b1 :: rest) l)) with (b0 :: b1 :: rest) in E.
  rewrite I in E. cbn [obind] in E. rewrite D in E.
  rewrite dec_body_items, dec_items_cons, dec_item_field in E.
  rewrite (uint_step T ident "DF002" fd (obj0 (b0 :: b1 :: rest) l) 0 F Ty U eq_refl eq_refl eq_refl) in E;
    [|lia|lia|rewrite W; change (o_payload (obj0 (b0 :: b1 :: rest) l)) with (b0 :: b1 :: rest);
           rewrite !nbits_cons; pose proof (nbits_nonneg rest); lia].
  cbn [obind] in E.
  apply (walk_keeps T "DF002" ident r _ _ eq_refl S2 A) in E. cbn [fst] in E.
  change (o_attrs (with_immutable o1 true)) with (o_attrs o1). rewrite E.
  cbn [o_attrs with_attrs obj0 upd assoc]. rewrite W.
  change (o_payload (obj0 (b0 :: b1 :: rest) l)) with (b0 :: b1 :: rest). rewrite msgnum_slice. reflexivity.
Qed.

(* ... and for the IGS SSR messages the decoded IDF002 is the sub-type of the identity *)
Theorem idf002_is_subtype : forall T b0 b1 b2 rest l o ident b,
  first_field_ok T = true ->
  identity (b0 :: b1 :: b2 :: rest) = Ok ident -> get_dict T ident = Some b -> In (ident, b) (t_igs T) ->
  construct T (Some (b0 :: b1 :: b2 :: rest)) l = Ok o ->
  assoc "IDF002" (o_attrs o) = Some (VInt (Z.of_N (subtype b1 b2))).
Proof.
  intros T b0 b1 b2 rest l o ident b FF I D IN C.
  destruct (first_field_sound T FF) as ((fd1 & F1 & Ty1 & W1 & U1) & (fd2 & F2 & Ty2 & W2 & U2) & (fd3 & F3 & Ty3 & W3 & U3) & _ & S3 & _ & L).
  destruct (L ident b IN) as (k1 & k2 & k3 & r & -> & A).
  set (p := b0 :: b1 :: b2 :: rest) in *.
  assert (NB : (24 <= nbits p)%Z) by (unfold p; rewrite !nbits_cons; pose proof (nbits_nonneg rest); lia).
  apply construct_ok_run in C. destruct C as [o1 [t [E ->]]].
  apply decode_run_ok_inv in E. destruct E as [_ E].
  unfold decode_raw in E. change (o_payload (obj0 p l)) with p in E.
  rewrite I in E. cbn [obind] in E. rewrite D in E.
  rewrite dec_body_items, dec_items_cons, dec_item_field in E.
  rewrite (uint_step T ident "DF002" fd1 (obj0 p l) 0 F1 Ty1 U1 eq_refl eq_refl eq_refl) in E;
    [|lia|lia|rewrite W1; change (o_payload (obj0 p l)) with p; lia].
  cbn [obind] in E. rewrite dec_items_cons, dec_item_field in E.
  rewrite W1 in E. change (0 + 12)%Z with 12%Z in E.
  match type of E with context [set_single _ _ _ _ (?o, _)] => set (oA := o) in E end.
  assert (PA : pwf oA) by reflexivity. assert (MA : o_immutable oA = false) by reflexivity.
  assert (YA : o_payload oA = p) by reflexivity.
  rewrite (uint_step T ident "IDF001" fd2 oA 12 F2 Ty2 U2 eq_refl PA MA) in E;
    [|lia|lia|rewrite W2, YA; lia].
  cbn [obind] in E. rewrite dec_items_cons, dec_item_field in E.
  rewrite W2 in E. change (12 + 3)%Z with 15%Z in E.
  match type of E with context [set_single _ _ _ _ (?o, _)] => set (oB := o) in E end.
  assert (PB : pwf oB) by reflexivity. assert (MB : o_immutable oB = false) by reflexivity.
  assert (YB : o_payload oB = p) by reflexivity.
  rewrite (uint_step T ident "IDF002" fd3 oB 15 F3 Ty3 U3 eq_refl PB MB) in E;
    [|lia|lia|rewrite W3, YB; lia].
  cbn [obind] in E.
  apply (walk_keeps T "IDF002" ident r _ _ eq_refl S3 A) in E. cbn [fst] in E.
  change (o_attrs (with_immutable o1 true)) with (o_attrs o1). rewrite E.
  cbn [o_attrs with_attrs]. rewrite assoc_upd_same.
  rewrite W3, YB. unfold p. rewrite subtype_slice. reflexivity.
Qed.
