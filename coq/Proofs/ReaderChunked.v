(* C12 end to end: the reader over a chunked-transfer socket wrapper returns exactly the messages of the
   decoded body, for every chunking of the body and every placement of the recv() boundaries.
   Part 1  length bound: with a non-expanding per-chunk decoder the content of a wrapper state is no
           longer than the raw bytes it holds (so the fuel of the model's readline suffices);
   Part 2  chunked_exact: the chunked wrapper is an exact stream (Spec/ExactStream.v) over its content
           cpending, under the invariant of Proofs/ChunkReadProofs.v (J) + only non-empty packets ahead;
   Part 3  reader_chunked_eq_file. *)
From Coq Require Import NArith ZArith List Lia Bool Arith.
From Coq.Strings Require Import Byte.
From PyRtcm Require Import Base.Bytes Model.Types Model.Crc Model.Reader Model.Socket
  Spec.Items Spec.ExactStream Spec.ChunkGrammar
  Proofs.SocketProofs Proofs.ChunkProofs Proofs.ChunkReadProofs Proofs.ReaderComplete Proofs.ReaderSocket.
Import ListNotations.
Local Open Scope nat_scope.

(* ====================== Part 1: decoding never lengthens ====================== *)
Section Bound.
Variable dz : bytes -> bytes.
Context (Hdz : forall c, length (dz c) <= length c).     (* e.g. the identity = plain chunked *)

Lemma upto_lf_len l a c : upto_lf l = (a, c) -> length l = length a + length c.
Proof. intro H. apply upto_lf_app in H. subst l. apply app_length. Qed.

(* holds for EVERY input, well-formed or not *)
Lemma dechunk_loop_len sl fuel : forall ins acc c p,
  dechunk_loop dz sl fuel ins acc = DOk c p -> length c + length p <= length acc + length ins.
Proof.
  induction fuel as [|f IH]; intros ins acc c p H; [discriminate|].
  cbn [dechunk_loop] in H.
  destruct (upto_lf ins) as [lb r1] eqn:U. apply upto_lf_len in U.
  destruct (negb (ends_crlf lb)).
  { inversion H; subst. lia. }
  destruct (int16 (strip lb)) as [n| |]; [|inversion H; subst; simpl; lia|discriminate].
  destruct n as [|q]; [inversion H; subst; simpl; lia|].
  set (k := N.to_nat (N.min (N.pos q) (N.of_nat sl))) in *.
  destruct (upto_lf (skipn k r1)) as [term r3] eqn:U2. apply upto_lf_len in U2.
  pose proof (firstn_skipn k r1) as FS. apply (f_equal (@length _)) in FS. rewrite app_length in FS.
  destruct (negb (N.of_nat (length (firstn k r1)) =? N.pos q)%N || negb (ends_lf term)).
  - inversion H; subst. rewrite !app_length. lia.
  - apply IH in H. rewrite app_length in H. pose proof (Hdz (firstn k r1)). lia.
Qed.

Lemma future_len e : forall p, length (future true dz p e) <= length p + data_len e.
Proof.
  induction e as [|ev r IH]; intro p; cbn [future data_len]; [simpl; lia|].
  unfold recv. cbn [evs partial buf unm].
  destruct ev as [[|d0 d1]|]; cbn [snd buf partial app length].
  - specialize (IH p). simpl. lia.
  - unfold dechunk. destruct (dechunk_loop dz _ _ (p ++ d0 :: d1) []) as [c p'|] eqn:D; cbn [snd buf partial].
    + apply dechunk_loop_len in D. rewrite app_length in D. cbn [length] in D.
      specialize (IH p'). rewrite !app_length. cbn [length]. lia.
    + specialize (IH p). simpl. lia.
  - specialize (IH p). simpl. lia.
Qed.

Lemma cpending_len s : length (cpending true dz s) <= length (buf s) + length (partial s) + data_len (evs s).
Proof. unfold cpending. rewrite app_length. pose proof (future_len (evs s) (partial s)). lia. Qed.
End Bound.

(* ====================== Part 2: the chunked wrapper is an exact stream ====================== *)
Section ChunkedExact.
Variable dz : bytes -> bytes.
Context (Hdz : forall c, length (dz c) <= length c).
Variable chunks : list chunk.
Variable last : option bytes.
Context (Hwf : wf_chunked chunks last).

Notation sock_read := (sock_read true dz).
Notation readline_loop := (readline_loop true dz).
Notation content := (cpending true dz).
Notation J := (J dz chunks last).

(* nothing flagged unmodelled; only non-empty data packets ahead; the bytes handed out so far [out],
   the buffer and the pending partial chunk satisfy the decoder invariant of ChunkProofs.inv for the
   chunked body  render chunks last,  whose still unreceived tail is carried by the remaining events *)
Definition chunk_inv (s:sock) : Prop :=
  unm s = false /\ Forall good_ev (evs s) /\ exists out, J out s.

Lemma good_suffix (pre e:list recv_ev) : Forall good_ev (pre ++ e) -> Forall good_ev e.
Proof. intro H. apply Forall_app in H. tauto. Qed.

Lemma chunk_read_exact n s : chunk_inv s -> n <= length (content s) ->
  fst (sock_read n s) = firstn n (content s) /\
  at_content content chunk_inv (snd (sock_read n s)) (skipn n (content s)).
Proof.
  intros (Un & G & out & HJ) Hn.
  destruct (sock_read n s) as [o s'] eqn:R. cbn [fst snd].
  pose proof (J_content dz chunks last Hwf out s HJ) as Ec.
  assert (Lo : length o = n).
  { apply (sock_read_J_full dz chunks last Hwf n out s o s' HJ G); auto.
    rewrite <- Ec, app_length. lia. }
  destruct (sock_read_J dz chunks last Hwf n out s o s' HJ R) as (HJ' & Un' & (pre & Ep) & _).
  apply sock_read_cpending in R. destruct R as (P & _).
  rewrite P. subst n. split; [|split].
  - rewrite firstn_app, firstn_all, Nat.sub_diag. simpl. now rewrite app_nil_r.
  - split; [congruence|]. split; [rewrite Ep in G; now apply good_suffix in G|]. exists (out ++ o). exact HJ'.
  - rewrite skipn_app, skipn_all, Nat.sub_diag. reflexivity.
Qed.

Lemma chunk_read_inv_pres n s : chunk_inv s -> chunk_inv (snd (sock_read n s)).
Proof.
  intros (Un & G & out & HJ). destruct (sock_read n s) as [o s'] eqn:R. cbn [snd].
  destruct (sock_read_J dz chunks last Hwf n out s o s' HJ R) as (HJ' & Un' & (pre & Ep) & _).
  split; [congruence|]. split; [rewrite Ep in G; now apply good_suffix in G|]. exists (out ++ o). exact HJ'.
Qed.

(* the byte-wise readline loop stops exactly at the first LF when that LF completes a CR LF *)
Lemma readline_loop_nolf_c u r : ~ In x0a u -> forall line fuel s,
  chunk_inv s -> content s = u ++ x0a :: r -> length u < fuel ->
  ends_crlf (line ++ u ++ [x0a]) = true ->
  exists s', readline_loop fuel line s = (line ++ u ++ [x0a], s') /\ chunk_inv s' /\ content s' = r.
Proof.
  induction u as [|b u IH]; intros Hlf line fuel s Hi Hp Hf Hcr.
  - destruct fuel as [|f]; [cbn in Hf; lia|]. cbn [Socket.readline_loop].
    destruct (chunk_read_exact 1 s Hi) as [E1 [Hi' E2]]; [rewrite Hp; cbn; lia|].
    destruct (sock_read 1 s) as [d s1]. cbn [fst snd] in E1, E2, Hi'. rewrite Hp in E1, E2. cbn in E1, E2.
    subst d. cbn [app] in Hcr |- *. rewrite Hcr. exists s1. auto.
  - destruct fuel as [|f]; [cbn in Hf; lia|]. cbn [Socket.readline_loop].
    destruct (chunk_read_exact 1 s Hi) as [E1 [Hi' E2]]; [rewrite Hp; cbn; lia|].
    destruct (sock_read 1 s) as [d s1]. cbn [fst snd] in E1, E2, Hi'. rewrite Hp in E1, E2. cbn in E1, E2.
    subst d.
    assert (Hb : b <> x0a) by (intro K; apply Hlf; left; auto).
    rewrite (ends_crlf_not_lf line b Hb).
    destruct (IH (fun K => Hlf (or_intror K)) (line ++ [b]) f s1 Hi' E2) as (s' & E' & Hs').
    + cbn in Hf. lia.
    + rewrite <- app_assoc. exact Hcr.
    + exists s'. split; [|exact Hs']. rewrite E'. now rewrite <- app_assoc.
Qed.

Theorem chunked_exact : exact_stream (sock_ops true dz) content chunk_inv.
Proof.
  split.
  - intros n s Hi Hn. cbn [sock_ops s_read]. now apply chunk_read_exact.
  - intros s Hi Hc. cbn [sock_ops s_read]. pose proof (chunk_read_inv_pres 1 s Hi) as Hi'.
    destruct (sock_read 1 s) as [o s'] eqn:R. cbn [fst snd] in *.
    apply sock_read_cpending in R. destruct R as [P _]. rewrite Hc in P. symmetry in P.
    apply app_eq_nil in P. destruct P as [-> P]. split; [reflexivity|]. split; assumption.
  - intros s body r Hi Hlf Hc. cbn [sock_ops s_readline]. unfold Socket.sock_readline.
    assert (Hlf' : ~ In x0a (body ++ [x0d])).
    { intro K. apply in_app_or in K. destruct K as [K|[K|[]]]; [auto|discriminate]. }
    assert (Hc' : content s = (body ++ [x0d]) ++ x0a :: r) by (rewrite Hc; now rewrite <- app_assoc).
    destruct (readline_loop_nolf_c (body ++ [x0d]) r Hlf' []
                (S (length (buf s) + length (partial s) + data_len (evs s))) s Hi Hc') as (s' & E & Hi' & Hp').
    + pose proof (cpending_len dz Hdz s) as L. rewrite Hc', app_length in L. lia.
    + cbn [app]. unfold ends_crlf. rewrite !rev_app_distr. reflexivity.
    + rewrite E. cbn [fst snd app]. split; [now rewrite <- app_assoc|]. split; assumption.
Qed.

(* the constructed wrapper (its first _recv done) sits at the decoded body *)
Lemma chunked_init_at segs :
  Forall (fun d => d <> []) segs -> concat segs = ChunkGrammar.render chunks last ->
  at_content content chunk_inv (sock_init true dz (map Data segs)) (decoded dz chunks).
Proof.
  intros Hne E.
  assert (Ed : datas (map Data segs) = ChunkGrammar.render chunks last) by (now rewrite datas_map_Data).
  destruct (J_sock_init dz chunks last Hwf _ Ed) as (HJ & Un).
  split; [|exact (proj1 (C12_content dz chunks last Hwf _ Ed))].
  split; [exact Un|]. split; [|exists []; exact HJ].
  unfold sock_init. fold (start (map Data segs)).
  destruct (recv true dz (start (map Data segs))) as [ok s1] eqn:R. cbn [snd].
  apply recv_cpending in R. destruct R as (_ & Et). rewrite Et. cbn [start evs].
  assert (G : Forall good_ev (map Data segs)).
  { apply Forall_forall. intros e He. apply in_map_iff in He. destruct He as (d & <- & Hd).
    exists d. split; [reflexivity|]. exact (proj1 (Forall_forall _ _) Hne d Hd). }
  destruct (map Data segs); [constructor|]. now inversion G.
Qed.
End ChunkedExact.

(* the same instance with the chunked body hidden in the invariant *)
Definition chunk_inv_ex (dz:bytes -> bytes) (s:sock) : Prop :=
  exists chunks last, wf_chunked chunks last /\ chunk_inv dz chunks last s.

Theorem chunked_exact_ex dz : (forall c, length (dz c) <= length c) ->
  exact_stream (sock_ops true dz) (cpending true dz) (chunk_inv_ex dz).
Proof.
  intro Hdz. split.
  - intros n s (chunks & last & Hwf & Hi) Hn.
    destruct (ex_read _ _ _ (chunked_exact dz Hdz chunks last Hwf) n s Hi Hn) as (E1 & Hi' & E2).
    split; [exact E1|]. split; [exists chunks, last; auto|exact E2].
  - intros s (chunks & last & Hwf & Hi) Hc.
    destruct (ex_eof _ _ _ (chunked_exact dz Hdz chunks last Hwf) s Hi Hc) as (E1 & Hi' & E2).
    split; [exact E1|]. split; [exists chunks, last; auto|exact E2].
  - intros s body r (chunks & last & Hwf & Hi) Hlf Hc.
    destruct (ex_line _ _ _ (chunked_exact dz Hdz chunks last Hwf) s body r Hi Hlf Hc) as (E1 & Hi' & E2).
    split; [exact E1|]. split; [exists chunks, last; auto|exact E2].
Qed.

(* ====================== Part 3: chunked socket = file ====================== *)
Section ChunkedEqFile.
Context {M:Type}.
Variable dz : bytes -> bytes.
Context (Hdz : forall c, length (dz c) <= length c).
Variable construct : bytes -> Z -> outcome M.
Variable nmea_hdr : list bytes.
Context (Hnmea : nmea_hdr_ok nmea_hdr).
Context (Hcrc : forall m, calc_crc24q (m ++ to_be 3 (calc_crc24q m)) = 0%N).

Notation iter_chunked := (iterate (sock_ops true dz) construct nmea_hdr [xb5; x62] 1 2 1).
Notation iter_plain := (iterate (sock_ops false dz) construct nmea_hdr [xb5; x62] 1 2 1).
Notation iter_file := (iterate file_ops construct nmea_hdr [xb5; x62] 1 2 1).

(* every chunking of the body, every rendering of the size lines, every segmentation of the chunked
   stream into non-empty recv() packets, every error mode, arbitrary constructor: the complete per-read
   event list of the reader is the expected trace of the decoded body *)
Theorem reader_chunked_trace chunks last segs items c fuel n :
  wf_chunked chunks last ->
  Forall (fun d => d <> []) segs -> concat segs = ChunkGrammar.render chunks last ->
  decoded dz chunks = stream_of items ->
  Forall (wf_item nmea_hdr) items -> Forall crlf_item items ->
  (Z.land (validate c) 1 <> 0%Z \/ no_damaged items) ->
  parsed c = true ->
  length (stream_of items) < fuel -> length items < n ->
  fst (iter_chunked c fuel n (sock_init true dz (map Data segs))) =
    trace construct (labelmsm c) (quitonerror c) [] items.
Proof.
  intros Hwf Hseg Hcat Hdec Hwfi Hcl Hv Hp Hf Hn.
  apply (iterate_trace_exact (sock_ops true dz) (cpending true dz) (chunk_inv dz chunks last)
           (chunked_exact dz Hdz chunks last Hwf) construct nmea_hdr Hnmea Hcrc); auto.
  rewrite <- Hdec. now apply chunked_init_at.
Qed.

(* ... and therefore equals what the reader returns over a file holding the decoded body *)
Theorem reader_chunked_eq_file chunks last segs items c fuel n :
  wf_chunked chunks last ->
  Forall (fun d => d <> []) segs -> concat segs = ChunkGrammar.render chunks last ->
  decoded dz chunks = stream_of items ->
  Forall (wf_item nmea_hdr) items -> Forall crlf_item items ->
  (Z.land (validate c) 1 <> 0%Z \/ no_damaged items) ->
  parsed c = true ->
  length (stream_of items) < fuel -> length items < n ->
  fst (iter_chunked c fuel n (sock_init true dz (map Data segs))) =
    trace construct (labelmsm c) (quitonerror c) [] items /\
  fst (iter_chunked c fuel n (sock_init true dz (map Data segs))) =
    fst (iter_file c fuel n (file_stream (stream_of items))).
Proof.
  intros Hwf Hseg Hcat Hdec Hwfi Hcl Hv Hp Hf Hn.
  pose proof (reader_chunked_trace chunks last segs items c fuel n Hwf Hseg Hcat Hdec Hwfi Hcl Hv Hp Hf Hn) as E.
  split; [exact E|]. rewrite E. symmetry.
  apply (iterate_trace_exact file_ops rest file_inv file_exact construct nmea_hdr Hnmea Hcrc); auto.
  apply file_stream_at.
Qed.

(* chunked vs. un-chunked transport of the same body, each with its own packet boundaries *)
Corollary reader_chunked_eq_unchunked chunks last segs segs' items c fuel n :
  wf_chunked chunks last ->
  Forall (fun d => d <> []) segs -> concat segs = ChunkGrammar.render chunks last ->
  Forall (fun d => d <> []) segs' -> concat segs' = stream_of items ->
  decoded dz chunks = stream_of items ->
  Forall (wf_item nmea_hdr) items -> Forall crlf_item items ->
  (Z.land (validate c) 1 <> 0%Z \/ no_damaged items) ->
  parsed c = true ->
  length (stream_of items) < fuel -> length items < n ->
  fst (iter_chunked c fuel n (sock_init true dz (map Data segs))) =
  fst (iter_plain c fuel n (sock_init false dz (map Data segs'))).
Proof.
  intros Hwf Hseg Hcat Hseg' Hcat' Hdec Hwfi Hcl Hv Hp Hf Hn.
  rewrite (reader_chunked_trace chunks last segs items c fuel n Hwf Hseg Hcat Hdec Hwfi Hcl Hv Hp Hf Hn).
  symmetry.
  exact (proj1 (reader_socket_trace_eq_file dz construct nmea_hdr Hnmea Hcrc segs' items c fuel n
                  Hseg' Hcat' Hwfi Hcl Hv Hp Hf Hn)).
Qed.

(* yields and error-handler calls, for total constructors and non-raising error modes *)
Theorem reader_chunked_yields chunks last segs items c fuel n :
  wf_chunked chunks last ->
  Forall (fun d => d <> []) segs -> concat segs = ChunkGrammar.render chunks last ->
  decoded dz chunks = stream_of items ->
  Forall (wf_item nmea_hdr) items -> Forall crlf_item items ->
  (Z.land (validate c) 1 <> 0%Z \/ no_damaged items) ->
  parsed c = true -> quitonerror c <> 2%Z ->
  construct_total construct (labelmsm c) items ->
  length (stream_of items) < fuel -> length items < n ->
  let evs := fst (iter_chunked c fuel n (sock_init true dz (map Data segs))) in
  map snd evs = map (fun '(raw, m) => RYield raw (Some m)) (good construct (labelmsm c) items) ++ [REnd] /\
  yields evs = map (fun '(raw, m) => (raw, Some m)) (good construct (labelmsm c) items) /\
  handler_calls evs = (if Z.eqb (quitonerror c) 1 then errs construct (labelmsm c) items else []).
Proof.
  intros Hwf Hseg Hcat Hdec Hwfi Hcl Hv Hp Hq Ht Hf Hn.
  apply (C02_complete_exact (sock_ops true dz) (cpending true dz) (chunk_inv dz chunks last)
           (chunked_exact dz Hdz chunks last Hwf) construct nmea_hdr Hnmea Hcrc); auto.
  rewrite <- Hdec. now apply chunked_init_at.
Qed.
End ChunkedEqFile.

(* plain chunked transfer (no per-chunk compression): the decoder is the identity *)
Corollary reader_chunked_eq_file_plain {M} (construct : bytes -> Z -> outcome M) nmea_hdr :
  nmea_hdr_ok nmea_hdr -> (forall m, calc_crc24q (m ++ to_be 3 (calc_crc24q m)) = 0%N) ->
  forall chunks last segs items c fuel n,
  wf_chunked chunks last ->
  Forall (fun d => d <> []) segs -> concat segs = ChunkGrammar.render chunks last ->
  concat (map body chunks) = stream_of items ->
  Forall (wf_item nmea_hdr) items -> Forall crlf_item items ->
  (Z.land (validate c) 1 <> 0%Z \/ no_damaged items) ->
  parsed c = true ->
  length (stream_of items) < fuel -> length items < n ->
  fst (iterate (sock_ops true (fun x => x)) construct nmea_hdr [xb5; x62] 1 2 1 c fuel n
         (sock_init true (fun x => x) (map Data segs))) =
  fst (iterate file_ops construct nmea_hdr [xb5; x62] 1 2 1 c fuel n (file_stream (stream_of items))).
Proof.
  intros Hnmea Hcrc chunks last segs items c fuel n Hwf Hseg Hcat Hdec.
  intros Hwfi Hcl Hv Hp Hf Hn.
  apply (reader_chunked_eq_file (fun x => x) (fun c => le_n _) construct nmea_hdr Hnmea Hcrc
           chunks last segs items c fuel n); auto.
Qed.

(* ---------- sanity check by direct evaluation (does not use the theorems or Hcrc) ---------- *)
Module ExampleChunked.
Import ReaderComplete.Example.
Definition hex1 (k:nat) : byte :=
  nth k [x30;x31;x32;x33;x34;x35;x36;x37;x38;x39;x41;x62;x43;x64;x45;x66] x30.
Fixpoint pieces (k fuel:nat) (l:bytes) : list bytes :=
  match fuel, l with
  | S f, _ :: _ => firstn (S k) l :: pieces k f (skipn (S k) l)
  | _, _ => []
  end.
(* the item stream cut into chunks of 11 bytes, size lines "0b" / "b"-style with a leading zero *)
Definition cks : list chunk :=
  map (fun b => {| sz := [x30; hex1 (length b)]; body := b |}) (pieces 10 100 (stream_of items)).
Definition wire := ChunkGrammar.render cks (Some [x30]).
Definition segs1 := map (fun b => [b]) wire.            (* one byte per recv() *)
Definition segs7 := pieces 6 1000 wire.                   (* seven bytes per recv() *)
Definition idz (b:bytes) := b.

Lemma setup_ok : concat segs1 = wire /\ concat segs7 = wire /\ decoded idz cks = stream_of items /\
                 Forall (fun c => hexnum 0 (sz c) = Some (N.of_nat (length (body c)))) cks.
Proof.
  split; [vm_compute; reflexivity|]. split; [vm_compute; reflexivity|]. split; [vm_compute; reflexivity|].
  repeat constructor.
Qed.

Lemma iterate_chunked_log :
  fst (iterate (sock_ops true idz) construct nmea [xb5; x62] 1 2 1 (cf 1) 100 10
         (sock_init true idz (map Data segs1))) = trace construct 1 1 [] items /\
  fst (iterate (sock_ops true idz) construct nmea [xb5; x62] 1 2 1 (cf 1) 100 10
         (sock_init true idz (map Data segs7))) = trace construct 1 1 [] items.
Proof. split; vm_compute; reflexivity. Qed.
End ExampleChunked.

Print Assumptions cpending_len.
Print Assumptions chunked_exact.
Print Assumptions chunked_exact_ex.
Print Assumptions chunked_init_at.
Print Assumptions reader_chunked_trace.
Print Assumptions reader_chunked_eq_file.
Print Assumptions reader_chunked_eq_unchunked.
Print Assumptions reader_chunked_yields.
Print Assumptions reader_chunked_eq_file_plain.
