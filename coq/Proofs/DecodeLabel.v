(* Level 5 (C16): the MSM label option (labelmsm) changes signal labels only.
   Two runs of the decoder on the same payload with different label options proceed in lock step:
   same control flow, same errors, same attribute names in the same order, same values except that
   attributes written by a data field of type CSG (cell signal label) may hold different strings. *)
From Coq Require Import NArith ZArith List String Bool Lia.
From PyRtcm Require Import Base.Bytes Base.Dec Model.Types Model.Message Spec.FieldGrammar.
From PyRtcm Require Import Proofs.DecodeBits Proofs.DecodeWalk Proofs.DecodeExtend.
Import ListNotations.
Open Scope list_scope.
Open Scope Z_scope.

(* ================= the relation ================= *)
Section Lab.
Variable T : tables.

(* attribute names a CSG-typed data field can write *)
Definition csg_name (k:string) : Prop :=
  exists anam idx fd, find_field T anam = Some fd /\ df_ty fd = TCSG /\ k = render_name anam idx.

Definition both_str (v v':value) : Prop := exists a b, v = VStr a /\ v' = VStr b.

Definition vrel (k:string) (v v':value) : Prop := v = v' \/ (csg_name k /\ both_str v v').

Definition arel (a a':list (string*value)) : Prop :=
  Forall2 (fun e e' => fst e = fst e' /\ vrel (fst e) (snd e) (snd e')) a a'.

(* cell map: same keys, same satellite label; the signal label is free *)
Definition key_fst (e:Z*(string*string)) : Z*string := (fst e, fst (snd e)).
Definition cmrel (m m':option (list (Z*(string*string)))) : Prop :=
  option_map (map key_fst) m = option_map (map key_fst) m'.

Definition Rl (o o':obj) : Prop :=
  o_immutable o = o_immutable o' /\ o_payload o = o_payload o' /\ o_payloadi o = o_payloadi o' /\
  o_unknown o = o_unknown o' /\ o_satmap o = o_satmap o' /\
  cmrel (o_cellmap o) (o_cellmap o') /\ arel (o_attrs o) (o_attrs o').

Definition Rlab (s s':st) : Prop := Rl (fst s) (fst s') /\ snd s = snd s'.

Lemma vrel_ctl k v v' : vrel k v v' -> ctl_rel v v'.
Proof. intros [E|[_ B]]; [left; exact E|right; exact B]. Qed.

(* ---------- the attribute dictionary ---------- *)
Lemma assoc_arel k a a' : arel a a' ->
  match assoc k a, assoc k a' with
  | None, None => True
  | Some v, Some v' => vrel k v v'
  | _, _ => False
  end.
Proof.
  induction 1 as [|[k1 v1] [k2 v2] r r' [K V] _ IH]; cbn [assoc]; [exact I|].
  cbn [fst snd] in K, V. subst k2.
  destruct (String.eqb k1 k) eqn:E; [|exact IH].
  apply String.eqb_eq in E. subst k1. exact V.
Qed.

Lemma upd_arel k v v' a a' : arel a a' -> vrel k v v' -> arel (upd k v a) (upd k v' a').
Proof.
  intros A V. induction A as [|[k1 v1] [k2 v2] r r' [K V1] A IH]; cbn [upd].
  - constructor; [|constructor]. split; [reflexivity|exact V].
  - cbn [fst snd] in K, V1. subst k2.
    destruct (String.eqb k1 k) eqn:E.
    + apply String.eqb_eq in E. subst k1. constructor; [|exact A]. split; [reflexivity|exact V].
    + constructor; [|exact IH]. split; [reflexivity|exact V1].
Qed.

Lemma getattr_lab o o' k : Rl o o' -> osim ctl_rel true (getattr o k) (getattr o' k).
Proof.
  intros [_ [_ [_ [_ [_ [_ A]]]]]]. unfold getattr.
  pose proof (assoc_arel k _ _ A) as H.
  destruct (assoc k (o_attrs o)) as [v|]; destruct (assoc k (o_attrs o')) as [v'|]; try contradiction.
  - cbn. exists v'. split; [reflexivity|]. eapply vrel_ctl; exact H.
  - cbn. reflexivity.
Qed.

Lemma getint_lab o o' k : Rl o o' -> osim (@eq Z) true (getint o k) (getint o' k).
Proof.
  intro R. unfold getint. eapply osim_bind; [apply getattr_lab, R|].
  intros v v' [<-|[a [b [-> ->]]]].
  - destruct v; cbn; eauto.
  - cbn. auto.
Qed.

Lemma setattr_lab o o' k v v' : Rl o o' -> vrel k v v' -> osim Rl true (setattr o k v) (setattr o' k v').
Proof.
  intros [I [P [Pi [U [S [C A]]]]]] V. unfold setattr. rewrite <- I.
  destruct (o_immutable o) eqn:Io; [cbn; reflexivity|].
  apply osim_ok. unfold Rl. cbn [with_attrs o_immutable o_payload o_payloadi o_unknown o_satmap o_cellmap o_attrs].
  repeat split; try assumption; try congruence. apply upd_arel; assumption.
Qed.

(* ---------- the maps ---------- *)
Definition numbers (n:nat) : list Z := map (fun k => Z.of_nat k + 1) (seq 0 n).

Definition sats_of (df394:Z) : list Z := filter (fun idx => Z.testbit df394 (64 - idx)) (zrange 65).
Definition satlabels_of (prnmap:list (Z*string)) (df394:Z) : list string :=
  map (fun idx => match zassoc idx prnmap with Some s => s | None => t_na T end) (sats_of df394).
Definition sigids_of (df395:Z) : list Z := filter (fun idx => Z.testbit df395 (32 - idx)) (zrange 33).
Definition sigs_of (sigmap:list (Z*(string*string))) (sigcode:bool) (df395:Z) : list string :=
  map (fun idx => let sgc := match zassoc idx sigmap with Some p => p | None => (t_na T, t_na T) end in
                  if sigcode then snd sgc else fst sgc) (sigids_of df395).
Definition pairs_of (satlabels sigs:list string) : list (string*string) :=
  flat_map (fun s => map (fun g => (s, g)) sigs) satlabels.
Definition cells_of (q:Z -> bool) (pairs:list (string*string)) : list (Z*(string*string)) :=
  let numbered := combine (numbers (List.length pairs)) pairs in
  let hit := filter (fun '(idx, _) => q idx) numbered in
  combine (numbers (List.length hit)) (map snd hit).

Lemma getsatcellmaps_named ident o :
  getsatcellmaps T ident o =
  match assoc (substring 0 3 ident) (t_prnsig T) with
  | None => Foreign XKey
  | Some (prnmap, sigmap) =>
      do df394 <- getint o "DF394";
      do df395 <- getint o "DF395";
      do df396 <- getint o "DF396";
      let satlabels := satlabels_of prnmap df394 in
      let sigs := sigs_of sigmap (negb (o_labelmsm o =? 2)) df395 in
      let ncells := Z.of_nat (List.length satlabels) * Z.of_nat (List.length sigs) in
      Ok (with_maps o (combine (numbers (List.length satlabels)) satlabels)
                      (cells_of (fun idx => Z.testbit df396 (ncells - idx)) (pairs_of satlabels sigs)))
  end.
Proof.
  unfold getsatcellmaps.
  destruct (assoc (substring 0 3 ident) (t_prnsig T)) as [[prnmap sigmap]|]; [|reflexivity].
  destruct (getint o "DF394") as [d4|e|k|w]; cbn [obind]; [|reflexivity..].
  destruct (getint o "DF395") as [d5|e|k|w]; cbn [obind]; [|reflexivity..].
  destruct (getint o "DF396") as [d6|e|k|w]; cbn [obind]; [|reflexivity..].
  unfold satlabels_of, sigs_of, sats_of, sigids_of, pairs_of, cells_of, numbers. cbv zeta.
  reflexivity.
Qed.

Lemma map_fst_pairs_of satlabels sigs :
  map fst (pairs_of satlabels sigs) = flat_map (fun s => repeat s (List.length sigs)) satlabels.
Proof.
  unfold pairs_of. induction satlabels as [|s r IH]; [reflexivity|].
  cbn [flat_map]. rewrite map_app, IH. f_equal.
  clear IH. induction sigs as [|g gs IHg]; [reflexivity|]. cbn [map List.length repeat fst]. now rewrite IHg.
Qed.

Lemma filter_combine_proj {B C} (f:B -> C) (q:Z -> bool) (ns:list Z) (l:list B) :
  map (fun e => (fst e, f (snd e))) (filter (fun '(idx, _) => q idx) (combine ns l))
  = filter (fun '(idx, _) => q idx) (combine ns (map f l)).
Proof.
  revert l. induction ns as [|n ns IH]; intro l; [reflexivity|].
  destruct l as [|b l]; [reflexivity|]. cbn [combine map filter].
  destruct (q n); cbn [map fst snd]; now rewrite IH.
Qed.

Lemma combine_map_snd {B C} (f:B -> C) (ns:list Z) (l:list B) :
  map (fun e => (fst e, f (snd e))) (combine ns l) = combine ns (map f l).
Proof.
  revert l. induction ns as [|n ns IH]; intro l; [reflexivity|].
  destruct l as [|b l]; [reflexivity|]. cbn [combine map fst snd]. now rewrite IH.
Qed.

(* the projection of the cell map is a function of the satellite components alone *)
Lemma cells_of_proj q pairs :
  map key_fst (cells_of q pairs) =
  let hit := filter (fun '(idx, _) => q idx) (combine (numbers (List.length (map fst pairs))) (map fst pairs)) in
  combine (numbers (List.length hit)) (map snd hit).
Proof.
  unfold cells_of. cbv zeta.
  set (hit := filter (fun '(idx, _) => q idx) (combine (numbers (List.length pairs)) pairs)).
  assert (H : map (fun e => (fst e, fst (snd e))) hit
              = filter (fun '(idx, _) => q idx) (combine (numbers (List.length (map fst pairs))) (map fst pairs))).
  { unfold hit. rewrite map_length. apply filter_combine_proj. }
  rewrite <- H. rewrite map_length.
  change key_fst with (fun e:Z*(string*string) => (fst e, fst (snd e))).
  rewrite combine_map_snd. f_equal. rewrite !map_map. reflexivity.
Qed.

Lemma cells_of_rel q q' pairs pairs' :
  (forall i, q i = q' i) -> map fst pairs = map fst pairs' ->
  map key_fst (cells_of q pairs) = map key_fst (cells_of q' pairs').
Proof.
  intros Q P. rewrite !cells_of_proj. rewrite <- P. cbv zeta.
  assert (F : forall l:list (Z*string), filter (fun '(idx, _) => q idx) l = filter (fun '(idx, _) => q' idx) l).
  { intro l. apply filter_ext. intros [i x]. apply Q. }
  rewrite F. reflexivity.
Qed.

Lemma sigs_of_length sigmap c c' d : List.length (sigs_of sigmap c d) = List.length (sigs_of sigmap c' d).
Proof. unfold sigs_of. now rewrite !map_length. Qed.

Lemma getsatcellmaps_lab ident o o' : Rl o o' ->
  osim Rl true (getsatcellmaps T ident o) (getsatcellmaps T ident o').
Proof.
  intro R. rewrite !getsatcellmaps_named.
  destruct (assoc (substring 0 3 ident) (t_prnsig T)) as [[prnmap sigmap]|]; [|cbn; reflexivity].
  eapply osim_bind; [apply getint_lab, R|]. intros d4 d4' <-.
  eapply osim_bind; [apply getint_lab, R|]. intros d5 d5' <-.
  eapply osim_bind; [apply getint_lab, R|]. intros d6 d6' <-.
  cbv zeta. apply osim_ok.
  destruct R as [I [P [Pi [U [S [C A]]]]]].
  unfold Rl. cbn [with_maps o_immutable o_payload o_payloadi o_unknown o_satmap o_cellmap o_attrs].
  repeat split; try assumption.
  unfold cmrel. cbn [option_map]. f_equal.
  apply cells_of_rel.
  - intro i. rewrite (sigs_of_length sigmap (negb (o_labelmsm o =? 2)) (negb (o_labelmsm o' =? 2)) d5). reflexivity.
  - rewrite !map_fst_pairs_of.
    rewrite (sigs_of_length sigmap (negb (o_labelmsm o =? 2)) (negb (o_labelmsm o' =? 2)) d5). reflexivity.
Qed.

(* ---------- the stages of a field step ---------- *)
Lemma field_width_lab anam fd o o' : Rl o o' ->
  osim (@eq Z) true (field_width T anam fd o) (field_width T anam fd o').
Proof.
  intro R. unfold field_width. destruct (String.eqb anam "DF396"); [|apply osim_ok; reflexivity].
  eapply osim_bind; [apply getint_lab, R|]. intros a a' <-.
  eapply osim_bind; [apply getint_lab, R|]. intros b b' <-.
  apply osim_ok. reflexivity.
Qed.

Definition vbrel (fd:dfield) (vb vb':value * option N) : Prop :=
  snd vb = snd vb' /\ (fst vb = fst vb' \/ (df_ty fd = TCSG /\ both_str (fst vb) (fst vb'))).

Lemma zassoc_cmrel i m m' : map key_fst m = map key_fst m' ->
  match zassoc i m, zassoc i m' with
  | None, None => True
  | Some x, Some x' => fst x = fst x'
  | _, _ => False
  end.
Proof.
  revert m'. induction m as [|[k [a b]] r IH]; intros [|[k' [a' b']] r'] E; cbn [map] in E; try discriminate.
  - exact I.
  - unfold key_fst in E at 1 3. cbn [fst snd] in E. injection E as Ek Ea Er. subst k' a'.
    cbn [zassoc]. destruct (k =? i); [reflexivity|]. apply IH, Er.
Qed.

Lemma osim_refl_eq {A} (r:outcome A) : osim (@eq A) true r r.
Proof. destruct r; cbn; eauto. Qed.

Lemma read_value_lab fd idx o o' off w : Rl o o' ->
  osim (vbrel fd) true (read_value fd idx o off w) (read_value fd idx o' off w).
Proof.
  intros [I [P [Pi [U [S [C A]]]]]].
  assert (Bits : osim (vbrel fd) true
            (do bits <- get_bits (o_payloadi o) (8 * Z.of_nat (List.length (o_payload o))) off w; bit_value fd w bits)
            (do bits <- get_bits (o_payloadi o') (8 * Z.of_nat (List.length (o_payload o'))) off w; bit_value fd w bits)).
  { rewrite <- P, <- Pi. eapply osim_weaken; [|apply osim_refl_eq].
    intros a b <-. split; [reflexivity|left; reflexivity]. }
  unfold read_value. destruct (df_ty fd) eqn:TY; try exact Bits; clear Bits.
  - (* PRN *) rewrite <- S. eapply osim_weaken; [|apply osim_refl_eq].
    intros a b <-. split; [reflexivity|left; reflexivity].
  - (* CPR *) unfold label_lookup. destruct (first_index idx) as [i| | |]; cbn [obind]; try (cbn; reflexivity).
    unfold cmrel in C.
    destruct (o_cellmap o) as [m|]; destruct (o_cellmap o') as [m'|]; cbn [option_map] in C; try discriminate.
    + injection C as C. pose proof (zassoc_cmrel i m m' C) as Zx.
      destruct (zassoc i m) as [x|]; destruct (zassoc i m') as [x'|]; try contradiction.
      * apply osim_ok. split; [reflexivity|left]. cbn [fst]. now rewrite Zx.
      * cbn. reflexivity.
    + cbn. reflexivity.
  - (* CSG *) unfold label_lookup. destruct (first_index idx) as [i| | |]; cbn [obind]; try (cbn; reflexivity).
    unfold cmrel in C.
    destruct (o_cellmap o) as [m|]; destruct (o_cellmap o') as [m'|]; cbn [option_map] in C; try discriminate.
    + injection C as C. pose proof (zassoc_cmrel i m m' C) as Zx.
      destruct (zassoc i m) as [x|]; destruct (zassoc i m') as [x'|]; try contradiction.
      * apply osim_ok. split; [reflexivity|right]. split; [exact TY|]. cbn [fst]. unfold both_str. eauto.
      * cbn. reflexivity.
    + cbn. reflexivity.
Qed.

Lemma store_value_lab anam idx fd v v' o o' :
  find_field T anam = Some fd -> Rl o o' ->
  (v = v' \/ (df_ty fd = TCSG /\ both_str v v')) ->
  osim Rl true (store_value (df_ty fd) anam idx v o) (store_value (df_ty fd) anam idx v' o').
Proof.
  intros F R V.
  assert (VR : vrel (render_name anam idx) v v').
  { destruct V as [E|[TY B]]; [left; exact E|right]. split; [|exact B]. exists anam, idx, fd. auto. }
  unfold store_value. destruct (df_ty fd) eqn:TY; try (apply setattr_lab; assumption).
  (* STR *)
  destruct V as [<-|[TY' _]]; [|discriminate].
  pose proof R as [_ [_ [_ [_ [_ [_ A]]]]]].
  pose proof (assoc_arel anam _ _ A) as H.
  destruct (assoc anam (o_attrs o)) as [old|]; destruct (assoc anam (o_attrs o')) as [old'|]; try contradiction.
  - destruct H as [<-|[CN [a [b [-> ->]]]]].
    + destruct old as [z|f|old]; try (cbn; reflexivity).
      destruct v as [z|f|new]; try (cbn; reflexivity).
      apply setattr_lab; [exact R|left; reflexivity].
    + destruct v as [z|f|new]; try (cbn; reflexivity).
      apply setattr_lab; [exact R|right]. split; [exact CN|]. unfold both_str. eauto.
  - apply setattr_lab; [exact R|left; reflexivity].
Qed.

Lemma post_mask_lab ident anam ob o o' : Rl o o' ->
  osim Rl true (post_mask T ident anam ob o) (post_mask T ident anam ob o').
Proof.
  intro R. unfold post_mask. destruct (is_mask_name anam); [|apply osim_ok, R].
  destruct ob as [b|]; [|cbn; reflexivity].
  destruct (String.eqb anam "DF394"); [apply setattr_lab; [exact R|left; reflexivity]|].
  destruct (String.eqb anam "DF395"); [apply setattr_lab; [exact R|left; reflexivity]|].
  eapply osim_bind; [apply setattr_lab; [exact R|left; reflexivity]|].
  intros a a' Ra. apply getsatcellmaps_lab, Ra.
Qed.

Lemma harmonic_counts_lab idx o o' : Rl o o' ->
  osim Rl true (harmonic_counts T idx o) (harmonic_counts T idx o').
Proof.
  intro R. unfold harmonic_counts.
  destruct (first_index idx) as [i| | |]; cbn [obind]; try (cbn; reflexivity).
  destruct (i <? 0); [cbn; reflexivity|].
  eapply osim_bind; [apply getint_lab, R|]. intros n0 n0' <-.
  eapply osim_bind; [apply getint_lab, R|]. intros m0 m0' <-.
  destruct ((2 ^ 24 <? Z.abs (n0 + 1)) || (2 ^ 24 <? Z.abs (m0 + 1))); [cbn; reflexivity|].
  eapply osim_bind; [apply setattr_lab; [exact R|left; reflexivity]|].
  intros a a' Ra. apply setattr_lab; [exact Ra|left; reflexivity].
Qed.

Lemma post_harm_lab anam idx o o' : Rl o o' ->
  osim Rl true (post_harm T anam idx o) (post_harm T anam idx o').
Proof.
  intro R. unfold post_harm. destruct (String.eqb anam "IDF038"); [apply harmonic_counts_lab, R|apply osim_ok, R].
Qed.

Lemma set_single_lab ident anam idx s s' : Rlab s s' ->
  osim Rlab true (set_single T ident anam idx s) (set_single T ident anam idx s').
Proof.
  destruct s as [o off]. destruct s' as [o' off']. intros [R E]. cbn [fst snd] in R, E. subst off'.
  rewrite !set_single_stages.
  destruct (find_field T anam) as [fd|] eqn:F; [|cbn; reflexivity].
  unfold field_stages.
  eapply osim_bind; [apply field_width_lab, R|]. intros w w' <-.
  eapply osim_bind; [apply read_value_lab, R|]. intros vb vb' [Eb Ev].
  eapply osim_bind; [apply store_value_lab; [exact F|exact R|exact Ev]|]. intros o1 o1' R1.
  rewrite <- Eb.
  eapply osim_bind; [apply post_mask_lab, R1|]. intros o2 o2' R2.
  eapply osim_bind; [apply post_harm_lab, R2|]. intros o3 o3' R3.
  apply osim_ok. split; [exact R3|reflexivity].
Qed.

Lemma getattr_Rlab k s s' : Rlab s s' -> osim ctl_rel true (getattr (fst s) k) (getattr (fst s') k).
Proof. intros [R _]. apply getattr_lab, R. Qed.

Lemma walk_body_lab ident b idx s s' : Rlab s s' ->
  osim Rlab true (dec_body T ident b idx s) (dec_body T ident b idx s').
Proof. apply (sim_body T ident Rlab true (set_single_lab ident) getattr_Rlab). Qed.

Lemma obj0_lab p l1 l2 : Rl (obj0 p l1) (obj0 p l2).
Proof. unfold Rl, obj0. cbn. repeat split. constructor. Qed.

Lemma with_unknown_lab o o' u : Rl o o' -> Rl (with_unknown o u) (with_unknown o' u).
Proof. intros [I [P [Pi [U [S [C A]]]]]]. unfold Rl. cbn. repeat split; assumption. Qed.

Lemma with_immutable_lab o o' u : Rl o o' -> Rl (with_immutable o u) (with_immutable o' u).
Proof. intros [I [P [Pi [U [S [C A]]]]]]. unfold Rl. cbn. repeat split; assumption. Qed.

Lemma decode_raw_lab p l1 l2 :
  osim Rlab true (decode_raw T (obj0 p l1)) (decode_raw T (obj0 p l2)).
Proof.
  unfold decode_raw. change (o_payload (obj0 p l1)) with p. change (o_payload (obj0 p l2)) with p.
  destruct (identity p) as [ident| | |]; cbn [obind]; try (cbn; reflexivity).
  destruct (get_dict T ident) as [pdict|].
  - apply walk_body_lab. split; [apply obj0_lab|reflexivity].
  - eapply osim_bind; [apply setattr_lab; [apply obj0_lab|left; reflexivity]|].
    intros a a' Ra. apply osim_ok. split; [apply with_unknown_lab, Ra|reflexivity].
Qed.

Lemma handler_lab {A B} (R:A -> B -> Prop) p (r:outcome A) (r':outcome B) :
  osim R true r r' -> osim R true (handler p r) (handler p r').
Proof.
  intro H. destruct r as [a|e|k|w]; cbn [osim] in H.
  - destruct H as [b [-> Rab]]. apply osim_ok, Rab.
  - rewrite (H eq_refl). cbn [handler]. destruct (identity p); cbn; reflexivity.
  - rewrite (H eq_refl). cbn [handler]. destruct (identity p); cbn; reflexivity.
  - rewrite (H eq_refl). cbn. reflexivity.
Qed.

Lemma decode_run_lab p l1 l2 : osim Rlab true (decode_run T p l1) (decode_run T p l2).
Proof.
  unfold decode_run. destruct (too_short p); [cbn; reflexivity|].
  apply handler_lab, decode_raw_lab.
Qed.

Lemma construct_lab p l1 l2 : osim Rl true (construct T (Some p) l1) (construct T (Some p) l2).
Proof.
  rewrite !construct_decode_run.
  eapply osim_bind; [apply decode_run_lab|].
  intros s s' [R _]. apply osim_ok. apply with_immutable_lab, R.
Qed.

(* ================= equal label class: everything is equal ================= *)
Definition relabel (l:Z) (o:obj) : obj :=
  {| o_immutable := o_immutable o; o_payload := o_payload o; o_payloadi := o_payloadi o; o_labelmsm := l;
     o_unknown := o_unknown o; o_satmap := o_satmap o; o_cellmap := o_cellmap o; o_attrs := o_attrs o |}.

Section Relabel.
Variable l : Z.

Definition same_class (o:obj) : Prop := (o_labelmsm o =? 2) = (l =? 2).

Lemma setattr_relabel o k v : setattr (relabel l o) k v = omap (relabel l) (setattr o k v).
Proof. unfold setattr. cbn [relabel o_immutable]. destruct (o_immutable o); reflexivity. Qed.

Lemma getint_relabel o k : getint (relabel l o) k = getint o k.
Proof. reflexivity. Qed.

Lemma getsatcellmaps_relabel ident o : same_class o ->
  getsatcellmaps T ident (relabel l o) = omap (relabel l) (getsatcellmaps T ident o).
Proof.
  intro SC. rewrite !getsatcellmaps_named.
  destruct (assoc (substring 0 3 ident) (t_prnsig T)) as [[prnmap sigmap]|]; [|reflexivity].
  rewrite !getint_relabel. cbn [relabel o_labelmsm]. unfold same_class in SC. rewrite <- SC.
  destruct (getint o "DF394") as [d4| | |]; try reflexivity.
  destruct (getint o "DF395") as [d5| | |]; try reflexivity.
  destruct (getint o "DF396") as [d6| | |]; try reflexivity.
Qed.

Lemma same_class_frame o o1 : same_frame o o1 -> same_class o -> same_class o1.
Proof. unfold same_class. intros [_ [_ [_ [L _]]]] H. rewrite L. exact H. Qed.

Lemma store_value_relabel ty anam idx v o :
  store_value ty anam idx v (relabel l o) = omap (relabel l) (store_value ty anam idx v o).
Proof.
  unfold store_value. cbn [o_attrs relabel].
  destruct ty; try apply setattr_relabel.
  destruct (assoc anam (o_attrs o)) as [old|]; [|apply setattr_relabel].
  destruct old as [z|f|old]; try reflexivity. destruct v as [z|f|new]; try reflexivity. apply setattr_relabel.
Qed.

Lemma post_mask_relabel ident anam ob o : same_class o ->
  post_mask T ident anam ob (relabel l o) = omap (relabel l) (post_mask T ident anam ob o).
Proof.
  intro SC. unfold post_mask. destruct (is_mask_name anam); [|reflexivity].
  destruct ob as [b|]; [|reflexivity].
  destruct (String.eqb anam "DF394"); [apply setattr_relabel|].
  destruct (String.eqb anam "DF395"); [apply setattr_relabel|].
  rewrite setattr_relabel, obind_omap.
  destruct (setattr o (t_ncell T) (VInt (popcount b))) as [o'| | |] eqn:E; try reflexivity.
  cbn [obind]. apply getsatcellmaps_relabel.
  eapply same_class_frame; [eapply setattr_frame; exact E|exact SC].
Qed.

Lemma harmonic_counts_relabel idx o :
  harmonic_counts T idx (relabel l o) = omap (relabel l) (harmonic_counts T idx o).
Proof.
  unfold harmonic_counts. destruct (first_index idx) as [i| | |]; try reflexivity. cbn [obind].
  destruct (i <? 0); [reflexivity|]. rewrite !getint_relabel.
  destruct (getint o ("IDF037_" ++ dd (Z.to_N i))) as [n0| | |]; try reflexivity. cbn [obind].
  destruct (getint o ("IDF038_" ++ dd (Z.to_N i))) as [m0| | |]; try reflexivity. cbn [obind].
  destruct ((2 ^ 24 <? Z.abs (n0 + 1)) || (2 ^ 24 <? Z.abs (m0 + 1))); [reflexivity|].
  rewrite setattr_relabel, obind_omap.
  destruct (setattr o (t_nharmc T) _) as [o'| | |]; try reflexivity.
  cbn [obind]. apply setattr_relabel.
Qed.

Lemma post_harm_relabel anam idx o :
  post_harm T anam idx (relabel l o) = omap (relabel l) (post_harm T anam idx o).
Proof. unfold post_harm. destruct (String.eqb anam "IDF038"); [apply harmonic_counts_relabel|reflexivity]. Qed.

Definition relabel_st (s:st) : st := (relabel l (fst s), snd s).

Lemma set_single_relabel ident anam idx o off : same_class o ->
  set_single T ident anam idx (relabel l o, off) = omap relabel_st (set_single T ident anam idx (o, off)).
Proof.
  intro SC. rewrite !set_single_stages.
  destruct (find_field T anam) as [fd|]; [|reflexivity].
  unfold field_stages.
  change (field_width T anam fd (relabel l o)) with (field_width T anam fd o).
  destruct (field_width T anam fd o) as [w| | |]; try reflexivity. cbn [obind].
  change (read_value fd idx (relabel l o) off w) with (read_value fd idx o off w).
  destruct (read_value fd idx o off w) as [vb| | |]; try reflexivity. cbn [obind].
  rewrite store_value_relabel, obind_omap.
  destruct (store_value (df_ty fd) anam idx (fst vb) o) as [o1| | |] eqn:E1; try reflexivity. cbn [obind].
  assert (SC1 : same_class o1) by (eapply same_class_frame; [eapply store_value_frame; exact E1|exact SC]).
  rewrite (post_mask_relabel ident anam (snd vb) o1 SC1), obind_omap.
  destruct (post_mask T ident anam (snd vb) o1) as [o2| | |]; try reflexivity. cbn [obind].
  rewrite post_harm_relabel, obind_omap.
  destruct (post_harm T anam idx o2) as [o3| | |]; reflexivity.
Qed.

Definition Rrel (s s':st) : Prop := same_class (fst s) /\ s' = relabel_st s.

Lemma osim_omap_eq {A B} (f:A -> B) (R:A -> B -> Prop) (r:outcome A) :
  (forall a, r = Ok a -> R a (f a)) -> osim R true r (omap f r).
Proof.
  intro H. destruct r as [a| | |]; cbn; auto. exists (f a). split; [reflexivity|]. apply H. reflexivity.
Qed.

Lemma Rrel_single ident anam idx s s' : Rrel s s' ->
  osim Rrel true (set_single T ident anam idx s) (set_single T ident anam idx s').
Proof.
  intros [SC ->]. destruct s as [o off]. unfold relabel_st. cbn [fst snd] in *.
  rewrite (set_single_relabel ident anam idx o off SC).
  apply osim_omap_eq. intros [o1 off1] E. split; [|reflexivity]. cbn [fst].
  eapply same_class_frame; [eapply set_single_frame; exact E|exact SC].
Qed.

Lemma Rrel_getattr k s s' : Rrel s s' -> osim ctl_rel true (getattr (fst s) k) (getattr (fst s') k).
Proof.
  intros [_ ->]. unfold relabel_st. cbn [fst].
  change (getattr (relabel l (fst s)) k) with (getattr (fst s) k).
  destruct (getattr (fst s) k) as [v| | |]; cbn; auto. exists v. split; [reflexivity|apply ctl_rel_refl].
Qed.

Lemma outcome_eq_of_osim (r r':outcome st) : osim Rrel true r r' -> r' = omap relabel_st r.
Proof.
  destruct r as [a|e|k|w]; cbn.
  - intros [b [-> [_ ->]]]. reflexivity.
  - intro H. apply H. reflexivity.
  - intro H. apply H. reflexivity.
  - intro H. apply H. reflexivity.
Qed.

Lemma walk_body_relabel ident b idx o off : same_class o ->
  dec_body T ident b idx (relabel l o, off) = omap relabel_st (dec_body T ident b idx (o, off)).
Proof.
  intro SC. apply outcome_eq_of_osim.
  apply (sim_body T ident Rrel true (Rrel_single ident) Rrel_getattr).
  split; [exact SC|reflexivity].
Qed.

Lemma decode_raw_relabel p l1 : (l1 =? 2) = (l =? 2) ->
  decode_raw T (obj0 p l) = omap relabel_st (decode_raw T (obj0 p l1)).
Proof.
  intro SC. change (obj0 p l) with (relabel l (obj0 p l1)).
  unfold decode_raw. cbn [relabel o_payload]. change (o_payload (obj0 p l1)) with p.
  destruct (identity p) as [ident| | |]; try reflexivity. cbn [obind].
  destruct (get_dict T ident) as [pdict|].
  - apply walk_body_relabel. exact SC.
  - rewrite setattr_relabel, obind_omap.
    destruct (setattr (obj0 p l1) "DF002" (VStr (codes ident))); reflexivity.
Qed.

Lemma handler_omap {A B} (f:A -> B) p (r:outcome A) : handler p (omap f r) = omap f (handler p r).
Proof. destruct r; cbn; try reflexivity; destruct (identity p); reflexivity. Qed.

Lemma decode_run_relabel p l1 : (l1 =? 2) = (l =? 2) ->
  decode_run T p l = omap relabel_st (decode_run T p l1).
Proof.
  intro SC. unfold decode_run. destruct (too_short p); [reflexivity|].
  rewrite (decode_raw_relabel p l1 SC). apply handler_omap.
Qed.
End Relabel.
End Lab.

(* ================= j. the theorems ================= *)
(* names in order, values equal except both-strings at CSG-written names *)
Definition attrs_agree (T:tables) (a a':list (string*value)) : Prop := arel T a a'.

Lemma attrs_agree_names T a a' : attrs_agree T a a' -> map fst a = map fst a'.
Proof. induction 1 as [|e e' r r' [K _] _ IH]; cbn [map]; [reflexivity|]. now rewrite K, IH. Qed.

Lemma attrs_agree_values T a a' : attrs_agree T a a' ->
  forall k, match assoc k a, assoc k a' with
            | None, None => True
            | Some v, Some v' => v = v' \/ (csg_name T k /\ exists s s', v = VStr s /\ v' = VStr s')
            | _, _ => False
            end.
Proof. intros A k. exact (assoc_arel T k a a' A). Qed.

Theorem label_indep : forall T p l1 l2,
  match construct T (Some p) l1, construct T (Some p) l2 with
  | Ok o1, Ok o2 =>
      attrs_agree T (o_attrs o1) (o_attrs o2) /\
      o_satmap o1 = o_satmap o2 /\
      cmrel (o_cellmap o1) (o_cellmap o2) /\
      o_unknown o1 = o_unknown o2 /\ o_payload o1 = o_payload o2 /\ o_immutable o1 = o_immutable o2
  | Lib e1, Lib e2 => e1 = e2
  | Foreign k1, Foreign k2 => k1 = k2
  | Unmodelled w1, Unmodelled w2 => w1 = w2
  | _, _ => False
  end.
Proof.
  intros T p l1 l2. pose proof (construct_lab T p l1 l2) as H.
  destruct (construct T (Some p) l1) as [o1|e|k|w]; cbn [osim] in H.
  - destruct H as [o2 [-> [I [P [Pi [U [S [C A]]]]]]]]. repeat split; assumption.
  - rewrite (H eq_refl). reflexivity.
  - rewrite (H eq_refl). reflexivity.
  - rewrite (H eq_refl). reflexivity.
Qed.

(* the option matters only through "is it 2": same class, same result (up to the stored option itself) *)
Theorem label_indep_same_class : forall T p l1 l2,
  (l1 =? 2) = (l2 =? 2) ->
  construct T (Some p) l2 = omap (relabel l2) (construct T (Some p) l1).
Proof.
  intros T p l1 l2 SC. rewrite !construct_decode_run.
  rewrite (decode_run_relabel T l2 p l1 SC).
  destruct (decode_run T p l1) as [[o t]| | |]; reflexivity.
Qed.

Corollary label_indep_same_class_attrs : forall T p l1 l2 o1,
  (l1 =? 2) = (l2 =? 2) -> construct T (Some p) l1 = Ok o1 ->
  exists o2, construct T (Some p) l2 = Ok o2 /\ o_attrs o2 = o_attrs o1 /\
             o_satmap o2 = o_satmap o1 /\ o_cellmap o2 = o_cellmap o1 /\ o_unknown o2 = o_unknown o1.
Proof.
  intros T p l1 l2 o1 SC E. rewrite (label_indep_same_class T p l1 l2 SC), E.
  exists (relabel l2 o1). repeat split.
Qed.

(* messages whose walk never builds the cell map (everything that is not MSM) are entirely unaffected:
   with no CSG-typed field in the table there is no CSG name, so all attribute values are equal *)
Corollary label_indep_no_csg : forall T p l1 l2 o1 o2,
  (forall fd, In fd (t_fields T) -> df_ty fd <> TCSG) ->
  construct T (Some p) l1 = Ok o1 -> construct T (Some p) l2 = Ok o2 -> o_attrs o1 = o_attrs o2.
Proof.
  intros T p l1 l2 o1 o2 NC E1 E2. pose proof (label_indep T p l1 l2) as H. rewrite E1, E2 in H.
  destruct H as [A _]. clear E1 E2. unfold attrs_agree in A.
  induction A as [|[k v] [k' v'] r r' [K V] _ IH]; [reflexivity|].
  cbn [fst snd] in K, V. subst k'. f_equal; [|exact IH].
  destruct V as [->|[[anam [idx [fd [F [TY _]]]]] _]]; [reflexivity|].
  apply find_field_some in F. destruct F as [I _]. exfalso. exact (NC fd I TY).
Qed.
