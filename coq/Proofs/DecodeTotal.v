(* C04, constructor part, closing the model's `Unmodelled` gap: under the decidable table condition
   Spec.TotalWf.tables_total_ok the constructor returns a message or one of the library's errors - the model
   never answers `Unmodelled` (and, by DecodeWalk.construct_no_foreign, never a foreign exception). *)
From Coq Require Import NArith ZArith List String Bool Lia PrimFloat.
From PyRtcm Require Import Base.Bytes Base.Dec Model.Types Model.Message Spec.FieldGrammar Spec.MsmMasks Spec.Layouts Spec.TotalWf.
From PyRtcm Require Proofs.MsmProofs.
From PyRtcm Require Import Proofs.DecodeBits Proofs.DecodeWalk Proofs.DecodeExtend Proofs.DecodeWalkKeys Proofs.DecodeLabel2.
Import ListNotations.
Open Scope list_scope.
Open Scope Z_scope.

(* ================= strings ================= *)
Lemma prefix_nil s : String.prefix "" s = true.
Proof. destruct s; reflexivity. Qed.

Lemma prefix_refl' a : String.prefix a a = true.
Proof. induction a as [|c a IH]; [reflexivity|]. cbn. destruct (Ascii.ascii_dec c c); [exact IH|congruence]. Qed.

Lemma prefix_app_r' a : forall b c, String.prefix a b = true -> String.prefix a (b ++ c)%string = true.
Proof.
  induction a as [|x a IH]; intros b c H; [apply prefix_nil|].
  destruct b as [|y b]; [discriminate|]. cbn in *.
  destruct (Ascii.ascii_dec x y); [apply IH, H|discriminate].
Qed.

Lemma prefix_comparable : forall a b s,
  String.prefix a s = true -> String.prefix b s = true -> comparable a b = true.
Proof.
  unfold comparable. induction a as [|x a IH]; intros b s Ha Hb.
  - rewrite prefix_nil. reflexivity.
  - destruct b as [|y b]; [rewrite prefix_nil; apply orb_true_r|].
    destruct s as [|z s]; [discriminate|]. cbn in Ha, Hb.
    destruct (Ascii.ascii_dec x z) as [->|]; [|discriminate].
    destruct (Ascii.ascii_dec y z) as [->|]; [|discriminate].
    cbn. destruct (Ascii.ascii_dec z z); [|congruence]. eapply IH; eauto.
Qed.

Lemma render_name_prefix' key idxs : String.prefix key (render_name key idxs) = true.
Proof.
  unfold render_name.
  assert (G : forall s, String.prefix key s = true ->
            String.prefix key (fold_left (fun s i => if 0 <? i then (s ++ idx_suffix i)%string else s) idxs s) = true).
  { induction idxs as [|i r IH]; intros s H; [exact H|]. cbn [fold_left]. apply IH.
    destruct (0 <? i); [apply prefix_app_r', H|exact H]. }
  apply G, prefix_refl'.
Qed.

(* ================= outcomes that are not `Unmodelled` ================= *)
Definition tot {A} (Q:A -> Prop) (r:outcome A) : Prop :=
  match r with Ok a => Q a | Unmodelled _ => False | _ => True end.

Lemma tot_bind {A B} (Q:A -> Prop) (S:B -> Prop) r (f:A -> outcome B) :
  tot Q r -> (forall a, Q a -> tot S (f a)) -> tot S (obind r f).
Proof. destruct r; cbn; auto. Qed.

Lemma tot_weaken {A} (Q S:A -> Prop) r : (forall a, Q a -> S a) -> tot Q r -> tot S r.
Proof. destruct r; cbn; auto. Qed.

Lemma tot_ok {A} (Q:A -> Prop) a : Q a -> tot Q (Ok a).
Proof. auto. Qed.

(* ================= the invariant on the attribute dictionary ================= *)
Section Total.
Variable T : tables.

(* some float-scaled field could have written nm *)
Definition floaty (nm:string) : bool :=
  existsb (fun fd => uses_scale (df_ty fd) && is_float_res (df_res fd) && String.prefix (df_key fd) nm) (t_fields T).

Definition good (nm:string) (v:value) : Prop :=
  match v with
  | VStr _ => True
  | VFloat _ => floaty nm = true
  | VInt z => forall c, cap T nm = Some c -> Z.abs z <= c
  end.

Definition Inv (a:list (string*value)) : Prop := forall nm v, In (nm, v) a -> good nm v.

Lemma In_upd {A} k (v0:A) a nm v : In (nm, v) (upd k v0 a) -> (nm = k /\ v = v0) \/ In (nm, v) a.
Proof.
  induction a as [|[k' v'] r IH]; cbn [upd].
  - intros [E|[]]. inversion E. auto.
  - destruct (String.eqb k' k) eqn:E.
    + apply String.eqb_eq in E. subst k'. intros [H|H]; [inversion H; auto|right; right; exact H].
    + intros [H|H]; [right; left; exact H|]. destruct (IH H) as [X|X]; [left; exact X|right; right; exact X].
Qed.

Lemma Inv_upd a k v : Inv a -> good k v -> Inv (upd k v a).
Proof.
  intros I G nm v' H. apply In_upd in H. destruct H as [[-> ->]|H]; [exact G|apply I, H].
Qed.

Lemma Inv_nil : Inv [].
Proof. intros nm v []. Qed.

Definition InvO (o:obj) : Prop := Inv (o_attrs o).

Lemma setattr_tot o k v : InvO o -> good k v -> tot InvO (setattr o k v).
Proof.
  intros I G. unfold setattr. destruct (o_immutable o); [exact Logic.I|]. cbn. apply Inv_upd; assumption.
Qed.

(* ---- the table condition, unpacked ---- *)
Hypothesis Hok : tables_total_ok T = true.

Lemma Hfields : forall fd, In fd (t_fields T) -> field_ok T fd = true.
Proof.
  unfold tables_total_ok in Hok. apply andb_true_iff in Hok. destruct Hok as [H _].
  apply andb_true_iff in H. destruct H as [H _]. apply andb_true_iff in H. destruct H as [_ H].
  rewrite forallb_forall in H. exact H.
Qed.

Lemma Hderived : derived_ok T = true.
Proof.
  unfold tables_total_ok in Hok. apply andb_true_iff in Hok. destruct Hok as [H _].
  apply andb_true_iff in H. destruct H as [_ H]. exact H.
Qed.

Lemma Hlayouts : forall ident b, In (ident, b) (all_layouts T) -> tot_body b = true.
Proof.
  unfold tables_total_ok in Hok. apply andb_true_iff in Hok. destruct Hok as [_ H].
  rewrite forallb_forall in H. intros ident b I. exact (H (ident, b) I).
Qed.

(* a float-scaled field is never comparable with a capped name, nor a prefix of a plainly read one *)
Lemma float_field_facts fd :
  In fd (t_fields T) -> uses_scale (df_ty fd) = true -> is_float_res (df_res fd) = true ->
  df_bits fd <= 53 /\ String.eqb (df_key fd) "DF396" = false /\ kcap T (df_key fd) = None /\
  (forall nm, In nm (plain_reads T) -> String.prefix (df_key fd) nm = false).
Proof.
  intros I U F. pose proof (Hfields fd I) as H. unfold field_ok in H. rewrite U, F in H.
  apply andb_true_iff in H. destruct H as [_ H].
  apply andb_true_iff in H. destruct H as [H H4].
  apply andb_true_iff in H. destruct H as [H H3].
  apply andb_true_iff in H. destruct H as [H1 H2].
  apply Z.leb_le in H1. apply negb_true_iff in H2.
  split; [exact H1|]. split; [exact H2|]. split.
  - destruct (kcap T (df_key fd)); [discriminate|reflexivity].
  - intros nm Inm. apply negb_true_iff in H4.
    destruct (String.prefix (df_key fd) nm) eqn:P; [|reflexivity].
    assert (X : existsb (String.prefix (df_key fd)) (plain_reads T) = true)
      by (apply existsb_exists; exists nm; auto). congruence.
Qed.

Lemma kcap_of_cap k nm c : String.prefix k nm = true -> cap T nm = Some c ->
  exists c', kcap T k = Some c' /\ c' <= c.
Proof.
  intros P C. unfold cap in C. unfold kcap.
  destruct (String.prefix "IDF037_" nm || String.prefix "IDF038_" nm) eqn:E1.
  - inversion C. subst c.
    assert (X : comparable k "IDF037_" || comparable k "IDF038_" = true).
    { apply orb_true_iff in E1. apply orb_true_iff. destruct E1 as [E|E]; [left|right]; eapply prefix_comparable; eauto. }
    rewrite X. exists cap_harm. split; [reflexivity|lia].
  - destruct (comparable k "IDF037_" || comparable k "IDF038_"); [exists cap_harm; split; [reflexivity|]|].
    { destruct (String.eqb nm (t_nsat T) || String.eqb nm (t_nsig T)); [inversion C; unfold cap_harm, cap_mask; lia|].
      destruct (existsb (fun b => String.prefix b nm) (bases T)); inversion C. unfold cap_harm, cap_count. lia. }
    destruct (String.eqb nm (t_nsat T) || String.eqb nm (t_nsig T)) eqn:E2.
    + inversion C. subst c.
      assert (X : String.prefix k (t_nsat T) || String.prefix k (t_nsig T) = true).
      { apply orb_true_iff in E2. apply orb_true_iff.
        destruct E2 as [E|E]; apply String.eqb_eq in E; subst nm; auto. }
      rewrite X. exists cap_mask. split; [reflexivity|lia].
    + destruct (String.prefix k (t_nsat T) || String.prefix k (t_nsig T)).
      { exists cap_mask. split; [reflexivity|].
        destruct (existsb (fun b => String.prefix b nm) (bases T)); inversion C. unfold cap_mask, cap_count. lia. }
      destruct (existsb (fun b => String.prefix b nm) (bases T)) eqn:E3; [|discriminate].
      inversion C. subst c.
      assert (X : existsb (comparable k) (bases T) = true).
      { apply existsb_exists in E3. destruct E3 as [b [Ib Pb]]. apply existsb_exists. exists b. split; [exact Ib|].
        eapply prefix_comparable; eauto. }
      rewrite X. exists cap_count. split; [reflexivity|lia].
Qed.

Lemma floaty_inv nm : floaty nm = true ->
  exists fd, In fd (t_fields T) /\ uses_scale (df_ty fd) = true /\ is_float_res (df_res fd) = true /\
             String.prefix (df_key fd) nm = true.
Proof.
  unfold floaty. intro H. apply existsb_exists in H. destruct H as [fd [I H]].
  apply andb_true_iff in H. destruct H as [H P]. apply andb_true_iff in H. destruct H as [U F]. eauto.
Qed.

Lemma cap_not_floaty nm c : cap T nm = Some c -> floaty nm = false.
Proof.
  intro C. destruct (floaty nm) eqn:F; [|reflexivity]. exfalso.
  apply floaty_inv in F. destruct F as [fd [I [U [F P]]]].
  destruct (float_field_facts fd I U F) as [_ [_ [K _]]].
  destruct (kcap_of_cap _ _ _ P C) as [c' [K' _]]. congruence.
Qed.

Lemma plain_not_floaty nm : In nm (plain_reads T) -> floaty nm = false.
Proof.
  intro Inm. destruct (floaty nm) eqn:F; [|reflexivity]. exfalso.
  apply floaty_inv in F. destruct F as [fd [I [U [F P]]]].
  destruct (float_field_facts fd I U F) as [_ [_ [_ K]]]. rewrite (K nm Inm) in P. discriminate.
Qed.

(* ---- reading an integer attribute ---- *)
Lemma getint_tot o nm : InvO o -> floaty nm = false ->
  tot (fun z => forall c, cap T nm = Some c -> Z.abs z <= c) (getint o nm).
Proof.
  intros I NF. unfold getint, getattr. destruct (assoc nm (o_attrs o)) as [v|] eqn:A; [|exact Logic.I].
  apply assoc_In in A. pose proof (I nm v A) as G. cbn [obind].
  destruct v as [z|f|s]; cbn in *; [exact G|congruence|exact Logic.I].
Qed.

Lemma getint_tot_capped o nm c : InvO o -> cap T nm = Some c -> tot (fun z => Z.abs z <= c) (getint o nm).
Proof.
  intros I C. eapply tot_weaken; [|apply getint_tot; [exact I|eapply cap_not_floaty; exact C]].
  intros z H. apply H, C.
Qed.

Lemma getint_tot_plain o nm : InvO o -> In nm (plain_reads T) -> tot (fun _ => True) (getint o nm).
Proof.
  intros I P. eapply tot_weaken; [|apply getint_tot; [exact I|apply plain_not_floaty, P]]. auto.
Qed.

Lemma cap_nsat : exists c, cap T (t_nsat T) = Some c /\ c <= cap_mask.
Proof.
  unfold cap. destruct (String.prefix "IDF037_" (t_nsat T) || String.prefix "IDF038_" (t_nsat T)).
  - exists cap_harm. split; [reflexivity|unfold cap_harm, cap_mask; lia].
  - rewrite String.eqb_refl. cbn [orb]. exists cap_mask. split; [reflexivity|lia].
Qed.

Lemma cap_nsig : exists c, cap T (t_nsig T) = Some c /\ c <= cap_mask.
Proof.
  unfold cap. destruct (String.prefix "IDF037_" (t_nsig T) || String.prefix "IDF038_" (t_nsig T)).
  - exists cap_harm. split; [reflexivity|unfold cap_harm, cap_mask; lia].
  - rewrite String.eqb_refl, orb_true_r. exists cap_mask. split; [reflexivity|lia].
Qed.

Lemma cap_allows_spec nm c c' : cap_allows T nm c = true -> cap T nm = Some c' -> c <= c'.
Proof. unfold cap_allows. intros H E. rewrite E in H. apply Z.leb_le, H. Qed.

(* ================= values read from the payload ================= *)
Lemma get_bits_range V L off w bits : get_bits V L off w = Ok bits -> 0 <= w /\ 0 <= Z.of_N bits < 2^w.
Proof.
  unfold get_bits. destruct ((L - off - w <? 0) || (w <? 0)) eqn:C; [discriminate|].
  apply orb_false_iff in C. destruct C as [_ C]. apply Z.ltb_ge in C. intro E. apply ok_inj in E. subst bits.
  split; [exact C|]. split; [lia|].
  rewrite N.land_ones.
  assert (P : (2 ^ Z.to_N w <> 0)%N) by (apply N.pow_nonzero; lia).
  pose proof (N.mod_lt (N.shiftr V (Z.to_N (L - off - w))) _ P) as H.
  apply N2Z.inj_lt in H. rewrite N2Z.inj_pow, Z2N.id in H by exact C. exact H.
Qed.

Lemma testbit_ge zb k : 0 <= k -> 0 <= zb -> Z.testbit zb k = true -> 2^k <= zb.
Proof.
  intros Hk Hz Ht. destruct (Z_lt_le_dec zb (2^k)) as [L|L]; [|exact L].
  rewrite (testbit_top_clear zb k Hk (conj Hz L)) in Ht. discriminate.
Qed.

Definition valspec (fd:dfield) (w:Z) (v:value) : Prop :=
  match v with
  | VStr _ => True
  | VFloat _ => uses_scale (df_ty fd) = true /\ is_float_res (df_res fd) = true
  | VInt z => uses_scale (df_ty fd) = true /\ (res_is_unit (df_res fd) = true -> Z.abs z <= 2^w - 1)
  end.

Definition not_bad (r:res) : Prop := match r with RBad _ => False | _ => True end.

Lemma pow53 w : w <= 53 -> 2^w <= 2^53.
Proof. intro H. apply Z.pow_le_mono_r; lia. Qed.

Lemma scale_tot val r w :
  Z.abs val <= 2^w - 1 -> not_bad r -> (is_float_res r = true -> w <= 53) ->
  tot (fun v => match v with
                | VStr _ => True
                | VFloat _ => is_float_res r = true
                | VInt z => res_is_unit r = true -> Z.abs z <= 2^w - 1
                end) (scale val r).
Proof.
  intros B NB FW. destruct r as [z|f|bad]; cbn [scale res_is_unit is_float_res] in *.
  - destruct ((z =? 0) || (z =? 1)); cbn; [auto|discriminate].
  - destruct ((f =? 0)%float || (f =? 1)%float); cbn [negb] in *; [cbn; auto|].
    pose proof (pow53 w (FW eq_refl)) as P.
    replace (Z.abs val <? 2 ^ 53) with true by (symmetry; apply Z.ltb_lt; lia).
    cbn. reflexivity.
  - contradiction.
Qed.

Lemma pow2_double w : 1 <= w -> 2^w = 2 * 2^(w-1).
Proof. intro H. replace w with (Z.succ (w-1)) at 1 by lia. rewrite Z.pow_succ_r by lia. reflexivity. Qed.

Lemma bit_value_tot fd w bits :
  0 <= Z.of_N bits < 2^w -> 0 <= w -> is_label_ty (df_ty fd) = false ->
  (uses_scale (df_ty fd) = true -> not_bad (df_res fd) /\ (is_float_res (df_res fd) = true -> w <= 53)) ->
  (df_ty fd = TCHA -> res_is_unit (df_res fd) = true) ->
  tot (fun vb => snd vb = Some bits /\ valspec fd w (fst vb)) (bit_value fd w bits).
Proof.
  intros [B0 B1] W LT C1 C2. unfold bit_value.
  assert (SC : forall val, Z.abs val <= 2^w - 1 -> uses_scale (df_ty fd) = true ->
            tot (fun vb => snd vb = Some bits /\ valspec fd w (fst vb)) (do v <- scale val (df_res fd); Ok (v, Some bits))).
  { intros val Bv U. destruct (C1 U) as [NB FW].
    eapply tot_bind; [apply (scale_tot val (df_res fd) w Bv NB FW)|].
    intros v Hv. cbn. split; [reflexivity|]. destruct v; cbn; auto. }
  destruct (df_ty fd) eqn:TY; try (apply SC; [lia|reflexivity]); try discriminate LT.
  - (* CHA *) destruct (1114112 <=? bits)%N; [exact I|]. rewrite (C2 eq_refl). cbn. auto.
  - (* STR *) destruct (bits =? 0)%N; [cbn; auto|]. destruct (1114112 <=? bits)%N; cbn; auto.
  - (* INT *) destruct (w <? 1) eqn:W1; [exact I|]. apply Z.ltb_ge in W1. cbv zeta.
    apply SC; [|reflexivity].
    pose proof (pow2_double w W1) as D. assert (P : 0 < 2^(w-1)) by (apply Z.pow_pos_nonneg; lia).
    rewrite land_pow2_testbit by lia.
    destruct (Z.testbit (Z.of_N bits) (w-1)) eqn:TB.
    + assert (K0 : 0 <= w - 1) by lia. pose proof (testbit_ge (Z.of_N bits) (w-1) K0 B0 TB) as G.
      destruct (Z.eqb_spec (2^(w-1)) 0); lia.
    + cbn [Z.eqb]. lia.
  - (* SNT *) destruct (w <? 1) eqn:W1; [exact I|]. apply Z.ltb_ge in W1. cbv zeta.
    apply SC; [|reflexivity].
    pose proof (pow2_double w W1) as D. assert (P : 0 < 2^(w-1)) by (apply Z.pow_pos_nonneg; lia).
    replace (2^(w-1) - 1) with (Z.ones (w-1)) by (rewrite Z.ones_equiv; lia).
    rewrite Z.land_ones by lia.
    pose proof (Z.mod_pos_bound (Z.of_N bits) (2^(w-1)) P) as M.
    destruct (Z.land (Z.of_N bits) (2^(w-1)) =? 0); lia.
Qed.

(* ================= one field step ================= *)
Lemma filter_len_le {A} (f:A -> bool) l : (List.length (filter f l) <= List.length l)%nat.
Proof. induction l as [|x l IH]; cbn; [lia|]. destruct (f x); cbn; lia. Qed.

Lemma popcount_le bits w : 0 <= w -> 0 <= Z.of_N bits < 2^w -> 0 <= popcount bits <= w.
Proof.
  intros W [_ B].
  assert (Bn : (bits < 2 ^ N.of_nat (Z.to_nat w))%N).
  { apply N2Z.inj_lt. rewrite N2Z.inj_pow, nat_N_Z, Z2Nat.id by exact W. exact B. }
  rewrite (MsmProofs.popcount_positions (Z.to_nat w) bits Bn).
  unfold positions. rewrite MsmProofs.positions_from_length.
  pose proof (filter_len_le (fun b:bool => b) (bits_of (Z.to_nat w) bits)) as L.
  rewrite bits_of_length in L. lia.
Qed.

Lemma good_of_valspec fd anam w v :
  find_field T anam = Some fd -> (String.eqb anam "DF396" = false -> w = df_bits fd) ->
  valspec fd w v -> forall nm, String.prefix anam nm = true -> good nm v.
Proof.
  intros F Wd VS nm P. destruct (find_field_some T anam fd F) as [I K].
  destruct v as [z|f|s]; cbn in *; [|destruct VS as [U FR]|exact Logic.I].
  - destruct VS as [U VS]. intros c C.
    destruct (kcap_of_cap anam nm c P C) as [c' [KC LE]].
    pose proof (Hfields fd I) as FO. unfold field_ok in FO. rewrite U, K in FO.
    apply andb_true_iff in FO. destruct FO as [_ FO].
    destruct (is_float_res (df_res fd)).
    + rewrite KC in FO. rewrite !andb_false_r in FO. cbn in FO. rewrite ?andb_false_r in FO. discriminate.
    + rewrite KC in FO. unfold int_fits in FO. rewrite K in FO.
      apply andb_true_iff in FO. destruct FO as [FO F4].
      apply andb_true_iff in FO. destruct FO as [FO _].
      apply andb_true_iff in FO. destruct FO as [F1 F2].
      apply negb_true_iff in F2. apply Z.leb_le in F4.
      rewrite (Wd F2) in VS. specialize (VS F1). lia.
  - unfold floaty. apply existsb_exists. exists fd. split; [exact I|]. rewrite U, FR, K, P. reflexivity.
Qed.

Lemma store_value_tot ty anam idx v o :
  InvO o -> (forall nm, String.prefix anam nm = true -> good nm v) -> tot InvO (store_value ty anam idx v o).
Proof.
  intros I G. unfold store_value.
  assert (G1 : good (render_name anam idx) v) by apply G, render_name_prefix'.
  assert (G2 : good anam v) by apply G, prefix_refl'.
  destruct ty; try (apply setattr_tot; assumption).
  destruct (assoc anam (o_attrs o)) as [old|]; [|apply setattr_tot; assumption].
  destruct old as [z|f|old]; try exact Logic.I.
  destruct v as [z|f|new]; try exact Logic.I. apply setattr_tot; [exact I|exact Logic.I].
Qed.

Lemma in_plain_reads nm : In nm [t_nsat T; t_nsig T; "DF394"%string; "DF395"%string; "DF396"%string] -> In nm (plain_reads T).
Proof. intro H. unfold plain_reads. apply in_app_iff. right. exact H. Qed.

Lemma getsatcellmaps_tot ident o : InvO o -> tot InvO (getsatcellmaps T ident o).
Proof.
  intro I. unfold getsatcellmaps.
  destruct (assoc (substring 0 3 ident) (t_prnsig T)) as [[prnmap sigmap]|]; [|exact Logic.I].
  eapply tot_bind; [apply (getint_tot_plain o "DF394" I), in_plain_reads; cbn; auto|]. intros d4 _.
  eapply tot_bind; [apply (getint_tot_plain o "DF395" I), in_plain_reads; cbn; auto|]. intros d5 _.
  eapply tot_bind; [apply (getint_tot_plain o "DF396" I), in_plain_reads; cbn; auto 6|]. intros d6 _.
  exact I.
Qed.

Lemma good_int_allowed nm z c : cap_allows T nm c = true -> Z.abs z <= c -> good nm (VInt z).
Proof. intros A B c' C. pose proof (cap_allows_spec nm c c' A C). lia. Qed.

Definition derived_facts :
  (forall fd, find_field T "DF394" = Some fd -> cap_allows T (t_nsat T) (df_bits fd) = true) /\
  (forall fd, find_field T "DF395" = Some fd -> cap_allows T (t_nsig T) (df_bits fd) = true) /\
  cap_allows T (t_ncell T) cap_count = true /\ cap_allows T (t_nharmc T) cap_count = true /\
  cap_allows T (t_nharms T) cap_count = true.
Proof.
  pose proof Hderived as H. unfold derived_ok in H.
  apply andb_true_iff in H. destruct H as [H H5].
  apply andb_true_iff in H. destruct H as [H H4].
  apply andb_true_iff in H. destruct H as [H H3].
  apply andb_true_iff in H. destruct H as [H1 H2].
  repeat split; try assumption.
  - intros fd F. rewrite F in H1. exact H1.
  - intros fd F. rewrite F in H2. exact H2.
Qed.

Lemma post_mask_tot ident anam fd w bits o :
  find_field T anam = Some fd -> InvO o -> 0 <= w -> 0 <= Z.of_N bits < 2^w ->
  ((String.eqb anam "DF396" = false /\ w = df_bits fd) \/ (String.eqb anam "DF396" = true /\ w <= cap_count)) ->
  tot InvO (post_mask T ident anam (Some bits) o).
Proof.
  intros F I W B Wd. unfold post_mask. destruct (is_mask_name anam) eqn:M; [|exact I].
  destruct derived_facts as [D4 [D5 [DC _]]].
  pose proof (popcount_le bits w W B) as PC.
  unfold is_mask_name in M.
  destruct (String.eqb anam "DF394") eqn:E4.
  { apply String.eqb_eq in E4. subst anam. destruct Wd as [[_ ->]|[X _]]; [|discriminate].
    apply setattr_tot; [exact I|]. eapply good_int_allowed; [apply D4, F|lia]. }
  destruct (String.eqb anam "DF395") eqn:E5.
  { apply String.eqb_eq in E5. subst anam. destruct Wd as [[_ ->]|[X _]]; [|discriminate].
    apply setattr_tot; [exact I|]. eapply good_int_allowed; [apply D5, F|lia]. }
  cbn [orb] in M.
  eapply tot_bind; [|intros o' I'; apply getsatcellmaps_tot, I'].
  apply setattr_tot; [exact I|]. eapply good_int_allowed; [exact DC|].
  destruct Wd as [[X _]|[_ Wc]]; [congruence|lia].
Qed.

(* ---- harmonic coefficient counts ---- *)
Lemma tri_bounds x K : Z.abs x <= K -> 0 <= x * (x + 1) / 2 <= K * (K + 1) / 2.
Proof.
  intro H. split.
  - apply Z.div_pos; [nia|lia].
  - apply Z.div_le_mono; [lia|nia].
Qed.

Lemma harm_bounds n0 m0 : Z.abs n0 <= cap_harm -> Z.abs m0 <= cap_harm ->
  let N' := n0 + 1 in let M' := m0 + 1 in
  let nc := ((N' + 1) * (N' + 2)) / 2 - ((N' - M') * (N' - M' + 1)) / 2 in
  let ns := nc - (N' + 1) in
  Z.abs N' <= 512 /\ Z.abs M' <= 512 /\ Z.abs nc <= cap_count /\ Z.abs ns <= cap_count.
Proof.
  unfold cap_harm, cap_count. intros Hn Hm. set (N' := n0 + 1). set (M' := m0 + 1).
  assert (A : 0 <= (N' + 1) * (N' + 2) / 2 <= 513 * (513 + 1) / 2).
  { replace (N' + 2) with ((N' + 1) + 1) by lia. apply tri_bounds. unfold N'. lia. }
  assert (B : 0 <= (N' - M') * (N' - M' + 1) / 2 <= 1022 * (1022 + 1) / 2).
  { apply tri_bounds. unfold N', M'. lia. }
  change (513 * (513 + 1) / 2) with 131841 in A. change (1022 * (1022 + 1) / 2) with 522753 in B.
  unfold N', M' in *. repeat split; lia.
Qed.

Lemma cap_harm_name pre x : (pre = "IDF037_" \/ pre = "IDF038_")%string -> cap T (pre ++ x)%string = Some cap_harm.
Proof.
  intro H. unfold cap.
  assert (X : String.prefix "IDF037_" (pre ++ x)%string || String.prefix "IDF038_" (pre ++ x)%string = true).
  { apply orb_true_iff. destruct H as [->| ->]; [left|right]; apply prefix_app_r', prefix_refl'. }
  rewrite X. reflexivity.
Qed.

Lemma post_harm_tot anam idx o : InvO o -> tot InvO (post_harm T anam idx o).
Proof.
  intro I. unfold post_harm. destruct (String.eqb anam "IDF038"); [|exact I].
  unfold harmonic_counts. destruct (first_index idx) as [i| | |] eqn:FI; cbn [obind]; try exact Logic.I.
  - destruct (i <? 0); [exact Logic.I|].
    eapply tot_bind; [apply (getint_tot_capped o _ cap_harm I), cap_harm_name; auto|]. intros n0 Hn.
    eapply tot_bind; [apply (getint_tot_capped o _ cap_harm I), cap_harm_name; auto|]. intros m0 Hm.
    destruct (harm_bounds n0 m0 Hn Hm) as [BN [BM [BC BS]]].
    change (2^24) with 16777216.
    replace ((16777216 <? Z.abs (n0 + 1)) || (16777216 <? Z.abs (m0 + 1))) with false
      by (symmetry; apply orb_false_iff; split; apply Z.ltb_ge; lia).
    destruct derived_facts as [_ [_ [_ [DC DS]]]].
    eapply tot_bind; [apply setattr_tot; [exact I|eapply good_int_allowed; [exact DC|exact BC]]|].
    intros o' I'. apply setattr_tot; [exact I'|eapply good_int_allowed; [exact DS|exact BS]].
  - destruct idx; discriminate.
Qed.

(* ---- the whole step ---- *)
Lemma field_width_tot anam fd o : InvO o ->
  tot (fun w => (String.eqb anam "DF396" = false /\ w = df_bits fd) \/ (String.eqb anam "DF396" = true /\ w <= cap_count))
      (field_width T anam fd o).
Proof.
  intro I. unfold field_width. destruct (String.eqb anam "DF396"); [|cbn; auto].
  destruct cap_nsat as [c1 [C1 L1]]. destruct cap_nsig as [c2 [C2 L2]].
  eapply tot_bind; [apply (getint_tot_capped o _ c1 I C1)|]. intros a Ha.
  eapply tot_bind; [apply (getint_tot_capped o _ c2 I C2)|]. intros b Hb.
  cbn. right. split; [reflexivity|]. unfold cap_mask, cap_count in *. nia.
Qed.

Lemma label_lookup_tot {A} idx (m:option (list (Z*A))) (f:A -> string) :
  tot (fun vb => snd vb = None /\ exists s, fst vb = VStr s) (label_lookup idx m f).
Proof.
  unfold label_lookup. destruct (first_index idx) as [i| | |] eqn:FI; cbn [obind]; try exact Logic.I.
  - destruct m as [m|]; [|exact Logic.I]. destruct (zassoc i m); cbn; eauto.
  - destruct idx; discriminate.
Qed.

Definition vb_ok (fd:dfield) (w:Z) (vb:value * option N) : Prop :=
  (snd vb = None /\ exists s, fst vb = VStr s) \/
  (exists bits, snd vb = Some bits /\ 0 <= w /\ 0 <= Z.of_N bits < 2^w /\ valspec fd w (fst vb)).

Lemma read_value_tot anam fd idx o off w :
  find_field T anam = Some fd -> (String.eqb anam "DF396" = false -> w = df_bits fd) ->
  tot (vb_ok fd w) (read_value fd idx o off w).
Proof.
  intros F Wd. destruct (find_field_some T anam fd F) as [I K].
  assert (BV : is_label_ty (df_ty fd) = false ->
          tot (vb_ok fd w) (do bits <- get_bits (o_payloadi o) (8 * Z.of_nat (List.length (o_payload o))) off w;
                            bit_value fd w bits)).
  { intro LT. destruct (get_bits (o_payloadi o) (8 * Z.of_nat (List.length (o_payload o))) off w) as [bits| | |] eqn:GB;
      cbn [obind]; try exact Logic.I.
    - destruct (get_bits_range _ _ _ _ _ GB) as [W B].
      eapply tot_weaken; [|apply (bit_value_tot fd w bits B W LT)].
      + intros [v ob] [E VS]. right. exists bits. cbn [fst snd] in *. auto.
      + intro U. pose proof (Hfields fd I) as FO. unfold field_ok in FO. rewrite U in FO.
        apply andb_true_iff in FO. destruct FO as [NB FO]. split.
        * destruct (df_res fd); [exact Logic.I|exact Logic.I|discriminate].
        * intro FR. destruct (float_field_facts fd I U FR) as [B53 [K6 _]]. rewrite K in K6. rewrite (Wd K6). exact B53.
      + intro TY. pose proof (Hfields fd I) as FO. unfold field_ok in FO. rewrite TY in FO. exact FO.
    - unfold get_bits in GB. destruct ((_ <? 0) || (w <? 0)); discriminate. }
  unfold read_value.
  destruct (df_ty fd) eqn:TY; try (apply BV; reflexivity);
    (eapply tot_weaken; [|apply label_lookup_tot]; intros vb H; left; exact H).
Qed.

Lemma field_tot ident anam idx o off : InvO o ->
  tot (fun s => InvO (fst s)) (set_single T ident anam idx (o, off)).
Proof.
  intro I. rewrite set_single_stages. destruct (find_field T anam) as [fd|] eqn:F; [|exact Logic.I].
  unfold field_stages.
  eapply tot_bind; [apply (field_width_tot anam fd o I)|]. intros w Wd.
  assert (Wd' : String.eqb anam "DF396" = false -> w = df_bits fd).
  { intro E. destruct Wd as [[_ X]|[X _]]; [exact X|congruence]. }
  eapply tot_bind; [apply (read_value_tot anam fd idx o off w F Wd')|]. intros [v ob] VB. cbn [fst snd].
  assert (G : forall nm, String.prefix anam nm = true -> good nm v).
  { destruct VB as [[_ [s E]]|[bits [_ [_ [_ VS]]]]]; cbn [fst snd] in *.
    - subst v. intros nm _. exact Logic.I.
    - apply (good_of_valspec fd anam w v F Wd' VS). }
  eapply tot_bind; [apply (store_value_tot _ anam idx v o I G)|]. intros o1 I1.
  eapply tot_bind.
  - destruct VB as [[E _]|[bits [E [W [B _]]]]]; cbn [fst snd] in E; subst ob.
    + unfold post_mask. destruct (is_mask_name anam); [exact Logic.I|exact I1].
    + apply (post_mask_tot ident anam fd w bits o1 F I1 W B Wd).
  - intros o2 I2. eapply tot_bind; [apply post_harm_tot, I2|]. intros o3 I3. exact I3.
Qed.

(* ================= repeat counts ================= *)
Lemma suffix_first_tot n : forall idx k k0, Forall (fun i => 0 <= i) idx -> String.prefix k0 k = true ->
  tot (fun s => String.prefix k0 s = true) (suffix_first n idx k).
Proof.
  induction n as [|n IH]; intros idx k k0 NN P; cbn [suffix_first]; [exact P|].
  destruct idx as [|i r]; [exact Logic.I|]. inversion NN as [|? ? Hi Hr]. subst.
  replace (i <? 0) with false by (symmetry; apply Z.ltb_ge; exact Hi).
  apply IH; [exact Hr|apply prefix_app_r', P].
Qed.

Lemma cap_of_base b nm : In b (bases T) -> String.prefix b nm = true -> exists c, cap T nm = Some c /\ c <= cap_count.
Proof.
  intros Ib P. unfold cap.
  destruct (String.prefix "IDF037_" nm || String.prefix "IDF038_" nm);
    [exists cap_harm; split; [reflexivity|unfold cap_harm, cap_count; lia]|].
  destruct (String.eqb nm (t_nsat T) || String.eqb nm (t_nsig T));
    [exists cap_mask; split; [reflexivity|unfold cap_mask, cap_count; lia]|].
  assert (X : existsb (fun b0 => String.prefix b0 nm) (bases T) = true) by (apply existsb_exists; eauto).
  rewrite X. exists cap_count. split; [reflexivity|lia].
Qed.

Lemma group_size_tot c idx o :
  count_ok c = true -> (forall key, c = CNamed key -> In (fst (split_plus key)) (bases T)) ->
  Forall (fun i => 0 <= i) idx -> InvO o ->
  tot (fun n => n <= max_count) (group_size c idx o).
Proof.
  intros CO HB NN I. destruct c as [n|key|w]; cbn [group_size count_ok] in *.
  - apply Z.leb_le in CO. exact CO.
  - specialize (HB key eq_refl).
    assert (G : forall anam, String.prefix (fst (split_plus key)) anam = true ->
              tot (fun n => n <= max_count) (do g <- getint o anam; Ok (if String.eqb anam "IDF035" then g + 1 else g))).
    { intros anam P. destruct (cap_of_base _ anam HB P) as [c [C L]].
      eapply tot_bind; [apply (getint_tot_capped o anam c I C)|]. intros g Hg. cbn.
      unfold cap_count, max_count in *. destruct (String.eqb anam "IDF035"); lia. }
    destruct (split_plus key) as [k [nl|]]; cbn [fst] in *.
    + destruct (contains "+" nl); [exact Logic.I|]. cbn [orb] in CO.
      destruct (N_of_str nl) as [n|]; [|discriminate].
      eapply tot_bind; [apply (suffix_first_tot (N.to_nat n) idx k k NN (prefix_refl' k))|].
      intros anam P. apply G, P.
    + cbn [obind]. apply G, prefix_refl'.
  - discriminate.
Qed.

(* ================= the walk ================= *)
Definition StOK (s:st) : Prop := InvO (fst s).

Lemma rep_tot (f:list Z -> st -> outcome st) idx :
  Forall (fun i => 0 <= i) idx ->
  (forall i s, 0 <= i -> StOK s -> tot StOK (f (idx ++ [i]) s)) ->
  forall n i s, 0 <= i -> StOK s -> tot StOK (rep f idx n i s).
Proof.
  intros NN Hf. induction n as [|n IH]; intros i s Hi Hs; cbn [rep]; [exact Hs|].
  eapply tot_bind; [apply Hf; assumption|]. intros s' Hs'. apply IH; [lia|exact Hs'].
Qed.

Lemma bases_body_cons lbl it r : bases_body (BItems ((lbl, it) :: r)) = bases_item it ++ bases_body (BItems r).
Proof. reflexivity. Qed.
Lemma conds_body_cons lbl it r : conds_body (BItems ((lbl, it) :: r)) = conds_item it ++ conds_body (BItems r).
Proof. reflexivity. Qed.
Lemma tot_body_cons lbl it r : tot_body (BItems ((lbl, it) :: r)) = tot_item it && tot_body (BItems r).
Proof. reflexivity. Qed.

Lemma walk_tot ident :
  (forall it lbl idx s, tot_item it = true -> incl (bases_item it) (bases T) -> incl (conds_item it) (conds T) ->
     Forall (fun i => 0 <= i) idx -> StOK s -> tot StOK (dec_item T ident lbl it idx s)) /\
  (forall b idx s, tot_body b = true -> incl (bases_body b) (bases T) -> incl (conds_body b) (conds T) ->
     Forall (fun i => 0 <= i) idx -> StOK s -> tot StOK (dec_body T ident b idx s)).
Proof.
  apply item_body_ind.
  - intros k lbl idx [o off] _ _ _ _ Hs. rewrite dec_item_field. apply field_tot, Hs.
  - intros w lbl idx s H. discriminate.
  - intros c b IHb lbl idx s TI IB IC NN Hs. rewrite dec_item_group.
    cbn [tot_item] in TI. apply andb_true_iff in TI. destruct TI as [CO TB].
    cbn [bases_item] in IB. cbn [conds_item] in IC.
    eapply tot_bind.
    + apply (group_size_tot c idx (fst s) CO); [|exact NN|exact Hs].
      intros key ->. apply IB. apply in_app_iff. left. now left.
    + intros n Hn. replace (max_count <? n) with false by (symmetry; apply Z.ltb_ge; exact Hn).
      apply rep_tot; [exact NN| |lia|exact Hs].
      intros i s0 Hi Hs0. apply IHb; try assumption.
      * intros x Hx. apply IB, in_app_iff. now right.
      * apply Forall_app. split; [exact NN|]. constructor; [exact Hi|constructor].
  - intros k con b IHb lbl idx s TI IB IC NN Hs. rewrite dec_item_opt.
    cbn [tot_item] in TI. cbn [bases_item] in IB. cbn [conds_item] in IC.
    unfold getattr. destruct (assoc k (o_attrs (fst s))) as [v|] eqn:A; cbn [obind]; [|exact Logic.I].
    destruct v as [z|f|str].
    + destruct (z =? con); [|exact Hs]. apply IHb; try assumption. intros x Hx. apply IC. now right.
    + exfalso. apply assoc_In in A. pose proof (Hs k (VFloat f) A) as G. cbn in G.
      assert (P : In k (plain_reads T)).
      { unfold plain_reads. apply in_app_iff. left. apply IC. now left. }
      rewrite (plain_not_floaty k P) in G. discriminate.
    + exact Hs.
  - intros l IHl idx s TB IB IC NN Hs. rewrite dec_body_items.
    revert s Hs TB IB IC. induction IHl as [|[lbl it] r Hit Hr IHr]; intros s Hs TB IB IC.
    + rewrite dec_items_nil. exact Hs.
    + rewrite tot_body_cons in TB. apply andb_true_iff in TB. destruct TB as [T1 T2].
      rewrite bases_body_cons in IB. rewrite conds_body_cons in IC.
      rewrite dec_items_cons. cbn [snd] in Hit.
      eapply tot_bind.
      * apply Hit; try assumption.
        -- intros x Hx. apply IB, in_app_iff. now left.
        -- intros x Hx. apply IC, in_app_iff. now left.
      * intros s1 Hs1. apply IHr; try assumption.
        -- intros x Hx. apply IB, in_app_iff. now right.
        -- intros x Hx. apply IC, in_app_iff. now right.
  - intros w idx s H. discriminate.
Qed.

(* ================= the constructor ================= *)
Lemma get_dict_layout ident b : get_dict T ident = Some b -> In (ident, b) (all_layouts T).
Proof.
  unfold get_dict, all_layouts. intro H.
  destruct (String.leb "1070" ident && String.leb ident "1229").
  - apply assoc_In in H. apply in_app_iff. right. apply in_app_iff. now left.
  - destruct (String.eqb (substring 0 4 ident) "4076"); apply assoc_In in H; apply in_app_iff.
    + right. apply in_app_iff. now right.
    + now left.
Qed.

Lemma decode_raw_tot p lbl : tot StOK (decode_raw T (obj0 p lbl)).
Proof.
  unfold decode_raw. change (o_payload (obj0 p lbl)) with p.
  destruct (identity p) as [ident| | |] eqn:ID; cbn [obind]; try exact Logic.I.
  - destruct (get_dict T ident) as [b|] eqn:D.
    + pose proof (get_dict_layout ident b D) as IL.
      apply (proj2 (walk_tot ident)).
      * apply (Hlayouts ident b IL).
      * intros x Hx. unfold bases. apply in_flat_map. exists (ident, b). split; [exact IL|exact Hx].
      * intros x Hx. unfold conds. apply in_flat_map. exists (ident, b). split; [exact IL|exact Hx].
      * constructor.
      * exact Inv_nil.
    + exact (Inv_upd [] "DF002" (VStr (codes ident)) Inv_nil Logic.I).
  - unfold identity in ID. destruct p as [|b0 [|b1 r]]; try discriminate.
    destruct (N.eqb (msgnum b0 b1) 4076); [destruct r|]; discriminate.
Qed.

Theorem construct_total_T : forall p lbl,
  match construct T p lbl with Ok _ | Lib _ => True | _ => False end.
Proof.
  intros [p|] lbl; [|exact Logic.I].
  pose proof (construct_no_foreign T (Some p) lbl) as NF.
  rewrite construct_decode_run in *. unfold decode_run in *.
  destruct (too_short p) eqn:G; [exact Logic.I|].
  destruct (identity_ok_of_guard p G) as [i ID].
  pose proof (decode_raw_tot p lbl) as R.
  unfold handler in *. destruct (decode_raw T (obj0 p lbl)) as [s| | |]; cbn in *; rewrite ?ID in *; cbn; auto.
Qed.
End Total.

(* under the decidable table condition the constructor returns a message or a library error:
   never a foreign exception, never an answer outside the model *)
Theorem construct_total : forall T, tables_total_ok T = true ->
  forall p lbl, match construct T p lbl with Ok _ | Lib _ => True | _ => False end.
Proof. intros T H. apply construct_total_T, H. Qed.

(* the same, split by payload length *)
Corollary construct_total_cases : forall T, tables_total_ok T = true ->
  forall p lbl, (too_short p = true /\ construct T (Some p) lbl = Lib EMessage) \/
                (too_short p = false /\ ((exists o, construct T (Some p) lbl = Ok o) \/ construct T (Some p) lbl = Lib EType)).
Proof.
  intros T H p lbl. destruct (too_short p) eqn:G.
  - left. split; [reflexivity|apply construct_short, G].
  - right. split; [reflexivity|]. pose proof (construct_total T H (Some p) lbl) as C.
    destruct (construct T (Some p) lbl) as [o|e| |] eqn:E; try contradiction.
    + left. eauto.
    + right. f_equal. eapply construct_lib_is_type; eauto.
Qed.

(* tables_total_ok contains the static layout check *)
Lemma tables_total_ok_layouts T : tables_total_ok T = true -> layout_problems T = [].
Proof.
  unfold tables_total_ok. intro H. apply andb_true_iff in H. destruct H as [H _].
  apply andb_true_iff in H. destruct H as [H _]. apply andb_true_iff in H. destruct H as [H _].
  destruct (layout_problems T); [reflexivity|discriminate].
Qed.

Print Assumptions construct_total.
Print Assumptions construct_total_cases.
