(* C11: the un-chunked socket wrapper hands out the peer's byte stream in order, nothing lost, duplicated
   or reordered, for every segmentation into recv() calls; short reads only at Fail / empty Data / end of
   events, and then no buffered data is lost. *)
From Coq Require Import NArith List Bool Lia Arith.
From Coq.Strings Require Import Byte.
From PyRtcm Require Import Base.Bytes Model.Types Model.Reader Model.Socket Spec.StreamLaw.
Import ListNotations.
Local Open Scope nat_scope.

(* ---------- generic list helpers ---------- *)
Lemma upto_lf_app l a c : upto_lf l = (a, c) -> l = a ++ c.
Proof.
  revert a c. induction l as [|b r IH]; intros a c H; simpl in H.
  - inversion H; reflexivity.
  - destruct (Byte.eqb b x0a).
    + inversion H; reflexivity.
    + destruct (upto_lf r) as [a' c'] eqn:E. inversion H; subst. simpl. f_equal. now apply IH.
Qed.

(* ---------- specification vocabulary ---------- *)
Fixpoint datas (e:list recv_ev) : bytes :=
  match e with
  | [] => []
  | Data d :: r => d ++ datas r
  | Fail :: r => datas r
  end.

Definition pending (s:sock) : bytes := buf s ++ datas (evs s).

(* the event at which a recv() reports failure: [r] is the event list before, [e'] after *)
Definition stopped (r e':list recv_ev) : Prop :=
  (r = [] /\ e' = []) \/ r = Fail :: e' \/ r = Data [] :: e'.

(* the events of [e] consumed successfully: non-empty data packets [ds], leaving [r] *)
Definition took (e:list recv_ev) (ds:list bytes) (r:list recv_ev) : Prop :=
  e = map Data ds ++ r /\ Forall (fun d => d <> []) ds.

Lemma datas_app a b : datas (a ++ b) = datas a ++ datas b.
Proof.
  induction a as [|x a IH]; simpl; auto. destruct x; rewrite IH; auto. now rewrite app_assoc.
Qed.

Lemma datas_map_Data ds : datas (map Data ds) = concat ds.
Proof. induction ds as [|d ds IH]; simpl; auto. now rewrite IH. Qed.

Lemma data_len_datas e : data_len e = length (datas e).
Proof.
  induction e as [|x e IH]; simpl; auto. destruct x; simpl; auto. rewrite app_length. lia.
Qed.

Lemma stopped_datas r e' : stopped r e' -> datas r = datas e'.
Proof. intros [[-> ->]|[->| ->]]; reflexivity. Qed.

Lemma stopped_length r e' : stopped r e' -> length e' <= length r.
Proof. intros [[-> ->]|[->| ->]]; simpl; lia. Qed.

Section C11.
Variable dz : bytes -> bytes.

Notation recv := (recv false dz).
Notation fill := (fill false dz).
Notation sock_read := (sock_read false dz).
Notation readline_loop := (readline_loop false dz).
Notation sock_readline := (sock_readline false dz).

(* ---------- one recv() ---------- *)
Lemma recv_inv s ok s' : recv s = (ok, s') ->
  partial s' = partial s /\ unm s' = unm s /\
  (ok = true  -> exists d r, d <> [] /\ evs s = Data d :: r /\ evs s' = r /\ buf s' = buf s ++ d) /\
  (ok = false -> stopped (evs s) (evs s') /\ buf s' = buf s).
Proof.
  unfold Socket.recv. intro H. destruct (evs s) as [|[d|] r] eqn:E.
  - inversion H; subst. repeat split; try discriminate. left; auto.
  - destruct d as [|b d].
    + inversion H; subst; simpl. repeat split; try discriminate. right; right; auto.
    + inversion H; subst; simpl. repeat split; try discriminate.
      intros _. exists (b::d), r. repeat split; auto. discriminate.
  - inversion H; subst; simpl. repeat split; try discriminate. right; left; auto.
Qed.

Lemma recv_pending s ok s' : recv s = (ok, s') -> pending s = pending s'.
Proof.
  intro H. apply recv_inv in H. destruct H as (_ & _ & Ht & Hf). unfold pending. destruct ok.
  - destruct (Ht eq_refl) as (d & r & _ & E & E' & B). rewrite E, E', B. simpl. now rewrite app_assoc.
  - destruct (Hf eq_refl) as (St & B). rewrite B. f_equal. now apply stopped_datas.
Qed.

(* ---------- fill = the while loop of read() ---------- *)
Lemma fill_inv fuel n s ok s' : fill fuel n s = (ok, s') ->
  pending s = pending s' /\ partial s' = partial s /\ unm s' = unm s /\
  (ok = true -> n <= length (buf s') /\
                exists ds, took (evs s) ds (evs s') /\ buf s' = buf s ++ concat ds) /\
  (ok = false -> length (evs s) < fuel ->
                length (buf s') < n /\
                exists ds r, took (evs s) ds r /\ stopped r (evs s') /\ buf s' = buf s ++ concat ds).
Proof.
  revert s ok s'. induction fuel as [|f IH]; intros s ok s' H; simpl in H.
  - destruct (Nat.leb n (length (buf s))) eqn:L; inversion H; subst.
    + apply Nat.leb_le in L. split; [|split; [|split; [|split]]]; auto; try discriminate.
      intros _. split; auto. exists []. unfold took. simpl. rewrite app_nil_r. auto.
    + split; [|split; [|split; [|split]]]; auto; try discriminate. intros _ Hl. lia.
  - destruct (Nat.leb n (length (buf s))) eqn:L.
    + inversion H; subst. apply Nat.leb_le in L. split; [|split; [|split; [|split]]]; auto; try discriminate.
      intros _. split; auto. exists []. unfold took. simpl. rewrite app_nil_r. auto.
    + apply Nat.leb_gt in L.
      destruct (recv s) as [ok1 s1] eqn:R.
      pose proof (recv_pending _ _ _ R) as P1.
      apply recv_inv in R. destruct R as (Pa & Un & Rt & Rf).
      destruct ok1.
      * destruct (Rt eq_refl) as (d & r & Dn & E & E1 & B1).
        apply IH in H. destruct H as (P & Pa' & Un' & Ht & Hf).
        split; [congruence|]. split; [congruence|]. split; [congruence|]. split.
        -- intro Hk. destruct (Ht Hk) as (Hn & ds & (Tk & Fa) & B). split; auto.
           exists (d :: ds). split.
           ++ split; [|constructor; auto]. rewrite E. simpl. f_equal. congruence.
           ++ rewrite B, B1. simpl. now rewrite app_assoc.
        -- intros Hk Hl. rewrite E in Hl. simpl in Hl.
           destruct (Hf Hk) as (Hn & ds & r' & (Tk & Fa) & St & B); [rewrite E1; lia|].
           split; auto. exists (d :: ds), r'. split; [|split; auto].
           ++ split; [|constructor; auto]. rewrite E. simpl. f_equal. congruence.
           ++ rewrite B, B1. simpl. now rewrite app_assoc.
      * inversion H; subst. destruct (Rf eq_refl) as (St & B).
        split; [|split; [|split; [|split]]]; auto; try discriminate.
        intros _ _. split; [rewrite B; auto|].
        exists [], (evs s). split; [split; [reflexivity|constructor]|]. split; auto.
        simpl. now rewrite app_nil_r.
Qed.

(* ---------- read(n) ---------- *)
Theorem sock_read_inv n s o s' : sock_read n s = (o, s') ->
  pending s = o ++ pending s' /\ (length o = n \/ o = []).
Proof.
  unfold Socket.sock_read. destruct (fill (S (length (evs s))) n s) as [ok s1] eqn:F.
  apply fill_inv in F. destruct F as (P & _ & _ & Ht & _).
  destruct ok; intro H; inversion H; subst; clear H.
  - destruct (Ht eq_refl) as (Hn & _). split.
    + rewrite P. unfold pending. simpl. now rewrite app_assoc, firstn_skipn.
    + left. rewrite firstn_length. lia.
  - split; auto.
Qed.

Lemma sock_read_aux n s o s' : sock_read n s = (o, s') ->
  partial s' = partial s /\ unm s' = unm s.
Proof.
  unfold Socket.sock_read. destruct (fill (S (length (evs s))) n s) as [ok s1] eqn:F.
  apply fill_inv in F. destruct F as (_ & Pa & Un & _ & _).
  destruct ok; intro H; inversion H; subst; simpl; auto.
Qed.

(* a read that delivers: exactly the data packets needed were received, the surplus stays buffered *)
Theorem sock_read_full n s o s' : sock_read n s = (o, s') -> (o <> [] \/ n = 0) ->
  exists ds, took (evs s) ds (evs s') /\ buf s ++ concat ds = o ++ buf s' /\ length o = n.
Proof.
  unfold Socket.sock_read. destruct (fill (S (length (evs s))) n s) as [ok s1] eqn:F.
  apply fill_inv in F. destruct F as (_ & _ & _ & Ht & Hf).
  destruct ok; intros H Ho; inversion H; subst; clear H.
  - destruct (Ht eq_refl) as (Hn & ds & Tk & B). exists ds. simpl. repeat split; try apply Tk.
    + rewrite <- B. now rewrite firstn_skipn.
    + rewrite firstn_length. lia.
  - destruct Ho as [Ho|Ho]; [congruence|]. subst n.
    destruct (Hf eq_refl) as (Hl & _); [lia|lia].
Qed.

(* an empty result for n > 0: only at a Fail event, an empty Data event (peer closed) or at the end of
   the event list; everything received during the call is still in the buffer *)
Theorem sock_read_short n s s' : sock_read n s = ([], s') -> 0 < n ->
  exists ds r, took (evs s) ds r /\ stopped r (evs s') /\
               buf s' = buf s ++ concat ds /\ length (buf s') < n.
Proof.
  unfold Socket.sock_read. destruct (fill (S (length (evs s))) n s) as [ok s1] eqn:F.
  apply fill_inv in F. destruct F as (_ & _ & _ & Ht & Hf).
  destruct ok; intros H Hn; inversion H; subst; clear H.
  - destruct (Ht eq_refl) as (Hl & _). exfalso.
    destruct (buf s1) as [|b l]; simpl in *; [lia|]. destruct n; [lia|discriminate].
  - destruct (Hf eq_refl) as (Hl & ds & r & Tk & St & B); [lia|].
    exists ds, r. auto.
Qed.

(* ---------- a sequence of reads ---------- *)
Fixpoint reads (ns:list nat) (s:sock) : list bytes * sock :=
  match ns with
  | [] => ([], s)
  | n :: r => let '(o, s1) := sock_read n s in
              let '(os, s2) := reads r s1 in (o :: os, s2)
  end.

Theorem reads_inv ns s outs s' : reads ns s = (outs, s') ->
  pending s = concat outs ++ pending s' /\
  Forall2 (fun n o => length o = n \/ o = []) ns outs.
Proof.
  revert s outs s'. induction ns as [|n ns IH]; intros s outs s' H; simpl in H.
  - inversion H; subst. simpl. split; auto.
  - destruct (sock_read n s) as [o s1] eqn:R. destruct (reads ns s1) as [os s2] eqn:Rs.
    inversion H; subst. apply sock_read_inv in R. apply IH in Rs.
    destruct R as (P & L). destruct Rs as (P' & F'). split.
    + simpl. rewrite P, P'. now rewrite app_assoc.
    + constructor; auto.
Qed.

(* ---------- readline() ---------- *)
Lemma readline_loop_inv fuel line s l s' : readline_loop fuel line s = (l, s') ->
  exists t, l = line ++ t /\ pending s = t ++ pending s' /\
  (length (pending s) < fuel ->
     unm s' = unm s /\ partial s' = partial s /\
     (ends_crlf l = true \/ exists s1, pending s = t ++ pending s1 /\ sock_read 1 s1 = ([], s'))).
Proof.
  revert line s l s'. induction fuel as [|f IH]; intros line s l s' H; simpl in H.
  - inversion H; subst. exists []. rewrite app_nil_r. split; [|split]; auto. simpl. intro Hl; lia.
  - destruct (sock_read 1 s) as [d s1] eqn:R.
    pose proof (sock_read_aux _ _ _ _ R) as (Pa & Un).
    pose proof (sock_read_inv _ _ _ _ R) as (P & L).
    destruct d as [|b [|b' d']].
    + inversion H; subst. exists []. rewrite app_nil_r. split; [|split]; auto.
      intros _. split; [|split]; auto. right. exists s. split; auto.
    + destruct (ends_crlf (line ++ [b])) eqn:E.
      * inversion H; subst. exists [b]. split; [|split]; auto.
      * apply IH in H. destruct H as (t & -> & P' & Hf). exists (b :: t). split; [|split].
        -- now rewrite <- app_assoc.
        -- rewrite P, P'. reflexivity.
        -- intro Hl. rewrite P in Hl. simpl in Hl.
           destruct Hf as (Un' & Pa' & Hd); [lia|]. split; [congruence|]. split; [congruence|].
           destruct Hd as [Hd|(s2 & P2 & R2)]; [left; auto|]. right. exists s2. split; auto.
           rewrite P, P2. reflexivity.
    + exfalso. destruct L as [L|L]; simpl in L; [lia|discriminate].
Qed.

Theorem sock_readline_inv s l s' : sock_readline s = (l, s') ->
  pending s = l ++ pending s' /\ unm s' = unm s /\ partial s' = partial s /\
  (ends_crlf l = true \/ exists s1, pending s = l ++ pending s1 /\ sock_read 1 s1 = ([], s')).
Proof.
  unfold Socket.sock_readline. intro H. apply readline_loop_inv in H.
  destruct H as (t & -> & P & Hf). simpl. split; auto. apply Hf.
  unfold pending. rewrite app_length, data_len_datas. lia.
Qed.

(* ---------- constructor ---------- *)
Theorem sock_init_datas e : pending (sock_init false dz e) = datas e.
Proof.
  unfold sock_init. destruct (recv {| buf := []; partial := []; evs := e; unm := false |}) as [ok s'] eqn:R.
  apply recv_pending in R. simpl. rewrite <- R. reflexivity.
Qed.

Lemma sock_init_aux e : partial (sock_init false dz e) = [] /\ unm (sock_init false dz e) = false.
Proof.
  unfold sock_init. destruct (recv {| buf := []; partial := []; evs := e; unm := false |}) as [ok s'] eqn:R.
  apply recv_inv in R. simpl in *. destruct R as (Pa & Un & _). auto.
Qed.

(* ---------- segmentation independence ---------- *)
Definition good_ev (e:recv_ev) : Prop := exists d, e = Data d /\ d <> [].

Lemma fill_good fuel n s : Forall good_ev (evs s) -> n <= length (pending s) -> length (evs s) < fuel ->
  fst (fill fuel n s) = true.
Proof.
  intros G Hn Hl. destruct (fill fuel n s) as [ok s'] eqn:F. simpl.
  destruct ok; auto. exfalso.
  apply fill_inv in F. destruct F as (P & _ & _ & _ & Hf).
  destruct (Hf eq_refl Hl) as (Hb & ds & r & (Tk & _) & St & B).
  rewrite Tk in G. apply Forall_app in G. destruct G as (_ & G).
  destruct St as [[-> E']|[->| ->]].
  - rewrite P in Hn. unfold pending in Hn. rewrite E' in Hn. simpl in Hn. rewrite app_nil_r in Hn. lia.
  - inversion G as [|x y (d & Hd & _) G']; subst. discriminate.
  - inversion G as [|x y (d & Hd & Hne) G']; subst. inversion Hd; subst. congruence.
Qed.

Theorem read_all_available n s : Forall good_ev (evs s) -> n <= length (pending s) ->
  fst (sock_read n s) = firstn n (pending s) /\
  pending (snd (sock_read n s)) = skipn n (pending s).
Proof.
  intros G Hn. destruct (sock_read n s) as [o s'] eqn:R. simpl.
  pose proof (sock_read_inv _ _ _ _ R) as (P & _).
  assert (L : length o = n).
  { revert R. unfold Socket.sock_read.
    pose proof (fill_good (S (length (evs s))) n s G Hn (Nat.lt_succ_diag_r _)) as Fg.
    destruct (fill (S (length (evs s))) n s) as [ok s1] eqn:F. simpl in Fg. subst ok.
    apply fill_inv in F. destruct F as (_ & _ & _ & Ht & _). destruct (Ht eq_refl) as (Hl & _).
    intro H; inversion H; subst. rewrite firstn_length. lia. }
  rewrite P. subst n. split.
  - rewrite firstn_app, firstn_all, Nat.sub_diag. simpl. now rewrite app_nil_r.
  - rewrite skipn_app, skipn_all, Nat.sub_diag. reflexivity.
Qed.

(* two event lists carrying the same bytes in non-empty packets give identical read results *)
Corollary segmentation_independent n b1 b2 e1 e2 p1 p2 u1 u2 :
  Forall good_ev e1 -> Forall good_ev e2 ->
  b1 ++ datas e1 = b2 ++ datas e2 -> n <= length (b1 ++ datas e1) ->
  fst (sock_read n {| buf := b1; partial := p1; evs := e1; unm := u1 |}) =
  fst (sock_read n {| buf := b2; partial := p2; evs := e2; unm := u2 |}).
Proof.
  intros G1 G2 E Hn.
  destruct (read_all_available n {| buf := b1; partial := p1; evs := e1; unm := u1 |}) as (R1 & _); auto.
  destruct (read_all_available n {| buf := b2; partial := p2; evs := e2; unm := u2 |}) as (R2 & _); auto.
  { unfold pending; simpl. rewrite <- E. exact Hn. }
  rewrite R1, R2. unfold pending; simpl. now rewrite E.
Qed.

(* ---------- lawful streams ---------- *)
Theorem sock_stream_law : stream_law (sock_ops false dz) pending.
Proof.
  split.
  - intros n s d s' H. simpl in H. apply sock_read_inv in H. destruct H as (P & [L|L]); split; auto.
    + lia.
    + subst d. simpl. lia.
  - intros s d s' H. simpl in H. apply sock_readline_inv in H. apply H.
Qed.

End C11.

Theorem file_stream_law : stream_law file_ops rest.
Proof.
  split.
  - intros n s d s' H. simpl in H. unfold f_read in H. destruct (pop_dir s) as [dir sc].
    inversion H; subst; clear H. simpl. split; [now rewrite firstn_skipn|].
    rewrite firstn_length. destruct dir; lia.
  - intros s d s' H. simpl in H. unfold f_readline in H. destruct (pop_dir s) as [dir sc].
    destruct (upto_lf (rest s)) as [ln rs] eqn:U. apply upto_lf_app in U.
    destruct dir; inversion H; subst; clear H; simpl; auto. now rewrite firstn_skipn.
Qed.

Print Assumptions recv_inv.
Print Assumptions fill_inv.
Print Assumptions sock_read_inv.
Print Assumptions sock_read_full.
Print Assumptions sock_read_short.
Print Assumptions reads_inv.
Print Assumptions sock_readline_inv.
Print Assumptions sock_init_datas.
Print Assumptions read_all_available.
Print Assumptions segmentation_independent.
Print Assumptions sock_stream_law.
Print Assumptions file_stream_law.
