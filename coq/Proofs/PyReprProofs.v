(* eval(repr(b)) == b for every bytes object b, on the model Spec/PyRepr.v (C07, last sentence). *)
From Coq Require Import NArith List Bool String Lia.
From Coq.Strings Require Import Byte.
From PyRtcm Require Import Base.Bytes Spec.PyRepr.
Import ListNotations.
Open Scope list_scope.

(* one escaped byte is read back as that byte: finite sweep over the 256 byte values, for each delimiter *)
Lemma eval_esc_q1 c rest : eval_body q1 (esc q1 c ++ rest) = option_map (cons c) (eval_body q1 rest).
Proof.
  destruct c;
    match goal with |- context [esc ?q ?c] => let e := eval vm_compute in (esc q c) in change (esc q c) with e end;
    reflexivity.
Qed.

Lemma eval_esc_q2 c rest : eval_body q2 (esc q2 c ++ rest) = option_map (cons c) (eval_body q2 rest).
Proof.
  destruct c;
    match goal with |- context [esc ?q ?c] => let e := eval vm_compute in (esc q c) in change (esc q c) with e end;
    reflexivity.
Qed.

Lemma eval_body_q1 b : eval_body q1 (flat_map (esc q1) b ++ [q1]) = Some b.
Proof.
  induction b as [|c b IH]; [reflexivity|].
  cbn [flat_map]. rewrite <- app_assoc, eval_esc_q1, IH. reflexivity.
Qed.

Lemma eval_body_q2 b : eval_body q2 (flat_map (esc q2) b ++ [q2]) = Some b.
Proof.
  induction b as [|c b IH]; [reflexivity|].
  cbn [flat_map]. rewrite <- app_assoc, eval_esc_q2, IH. reflexivity.
Qed.

(* the same for any text written with either delimiter, whatever the data (the delimiter choice of repr is
   cosmetic: both spellings denote the same bytes) *)
Definition pyrepr_with (q:byte) (b:bytes) : bytes := [x62; q] ++ flat_map (esc q) b ++ [q].

Lemma pyeval_pyrepr_with q b : q = q1 \/ q = q2 -> pyeval (pyrepr_with q b) = Some b.
Proof. intros [-> | ->]; [apply eval_body_q1|apply eval_body_q2]. Qed.

Lemma has_false_not_in c b : has c b = false -> ~ In c b.
Proof.
  unfold has. intros H I.
  assert (X : existsb (Byte.eqb c) b = true).
  { apply existsb_exists. exists c. split; [exact I|]. apply Byte.byte_dec_lb. reflexivity. }
  rewrite H in X. discriminate X.
Qed.

Theorem pyeval_pyrepr : forall b, pyeval (pyrepr b) = Some b.
Proof.
  intro b. change (pyrepr b) with (pyrepr_with (quote_of b) b). apply pyeval_pyrepr_with.
  unfold quote_of. destruct (has q1 b && negb (has q2 b)); auto.
Qed.

(* the delimiter chosen is one of the two quotes, and it is the double quote only when that is safe *)
Lemma quote_of_cases b : (quote_of b = q1) \/ (quote_of b = q2 /\ In q1 b /\ ~ In q2 b).
Proof.
  unfold quote_of. destruct (has q1 b && negb (has q2 b)) eqn:Q; [right|left; reflexivity].
  apply andb_true_iff in Q. destruct Q as [Q1 Q2]. apply negb_true_iff in Q2.
  split; [reflexivity|]. split; [|apply has_false_not_in, Q2].
  unfold has in Q1. apply existsb_exists in Q1. destruct Q1 as [x [I E]].
  apply Byte.byte_dec_bl in E. subst x. exact I.
Qed.

(* every byte repr() emits is printable ASCII (so the text is a legal Python source fragment) *)
Definition printable (x:byte) : bool := (32 <=? bN x)%N && (bN x <? 127)%N.

Lemma esc_printable q c : (q = q1 \/ q = q2) -> forallb printable (esc q c) = true.
Proof. intros [-> | ->]; destruct c; vm_compute; reflexivity. Qed.

Lemma flat_esc_printable q b : (q = q1 \/ q = q2) -> forallb printable (flat_map (esc q) b) = true.
Proof.
  intro Q. induction b as [|c r IH]; [reflexivity|].
  cbn [flat_map]. rewrite forallb_app, (esc_printable q c Q). exact IH.
Qed.

Theorem pyrepr_printable : forall b, forallb printable (pyrepr b) = true.
Proof.
  intro b. unfold pyrepr. cbv zeta.
  assert (Q : quote_of b = q1 \/ quote_of b = q2) by (destruct (quote_of_cases b) as [H|[H _]]; auto).
  assert (PQ : printable (quote_of b) = true) by (destruct Q as [-> | ->]; reflexivity).
  rewrite !forallb_app, (flat_esc_printable _ b Q). cbn [forallb]. rewrite PQ. reflexivity.
Qed.

Corollary pyrepr_printable_spec : forall b x, In x (pyrepr b) -> (32 <= bN x < 127)%N.
Proof.
  intros b x I. pose proof (pyrepr_printable b) as H. rewrite forallb_forall in H. specialize (H x I).
  unfold printable in H. apply andb_true_iff in H. destruct H as [A B].
  apply N.leb_le in A. apply N.ltb_lt in B. split; assumption.
Qed.

(* ---- the message repr ---- *)
Lemma byte_eqb_refl a : Byte.eqb a a = true.
Proof. apply Byte.byte_dec_lb. reflexivity. Qed.

Lemma strip_prefix_app pre s : strip_prefix pre (pre ++ s) = Some s.
Proof.
  induction pre as [|a pre IH]; [destruct s; reflexivity|].
  cbn [app strip_prefix]. rewrite byte_eqb_refl. exact IH.
Qed.

Lemma strip_last_app c s : strip_last c (s ++ [c]) = Some s.
Proof.
  unfold strip_last. rewrite rev_unit. rewrite byte_eqb_refl. rewrite rev_involutive. reflexivity.
Qed.

Theorem message_repr_roundtrip : forall p, message_repr_payload (message_repr p) = Some p.
Proof.
  intro p. unfold message_repr_payload, message_repr.
  rewrite strip_prefix_app, strip_last_app. apply pyeval_pyrepr.
Qed.

Print Assumptions pyeval_pyrepr.
Print Assumptions message_repr_roundtrip.
