(* C14 (immutability after construction) and C13 (no hidden state) over the message model.

   C14: setattr_immutable, construct_immutable, C14_immutable (any sequence of assignments: all rejected with
        RTCMMessageError, object unchanged), and the constructor side: the flag is false during the whole
        table walk, so none of the constructor's own writes can be refused (walk_mutable, decode_raw_no_lib,
        construct_message_error_iff).
   C13: the model is a pure function of (tables, payload, option); made explicit with a `world`. *)
From Coq Require Import NArith ZArith List String Bool Lia PrimFloat.
From Coq.Strings Require Import Byte.
From PyRtcm Require Import Base.Bytes Base.Dec Model.Types Model.Crc Model.Message Model.Reader.
From PyRtcm Require Import Spec.FieldGrammar.
From PyRtcm Require Import Proofs.DecodeWalk Proofs.DecodeExtend Proofs.ObjSerialize.
Import ListNotations.
Open Scope list_scope.
Open Scope Z_scope.

(* ================= C14 : after construction ================= *)
Theorem construct_immutable : forall T p l o, construct T (Some p) l = Ok o -> o_immutable o = true.
Proof. intros T p l o E. apply (construct_payload T p l o E). Qed.

Theorem setattr_immutable : forall o, o_immutable o = true -> forall k v, setattr o k v = Lib EMessage.
Proof. intros o H k v. unfold setattr. rewrite H. reflexivity. Qed.

Theorem setattr_mutable : forall o, o_immutable o = false ->
  forall k v, setattr o k v = Ok (with_attrs o (upd k v (o_attrs o))).
Proof. intros o H k v. unfold setattr. rewrite H. reflexivity. Qed.

(* a sequence of attempted assignments `m.k = v`; an assignment that raises leaves the object as it was *)
Fixpoint assign_all (o:obj) (assigns:list (string*value)) : obj * list (outcome obj) :=
  match assigns with
  | [] => (o, [])
  | (k, v) :: r =>
      let res := setattr o k v in
      let o' := match res with Ok o1 => o1 | _ => o end in
      let '(o_end, log) := assign_all o' r in (o_end, res :: log)
  end.

Lemma assign_all_immutable o : o_immutable o = true ->
  forall assigns, fst (assign_all o assigns) = o /\
                  Forall (fun r => r = Lib EMessage) (snd (assign_all o assigns)).
Proof.
  intros H assigns. induction assigns as [|[k v] r IH].
  - cbn. split; [reflexivity|constructor].
  - cbn [assign_all]. rewrite (setattr_immutable o H k v).
    destruct (assign_all o r) as [o_end log]. cbn [fst snd] in *. destruct IH as [IH1 IH2].
    split; [exact IH1|]. constructor; [reflexivity|exact IH2].
Qed.

Theorem C14_immutable : forall T p l o, construct T (Some p) l = Ok o ->
  forall assigns, fst (assign_all o assigns) = o /\
                  Forall (fun r => r = Lib EMessage) (snd (assign_all o assigns)).
Proof. intros T p l o E. apply assign_all_immutable. eapply construct_immutable; exact E. Qed.

(* hence everything observable is unchanged *)
Corollary C14_observables : forall T p l o, construct T (Some p) l = Ok o ->
  forall assigns, let o' := fst (assign_all o assigns) in
    o_payload o' = o_payload o /\ o_attrs o' = o_attrs o /\ obj_identity o' = obj_identity o /\
    serialize T o' = serialize T o /\ obj_ismsm T o' = obj_ismsm T o /\ o_unknown o' = o_unknown o.
Proof.
  intros T p l o E assigns o'. unfold o'. destruct (C14_immutable T p l o E assigns) as [-> _].
  repeat split.
Qed.

(* also through the reader's static parse *)
Corollary C14_parsed : forall T v l f o,
  parse (fun q l' => construct T (Some q) l') 1 v l f = Ok o ->
  forall assigns, fst (assign_all o assigns) = o /\
                  Forall (fun r => r = Lib EMessage) (snd (assign_all o assigns)).
Proof.
  intros T v l f o P. apply assign_all_immutable.
  unfold parse in P.
  destruct (negb (Z.land v 1 =? 0) && negb (calc_crc24q f =? 0)%N); [discriminate P|].
  eapply construct_immutable; exact P.
Qed.

(* ================= C14 : during construction ================= *)
(* outcome predicate: success satisfies P, and the outcome is not a library error *)
Definition okp {A} (P:A -> Prop) (r:outcome A) : Prop :=
  match r with Ok a => P a | Lib _ => False | _ => True end.
Definition any {A} (_:A) : Prop := True.

Lemma okp_bind {A B} (P:A -> Prop) (Q:B -> Prop) (r:outcome A) (f:A -> outcome B) :
  okp P r -> (forall a, P a -> okp Q (f a)) -> okp Q (obind r f).
Proof. destruct r; cbn; auto; intros []. Qed.

Lemma okp_weaken {A} (P Q:A -> Prop) r : (forall a, P a -> Q a) -> okp P r -> okp Q r.
Proof. destruct r; cbn; auto. Qed.

Definition mutable (o:obj) : Prop := o_immutable o = false.
Definition mut (s:st) : Prop := mutable (fst s).

Lemma getattr_okp o k : okp any (getattr o k).
Proof. unfold getattr. destruct (assoc k (o_attrs o)); exact I. Qed.

Lemma getint_okp o k : okp any (getint o k).
Proof.
  unfold getint. eapply okp_bind; [apply getattr_okp|]. intros [z|f|s] _; exact I.
Qed.

Lemma first_index_okp idx : okp any (first_index idx).
Proof. destruct idx; exact I. Qed.

Lemma scale_okp v r : okp any (scale v r).
Proof.
  unfold scale. destruct r as [z|f|w]; [| |exact I].
  - destruct ((z =? 0) || (z =? 1)); exact I.
  - destruct ((f =? 0)%float || (f =? 1)%float); [exact I|]. destruct (Z.abs v <? 2 ^ 53); exact I.
Qed.

Lemma get_bits_okp V L off w : okp any (get_bits V L off w).
Proof. unfold get_bits. destruct ((L - off - w <? 0) || (w <? 0)); exact I. Qed.

Lemma setattr_okp o k v : mutable o -> okp mutable (setattr o k v).
Proof. intro H. rewrite (setattr_mutable o H). exact H. Qed.

Lemma getsatcellmaps_okp T ident o : mutable o -> okp mutable (getsatcellmaps T ident o).
Proof.
  intro H. unfold getsatcellmaps.
  destruct (assoc (substring 0 3 ident) (t_prnsig T)) as [[prnmap sigmap]|]; [|exact I].
  pose proof (getint_okp o "DF394") as H4. destruct (getint o "DF394") as [d4| | |]; try exact I; [|destruct H4].
  cbn [obind].
  pose proof (getint_okp o "DF395") as H5. destruct (getint o "DF395") as [d5| | |]; try exact I; [|destruct H5].
  cbn [obind].
  pose proof (getint_okp o "DF396") as H6. destruct (getint o "DF396") as [d6| | |]; try exact I; [|destruct H6].
  cbn [obind]. cbv zeta. exact H.
Qed.

Lemma field_width_okp T anam fd o : okp any (field_width T anam fd o).
Proof.
  unfold field_width. destruct (String.eqb anam "DF396"); [|exact I].
  eapply okp_bind; [apply getint_okp|]. intros a _.
  eapply okp_bind; [apply getint_okp|]. intros b _. exact I.
Qed.

Lemma label_lookup_okp {A} idx (m:option (list (Z*A))) f : okp any (label_lookup idx m f).
Proof.
  unfold label_lookup. eapply okp_bind; [apply first_index_okp|]. intros i _.
  destruct m as [m|]; [|exact I]. destruct (zassoc i m); exact I.
Qed.

Lemma scale_pair_okp v r (ob:option N) : okp any (do x <- scale v r; Ok (x, ob)).
Proof. eapply okp_bind; [apply scale_okp|]. intros x _. exact I. Qed.

Lemma bit_value_okp fd asiz bits : okp any (bit_value fd asiz bits).
Proof.
  unfold bit_value. destruct (df_ty fd); try apply scale_pair_okp.
  - destruct (1114112 <=? bits)%N; [exact I|]. destruct (res_is_unit (df_res fd)); exact I.
  - destruct (bits =? 0)%N; [exact I|]. destruct (1114112 <=? bits)%N; exact I.
  - destruct (asiz <? 1); [exact I|]. cbv zeta. apply scale_pair_okp.
  - destruct (asiz <? 1); [exact I|]. cbv zeta. apply scale_pair_okp.
Qed.

Lemma read_value_okp fd idx o off asiz : okp any (read_value fd idx o off asiz).
Proof.
  unfold read_value.
  destruct (df_ty fd); try apply label_lookup_okp;
    (eapply okp_bind; [apply get_bits_okp|]; intros b _; apply bit_value_okp).
Qed.

Lemma store_value_okp ty anam idx v o : mutable o -> okp mutable (store_value ty anam idx v o).
Proof.
  intro H. unfold store_value. destruct ty; try (apply setattr_okp; exact H).
  destruct (assoc anam (o_attrs o)) as [old|]; [|apply setattr_okp; exact H].
  destruct old as [z|f|old]; try exact I. destruct v as [z|f|new]; try exact I. apply setattr_okp; exact H.
Qed.

Lemma post_mask_okp T ident anam ob o : mutable o -> okp mutable (post_mask T ident anam ob o).
Proof.
  intro H. unfold post_mask. destruct (is_mask_name anam); [|exact H].
  destruct ob as [b|]; [|exact I].
  destruct (String.eqb anam "DF394"); [apply setattr_okp; exact H|].
  destruct (String.eqb anam "DF395"); [apply setattr_okp; exact H|].
  eapply okp_bind; [apply setattr_okp; exact H|]. intros o' H'. apply getsatcellmaps_okp; exact H'.
Qed.

Lemma harmonic_counts_okp T idx o : mutable o -> okp mutable (harmonic_counts T idx o).
Proof.
  intro H. unfold harmonic_counts. eapply okp_bind; [apply first_index_okp|]. intros i _.
  destruct (i <? 0); [exact I|].
  eapply okp_bind; [apply getint_okp|]. intros n0 _.
  eapply okp_bind; [apply getint_okp|]. intros m0 _. cbv zeta.
  destruct ((2 ^ 24 <? Z.abs (n0 + 1)) || (2 ^ 24 <? Z.abs (m0 + 1))); [exact I|].
  eapply okp_bind; [apply setattr_okp; exact H|]. intros o' H'. apply setattr_okp; exact H'.
Qed.

Lemma post_harm_okp T anam idx o : mutable o -> okp mutable (post_harm T anam idx o).
Proof.
  intro H. unfold post_harm. destruct (String.eqb anam "IDF038"); [apply harmonic_counts_okp; exact H|exact H].
Qed.

(* one field: every write goes through setattr on a mutable object; the flag stays false *)
Lemma set_single_okp T ident anam idx s : mut s -> okp mut (set_single T ident anam idx s).
Proof.
  destruct s as [o off]. unfold mut. cbn [fst]. intro H.
  rewrite set_single_stages. destruct (find_field T anam) as [fd|]; [|exact I].
  unfold field_stages.
  eapply okp_bind; [apply field_width_okp|]. intros asiz _.
  eapply okp_bind; [apply read_value_okp|]. intros vb _.
  eapply okp_bind; [apply store_value_okp; exact H|]. intros o1 H1.
  eapply okp_bind; [apply post_mask_okp; exact H1|]. intros o2 H2.
  eapply okp_bind; [apply post_harm_okp; exact H2|]. intros o3 H3. exact H3.
Qed.

Lemma suffix_first_okp n : forall idx s, okp any (suffix_first n idx s).
Proof.
  induction n as [|n IH]; intros idx s; cbn [suffix_first]; [exact I|].
  destruct idx as [|i r]; [exact I|]. destruct (i <? 0); [exact I|apply IH].
Qed.

Lemma group_size_okp c idx o : okp any (group_size c idx o).
Proof.
  destruct c as [n|key|w]; cbn [group_size]; try exact I.
  eapply okp_bind with (P := any).
  - destruct (split_plus key) as [k [nl|]]; [|exact I].
    destruct (contains "+" nl); [exact I|]. destruct (N_of_str nl) as [n|]; [|exact I]. apply suffix_first_okp.
  - intros anam _. eapply okp_bind; [apply getint_okp|]. intros g _. exact I.
Qed.

Lemma rep_okp (f:list Z -> st -> outcome st) :
  (forall idx s, mut s -> okp mut (f idx s)) ->
  forall n idx i s, mut s -> okp mut (rep f idx n i s).
Proof.
  intro Hf. induction n as [|n IH]; intros idx i s H; cbn [rep]; [exact H|].
  eapply okp_bind; [apply Hf, H|]. intros s' H'. apply IH, H'.
Qed.

Lemma walk_okp T ident :
  (forall it lbl idx s, mut s -> okp mut (dec_item T ident lbl it idx s)) /\
  (forall b idx s, mut s -> okp mut (dec_body T ident b idx s)).
Proof.
  apply item_body_ind.
  - intros k lbl idx s H. rewrite dec_item_field. apply set_single_okp, H.
  - intros w lbl idx s H. exact I.
  - intros c b IHb lbl idx s H. rewrite dec_item_group.
    eapply okp_bind; [apply group_size_okp|]. intros n _.
    destruct (max_count <? n); [exact I|]. apply rep_okp; [|exact H]. intros idx0 s0 H0. apply IHb, H0.
  - intros k con b IHb lbl idx s H. rewrite dec_item_opt.
    eapply okp_bind; [apply getattr_okp|]. intros [z|f|str] _; [|exact I|exact H].
    destruct (z =? con); [apply IHb, H|exact H].
  - intros l IHl idx s H. rewrite dec_body_items. revert s H.
    induction IHl as [|[lbl it] r Hit Hr IHr]; intros s H.
    + rewrite dec_items_nil. exact H.
    + rewrite dec_items_cons. eapply okp_bind; [apply Hit, H|]. intros s1 H1. apply IHr, H1.
  - intros w idx s H. exact I.
Qed.

(* the table walk started on a mutable object: never a library error (in particular never the
   "object is immutable" RTCMMessageError), and the object is still mutable at the end *)
Theorem walk_mutable : forall T ident b idx o off, o_immutable o = false ->
  match dec_body T ident b idx (o, off) with
  | Ok (o1, _) => o_immutable o1 = false
  | Lib _ => False
  | _ => True
  end.
Proof.
  intros T ident b idx o off H.
  pose proof (proj2 (walk_okp T ident) b idx (o, off) H) as K.
  destruct (dec_body T ident b idx (o, off)) as [[o1 off1]| | |]; exact K.
Qed.

Theorem decode_raw_no_lib : forall T o, o_immutable o = false ->
  match decode_raw T o with
  | Ok (o1, _) => o_immutable o1 = false
  | Lib _ => False
  | _ => True
  end.
Proof.
  intros T o H. unfold decode_raw.
  destruct (identity (o_payload o)) as [ident|e|k|w] eqn:I0; cbn [obind]; try exact I.
  - destruct (get_dict T ident) as [pd|]; [apply walk_mutable, H|].
    rewrite (setattr_mutable o H). cbn [obind]. exact H.
  - (* identity never returns a library error *)
    unfold identity in I0. destruct (o_payload o) as [|b0 [|b1 r]]; try discriminate I0.
    destruct (msgnum b0 b1 =? 4076)%N; [destruct r|]; discriminate I0.
Qed.

(* the constructor: the object handed to the walk is mutable; the flag is set by the very last step *)
Theorem construct_mutable_during_init : forall T p l,
  o_immutable (obj0 p l) = false /\
  (forall o1 t, decode_run T p l = Ok (o1, t) -> o_immutable o1 = false) /\
  (forall o, construct T (Some p) l = Ok o ->
     exists o1 t, decode_run T p l = Ok (o1, t) /\ o_immutable o1 = false /\ o = with_immutable o1 true).
Proof.
  intros T p l. split; [reflexivity|].
  assert (A : forall o1 t, decode_run T p l = Ok (o1, t) -> o_immutable o1 = false).
  { intros o1 t E. apply decode_run_ok_inv in E. destruct E as [_ E].
    pose proof (decode_raw_no_lib T (obj0 p l) eq_refl) as K. rewrite E in K. exact K. }
  split; [exact A|].
  intros o E. apply construct_ok_run in E. destruct E as [o1 [t [E ->]]].
  exists o1, t. split; [exact E|]. split; [eapply A; exact E|reflexivity].
Qed.

(* RTCMMessageError out of the constructor means exactly: payload missing or too short to carry an identity;
   it is never the immutability check firing on one of the constructor's own writes *)
Theorem construct_message_error_iff : forall T p l,
  construct T (Some p) l = Lib EMessage <-> too_short p = true.
Proof.
  intros T p l. split.
  - intro E. destruct (too_short p) eqn:G; [reflexivity|].
    pose proof (construct_lib_is_type T p l EMessage G E) as X. discriminate X.
  - apply construct_short.
Qed.

(* ================= C13 : no hidden state ================= *)
Inductive op := OpConstruct (p:option bytes) (l:Z) | OpParse (v l:Z) (m:bytes).
Definition world := tables.

Definition run_op (w:world) (o:op) : world * outcome obj :=
  match o with
  | OpConstruct p l => (w, construct w p l)
  | OpParse v l m => (w, parse (fun q l' => construct w (Some q) l') (t_valcksum w) v l m)
  end.

Fixpoint run_ops (w:world) (ops:list op) : world * list (outcome obj) :=
  match ops with
  | [] => (w, [])
  | o :: r => let '(w1, x) := run_op w o in
              let '(w2, xs) := run_ops w1 r in (w2, x :: xs)
  end.

Lemma run_op_world w o : fst (run_op w o) = w.
Proof. destruct o; reflexivity. Qed.

Theorem world_unchanged : forall T ops, fst (run_ops T ops) = T.
Proof.
  intros T ops. induction ops as [|o r IH]; [reflexivity|].
  cbn [run_ops]. destruct (run_op T o) as [w1 x] eqn:E1.
  assert (w1 = T) by (pose proof (run_op_world T o) as K; rewrite E1 in K; exact K). subst w1.
  destruct (run_ops T r) as [w2 xs]. exact IH.
Qed.

Lemma run_ops_app T a b :
  snd (run_ops T (a ++ b)) = snd (run_ops T a) ++ snd (run_ops T b).
Proof.
  induction a as [|o r IH]; [reflexivity|].
  cbn [app run_ops]. destruct (run_op T o) as [w1 x] eqn:E1.
  assert (w1 = T) by (pose proof (run_op_world T o) as K; rewrite E1 in K; exact K). subst w1.
  destruct (run_ops T (r ++ b)) as [w2 xs]. destruct (run_ops T r) as [w3 ys]. cbn [snd] in *.
  rewrite IH. reflexivity.
Qed.

(* the result of an operation does not depend on what was done before *)
Theorem history_free : forall T ops p l,
  last (snd (run_ops T (ops ++ [OpConstruct p l]))) (Lib EMessage) = construct T p l.
Proof.
  intros T ops p l. rewrite run_ops_app. cbn [run_ops run_op snd]. apply last_last.
Qed.

Theorem history_free_parse : forall T ops v l m,
  last (snd (run_ops T (ops ++ [OpParse v l m]))) (Lib EMessage)
  = parse (fun q l' => construct T (Some q) l') (t_valcksum T) v l m.
Proof.
  intros T ops v l m. rewrite run_ops_app. cbn [run_ops run_op snd]. apply last_last.
Qed.

(* every result in a history is the result of the same operation run alone *)
Theorem history_pointwise : forall T ops,
  snd (run_ops T ops) = map (fun o => snd (run_op T o)) ops.
Proof.
  intros T ops. induction ops as [|o r IH]; [reflexivity|].
  cbn [run_ops map]. destruct (run_op T o) as [w1 x] eqn:E1.
  assert (w1 = T) by (pose proof (run_op_world T o) as K; rewrite E1 in K; exact K). subst w1.
  destruct (run_ops T r) as [w2 xs]. cbn [snd] in *. rewrite IH. reflexivity.
Qed.

Theorem construct_deterministic : forall T p l r1 r2,
  construct T p l = r1 -> construct T p l = r2 -> r1 = r2.
Proof. intros T p l r1 r2 <- <-. reflexivity. Qed.
