(* C19 / C18: the attribute-name helpers (att2idx, att2name, datadesc) and the array helpers
   (parse_msm, parse_4076_201) of Model/Helpers.v, proved against Spec/Names.v for every key,
   every index list (any number of levels, any number of digits) and every object. *)
From Coq Require Import NArith ZArith List String Ascii Bool Lia FinFun.
From Coq Require Import DecimalString DecimalN Decimal.
From PyRtcm Require Import Base.Bytes Base.Dec Model.Types Model.Message Model.Helpers Spec.Names.
Import ListNotations.
Open Scope string_scope.

Local Arguments dd : simpl never.
Local Arguments fmt_d : simpl never.

(* ================================================================== *)
(* 1. string facts                                                     *)
(* ================================================================== *)

Lemma sapp_nil_r s : s ++ "" = s.
Proof. induction s as [|c s IH]; simpl; congruence. Qed.

Lemma sapp_assoc a b c : (a ++ b) ++ c = a ++ (b ++ c).
Proof. induction a as [|x a IH]; simpl; congruence. Qed.

Lemma slength_app a b : String.length (a ++ b) = (String.length a + String.length b)%nat.
Proof. induction a as [|x a IH]; simpl; congruence. Qed.

Lemma sapp_inv_head a b c : a ++ b = a ++ c -> b = c.
Proof. induction a as [|x a IH]; simpl; intro H; [assumption|]. injection H as H. auto. Qed.

Lemma string_forall_app f a b : string_forall f (a ++ b) = string_forall f a && string_forall f b.
Proof. induction a as [|x a IH]; simpl; [reflexivity|]. rewrite IH, andb_assoc. reflexivity. Qed.

Lemma string_forall_impl (f g:ascii -> bool) s :
  (forall c, f c = true -> g c = true) -> string_forall f s = true -> string_forall g s = true.
Proof.
  intro I. induction s as [|c s IH]; simpl; [reflexivity|].
  intro H. apply andb_true_iff in H as [Hc Hs]. rewrite (I c Hc), (IH Hs). reflexivity.
Qed.

Lemma all_chars_string_forall f s : all_chars f s = string_forall f s.
Proof. induction s as [|c s IH]; simpl; congruence. Qed.

Lemma all_chars_is_digit s : all_chars is_digit s = digits_only s.
Proof. apply all_chars_string_forall. Qed.

Lemma dec_digit_not_us c : dec_digit c = true -> negb (Ascii.eqb c "_"%char) = true.
Proof.
  intro H. destruct (Ascii.eqb c "_"%char) eqn:E; [|reflexivity].
  apply Ascii.eqb_eq in E. subst c. vm_compute in H. discriminate H.
Qed.

Lemma digits_only_no_us s : digits_only s = true -> no_us s = true.
Proof. apply string_forall_impl. exact dec_digit_not_us. Qed.

(* -- decimal renderings are digit strings -- *)
Lemma digits_uint u : digits_only (NilEmpty.string_of_uint u) = true.
Proof.
  induction u as [|u IH|u IH|u IH|u IH|u IH|u IH|u IH|u IH|u IH|u IH];
    [reflexivity|..]; cbn [NilEmpty.string_of_uint digits_only string_forall];
    fold (digits_only (NilEmpty.string_of_uint u)); rewrite IH; reflexivity.
Qed.

Lemma str_of_N_digits n : digits_only (str_of_N n) = true.
Proof.
  unfold str_of_N, NilZero.string_of_uint.
  destruct (N.to_uint n) as [|u|u|u|u|u|u|u|u|u|u] eqn:E; [reflexivity|..]; apply digits_uint.
Qed.

Lemma pad_zeros_digits k s : digits_only (pad_zeros k s) = digits_only s.
Proof. induction k as [|k IH]; simpl; [reflexivity|]. exact IH. Qed.

Lemma pad_zeros_length k s : String.length (pad_zeros k s) = (k + String.length s)%nat.
Proof. induction k as [|k IH]; simpl; congruence. Qed.

Theorem fmt_d_digits w n : digits_only (fmt_d w n) = true.
Proof. unfold fmt_d. rewrite pad_zeros_digits. apply str_of_N_digits. Qed.

Theorem fmt_d_nonempty w n : fmt_d w n <> "".
Proof. unfold fmt_d. apply pad_zeros_nonempty, str_of_N_nonempty. Qed.

Theorem fmt_d_length w n : (w <= String.length (fmt_d w n))%nat.
Proof. unfold fmt_d. rewrite pad_zeros_length. lia. Qed.

Theorem fmt_d_no_us w n : no_us (fmt_d w n) = true.
Proof. apply digits_only_no_us, fmt_d_digits. Qed.

Theorem str_of_N_no_us n : no_us (str_of_N n) = true.
Proof. apply digits_only_no_us, str_of_N_digits. Qed.

Lemma dd_digits n : digits_only (dd n) = true.      Proof. apply fmt_d_digits. Qed.
Lemma dd_nonempty n : dd n <> "".                   Proof. apply fmt_d_nonempty. Qed.
Lemma dd_no_us n : no_us (dd n) = true.             Proof. apply fmt_d_no_us. Qed.
Lemma dd_length n : (2 <= String.length (dd n))%nat. Proof. apply fmt_d_length. Qed.
Lemma N_of_str_dd n : N_of_str (dd n) = Some n.     Proof. apply N_of_str_fmt_d. Qed.

Theorem fmt_d_inj w n m : fmt_d w n = fmt_d w m -> n = m.
Proof.
  intro H. pose proof (N_of_str_fmt_d w n) as Hn. rewrite H, N_of_str_fmt_d in Hn. congruence.
Qed.
Lemma dd_inj n m : dd n = dd m -> n = m.
Proof. apply fmt_d_inj. Qed.

(* -- str.split("_") -- *)
Lemma split_aux_no_us : forall s cur, no_us s = true -> split_us_aux cur s = [cur ++ s].
Proof.
  induction s as [|c s IH]; intros cur H; simpl.
  - rewrite sapp_nil_r. reflexivity.
  - unfold no_us in H. simpl in H. apply andb_true_iff in H as [Hc Hs].
    apply negb_true_iff in Hc. rewrite Hc. rewrite (IH _ Hs), sapp_assoc. reflexivity.
Qed.

Lemma split_aux_app : forall a cur b, no_us a = true ->
  split_us_aux cur (a ++ String "_" b) = (cur ++ a) :: split_us_aux "" b.
Proof.
  induction a as [|c a IH]; intros cur b H; simpl.
  - rewrite sapp_nil_r. reflexivity.
  - unfold no_us in H. simpl in H. apply andb_true_iff in H as [Hc Hs].
    apply negb_true_iff in Hc. rewrite Hc. rewrite (IH _ _ Hs), sapp_assoc. reflexivity.
Qed.

Theorem split_us_no_us s : no_us s = true -> split_us s = [s].
Proof. intro H. unfold split_us. rewrite split_aux_no_us by assumption. reflexivity. Qed.

Theorem split_us_app a b : no_us a = true -> split_us (a ++ "_" ++ b) = a :: split_us b.
Proof. intro H. unfold split_us. simpl. rewrite split_aux_app by assumption. reflexivity. Qed.

(* -- render_name against the independent rendering -- *)
Lemma render_name_nil key : render_name key [] = key.
Proof. reflexivity. Qed.

Lemma render_name_cons key i r : (0 < i)%Z -> render_name key (i :: r) = render_name (key ++ idx_suffix i) r.
Proof. intro H. unfold render_name. simpl. apply Z.ltb_lt in H. rewrite H. reflexivity. Qed.

Lemma render_name_app key l1 l2 : render_name key (l1 ++ l2) = render_name (render_name key l1) l2.
Proof. unfold render_name. apply fold_left_app. Qed.

Lemma render_name_snoc key idxs i : (0 < i)%Z ->
  render_name key (idxs ++ [i]) = render_name key idxs ++ idx_suffix i.
Proof. intro H. rewrite render_name_app, render_name_cons by assumption. reflexivity. Qed.

Theorem render_name_spec : forall idxs key, positive_idxs idxs -> render_name key idxs = spec_name key idxs.
Proof.
  unfold spec_name. induction idxs as [|i r IH]; intros key H.
  - simpl. rewrite sapp_nil_r. reflexivity.
  - inversion H as [|? ? Hi Hr]; subst. rewrite render_name_cons by assumption.
    rewrite (IH _ Hr). unfold idx_suffix. rewrite sapp_assoc. reflexivity.
Qed.

(* one index: the familiar KEY_NN *)
Lemma render_name_1 key i : (0 < i)%N -> render_name key [Z.of_N i] = key ++ "_" ++ dd i.
Proof.
  intro H. rewrite render_name_cons by lia. unfold idx_suffix. rewrite N2Z.id. reflexivity.
Qed.

Lemma split_aux_suffixes : forall idxs cur a, no_us a = true ->
  split_us_aux cur (a ++ suffixes idxs) = (cur ++ a) :: map (fun i => dd (Z.to_N i)) idxs.
Proof.
  induction idxs as [|i r IH]; intros cur a H.
  - simpl. rewrite sapp_nil_r. apply split_aux_no_us. assumption.
  - cbn [suffixes map]. change ("_" ++ dd (Z.to_N i) ++ suffixes r) with (String "_" (dd (Z.to_N i) ++ suffixes r)).
    rewrite split_aux_app by assumption. rewrite (IH "" _ (dd_no_us _)). reflexivity.
Qed.

Theorem split_us_render key idxs : no_us key = true -> positive_idxs idxs ->
  split_us (render_name key idxs) = key :: map (fun i => dd (Z.to_N i)) idxs.
Proof.
  intros Hk Hp. rewrite render_name_spec by assumption. unfold spec_name, split_us.
  rewrite split_aux_suffixes by assumption. reflexivity.
Qed.

(* ================================================================== *)
(* 2. att2name                                                         *)
(* ================================================================== *)
Theorem att2name_render key idxs : no_us key = true -> positive_idxs idxs ->
  att2name (render_name key idxs) = key.
Proof. intros Hk Hp. unfold att2name. rewrite split_us_render by assumption. reflexivity. Qed.

(* ================================================================== *)
(* 3. att2idx                                                          *)
(* ================================================================== *)
(* -- CPython's int() digit limit: which indices stay below it -- *)
Local Arguments int_max_str_digits : simpl never.

(* a decimal rendering never has more digits than the number has bits *)
Lemma little_double_digits d :
  (Decimal.nb_digits (Decimal.Little.double d) <= S (Decimal.nb_digits d))%nat /\
  (Decimal.nb_digits (Decimal.Little.succ_double d) <= S (Decimal.nb_digits d))%nat.
Proof.
  induction d as [|d [I1 I2]|d [I1 I2]|d [I1 I2]|d [I1 I2]|d [I1 I2]|d [I1 I2]|d [I1 I2]|d [I1 I2]|d [I1 I2]|d [I1 I2]];
    simpl; split; lia.
Qed.

Lemma to_little_uint_digits p : (Decimal.nb_digits (Pos.to_little_uint p) <= Pos.size_nat p)%nat.
Proof.
  induction p as [p IH|p IH|]; cbn [Pos.to_little_uint Pos.size_nat].
  - pose proof (proj2 (little_double_digits (Pos.to_little_uint p))). lia.
  - pose proof (proj1 (little_double_digits (Pos.to_little_uint p))). lia.
  - simpl. lia.
Qed.

Lemma string_of_uint_length u : String.length (NilEmpty.string_of_uint u) = Decimal.nb_digits u.
Proof. induction u; simpl; congruence. Qed.

Lemma str_of_N_length_pos p : (String.length (str_of_N (Npos p)) <= Pos.size_nat p)%nat.
Proof.
  unfold str_of_N. rewrite NilZero_NilEmpty by apply to_uint_nonnil.
  rewrite string_of_uint_length. cbn [N.to_uint]. unfold Pos.to_uint.
  rewrite DecimalFacts.nb_digits_rev. apply to_little_uint_digits.
Qed.

Lemma size_nat_bound : forall p k, (Npos p < 2 ^ N.of_nat k)%N -> (Pos.size_nat p <= k)%nat.
Proof.
  induction p as [p IH|p IH|]; intros k H; (destruct k as [|k]; [simpl in H; lia|]);
    cbn [Pos.size_nat]; try lia;
    rewrite Nat2N.inj_succ, N.pow_succ_r' in H; apply le_n_S, IH;
    set (X := (2 ^ N.of_nat k)%N) in *.
  - change (N.pos p~1) with (2 * N.pos p + 1)%N in H. lia.
  - change (N.pos p~0) with (2 * N.pos p)%N in H. lia.
Qed.

Lemma dd_length_le n k : (String.length (str_of_N n) <= k)%nat -> (2 <= k)%nat -> (String.length (dd n) <= k)%nat.
Proof. intros H H2. unfold dd, fmt_d. rewrite pad_zeros_length. lia. Qed.

Lemma int_max_ge_2 : (2 <= int_max_str_digits)%nat.
Proof. apply Nat.leb_le. vm_compute. reflexivity. Qed.

(* every index below 2^4300 is small (the decoder itself never goes beyond 2^20) *)
Theorem small_idx_of_bits i : (i < 2 ^ 4300)%Z -> small_idx i.
Proof.
  intro H. unfold small_idx. apply dd_length_le; [|exact int_max_ge_2].
  destruct i as [|p|p]; cbn [Z.to_N]; try (apply Nat.leb_le; vm_compute; reflexivity).
  eapply Nat.le_trans; [apply str_of_N_length_pos|]. apply size_nat_bound.
  replace (N.of_nat int_max_str_digits) with 4300%N by (vm_compute; reflexivity).
  apply N2Z.inj_lt. rewrite N2Z.inj_pow. exact H.
Qed.

Corollary small_idxs_of_bits idxs : Forall (fun i => (i < 2 ^ 4300)%Z) idxs -> small_idxs idxs.
Proof. unfold small_idxs. apply Forall_impl. exact small_idx_of_bits. Qed.

Lemma small_or_huge i : small_idx i \/ huge_idx i.
Proof. unfold small_idx, huge_idx. lia. Qed.

Lemma small_not_huge i : small_idx i -> huge_idx i -> False.
Proof. unfold small_idx, huge_idx. lia. Qed.

(* -- int() on an index rendering -- *)
Lemma py_int_dd n : (String.length (dd n) <= int_max_str_digits)%nat -> py_int (dd n) = PVal n.
Proof.
  intro H. unfold py_int. pose proof (dd_nonempty n) as NE.
  destruct (dd n) as [|c s] eqn:E; [congruence|]. rewrite <- E in *.
  rewrite all_chars_is_digit, dd_digits, N_of_str_dd.
  rewrite (proj2 (Nat.ltb_ge _ _) H). reflexivity.
Qed.

Lemma py_int_dd_huge n : (int_max_str_digits < String.length (dd n))%nat -> py_int (dd n) = PValueError.
Proof.
  intro H. unfold py_int. pose proof (dd_nonempty n) as NE.
  destruct (dd n) as [|c s] eqn:E; [congruence|]. rewrite <- E in *.
  rewrite all_chars_is_digit, dd_digits.
  rewrite (proj2 (Nat.ltb_lt _ _) H). reflexivity.
Qed.

Lemma ints_dd l : Forall (fun n => (String.length (dd n) <= int_max_str_digits)%nat) l ->
  ints (map dd l) = Some (Some l).
Proof.
  induction 1 as [|n l Hn _ IH]; cbn [map ints]; [reflexivity|].
  rewrite (py_int_dd _ Hn), IH. reflexivity.
Qed.

Lemma ints_dd_huge l : Exists (fun n => (int_max_str_digits < String.length (dd n))%nat) l ->
  ints (map dd l) = Some None.
Proof.
  induction l as [|n l IH]; intro H; [inversion H|]. cbn [map ints].
  destruct (Nat.le_gt_cases (String.length (dd n)) int_max_str_digits) as [Hs|Hh].
  - rewrite (py_int_dd _ Hs). inversion H as [? ? Hh|? ? Ht]; subst; [lia|].
    rewrite (IH Ht). reflexivity.
  - rewrite (py_int_dd_huge _ Hh). reflexivity.
Qed.

Lemma small_idxs_map idxs : small_idxs idxs ->
  Forall (fun n => (String.length (dd n) <= int_max_str_digits)%nat) (map Z.to_N idxs).
Proof. induction 1; cbn [map]; constructor; assumption. Qed.

Lemma huge_idxs_map idxs : Exists huge_idx idxs ->
  Exists (fun n => (int_max_str_digits < String.length (dd n))%nat) (map Z.to_N idxs).
Proof. induction 1; cbn [map]; [left|right]; assumption. Qed.

Theorem att2idx_plain key : no_us key = true -> att2idx key = IdxInt 0.
Proof. intro H. unfold att2idx. rewrite split_us_no_us by assumption. reflexivity. Qed.

Theorem att2idx_render1 key i : no_us key = true -> (0 < i)%Z -> small_idx i ->
  att2idx (render_name key [i]) = IdxInt (Z.to_N i).
Proof.
  intros Hk Hi Hs. unfold att2idx. rewrite split_us_render by (auto; repeat constructor; assumption).
  cbn [map]. rewrite (py_int_dd _ Hs). reflexivity.
Qed.

Theorem att2idx_renderN key idxs : no_us key = true -> (2 <= List.length idxs)%nat ->
  positive_idxs idxs -> small_idxs idxs ->
  att2idx (render_name key idxs) = IdxTuple (map Z.to_N idxs).
Proof.
  intros Hk Hl Hp Hs. unfold att2idx. rewrite split_us_render by assumption.
  rewrite <- (map_map Z.to_N dd). apply small_idxs_map in Hs.
  destruct idxs as [|a [|b r]]; simpl in Hl; try lia.
  cbn [map] in *. change (dd (Z.to_N a) :: dd (Z.to_N b) :: map dd (map Z.to_N r)) with (map dd (Z.to_N a :: Z.to_N b :: map Z.to_N r)).
  rewrite (ints_dd _ Hs). reflexivity.
Qed.

(* the CPython behaviour the limit documents: an index whose rendering has more than 4300 digits makes
   int() raise ValueError, which att2idx turns into 0 -- at any nesting depth *)
Theorem att2idx_render_huge key idxs : no_us key = true -> positive_idxs idxs -> Exists huge_idx idxs ->
  att2idx (render_name key idxs) = IdxInt 0.
Proof.
  intros Hk Hp Hh. unfold att2idx. rewrite split_us_render by assumption.
  rewrite <- (map_map Z.to_N dd). apply huge_idxs_map in Hh.
  destruct idxs as [|a [|b r]]; [inversion Hh| |].
  - cbn [map] in *. inversion Hh as [? ? Ha|? ? Ht]; subst; [|inversion Ht].
    rewrite (py_int_dd_huge _ Ha). reflexivity.
  - cbn [map] in *. change (dd (Z.to_N a) :: dd (Z.to_N b) :: map dd (map Z.to_N r)) with (map dd (Z.to_N a :: Z.to_N b :: map Z.to_N r)).
    rewrite (ints_dd_huge _ Hh). reflexivity.
Qed.

Corollary att2idx_render1_huge key i : no_us key = true -> (0 < i)%Z -> huge_idx i ->
  att2idx (render_name key [i]) = IdxInt 0.
Proof.
  intros Hk Hi Hh. apply att2idx_render_huge; [assumption|repeat constructor; assumption|left; assumption].
Qed.

(* ================================================================== *)
(* 8. rendering is injective                                           *)
(* ================================================================== *)
Lemma map_dd_inj : forall i1 i2, positive_idxs i1 -> positive_idxs i2 ->
  map (fun i => dd (Z.to_N i)) i1 = map (fun i => dd (Z.to_N i)) i2 -> i1 = i2.
Proof.
  induction i1 as [|a r IH]; intros [|b s] H1 H2 E; simpl in E; try discriminate; [reflexivity|].
  injection E as Eh Et. inversion H1; inversion H2; subst.
  apply dd_inj in Eh. f_equal; [lia|auto].
Qed.

Theorem render_inj k1 k2 i1 i2 : no_us k1 = true -> no_us k2 = true ->
  positive_idxs i1 -> positive_idxs i2 ->
  render_name k1 i1 = render_name k2 i2 -> k1 = k2 /\ i1 = i2.
Proof.
  intros N1 N2 P1 P2 E. apply (f_equal split_us) in E.
  rewrite !split_us_render in E by assumption. injection E as Ek Ei.
  split; [assumption|]. apply map_dd_inj; assumption.
Qed.

(* ================================================================== *)
(* 4. rsplit("_", 1)[0]                                                *)
(* ================================================================== *)
Lemma rsplit1_no_us : forall s, no_us s = true -> rsplit1_aux s = None.
Proof.
  induction s as [|c s IH]; intro H; simpl; [reflexivity|].
  unfold no_us in H. simpl in H. apply andb_true_iff in H as [Hc Hs].
  apply negb_true_iff in Hc. rewrite (IH Hs), Hc. reflexivity.
Qed.

Lemma rsplit1_app : forall s t, no_us t = true -> rsplit1_aux (s ++ String "_" t) = Some s.
Proof.
  induction s as [|c s IH]; intros t H; simpl.
  - rewrite (rsplit1_no_us _ H). reflexivity.
  - rewrite (IH _ H). reflexivity.
Qed.

Theorem rsplit1_render key idxs i : (0 < i)%Z ->
  rsplit1_aux (render_name key (idxs ++ [i])) = Some (render_name key idxs).
Proof.
  intro H. rewrite render_name_snoc by assumption. unfold idx_suffix.
  change ("_" ++ dd (Z.to_N i)) with (String "_" (dd (Z.to_N i))).
  apply rsplit1_app, dd_no_us.
Qed.

(* ================================================================== *)
(* 5. datadesc                                                         *)
(* ================================================================== *)
Lemma suffixes_length idxs : (List.length idxs <= String.length (suffixes idxs))%nat.
Proof.
  induction idxs as [|i r IH]; simpl; [lia|]. rewrite slength_app. lia.
Qed.

Lemma render_name_length key idxs : positive_idxs idxs ->
  (List.length idxs <= String.length (render_name key idxs))%nat.
Proof.
  intro H. rewrite render_name_spec by assumption. unfold spec_name. rewrite slength_app.
  pose proof (suffixes_length idxs). lia.
Qed.

Section Desc.
Variable T : tables.

Lemma datadesc_loop_S f key :
  datadesc_loop T (S f) key =
  match find_field T key with
  | Some d => Ok (df_desc d)
  | None => match rsplit1_aux key with Some k' => datadesc_loop T f k' | None => Foreign XKey end
  end.
Proof. reflexivity. Qed.

Lemma datadesc_loop_hit fuel key d : find_field T key = Some d -> datadesc_loop T fuel key = Ok (df_desc d).
Proof. intro H. destruct fuel; simpl; rewrite H; reflexivity. Qed.

(* the loop strips one index group at a time while the current name is not a table key *)
Lemma datadesc_loop_strip : forall idxs fuel key d,
  find_field T key = Some d -> positive_idxs idxs -> (List.length idxs < fuel)%nat ->
  (forall k, (0 < k <= List.length idxs)%nat -> find_field T (render_name key (firstn k idxs)) = None) ->
  datadesc_loop T fuel (render_name key idxs) = Ok (df_desc d).
Proof.
  induction idxs as [|i idxs IH] using rev_ind; intros fuel key d Hk Hp Hf Hn.
  - apply datadesc_loop_hit. exact Hk.
  - apply Forall_app in Hp as [Hp Hi]. inversion Hi as [|? ? Hi0 _]; subst.
    rewrite app_length in Hf, Hn. simpl in Hf, Hn.
    destruct fuel as [|f]; [lia|]. rewrite datadesc_loop_S.
    pose proof (Hn (List.length idxs + 1)%nat ltac:(lia)) as Hfull.
    rewrite firstn_all2 in Hfull by (rewrite app_length; simpl; lia). rewrite Hfull.
    rewrite rsplit1_render by assumption.
    apply IH; try assumption; [lia|].
    intros k Hk'. specialize (Hn k ltac:(lia)).
    rewrite firstn_app in Hn. replace (k - List.length idxs)%nat with 0%nat in Hn by lia.
    simpl in Hn. rewrite app_nil_r in Hn. exact Hn.
Qed.

(* datadesc returns the description of the LONGEST prefix  key_i1_.._ik  that is a table key *)
Theorem datadesc_longest key idxs k d : positive_idxs idxs -> (k <= List.length idxs)%nat ->
  find_field T (render_name key (firstn k idxs)) = Some d ->
  (forall j, (k < j <= List.length idxs)%nat -> find_field T (render_name key (firstn j idxs)) = None) ->
  datadesc T (render_name key idxs) = Ok (df_desc d).
Proof.
  intros Hp Hk Hd Hn. unfold datadesc.
  pose proof (render_name_length key idxs Hp) as Hlen.
  rewrite <- (firstn_skipn k idxs) at 2. rewrite render_name_app.
  assert (Hps : positive_idxs (skipn k idxs)).
  { unfold positive_idxs in *. rewrite <- (firstn_skipn k idxs) in Hp. apply Forall_app in Hp. tauto. }
  apply datadesc_loop_strip; try assumption.
  - rewrite skipn_length. lia.
  - intros j Hj. rewrite skipn_length in Hj. rewrite <- render_name_app.
    replace (firstn k idxs ++ firstn j (skipn k idxs))%list with (firstn (k + j) idxs).
    + apply Hn. lia.
    + rewrite <- (firstn_skipn k idxs) at 1. rewrite firstn_app, firstn_firstn, firstn_length.
      replace (Nat.min (k + j) k) with k by lia.
      replace (k + j - Nat.min k (List.length idxs))%nat with j by lia. reflexivity.
Qed.

Theorem datadesc_render key idxs d : positive_idxs idxs ->
  find_field T key = Some d ->
  (forall k, (0 < k <= List.length idxs)%nat -> find_field T (render_name key (firstn k idxs)) = None) ->
  datadesc T (render_name key idxs) = Ok (df_desc d).
Proof.
  intros Hp Hd Hn. apply (datadesc_longest key idxs 0); try assumption. lia.
Qed.

(* -- the table checker -- *)
Lemma strip_prefix_app : forall p r, strip_prefix p (p ++ r) = Some r.
Proof. induction p as [|c p IH]; intro r; simpl; [reflexivity|]. rewrite Ascii.eqb_refl. apply IH. Qed.

Lemma is_idx_component_dd i : (0 < i)%Z -> is_idx_component (dd (Z.to_N i)) = true.
Proof.
  intro H. unfold is_idx_component. rewrite N_of_str_dd, String.eqb_refl.
  assert (E : (0 <? Z.to_N i)%N = true) by (apply N.ltb_lt; lia). rewrite E. reflexivity.
Qed.

Lemma is_ext_of_render key i r : positive_idxs (i :: r) -> is_ext_of (key ++ "_") (render_name key (i :: r)) = true.
Proof.
  intro Hp. rewrite render_name_spec by assumption. unfold spec_name, is_ext_of. cbn [suffixes].
  change ("_" ++ dd (Z.to_N i) ++ suffixes r) with ("_" ++ (dd (Z.to_N i) ++ suffixes r)).
  rewrite <- sapp_assoc, strip_prefix_app. unfold split_us.
  rewrite split_aux_suffixes by apply dd_no_us.
  change (("" ++ dd (Z.to_N i)) :: map (fun i0 => dd (Z.to_N i0)) r) with (map (fun i0 => dd (Z.to_N i0)) (i :: r)).
  rewrite forallb_forall. intros s Hs. apply in_map_iff in Hs as [j [Ej Hj]]. subst s.
  apply is_idx_component_dd. unfold positive_idxs in Hp. rewrite Forall_forall in Hp. auto.
Qed.

Lemma find_field_in k d : find_field T k = Some d -> In d (t_fields T) /\ df_key d = k.
Proof.
  unfold find_field. intro H. apply find_some in H as [Hi He]. apply String.eqb_eq in He. auto.
Qed.

Theorem desc_unambiguous_no_ext : desc_unambiguous T = true ->
  forall key idxs d, find_field T key = Some d -> positive_idxs idxs -> idxs <> [] ->
  find_field T (render_name key idxs) = None.
Proof.
  intros Hc key idxs d Hd Hp Hne.
  destruct (find_field T (render_name key idxs)) as [d2|] eqn:E2; [exfalso|reflexivity].
  apply find_field_in in Hd as [Hin1 Hk1]. apply find_field_in in E2 as [Hin2 Hk2].
  unfold desc_unambiguous in Hc. rewrite forallb_forall in Hc.
  specialize (Hc key). rewrite <- Hk1 in Hc at 1. specialize (Hc (in_map df_key _ _ Hin1)).
  cbv zeta in Hc. rewrite forallb_forall in Hc.
  specialize (Hc (render_name key idxs)). rewrite <- Hk2 in Hc at 1. specialize (Hc (in_map df_key _ _ Hin2)).
  destruct idxs as [|i r]; [congruence|].
  rewrite is_ext_of_render in Hc by assumption. discriminate Hc.
Qed.

Theorem desc_unambiguous_sound : desc_unambiguous T = true ->
  forall d key idxs, find_field T key = Some d -> positive_idxs idxs ->
  datadesc T (render_name key idxs) = Ok (df_desc d).
Proof.
  intros Hc d key idxs Hd Hp. apply datadesc_render; try assumption.
  intros k Hk. apply (desc_unambiguous_no_ext Hc key (firstn k idxs) d Hd).
  - unfold positive_idxs in *. rewrite <- (firstn_skipn k idxs) in Hp. apply Forall_app in Hp. tauto.
  - intro E. apply (f_equal (@List.length Z)) in E. rewrite firstn_length in E. simpl in E. lia.
Qed.

(* C19 in one statement, for names of data fields that sit inside groups (keys without "_") *)
Theorem C19_generated_names : desc_unambiguous T = true ->
  forall name d, generated_name T name d -> datadesc T name = Ok (df_desc d).
Proof. intros Hc name d G. destruct G as [key idxs d Hd Hp]. apply desc_unambiguous_sound; assumption. Qed.

End Desc.

(* ================================================================== *)
(* 6. C18: parse_msm                                                   *)
(* ================================================================== *)
Lemma getattr_ok o k v : getattr o k = Ok v <-> assoc k (o_attrs o) = Some v.
Proof. unfold getattr. destruct (assoc k (o_attrs o)); split; congruence. Qed.

Lemma getint_ok o k z : getint o k = Ok z <-> assoc k (o_attrs o) = Some (VInt z).
Proof.
  unfold getint, getattr. destruct (assoc k (o_attrs o)) as [[z'|f|s]|]; cbn [obind]; split; congruence.
Qed.

(* constructed objects always have an identity (the C04 guard) *)
Lemma identity_total p : too_short p = false -> exists ident, identity p = Ok ident.
Proof.
  destruct p as [|b0 [|b1 [|b2 r]]]; simpl; try discriminate.
  - intro H. rewrite H. eexists; reflexivity.
  - intros _. destruct (N.eqb (msgnum b0 b1) 4076); eexists; reflexivity.
Qed.

Lemma nrange1_length n : List.length (nrange1 n) = Z.to_nat n.
Proof. unfold nrange1. rewrite map_length, seq_length. reflexivity. Qed.

Lemma nrange1_nth n i : (i < Z.to_nat n)%nat -> nth_error (nrange1 n) i = Some (N.of_nat i + 1)%N.
Proof.
  intro H. unfold nrange1. apply map_nth_error with (f := fun k => (N.of_nat k + 1)%N).
  rewrite (nth_error_nth' _ 0%nat) by (rewrite seq_length; assumption).
  rewrite seq_nth by assumption. reflexivity.
Qed.

Lemma nrange1_in n x : In x (nrange1 n) -> exists i, (i < Z.to_nat n)%nat /\ x = (N.of_nat i + 1)%N.
Proof.
  unfold nrange1. intro H. apply in_map_iff in H as [k [E Hk]]. apply in_seq in Hk.
  exists k. split; [lia|auto].
Qed.

Lemma pick_row_of o keys i : pick o keys i = row_of (o_attrs o) keys i.
Proof.
  unfold pick. induction keys as [|a r IH]; [reflexivity|].
  cbn [flat_map row_of]. destruct (assoc (a ++ "_" ++ dd i) (o_attrs o)); rewrite IH; reflexivity.
Qed.

(* the row really is "the indexed attributes that exist", in key order *)
Lemma row_of_in attrs keys i a v : In (a, v) (row_of attrs keys i) ->
  In a keys /\ assoc (a ++ "_" ++ dd i) attrs = Some v.
Proof.
  induction keys as [|k r IH]; cbn [row_of]; [intros []|].
  destruct (assoc (k ++ "_" ++ dd i) attrs) as [v'|] eqn:E.
  - intros [H|H]; [injection H as <- <-; split; [left; reflexivity|exact E]|].
    destruct (IH H); split; [right|]; assumption.
  - intro H. destruct (IH H); split; [right|]; assumption.
Qed.

Lemma row_of_complete attrs keys i a v : In a keys -> assoc (a ++ "_" ++ dd i) attrs = Some v ->
  In (a, v) (row_of attrs keys i).
Proof.
  induction keys as [|k r IH]; cbn [row_of]; [intros []|].
  intros [<-|H] E.
  - rewrite E. left; reflexivity.
  - destruct (assoc (k ++ "_" ++ dd i) attrs); [right|]; auto.
Qed.

Section Msm.
Variable T : tables.

(* (a) anything that is not a defined MSM layout -- including "Reserved MSM" numbers -- gives None *)
Theorem parse_msm_none o ident : obj_identity o = Ok ident ->
  ismsm_of T ident = false \/ assoc ident (t_msm T) = None -> parse_msm T o = Ok None.
Proof.
  intros Hi H. unfold parse_msm. rewrite Hi. cbn [obind].
  destruct (ismsm_of T ident); cbn [negb]; [|reflexivity].
  destruct H as [H|H]; [discriminate|]. rewrite H. reflexivity.
Qed.

Corollary parse_msm_none_constructed o : too_short (o_payload o) = false ->
  (forall ident, obj_identity o = Ok ident -> ismsm_of T ident = false \/ assoc ident (t_msm T) = None) ->
  parse_msm T o = Ok None.
Proof.
  intros Hs H. destruct (identity_total _ Hs) as [ident Hi]. apply (parse_msm_none o ident Hi). auto.
Qed.

(* (b) shape and contents of a result *)
Theorem parse_msm_some o r : parse_msm T o = Ok (Some r) -> msm_result_ok T o r.
Proof.
  unfold parse_msm. intro H.
  destruct (obj_identity o) as [ident|e|e|e] eqn:Hid; cbn [obind] in H; try discriminate.
  destruct (ismsm_of T ident) eqn:Hm; cbn [negb] in H; [|discriminate].
  destruct (assoc ident (t_msm T)) as [b|] eqn:Hb; [|discriminate].
  destruct (assoc (substring 0 3 ident) (t_gnssmap T)) as [[gnss ek]|] eqn:Hg; [|discriminate].
  destruct (getattr o "DF003") as [station|e|e|e] eqn:H1; cbn [obind] in H; try discriminate.
  destruct (getattr o ek) as [epoch|e|e|e] eqn:H2; cbn [obind] in H; try discriminate.
  destruct (getattr o "NSat") as [nsatv|e|e|e] eqn:H3; cbn [obind] in H; try discriminate.
  destruct (getattr o "NCell") as [ncellv|e|e|e] eqn:H4; cbn [obind] in H; try discriminate.
  destruct (getint o "NSat") as [nsat|e|e|e] eqn:H5; cbn [obind] in H; try discriminate.
  destruct (getint o "NCell") as [ncell|e|e|e] eqn:H6; cbn [obind] in H; try discriminate.
  destruct ((1048576 <? nsat)%Z || (1048576 <? ncell)%Z); [discriminate|].
  injection H as <-.
  apply getattr_ok in H1, H2, H3, H4. apply getint_ok in H5, H6.
  assert (nsatv = VInt nsat) by congruence. assert (ncellv = VInt ncell) by congruence. subst nsatv ncellv.
  exists ident, gnss, ek, station, epoch, nsat, ncell. cbn [m_meta m_sats m_cells].
  repeat (split; [first [assumption | reflexivity | congruence]|]).
  rewrite !map_length, !nrange1_length.
  repeat (split; [reflexivity|]).
  split; intros i Hi; rewrite <- pick_row_of; apply map_nth_error, nrange1_nth; assumption.
Qed.

(* ... and the helper does return a result whenever the decoded attributes are there *)
Theorem parse_msm_total o ident b gnss ek station epoch nsat ncell :
  obj_identity o = Ok ident -> ismsm_of T ident = true -> assoc ident (t_msm T) = Some b ->
  assoc (substring 0 3 ident) (t_gnssmap T) = Some (gnss, ek) ->
  assoc "DF003" (o_attrs o) = Some station -> assoc ek (o_attrs o) = Some epoch ->
  assoc "NSat" (o_attrs o) = Some (VInt nsat) -> assoc "NCell" (o_attrs o) = Some (VInt ncell) ->
  (nsat <= 1048576)%Z -> (ncell <= 1048576)%Z ->
  exists r, parse_msm T o = Ok (Some r).
Proof.
  intros Hi Hm Hb Hg H1 H2 H3 H4 L1 L2. unfold parse_msm.
  rewrite Hi. cbn [obind]. rewrite Hm, Hb, Hg. cbn [negb].
  pose proof (proj2 (getint_ok o "NSat" nsat) H3) as G3. pose proof (proj2 (getint_ok o "NCell" ncell) H4) as G4.
  apply getattr_ok in H1, H2, H3, H4. rewrite H1, H2, H3, H4, G3, G4. cbn [obind].
  assert (E1 : (1048576 <? nsat)%Z = false) by (apply Z.ltb_ge; lia).
  assert (E2 : (1048576 <? ncell)%Z = false) by (apply Z.ltb_ge; lia).
  rewrite E1, E2. cbn [orb]. eexists; reflexivity.
Qed.

(* (c) the table checker *)
Lemma flat_fields_in_sound keys b : flat_fields_in keys b = true -> group_fields_in keys b.
Proof.
  destruct b as [gl|w]; cbn [flat_fields_in]; [|discriminate].
  intro H. exists gl. split; [reflexivity|]. rewrite forallb_forall in H.
  intros lbl it Hin. specialize (H _ Hin). cbv beta iota in H.
  destruct it as [k|c bb|k con bb|w]; try discriminate. split; [eexists; reflexivity|].
  apply existsb_exists in H as [x [Hx Ex]]. apply String.eqb_eq in Ex. subst; assumption.
Qed.

Lemma top_field_sound k l : top_field k l = true -> exists kk, In (k, IField kk) l.
Proof.
  unfold top_field. intro H. apply existsb_exists in H as [[lbl it] [Hin H]].
  apply andb_true_iff in H as [E H]. apply String.eqb_eq in E. subst lbl.
  destruct it as [kk|c bb|kk con bb|w]; try discriminate. exists kk. assumption.
Qed.

Lemma msm_item_ok_sound p : msm_item_ok p = true -> msm_item_covered (snd p).
Proof.
  destruct p as [lbl it]. unfold msm_item_ok. cbn [snd].
  destruct it as [k|c bb|k con bb|w]; try discriminate; [intros _; exact I|].
  destruct c as [n|c|w]; try discriminate. intro H. cbn [msm_item_covered].
  apply orb_true_iff in H as [H|H]; apply andb_true_iff in H as [E H]; apply String.eqb_eq in E;
    apply flat_fields_in_sound in H; [left|right]; split; assumption.
Qed.

Theorem msm_keys_covered_sound : msm_keys_covered T = true -> msm_tables_covered T.
Proof.
  unfold msm_keys_covered. intro H.
  apply andb_true_iff in H as [H H3]. apply andb_true_iff in H as [H1 H2].
  apply String.eqb_eq in H1, H2. split; [assumption|]. split; [assumption|].
  rewrite forallb_forall in H3. intros ident b Hin. specialize (H3 _ Hin).
  unfold msm_layout_ok in H3. cbn [fst snd] in H3.
  destruct b as [items|w]; [|discriminate].
  apply andb_true_iff in H3 as [H3 Hep]. apply andb_true_iff in H3 as [Hall Hdf3].
  destruct (assoc (substring 0 3 ident) (t_gnssmap T)) as [[gnss ek]|] eqn:Hg; [|discriminate].
  exists items, gnss, ek. split; [reflexivity|]. split; [reflexivity|].
  split; [apply top_field_sound; assumption|]. split; [apply top_field_sound; assumption|].
  rewrite forallb_forall in Hall. intros lbl it Hi. apply (msm_item_ok_sound (lbl, it)). auto.
Qed.

End Msm.

(* ================================================================== *)
(* 7. C18: parse_4076_201                                              *)
(* ================================================================== *)
Lemma all_ok_map {A B} (f:A -> outcome B) : forall l rs,
  all_ok (map f l) = Ok rs -> Forall2 (fun x r => f x = Ok r) l rs.
Proof.
  induction l as [|a l IH]; cbn [map all_ok]; intros rs H.
  - injection H as <-. constructor.
  - destruct (f a) as [r0|e|e|e] eqn:E; cbn [obind] in H; try discriminate.
    destruct (all_ok (map f l)) as [t|e|e|e] eqn:E2; cbn [obind] in H; try discriminate.
    injection H as <-. constructor; auto.
Qed.

Lemma all_ok_total {A B} (f:A -> outcome B) : forall l,
  (forall x, In x l -> exists r, f x = Ok r) -> exists rs, all_ok (map f l) = Ok rs.
Proof.
  induction l as [|a l IH]; intro H; cbn [map all_ok]; [eexists; reflexivity|].
  destruct (H a (or_introl eq_refl)) as [r0 E]. rewrite E. cbn [obind].
  destruct IH as [t Et]; [intros x Hx; apply H; right; assumption|]. rewrite Et. cbn [obind].
  eexists; reflexivity.
Qed.

Lemma all_some_map {A B} (g:A -> option B) : forall l cs,
  all_some (map g l) = Some cs -> Forall2 (fun x c => g x = Some c) l cs.
Proof.
  induction l as [|a l IH]; cbn [map all_some]; intros cs H.
  - injection H as <-. constructor.
  - destruct (g a) as [c0|] eqn:E; [|discriminate].
    destruct (all_some (map g l)) as [t|] eqn:E2; cbn [option_map] in H; [|discriminate].
    injection H as <-. constructor; auto.
Qed.

Lemma all_some_total {A B} (g:A -> option B) : forall l,
  (forall x, In x l -> g x <> None) -> exists cs, all_some (map g l) = Some cs.
Proof.
  induction l as [|a l IH]; intro H; cbn [map all_some]; [eexists; reflexivity|].
  destruct (g a) as [c0|] eqn:E; [|exfalso; apply (H a (or_introl eq_refl) E)].
  destruct IH as [t Et]; [intros x Hx; apply H; right; assumption|]. rewrite Et. cbn [option_map].
  eexists; reflexivity.
Qed.

Lemma Forall2_nth_error_r {A B} (R:A -> B -> Prop) l l' : Forall2 R l l' ->
  forall i b, nth_error l' i = Some b -> exists a, nth_error l i = Some a /\ R a b.
Proof.
  induction 1 as [|a b l l' Hab _ IH]; intros i b0 Hi.
  - destruct i; discriminate.
  - destruct i as [|i]; cbn [nth_error] in *.
    + injection Hi as <-. exists a. auto.
    + apply IH. assumption.
Qed.

Lemma Forall2_len {A B} (R:A -> B -> Prop) l l' : Forall2 R l l' -> List.length l = List.length l'.
Proof. induction 1; cbn [List.length]; congruence. Qed.

Lemma Forall2_weaken {A B} (R R':A -> B -> Prop) l l' :
  (forall a b, R a b -> R' a b) -> Forall2 R l l' -> Forall2 R' l l'.
Proof. intro I. induction 1; constructor; auto. Qed.

(* -- collect -- *)
Lemma collect_S f o pre i :
  collect (S f) o pre i =
  match assoc (pre ++ "_" ++ dd (i + 1)) (o_attrs o) with
  | None => Some []
  | Some v => option_map (cons v) (collect f o pre (i + 1)%N)
  end.
Proof. reflexivity. Qed.

(* the values are those of pre_<i+1>, pre_<i+2>, ... and the next name is missing *)
Lemma collect_spec : forall fuel o pre i vs, collect fuel o pre i = Some vs ->
  (forall j v, nth_error vs j = Some v ->
               assoc (pre ++ "_" ++ dd (i + N.of_nat j + 1)) (o_attrs o) = Some v) /\
  assoc (pre ++ "_" ++ dd (i + N.of_nat (List.length vs) + 1)) (o_attrs o) = None.
Proof.
  induction fuel as [|f IH]; intros o pre i vs H; [discriminate|].
  rewrite collect_S in H.
  destruct (assoc (pre ++ "_" ++ dd (i + 1)) (o_attrs o)) as [v0|] eqn:E.
  - destruct (collect f o pre (i + 1)) as [t|] eqn:E2; cbn [option_map] in H; [|discriminate].
    injection H as <-. destruct (IH _ _ _ _ E2) as [Hv Hn]. split.
    + intros j v Hj. destruct j as [|j]; cbn [nth_error] in Hj.
      * injection Hj as <-. replace (i + N.of_nat 0 + 1)%N with (i + 1)%N by lia. exact E.
      * replace (i + N.of_nat (S j) + 1)%N with (i + 1 + N.of_nat j + 1)%N by lia. auto.
    + cbn [List.length]. replace (i + N.of_nat (S (List.length t)) + 1)%N with (i + 1 + N.of_nat (List.length t) + 1)%N by lia.
      exact Hn.
  - injection H as <-. split.
    + intros j v Hj. destruct j; discriminate.
    + cbn [List.length]. replace (i + N.of_nat 0 + 1)%N with (i + 1)%N by lia. exact E.
Qed.

Lemma collect_none : forall fuel o pre i, collect fuel o pre i = None ->
  forall k, (k < fuel)%nat -> assoc (pre ++ "_" ++ dd (i + 1 + N.of_nat k)) (o_attrs o) <> None.
Proof.
  induction fuel as [|f IH]; intros o pre i H k Hk; [lia|].
  rewrite collect_S in H.
  destruct (assoc (pre ++ "_" ++ dd (i + 1)) (o_attrs o)) as [v0|] eqn:E; [|discriminate].
  destruct (collect f o pre (i + 1)) as [t|] eqn:E2; [discriminate|].
  destruct k as [|k].
  - replace (i + 1 + N.of_nat 0)%N with (i + 1)%N by lia. congruence.
  - replace (i + 1 + N.of_nat (S k))%N with (i + 1 + 1 + N.of_nat k)%N by lia.
    apply (IH _ _ _ E2). lia.
Qed.

Lemma assoc_in_keys {A} k (l:list (string*A)) : assoc k l <> None -> In k (map fst l).
Proof.
  induction l as [|[k' v] l IH]; cbn [assoc map fst]; [congruence|].
  destruct (String.eqb k' k) eqn:E; [apply String.eqb_eq in E; left; assumption|right; auto].
Qed.

(* pigeonhole: the probed names are pairwise distinct, so more than |attrs| of them cannot all be present *)
Theorem collect_fuel_enough o pre i fuel : (List.length (o_attrs o) < fuel)%nat -> collect fuel o pre i <> None.
Proof.
  intros Hf Hn. pose proof (collect_none _ _ _ _ Hn) as Hall.
  set (f := fun k => pre ++ "_" ++ dd (i + 1 + N.of_nat k)).
  assert (ND : NoDup (map f (seq 0 fuel))).
  { apply Injective_map_NoDup; [|apply seq_NoDup]. intros a b E. unfold f in E.
    apply sapp_inv_head in E. apply (sapp_inv_head "_") in E. apply dd_inj in E. lia. }
  assert (IN : incl (map f (seq 0 fuel)) (map fst (o_attrs o))).
  { intros s Hs. apply in_map_iff in Hs as [k [<- Hk]]. apply in_seq in Hk.
    apply assoc_in_keys, Hall. lia. }
  pose proof (NoDup_incl_length ND IN) as L. rewrite !map_length, seq_length in L. lia.
Qed.

Theorem collect_is_run o pre :
  exists vs, collect (S (List.length (o_attrs o))) o pre 0 = Some vs /\ is_run (o_attrs o) pre vs.
Proof.
  destruct (collect (S (List.length (o_attrs o))) o pre 0) as [vs|] eqn:E.
  - exists vs. split; [reflexivity|]. apply collect_spec in E. exact E.
  - exfalso. revert E. apply collect_fuel_enough. lia.
Qed.

Lemma collect_run fuel o pre vs : collect fuel o pre 0 = Some vs -> is_run (o_attrs o) pre vs.
Proof. intro E. apply collect_spec in E. exact E. Qed.

Lemma nth_error_ext_eq {A} : forall (l l':list A), (forall i, nth_error l i = nth_error l' i) -> l = l'.
Proof.
  induction l as [|a l IH]; intros [|b l'] H; [reflexivity|specialize (H 0%nat); discriminate H
                                                |specialize (H 0%nat); discriminate H|].
  pose proof (H 0%nat) as H0. cbn [nth_error] in H0. injection H0 as <-.
  f_equal. apply IH. intro i. exact (H (S i)).
Qed.

(* a run is determined by the attributes *)
Theorem is_run_unique attrs pre vs1 vs2 : is_run attrs pre vs1 -> is_run attrs pre vs2 -> vs1 = vs2.
Proof.
  intros [A1 N1] [A2 N2].
  assert (L : List.length vs1 = List.length vs2).
  { destruct (Nat.lt_trichotomy (List.length vs1) (List.length vs2)) as [H|[H|H]]; [exfalso|assumption|exfalso].
    - destruct (nth_error vs2 (List.length vs1)) as [v|] eqn:E; [|apply nth_error_None in E; lia].
      apply A2 in E. congruence.
    - destruct (nth_error vs1 (List.length vs2)) as [v|] eqn:E; [|apply nth_error_None in E; lia].
      apply A1 in E. congruence. }
  apply nth_error_ext_eq. intro i.
  destruct (nth_error vs1 i) as [v1|] eqn:E1; destruct (nth_error vs2 i) as [v2|] eqn:E2.
  - apply A1 in E1. apply A2 in E2. congruence.
  - apply nth_error_None in E2. assert (nth_error vs1 i <> None) as H by congruence.
    apply nth_error_Some in H. lia.
  - apply nth_error_None in E1. assert (nth_error vs2 i <> None) as H by congruence.
    apply nth_error_Some in H. lia.
  - reflexivity.
Qed.

Section Coeff.
Variable T : tables.

Theorem parse_4076_201_none o ident : obj_identity o = Ok ident -> ident <> "4076_201" ->
  parse_4076_201 T o = Ok None.
Proof.
  intros Hi Hne. unfold parse_4076_201. rewrite Hi. cbn [obind].
  destruct (String.eqb ident "4076_201") eqn:E; [apply String.eqb_eq in E; contradiction|reflexivity].
Qed.

Corollary parse_4076_201_none_constructed o : too_short (o_payload o) = false ->
  obj_identity o <> Ok "4076_201" -> parse_4076_201 T o = Ok None.
Proof.
  intros Hs Hne. destruct (identity_total _ Hs) as [ident Hi].
  apply (parse_4076_201_none o ident Hi). intro E. subst ident. contradiction.
Qed.

Theorem parse_4076_201_some o layers : parse_4076_201 T o = Ok (Some layers) ->
  obj_identity o = Ok "4076_201" /\
  exists nl, assoc "IDF035" (o_attrs o) = Some (VInt nl) /\
             List.length layers = Z.to_nat (nl + 1) /\
             forall l L, nth_error layers l = Some L -> layer_ok T o (N.of_nat l + 1) L.
Proof.
  unfold parse_4076_201. intro H.
  destruct (obj_identity o) as [ident|e|e|e] eqn:Hid; cbn [obind] in H; try discriminate.
  destruct (String.eqb ident "4076_201") eqn:Eid; cbn [negb] in H; [|discriminate].
  apply String.eqb_eq in Eid. subst ident. split; [reflexivity|].
  destruct (getint o "IDF035") as [nl|e|e|e] eqn:Hnl; cbn [obind] in H; try discriminate.
  apply getint_ok in Hnl. exists nl. split; [assumption|].
  destruct (1048576 <? nl)%Z; [discriminate|].
  match type of H with context [all_ok (map ?f ?l)] =>
    destruct (all_ok (map f l)) as [ls|e|e|e] eqn:Hall; cbn [obind] in H; try discriminate end.
  injection H as <-. apply all_ok_map in Hall.
  pose proof (Forall2_len _ _ _ Hall) as Hlen. rewrite nrange1_length in Hlen. split; [auto|].
  intros l L HL.
  destruct (Forall2_nth_error_r _ _ _ Hall _ _ HL) as [lyr [Hlyr Hf]].
  assert (Hlt : (l < Z.to_nat (nl + 1))%nat).
  { rewrite Hlen. apply nth_error_Some. congruence. }
  rewrite (nrange1_nth _ _ Hlt) in Hlyr. injection Hlyr as <-.
  cbv beta in Hf.
  destruct (getattr o ("IDF036_" ++ dd (N.of_nat l + 1))) as [h|e|e|e] eqn:Hh; cbn [obind] in Hf; try discriminate.
  apply getattr_ok in Hh.
  match type of Hf with context [all_some (map ?g ?l)] =>
    destruct (all_some (map g l)) as [cs|] eqn:Hcs; [|discriminate] end.
  injection Hf as <-. unfold layer_ok. cbn [l_height l_coeffs]. split; [assumption|].
  apply all_some_map in Hcs. revert Hcs. apply Forall2_weaken.
  intros [z [field coeff]] c Hc. cbn [fst snd].
  destruct (collect (S (List.length (o_attrs o))) o (field ++ "_" ++ dd (N.of_nat l + 1)) 0) as [vs|] eqn:Ec;
    cbn [option_map] in Hc; [|discriminate].
  injection Hc as <-. cbn [fst snd]. split; [reflexivity|]. apply (collect_run _ _ _ _ Ec).
Qed.

(* the helper never runs out of fuel and returns a result whenever the layer heights are there *)
Theorem parse_4076_201_total o nl : obj_identity o = Ok "4076_201" ->
  assoc "IDF035" (o_attrs o) = Some (VInt nl) -> (nl <= 1048576)%Z ->
  (forall l, (l < Z.to_nat (nl + 1))%nat -> assoc ("IDF036_" ++ dd (N.of_nat l + 1)) (o_attrs o) <> None) ->
  exists layers, parse_4076_201 T o = Ok (Some layers).
Proof.
  intros Hi Hnl Hle Hh. unfold parse_4076_201. rewrite Hi. cbn [obind].
  change (String.eqb "4076_201" "4076_201") with true. cbn [negb].
  apply getint_ok in Hnl. rewrite Hnl. cbn [obind].
  assert (E : (1048576 <? nl)%Z = false) by (apply Z.ltb_ge; lia). rewrite E.
  match goal with |- context [all_ok (map ?f ?l)] => destruct (all_ok_total f l) as [ls Hls] end.
  - intros lyr Hin. apply nrange1_in in Hin as [l [Hl ->]].
    specialize (Hh l Hl). destruct (assoc ("IDF036_" ++ dd (N.of_nat l + 1)) (o_attrs o)) as [h|] eqn:Eh; [|congruence].
    apply getattr_ok in Eh. rewrite Eh. cbn [obind].
    match goal with |- context [all_some (map ?g ?l)] => destruct (all_some_total g l) as [cs Hcs] end.
    + intros [z [field coeff]] _.
      destruct (collect_is_run o (field ++ "_" ++ dd (N.of_nat l + 1))) as [vs [Ev _]]. rewrite Ev. discriminate.
    + rewrite Hcs. eexists; reflexivity.
  - rewrite Hls. cbn [obind]. eexists; reflexivity.
Qed.

End Coeff.

(* ================================================================== *)
(* C19 summary                                                         *)
(* ================================================================== *)
Theorem att2idx_render key idxs : no_us key = true -> positive_idxs idxs -> small_idxs idxs ->
  att2idx (render_name key idxs) = expected_idx idxs.
Proof.
  intros Hk Hp Hs. destruct idxs as [|a [|b r]].
  - apply att2idx_plain. assumption.
  - inversion Hp; inversion Hs; subst. apply att2idx_render1; assumption.
  - apply att2idx_renderN; try assumption. simpl. lia.
Qed.

(* the same with the bound stated on the indices themselves *)
Corollary att2idx_render_bits key idxs : no_us key = true -> positive_idxs idxs ->
  Forall (fun i => (i < 2 ^ 4300)%Z) idxs ->
  att2idx (render_name key idxs) = expected_idx idxs.
Proof. intros Hk Hp Hb. apply att2idx_render; try assumption. apply small_idxs_of_bits. assumption. Qed.

Theorem C19_all_helpers T : desc_unambiguous T = true ->
  forall key idxs d, find_field T key = Some d -> no_us key = true -> positive_idxs idxs -> small_idxs idxs ->
    datadesc T (render_name key idxs) = Ok (df_desc d) /\
    att2name (render_name key idxs) = key /\
    att2idx (render_name key idxs) = expected_idx idxs.
Proof.
  intros Hc key idxs d Hd Hk Hp Hs. split; [|split].
  - apply desc_unambiguous_sound; assumption.
  - apply att2name_render; assumption.
  - apply att2idx_render; assumption.
Qed.

(* every label the layouts can index (depth >= 1) satisfies the no_us hypothesis *)
Theorem grouped_labels_no_us_sound T : grouped_labels_no_us T = true ->
  forall ident b depth lbl, In (ident, b) (layouts T) -> In (depth, lbl) (labels_body 0 b) ->
  (0 < depth)%nat -> no_us lbl = true.
Proof.
  unfold grouped_labels_no_us. intros H ident b depth lbl Hb Hl Hd.
  rewrite forallb_forall in H. specialize (H _ Hb). cbv beta iota in H.
  rewrite forallb_forall in H. specialize (H _ Hl). cbv beta iota in H.
  destruct depth; [lia|assumption].
Qed.

(* Plain (never indexed) fields whose KEY contains "_" are outside the no_us hypothesis, and the two
   splitting helpers do treat the tail of such a key as an index -- as the Python does. *)
Example att2idx_DF001_7 : att2idx "DF001_7" = IdxInt 7 /\ att2name "DF001_7" = "DF001".
Proof. split; reflexivity. Qed.
(* three-digit and nested indices *)
Example att2idx_3digit : att2idx (render_name "IDF039" [2; 123]%Z) = IdxTuple [2; 123]%N
                         /\ render_name "IDF039" [2; 123]%Z = "IDF039_02_123".
Proof. split; reflexivity. Qed.

(* the limit is exactly CPython's: 10^4300 - 1 (4300 nines) still converts, 10^4300 (4301 digits) does not *)
Lemma digit_limit_boundary : small_idx (10 ^ 4300 - 1)%Z /\ huge_idx (10 ^ 4300)%Z.
Proof.
  split.
  - unfold small_idx. apply Nat.leb_le. vm_compute. reflexivity.
  - unfold huge_idx. apply Nat.ltb_lt. vm_compute. reflexivity.
Qed.

Example att2idx_huge_witness : att2idx (render_name "DF404" [10 ^ 4300]%Z) = IdxInt 0.
Proof.
  apply att2idx_render1_huge; [reflexivity|apply Z.pow_pos_nonneg; lia|exact (proj2 digit_limit_boundary)].
Qed.

(* ================================================================== *)
Print Assumptions fmt_d_digits.
Print Assumptions fmt_d_nonempty.
Print Assumptions fmt_d_no_us.
Print Assumptions str_of_N_no_us.
Print Assumptions split_us_app.
Print Assumptions split_us_render.
Print Assumptions render_name_spec.
Print Assumptions att2name_render.
Print Assumptions att2idx_render1.
Print Assumptions att2idx_renderN.
Print Assumptions att2idx_plain.
Print Assumptions att2idx_render.
Print Assumptions att2idx_render_bits.
Print Assumptions small_idx_of_bits.
Print Assumptions att2idx_render_huge.
Print Assumptions att2idx_render1_huge.
Print Assumptions digit_limit_boundary.
Print Assumptions att2idx_huge_witness.
Print Assumptions rsplit1_render.
Print Assumptions datadesc_longest.
Print Assumptions datadesc_render.
Print Assumptions desc_unambiguous_no_ext.
Print Assumptions desc_unambiguous_sound.
Print Assumptions C19_generated_names.
Print Assumptions C19_all_helpers.
Print Assumptions grouped_labels_no_us_sound.
Print Assumptions render_inj.
Print Assumptions parse_msm_none.
Print Assumptions parse_msm_none_constructed.
Print Assumptions parse_msm_some.
Print Assumptions parse_msm_total.
Print Assumptions msm_keys_covered_sound.
Print Assumptions collect_fuel_enough.
Print Assumptions collect_is_run.
Print Assumptions is_run_unique.
Print Assumptions parse_4076_201_none.
Print Assumptions parse_4076_201_none_constructed.
Print Assumptions parse_4076_201_some.
Print Assumptions parse_4076_201_total.
