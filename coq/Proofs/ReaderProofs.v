(* Soundness (C01), no-escape / termination (C04, reader part) and option independence (C17)
   of the stream reader model Model/Reader.v, for any underlying stream obeying Spec/StreamLaw.v. *)
From Coq Require Import NArith ZArith List Lia Bool.
From Coq.Strings Require Import Byte.
From PyRtcm Require Import Base.Bytes Model.Types Model.Crc Model.Reader Spec.StreamLaw Spec.Frame.
Import ListNotations.
Local Open Scope nat_scope.

(* ---------- arithmetic of the two header bytes ---------- *)
Lemma lor_shiftl8 (a b:N) : (b < 256)%N -> N.lor (N.shiftl a 8) b = (a * 256 + b)%N.
Proof.
  intro Hb.
  assert (Hland : N.land (N.shiftl a 8) b = 0%N).
  { apply N.bits_inj. intro n. rewrite N.land_spec, N.bits_0.
    destruct (N.lt_ge_cases n 8) as [Hn|Hn].
    - rewrite N.shiftl_spec_low by exact Hn. reflexivity.
    - destruct (N.eq_dec b 0) as [->|Hb0]; [now rewrite N.bits_0, andb_false_r|].
      rewrite (N.bits_above_log2 b n), andb_false_r; [reflexivity|].
      apply N.lt_le_trans with 8%N; [|exact Hn].
      apply N.log2_lt_pow2; [lia|exact Hb]. }
  rewrite <- N.lxor_lor by exact Hland.
  rewrite <- N.add_nocarry_lxor by exact Hland.
  rewrite N.shiftl_mul_pow2. reflexivity.
Qed.

Lemma land252_lt4 (b:byte) : N.eqb (N.land (bN b) 252) 0 = true -> (bN b < 4)%N.
Proof. destruct b; vm_compute; intro H; try reflexivity; discriminate H. Qed.

Lemma lt4_land252 (b:byte) : (bN b < 4)%N -> N.eqb (N.land (bN b) 252) 0 = true.
Proof. destruct b; vm_compute; intro H; try reflexivity; discriminate H. Qed.

Lemma beq_true (a b:bytes) : beq a b = true -> a = b.
Proof. unfold beq. destruct (list_eq_dec Byte.byte_eq_dec a b); [auto|discriminate]. Qed.

Lemma beq_refl (a:bytes) : beq a a = true.
Proof. unfold beq. destruct (list_eq_dec Byte.byte_eq_dec a a); [auto|congruence]. Qed.

Lemma length1 {A} (l:list A) : length l = 1 -> exists x, l = [x].
Proof. destruct l as [|x [|y l]]; simpl; intro H; try discriminate. now exists x. Qed.

(* ---------- static parse(): C17 item 6 (no stream involved) ---------- *)
Section Parse.
Context {M : Type}.
Variable construct : bytes -> Z -> outcome M.

Theorem parse_validate_off v l m : Z.land v 1 = 0%Z -> parse construct 1 v l m = construct (payload_of m) l.
Proof. intro H. unfold parse, payload_of. rewrite H. reflexivity. Qed.

Theorem parse_validate_on_good v l m : calc_crc24q m = 0%N -> parse construct 1 v l m = construct (payload_of m) l.
Proof. intro H. unfold parse, payload_of. rewrite H. simpl. rewrite andb_false_r. reflexivity. Qed.

Theorem parse_validate_on_bad v l m : Z.land v 1 <> 0%Z -> calc_crc24q m <> 0%N -> parse construct 1 v l m = Lib EParse.
Proof.
  intros Hv Hc. unfold parse.
  apply Z.eqb_neq in Hv. apply N.eqb_neq in Hc. rewrite Hv, Hc. reflexivity.
Qed.

(* with validation off, the three trailer bytes are irrelevant *)
Corollary parse_off_ignores_crc v l (h p c1 c2:bytes) :
  Z.land v 1 = 0%Z -> length h = 3 -> length c1 = 3 -> length c2 = 3 ->
  parse construct 1 v l (h ++ p ++ c1) = parse construct 1 v l (h ++ p ++ c2).
Proof.
  intros Hv Hh H1 H2. rewrite !parse_validate_off by exact Hv.
  rewrite !payload_of_hdr3 by assumption. reflexivity.
Qed.

(* a frame with wrong checksum bytes parses, validation off, like the same frame with the right ones, validation on *)
Corollary parse_off_bad_eq_on_good v v' l (h p c1 c2:bytes) :
  Z.land v 1 = 0%Z -> length h = 3 -> length c1 = 3 -> length c2 = 3 -> calc_crc24q (h ++ p ++ c2) = 0%N ->
  parse construct 1 v l (h ++ p ++ c1) = parse construct 1 v' l (h ++ p ++ c2).
Proof.
  intros Hv Hh H1 H2 Hc. rewrite parse_validate_off by exact Hv. rewrite parse_validate_on_good by exact Hc.
  rewrite !payload_of_hdr3 by assumption. reflexivity.
Qed.

Lemma parse_ok_inv v l raw msg : Z.land v 1 <> 0%Z -> parse construct 1 v l raw = Ok msg ->
  calc_crc24q raw = 0%N /\ construct (payload_of raw) l = Ok msg.
Proof.
  intros Hv H. destruct (N.eq_dec (calc_crc24q raw) 0) as [E|E].
  - split; [exact E|]. now rewrite parse_validate_on_good in H.
  - rewrite parse_validate_on_bad in H by assumption. discriminate H.
Qed.

(* whatever parse returns other than its own checksum error comes from the constructor *)
Lemma parse_cases v l raw : parse construct 1 v l raw = Lib EParse \/ parse construct 1 v l raw = construct (payload_of raw) l.
Proof.
  unfold parse, payload_of.
  destruct (negb (Z.land v 1 =? 0)%Z && negb (calc_crc24q raw =? 0)%N); auto.
Qed.
End Parse.

Section ReaderProofs.
Context {St M : Type}.
Variable ops : stream_ops St.
Variable content : St -> bytes.
Hypothesis Hlaw : stream_law ops content.
Variable construct : bytes -> Z -> outcome M.
Variable nmea_hdr : list bytes.
Variable ubx_hdr : bytes.

Local Notation parse1 := (parse construct 1).
Local Notation parse_rtcm3_1 := (parse_rtcm3 ops construct 1).
Local Notation attempt1 := (attempt ops construct nmea_hdr ubx_hdr 1).
Local Notation read1 := (read ops construct nmea_hdr ubx_hdr 1 2 1).
Local Notation run_reads1 := (run_reads ops construct nmea_hdr ubx_hdr 1 2 1).
Local Notation iterate1 := (iterate ops construct nmea_hdr ubx_hdr 1 2 1).

(* ---------- primitive reads ---------- *)
Lemma read_bytes_spec n s r s' : read_bytes ops n s = (r, s') ->
  exists d, content s = d ++ content s' /\
    match r with
    | ROk d' => d' = d /\ length d = n
    | RExc e => (e = EEOF /\ d = [] /\ n <> 0) \/ (e = ELib EStream /\ 0 < length d < n)
    end.
Proof.
  unfold read_bytes. destruct (s_read ops n s) as [d s1] eqn:E.
  destruct Hlaw as [Hr _]. apply Hr in E. destruct E as [Hc Hl].
  destruct (Nat.eqb (length d) 0 && negb (Nat.eqb n 0)) eqn:E1.
  - intro H; inversion H; subst r s'. exists d. split; [exact Hc|]. left.
    apply andb_prop in E1. destruct E1 as [E1 E2].
    apply Nat.eqb_eq in E1. apply negb_true_iff in E2. apply Nat.eqb_neq in E2.
    destruct d; [auto|discriminate].
  - destruct (Nat.ltb 0 (length d) && Nat.ltb (length d) n) eqn:E2.
    + intro H; inversion H; subst r s'. exists d. split; [exact Hc|]. right.
      apply andb_prop in E2. destruct E2 as [E2 E3].
      apply Nat.ltb_lt in E2. apply Nat.ltb_lt in E3. auto.
    + intro H; inversion H; subst r s'. exists d. split; [exact Hc|]. split; [reflexivity|].
      apply andb_false_iff in E1. apply andb_false_iff in E2.
      rewrite Nat.eqb_neq, negb_false_iff, Nat.eqb_eq in E1.
      rewrite !Nat.ltb_ge in E2. lia.
Qed.

Lemma read_line_spec s r s' : read_line ops s = (r, s') ->
  exists d, content s = d ++ content s' /\
    match r with
    | ROk d' => d' = d /\ 0 < length d
    | RExc e => (e = EEOF /\ d = []) \/ (e = ELib EStream /\ 0 < length d)
    end.
Proof.
  unfold read_line. destruct (s_readline ops s) as [d s1] eqn:E.
  destruct Hlaw as [_ Hr]. apply Hr in E.
  destruct (rev d) as [|l t] eqn:Er.
  - intro H; inversion H; subst r s'. exists d. split; [exact E|]. left. split; [reflexivity|].
    apply (f_equal (@rev _)) in Er. now rewrite rev_involutive in Er.
  - assert (Hd : 0 < length d).
    { rewrite <- rev_length, Er. simpl. lia. }
    destruct (Byte.eqb l x0a); intro H; inversion H; subst r s'; exists d; auto.
Qed.

(* ---------- factoring the configuration out of _parse_rtcm3 and of one loop pass ---------- *)
Definition rtcm3_size (hdr hdr3:bytes) : nat :=
  N.to_nat (N.lor (N.shiftl (bN (nth 1 hdr x00)) 8) (bN (nth 0 hdr3 x00))).

(* the three reads of _parse_rtcm3: which bytes form the frame; no option is consulted *)
Definition cut_rtcm3 (hdr:bytes) (s:St) : res bytes * St :=
  bind (read_bytes ops 1 s) (fun hdr3 s =>
  bind (read_bytes ops (rtcm3_size hdr hdr3) s) (fun payload s =>
  bind (read_bytes ops 3 s) (fun crc s => (ROk (hdr ++ hdr3 ++ payload ++ crc), s)))).

(* what is done with the cut frame: touches no stream *)
Definition finish (c:cfg) (raw:bytes) (s:St) : res (bytes * option M) * St :=
  if parsed c then
    match of_outcome (parse1 (validate c) (labelmsm c) raw) with
    | ROk m => (ROk (raw, Some m), s)
    | RExc e => (RExc e, s)
    end
  else (ROk (raw, None), s).

Lemma bind_assoc {A B C} (x:res A * St) (f:A -> St -> res B * St) (g:B -> St -> res C * St) :
  bind (bind x f) g = bind x (fun a s => bind (f a s) g).
Proof. destruct x as [[a|e] s]; reflexivity. Qed.

Lemma parse_rtcm3_factor c hdr s : parse_rtcm3_1 c hdr s = bind (cut_rtcm3 hdr s) (finish c).
Proof.
  unfold parse_rtcm3, cut_rtcm3, rtcm3_size.
  destruct (read_bytes ops 1 s) as [[h3|e1] s1]; [|reflexivity]. cbn [bind].
  destruct (read_bytes ops _ s1) as [[p|e2] s2]; [|reflexivity]. cbn [bind].
  destruct (read_bytes ops 3 s2) as [[k|e3] s3]; reflexivity.
Qed.

(* one loop pass up to and including the frame cut *)
Definition cut_attempt (s:St) : res (option bytes) * St :=
  bind (read_bytes ops 1 s) (fun byte1 s =>
  if negb (is_sync byte1) then (ROk None, s) else
  bind (read_bytes ops 1 s) (fun byte2 s =>
  let bytehdr := byte1 ++ byte2 in
  if beq bytehdr ubx_hdr then bind (parse_ubx ops s) (fun _ s => (ROk None, s))
  else if existsb (beq bytehdr) nmea_hdr then bind (parse_nmea ops s) (fun _ s => (ROk None, s))
  else if beq byte1 [xd3] && N.eqb (N.land (bN (nth 0 byte2 x00)) 252) 0
       then bind (cut_rtcm3 bytehdr s) (fun r s => (ROk (Some r), s))
  else (RExc (ELib EParse), s))).

Definition finish_attempt (c:cfg) (r:option bytes) (s:St) : res (option (bytes * option M)) * St :=
  match r with
  | None => (ROk None, s)
  | Some raw => bind (finish c raw s) (fun r s => (ROk (Some r), s))
  end.

Lemma attempt_factor c s : attempt1 c s = bind (cut_attempt s) (finish_attempt c).
Proof.
  unfold attempt, cut_attempt.
  destruct (read_bytes ops 1 s) as [[byte1|e1] s1]; [|reflexivity]. cbn [bind].
  destruct (negb (is_sync byte1)); [reflexivity|].
  destruct (read_bytes ops 1 s1) as [[byte2|e2] s2]; [|reflexivity]. cbn [bind]. cbv zeta.
  destruct (beq (byte1 ++ byte2) ubx_hdr).
  { destruct (parse_ubx ops s2) as [[u|e] s3]; reflexivity. }
  destruct (existsb (beq (byte1 ++ byte2)) nmea_hdr).
  { destruct (parse_nmea ops s2) as [[u|e] s3]; reflexivity. }
  destruct (beq byte1 [xd3] && N.eqb (N.land (bN (nth 0 byte2 x00)) 252) 0); [|reflexivity].
  rewrite parse_rtcm3_factor, !bind_assoc.
  destruct (cut_rtcm3 (byte1 ++ byte2) s2) as [[raw|e] s3]; reflexivity.
Qed.

Lemma finish_spec c raw s r s' : finish c raw s = (r, s') ->
  s' = s /\
  match r with
  | ROk (raw', m) => raw' = raw /\
      (if parsed c then exists msg, m = Some msg /\ parse1 (validate c) (labelmsm c) raw = Ok msg else m = None)
  | RExc e => parsed c = true /\
      match e with
      | ELib le => parse1 (validate c) (labelmsm c) raw = Lib le
      | EForeign k => parse1 (validate c) (labelmsm c) raw = Foreign k
      | EUnm w => parse1 (validate c) (labelmsm c) raw = Unmodelled w
      | EEOF => False
      end
  end.
Proof.
  unfold finish. destruct (parsed c).
  - destruct (parse1 (validate c) (labelmsm c) raw) as [msg|le|k|w]; cbn [of_outcome];
      intro H; inversion H; subst r s'; split; auto.
    split; [reflexivity|]. exists msg. auto.
  - intro H; inversion H; subst r s'. auto.
Qed.

(* ---------- what the cut consumes ---------- *)
Lemma cut_rtcm3_spec hdr s r s' : cut_rtcm3 hdr s = (r, s') ->
  exists d, content s = d ++ content s' /\
    match r with
    | ROk raw => exists h3 p k, d = [h3] ++ p ++ k /\ raw = hdr ++ d /\
                   length p = rtcm3_size hdr [h3] /\ length k = 3
    | RExc e => e = EEOF \/ e = ELib EStream
    end.
Proof.
  unfold cut_rtcm3.
  destruct (read_bytes ops 1 s) as [[h3|e1] s1] eqn:E1; apply read_bytes_spec in E1; destruct E1 as (d1 & C1 & R1); cbn [bind].
  2:{ intro H; inversion H; subst r s'. exists d1. split; [exact C1|]. destruct R1 as [[-> _]|[-> _]]; auto. }
  destruct R1 as [-> L1]. apply length1 in L1. destruct L1 as [b ->].
  destruct (read_bytes ops (rtcm3_size hdr [b]) s1) as [[p|e2] s2] eqn:E2; apply read_bytes_spec in E2; destruct E2 as (d2 & C2 & R2); cbn [bind].
  2:{ intro H; inversion H; subst r s'. exists ([b] ++ d2). split; [rewrite C1, C2, <- app_assoc; reflexivity|].
      destruct R2 as [[-> _]|[-> _]]; auto. }
  destruct R2 as [-> L2].
  destruct (read_bytes ops 3 s2) as [[k|e3] s3] eqn:E3; apply read_bytes_spec in E3; destruct E3 as (d3 & C3 & R3); cbn [bind].
  2:{ intro H; inversion H; subst r s'. exists ([b] ++ d2 ++ d3). split; [rewrite C1, C2, C3, <- !app_assoc; reflexivity|].
      destruct R3 as [[-> _]|[-> _]]; auto. }
  destruct R3 as [-> L3].
  intro H; inversion H; subst r s'. exists ([b] ++ d2 ++ d3). split; [rewrite C1, C2, C3, <- !app_assoc; reflexivity|].
  exists b, d2, d3. auto.
Qed.

Lemma parse_ubx_spec s r s' : parse_ubx ops s = (r, s') ->
  exists d, content s = d ++ content s' /\
    match r with ROk _ => True | RExc e => e = EEOF \/ e = ELib EStream end.
Proof.
  unfold parse_ubx.
  destruct (read_bytes ops 4 s) as [[b4|e1] s1] eqn:E1; apply read_bytes_spec in E1; destruct E1 as (d1 & C1 & R1); cbn [bind].
  2:{ intro H; inversion H; subst r s'. exists d1. split; [exact C1|]. destruct R1 as [[-> _]|[-> _]]; auto. }
  destruct (read_bytes ops _ s1) as [[p|e2] s2] eqn:E2; apply read_bytes_spec in E2; destruct E2 as (d2 & C2 & R2); cbn [bind];
    intro H; inversion H; subst r s'; exists (d1 ++ d2); (split; [rewrite C1, C2, <- app_assoc; reflexivity|]); auto.
  destruct R2 as [[-> _]|[-> _]]; auto.
Qed.

Lemma parse_nmea_spec s r s' : parse_nmea ops s = (r, s') ->
  exists d, content s = d ++ content s' /\
    match r with ROk _ => True | RExc e => e = EEOF \/ e = ELib EStream end.
Proof.
  unfold parse_nmea.
  destruct (read_line ops s) as [[l|e1] s1] eqn:E1; apply read_line_spec in E1; destruct E1 as (d1 & C1 & R1); cbn [bind];
    intro H; inversion H; subst r s'; exists d1; (split; [exact C1|]); auto.
  destruct R1 as [[-> _]|[-> _]]; auto.
Qed.

Lemma cut_attempt_spec s r s' : cut_attempt s = (r, s') ->
  exists d, content s = d ++ content s' /\
    match r with
    | ROk (Some raw) => raw = d /\ frame_shape raw
    | ROk None => 0 < length d
    | RExc EEOF => True
    | RExc (ELib le) => (le = EStream \/ le = EParse) /\ 0 < length d
    | RExc _ => False
    end.
Proof.
  unfold cut_attempt.
  destruct (read_bytes ops 1 s) as [[byte1|e1] s1] eqn:E1; apply read_bytes_spec in E1; destruct E1 as (d1 & C1 & R1); cbn [bind].
  2:{ intro H; inversion H; subst r s'. exists d1. split; [exact C1|].
      destruct R1 as [[-> _]|[-> R1]]; [exact I|]. lia. }
  destruct R1 as [-> L1]. apply length1 in L1. destruct L1 as [x ->].
  destruct (negb (is_sync [x])).
  { intro H; inversion H; subst r s'. exists [x]. split; [exact C1|]. simpl; lia. }
  destruct (read_bytes ops 1 s1) as [[byte2|e2] s2] eqn:E2; apply read_bytes_spec in E2; destruct E2 as (d2 & C2 & R2); cbn [bind].
  2:{ intro H; inversion H; subst r s'. exists ([x] ++ d2). split; [rewrite C1, C2, <- app_assoc; reflexivity|].
      destruct R2 as [[-> _]|[-> _]]; [exact I|]. split; [auto|]. simpl; lia. }
  destruct R2 as [-> L2]. apply length1 in L2. destruct L2 as [y ->]. cbv zeta.
  destruct (beq ([x] ++ [y]) ubx_hdr).
  { destruct (parse_ubx ops s2) as [[u|e] s3] eqn:E3; apply parse_ubx_spec in E3; destruct E3 as (d3 & C3 & R3); cbn [bind];
      intro H; inversion H; subst r s'; exists ([x] ++ [y] ++ d3); (split; [rewrite C1, C2, C3, <- !app_assoc; reflexivity|]).
    - simpl; lia.
    - destruct R3 as [->| ->]; [exact I|]. split; [auto|]. simpl; lia. }
  destruct (existsb (beq ([x] ++ [y])) nmea_hdr).
  { destruct (parse_nmea ops s2) as [[u|e] s3] eqn:E3; apply parse_nmea_spec in E3; destruct E3 as (d3 & C3 & R3); cbn [bind];
      intro H; inversion H; subst r s'; exists ([x] ++ [y] ++ d3); (split; [rewrite C1, C2, C3, <- !app_assoc; reflexivity|]).
    - simpl; lia.
    - destruct R3 as [->| ->]; [exact I|]. split; [auto|]. simpl; lia. }
  destruct (beq [x] [xd3] && N.eqb (N.land (bN (nth 0 [y] x00)) 252) 0) eqn:Eg.
  2:{ intro H; inversion H; subst r s'. exists ([x] ++ [y]). split; [rewrite C1, C2, <- app_assoc; reflexivity|].
      split; [auto|]. simpl; lia. }
  apply andb_prop in Eg. destruct Eg as [Ex Ey]. apply beq_true in Ex. inversion Ex; subst x. cbn [nth] in Ey.
  apply land252_lt4 in Ey.
  destruct (cut_rtcm3 ([xd3] ++ [y]) s2) as [[raw|e] s3] eqn:E3; apply cut_rtcm3_spec in E3; destruct E3 as (d3 & C3 & R3); cbn [bind];
    intro H; inversion H; subst r s'; exists ([xd3] ++ [y] ++ d3); (split; [rewrite C1, C2, C3, <- !app_assoc; reflexivity|]).
  - destruct R3 as (h3 & p & k & -> & -> & Lp & Lk). split; [reflexivity|].
    exists y, h3, p, k. split; [reflexivity|]. split; [exact Ey|]. split; [|exact Lk].
    rewrite Lp. unfold rtcm3_size. cbn [nth app]. rewrite lor_shiftl8 by apply bN_lt. reflexivity.
  - destruct R3 as [->| ->]; [exact I|]. split; [auto|]. simpl; lia.
Qed.

(* the full pass *)
Lemma attempt_spec c s r s' : attempt1 c s = (r, s') ->
  exists d, content s = d ++ content s' /\
    match r with
    | ROk (Some (raw, m)) => raw = d /\ frame_shape raw /\
        (if parsed c then exists msg, m = Some msg /\ parse1 (validate c) (labelmsm c) raw = Ok msg else m = None)
    | ROk None => 0 < length d
    | RExc EEOF => True
    | RExc (ELib le) => 0 < length d
    | RExc (EForeign k) => 0 < length d /\ parsed c = true /\ exists raw, parse1 (validate c) (labelmsm c) raw = Foreign k
    | RExc (EUnm w) => 0 < length d /\ parsed c = true /\ exists raw, parse1 (validate c) (labelmsm c) raw = Unmodelled w
    end.
Proof.
  rewrite attempt_factor.
  destruct (cut_attempt s) as [[[raw|]|e] s1] eqn:E1; apply cut_attempt_spec in E1; destruct E1 as (d & C1 & R1); cbn [bind finish_attempt].
  - destruct R1 as [-> Hsh].
    destruct (finish c d s1) as [[[raw' m]|e] s2] eqn:E2; apply finish_spec in E2; destruct E2 as [-> R2]; cbn [bind];
      intro H; inversion H; subst r s'; exists d; (split; [exact C1|]).
    + destruct R2 as [-> R2]. auto.
    + destruct R2 as [Hp R2]. apply frame_shape_length in Hsh.
      destruct e as [le| |k|w]; try contradiction; [lia| |]; (split; [lia|]); eauto.
  - intro H; inversion H; subst r s'. exists d. auto.
  - intro H; inversion H; subst r s'. exists d. split; [exact C1|].
    destruct e as [le| |k|w]; try contradiction; auto. destruct R1; auto.
Qed.

Theorem attempt_consumes c s r s' : attempt1 c s = (r, s') -> exists pre, content s = pre ++ content s'.
Proof. intro H. apply attempt_spec in H. destruct H as (d & C & _). eauto. Qed.

Lemma attempt_progress c s r s' : attempt1 c s = (r, s') ->
  r = RExc EEOF \/ length (content s') < length (content s).
Proof.
  intro H. apply attempt_spec in H. destruct H as (d & C & R). rewrite C, app_length.
  destruct r as [[[raw m]|]|[le| |k|w]]; auto; right.
  - destruct R as (-> & Hsh & _). apply frame_shape_length in Hsh. lia.
  - lia.
  - lia.
  - destruct R as [R _]. lia.
  - destruct R as [R _]. lia.
Qed.

(* an exception other than EOF / library error can only be one the message constructor produced *)
Lemma attempt_exc_origin c s e s' : attempt1 c s = (RExc e, s') ->
  match e with
  | EEOF | ELib _ => True
  | EForeign k => exists p, construct p (labelmsm c) = Foreign k
  | EUnm w => exists p, construct p (labelmsm c) = Unmodelled w
  end.
Proof.
  intro H. apply attempt_spec in H. destruct H as (d & _ & R).
  destruct e as [le| |k|w]; auto; destruct R as (_ & _ & raw & R);
    destruct (parse_cases construct (validate c) (labelmsm c) raw) as [E|E]; rewrite E in R; try discriminate R; eauto.
Qed.

Lemma attempt_ok_cut c s raw m s' : attempt1 c s = (ROk (Some (raw, m)), s') -> cut_attempt s = (ROk (Some raw), s').
Proof.
  rewrite attempt_factor.
  destruct (cut_attempt s) as [[[raw0|]|e] s1]; cbn [bind finish_attempt]; try discriminate.
  destruct (finish c raw0 s1) as [[[raw' m']|e] s2] eqn:E2; apply finish_spec in E2; destruct E2 as [-> R2]; cbn [bind]; try discriminate.
  destruct R2 as [-> _]. intro H; inversion H; subst. reflexivity.
Qed.

(* ---------- read(): the loop as a relation (fuel-free), then induction over it ---------- *)
Inductive read_run (c:cfg) : St -> list liberr -> rd_result M -> St -> Prop :=
  | RR_fuel s : read_run c s [] ROutOfFuel s
  | RR_yield s raw m s' : attempt1 c s = (ROk (Some (raw, m)), s') -> read_run c s [] (RYield raw m) s'
  | RR_end s s' : attempt1 c s = (RExc EEOF, s') -> read_run c s [] REnd s'
  | RR_foreign s k s' : attempt1 c s = (RExc (EForeign k), s') -> read_run c s [] (RForeign k) s'
  | RR_unm s w s' : attempt1 c s = (RExc (EUnm w), s') -> read_run c s [] (RUnmodelled w) s'
  | RR_raise s e s' : attempt1 c s = (RExc (ELib e), s') -> quitonerror c = 2%Z -> read_run c s [] (RRaise e) s'
  | RR_skip s s1 h r s' : attempt1 c s = (ROk None, s1) -> read_run c s1 h r s' -> read_run c s h r s'
  | RR_ignore s e s1 h r s' : attempt1 c s = (RExc (ELib e), s1) -> quitonerror c <> 2%Z -> quitonerror c <> 1%Z ->
      read_run c s1 h r s' -> read_run c s h r s'
  | RR_log s e s1 h r s' : attempt1 c s = (RExc (ELib e), s1) -> quitonerror c = 1%Z ->
      read_run c s1 h r s' -> read_run c s (e :: h) r s'.

Lemma read_run_of_read c fuel s h r s' : read1 c fuel s = (h, r, s') -> read_run c s h r s'.
Proof.
  revert s h r s'. induction fuel as [|f IH]; intros s h r s' H.
  - simpl in H. inversion H; subst. constructor.
  - cbn [read] in H. destruct (attempt1 c s) as [[[[raw m]|]|[le| |k|w]] s1] eqn:EA.
    + inversion H; subst. eapply RR_yield; eauto.
    + eapply RR_skip; eauto.
    + destruct (Z.eqb (quitonerror c) 0) eqn:Q0.
      { apply Z.eqb_eq in Q0. eapply RR_ignore; eauto; lia. }
      destruct (Z.eqb (quitonerror c) 2) eqn:Q2.
      { inversion H; subst. apply Z.eqb_eq in Q2. eapply RR_raise; eauto. }
      destruct (Z.eqb (quitonerror c) 1) eqn:Q1.
      { destruct (read1 c f s1) as [[h1 r1] s2] eqn:ER. inversion H; subst.
        apply Z.eqb_eq in Q1. eapply RR_log; eauto. }
      apply Z.eqb_neq in Q2. apply Z.eqb_neq in Q1. eapply RR_ignore; eauto.
    + inversion H; subst. eapply RR_end; eauto.
    + inversion H; subst. eapply RR_foreign; eauto.
    + inversion H; subst. eapply RR_unm; eauto.
Qed.

Lemma read_run_consumes c s h r s' : read_run c s h r s' -> exists pre, content s = pre ++ content s'.
Proof.
  induction 1 as [s|s raw m s' HA|s s' HA|s k s' HA|s w s' HA|s e s' HA Q
                 |s s1 h r s' HA HR IH|s e s1 h r s' HA Q2 Q1 HR IH|s e s1 h r s' HA Q1 HR IH];
    try (eapply attempt_consumes; eassumption).
  - exists []. reflexivity.
  - apply attempt_consumes in HA. destruct HA as [p1 E1]. destruct IH as [p2 E2].
    exists (p1 ++ p2). rewrite E1, E2, app_assoc. reflexivity.
  - apply attempt_consumes in HA. destruct HA as [p1 E1]. destruct IH as [p2 E2].
    exists (p1 ++ p2). rewrite E1, E2, app_assoc. reflexivity.
  - apply attempt_consumes in HA. destruct HA as [p1 E1]. destruct IH as [p2 E2].
    exists (p1 ++ p2). rewrite E1, E2, app_assoc. reflexivity.
Qed.

(* 1 *)
Theorem read_consumes c fuel s h r s' : read1 c fuel s = (h, r, s') -> exists pre, content s = pre ++ content s'.
Proof. intro H. eapply read_run_consumes, read_run_of_read, H. Qed.

(* every yielded pair: the raw bytes are a contiguous slice shaped like a frame; the parsed part is
   what parse() makes of exactly that slice *)
Lemma read_run_yield c s h raw m s' : read_run c s h (RYield raw m) s' ->
  exists skipped, content s = skipped ++ raw ++ content s' /\ frame_shape raw /\
    (if parsed c then exists msg, m = Some msg /\ parse1 (validate c) (labelmsm c) raw = Ok msg else m = None).
Proof.
  intro H. remember (RYield raw m) as r eqn:Er. revert Er.
  induction H as [s|s raw0 m0 s' HA|s s' HA|s k s' HA|s w s' HA|s e s' HA Q
                 |s s1 h r s' HA HR IH|s e s1 h r s' HA Q2 Q1 HR IH|s e s1 h r s' HA Q1 HR IH];
    intro Er; try discriminate Er.
  - inversion Er; subst raw0 m0. apply attempt_spec in HA. destruct HA as (d & C & -> & Hsh & Hm).
    exists []. auto.
  - apply attempt_consumes in HA. destruct HA as [p1 E1]. destruct (IH Er) as (sk & E2 & R).
    exists (p1 ++ sk). rewrite E1, E2, <- app_assoc. auto.
  - apply attempt_consumes in HA. destruct HA as [p1 E1]. destruct (IH Er) as (sk & E2 & R).
    exists (p1 ++ sk). rewrite E1, E2, <- app_assoc. auto.
  - apply attempt_consumes in HA. destruct HA as [p1 E1]. destruct (IH Er) as (sk & E2 & R).
    exists (p1 ++ sk). rewrite E1, E2, <- app_assoc. auto.
Qed.

(* 2 *)
Theorem read_sound c fuel s h raw m s' :
  Z.land (validate c) 1 <> 0%Z -> parsed c = true -> read1 c fuel s = (h, RYield raw m, s') ->
  exists skipped, content s = skipped ++ raw ++ content s' /\ wf_frame raw /\
    exists msg, m = Some msg /\ construct (payload_of raw) (labelmsm c) = Ok msg.
Proof.
  intros Hv Hp H. apply read_run_of_read, read_run_yield in H. destruct H as (sk & E & Hsh & Hm).
  rewrite Hp in Hm. destruct Hm as (msg & -> & Hm). apply parse_ok_inv in Hm; [|exact Hv]. destruct Hm as [Hc Hm].
  exists sk. split; [exact E|]. split; [apply wf_frame_iff; auto|]. eauto.
Qed.

(* validation off: same, except that the CRC is (by design) not guaranteed *)
Theorem read_sound_novalidate c fuel s h raw m s' :
  parsed c = true -> read1 c fuel s = (h, RYield raw m, s') ->
  exists skipped, content s = skipped ++ raw ++ content s' /\ frame_shape raw /\
    exists msg, m = Some msg /\ construct (payload_of raw) (labelmsm c) = Ok msg.
Proof.
  intros Hp H. apply read_run_of_read, read_run_yield in H. destruct H as (sk & E & Hsh & Hm).
  rewrite Hp in Hm. destruct Hm as (msg & -> & Hm).
  exists sk. split; [exact E|]. split; [exact Hsh|]. exists msg. split; [reflexivity|].
  destruct (parse_cases construct (validate c) (labelmsm c) raw) as [E1|E1]; rewrite E1 in Hm; [discriminate Hm|exact Hm].
Qed.

Theorem read_sound_unparsed c fuel s h raw m s' :
  parsed c = false -> read1 c fuel s = (h, RYield raw m, s') ->
  exists skipped, content s = skipped ++ raw ++ content s' /\ frame_shape raw /\ m = None.
Proof.
  intros Hp H. apply read_run_of_read, read_run_yield in H. destruct H as (sk & E & Hsh & Hm).
  rewrite Hp in Hm. eauto.
Qed.

(* ---------- 3: successive reads ---------- *)
Definition parsed_ok (c:cfg) (rm:bytes * option M) : Prop :=
  wf_frame (fst rm) /\ exists msg, snd rm = Some msg /\ construct (payload_of (fst rm)) (labelmsm c) = Ok msg.
Definition raw_only (rm:bytes * option M) : Prop := frame_shape (fst rm) /\ snd rm = None.

Lemma interleave_absorb (pre:bytes) gaps raws (tail:bytes) : length gaps = length raws ->
  exists gaps' tail', length gaps' = length gaps /\ pre ++ interleave gaps raws ++ tail = interleave gaps' raws ++ tail'.
Proof.
  destruct gaps as [|g gs], raws as [|r rs]; simpl; intro HL; try discriminate HL.
  - exists [], (pre ++ tail). auto.
  - exists ((pre ++ g) :: gs), tail. simpl. rewrite <- !app_assoc. auto.
Qed.

Lemma run_reads_decomp c (P:bytes * option M -> Prop) :
  (forall fuel s h raw m s', read1 c fuel s = (h, RYield raw m, s') ->
     exists skipped, content s = skipped ++ raw ++ content s' /\ P (raw, m)) ->
  forall fuel k s evs s', run_reads1 c fuel k s = (evs, s') ->
  exists gaps tail, length gaps = length (yields evs) /\
    content s = interleave gaps (map fst (yields evs)) ++ tail ++ content s' /\ Forall P (yields evs).
Proof.
  intros HP fuel k. induction k as [|k IH]; intros s evs s' H.
  - simpl in H. inversion H; subst. exists [], []. simpl. auto.
  - cbn [run_reads] in H. destruct (read1 c fuel s) as [[h r] s1] eqn:ER.
    destruct (run_reads1 c fuel k s1) as [evs1 s2] eqn:EK. inversion H; subst evs s'.
    destruct (IH _ _ _ EK) as (gaps & tail & HL & HC & HF).
    assert (Hdef : exists gaps' tail', length gaps' = length (yields evs1) /\
              content s = interleave gaps' (map fst (yields evs1)) ++ tail' ++ content s2).
    { apply read_consumes in ER. destruct ER as [pre E1].
      destruct (interleave_absorb pre gaps (map fst (yields evs1)) tail) as (g' & t' & HL' & E2);
        [now rewrite map_length|].
      exists g', t'. split; [congruence|]. rewrite E1, HC.
      transitivity ((pre ++ interleave gaps (map fst (yields evs1)) ++ tail) ++ content s2).
      - rewrite <- !app_assoc. reflexivity.
      - rewrite E2, <- app_assoc. reflexivity. }
    destruct r as [raw m| |e|k0|w|]; cbn [yields]; try solve [destruct Hdef as (g' & t' & HL' & HC'); exists g', t'; auto].
    destruct (HP _ _ _ _ _ _ ER) as (sk & E1 & HPr).
    exists (sk :: gaps), tail. cbn [length map fst interleave]. split; [congruence|]. split.
    + rewrite E1, HC, <- !app_assoc. reflexivity.
    + constructor; assumption.
Qed.

Theorem run_reads_sound c fuel k s evs s' :
  Z.land (validate c) 1 <> 0%Z -> parsed c = true -> run_reads1 c fuel k s = (evs, s') ->
  exists gaps tail, length gaps = length (yields evs) /\
    content s = interleave gaps (map fst (yields evs)) ++ tail ++ content s' /\ Forall (parsed_ok c) (yields evs).
Proof.
  intros Hv Hp. apply run_reads_decomp. intros f s0 h raw m s0' H.
  destruct (read_sound _ _ _ _ _ _ _ Hv Hp H) as (sk & E & W & R). exists sk. split; [exact E|]. split; assumption.
Qed.

Theorem run_reads_sound_unparsed c fuel k s evs s' :
  parsed c = false -> run_reads1 c fuel k s = (evs, s') ->
  exists gaps tail, length gaps = length (yields evs) /\
    content s = interleave gaps (map fst (yields evs)) ++ tail ++ content s' /\ Forall raw_only (yields evs).
Proof.
  intros Hp. apply run_reads_decomp. intros f s0 h raw m s0' H.
  destruct (read_sound_unparsed _ _ _ _ _ _ _ Hp H) as (sk & E & W & R). exists sk. split; [exact E|]. split; assumption.
Qed.

(* `for x in reader` is a prefix of the successive reads *)
Lemma iterate_run_reads c fuel n s evs s' : iterate1 c fuel n s = (evs, s') -> run_reads1 c fuel (length evs) s = (evs, s').
Proof.
  revert s evs s'. induction n as [|n IH]; intros s evs s' H.
  - simpl in H. inversion H; subst. reflexivity.
  - cbn [iterate] in H. destruct (read1 c fuel s) as [[h r] s1] eqn:ER.
    destruct r as [raw m| |e|k0|w|]; try (inversion H; subst evs s'; simpl; rewrite ER; reflexivity).
    destruct (iterate1 c fuel n s1) as [evs1 s2] eqn:EI. inversion H; subst evs s'.
    cbn [length run_reads]. rewrite ER, (IH _ _ _ EI). reflexivity.
Qed.

Theorem iterate_sound c fuel n s evs s' :
  Z.land (validate c) 1 <> 0%Z -> parsed c = true -> iterate1 c fuel n s = (evs, s') ->
  exists gaps tail, length gaps = length (yields evs) /\
    content s = interleave gaps (map fst (yields evs)) ++ tail ++ content s' /\ Forall (parsed_ok c) (yields evs).
Proof. intros Hv Hp H. eapply run_reads_sound; eauto using iterate_run_reads. Qed.

Theorem iterate_sound_unparsed c fuel n s evs s' :
  parsed c = false -> iterate1 c fuel n s = (evs, s') ->
  exists gaps tail, length gaps = length (yields evs) /\
    content s = interleave gaps (map fst (yields evs)) ++ tail ++ content s' /\ Forall raw_only (yields evs).
Proof. intros Hp H. eapply run_reads_sound_unparsed; eauto using iterate_run_reads. Qed.

(* ---------- 4: nothing but the documented results ---------- *)
Definition construct_lib_only : Prop :=
  forall p l, match construct p l with Foreign _ | Unmodelled _ => False | _ => True end.

Lemma read_run_results c s h r s' : construct_lib_only -> read_run c s h r s' ->
  match r with
  | RYield _ _ | REnd | ROutOfFuel => True
  | RRaise _ => quitonerror c = 2%Z
  | _ => False
  end.
Proof.
  intros HC H.
  induction H as [s|s raw m s' HA|s s' HA|s k s' HA|s w s' HA|s e s' HA Q
                 |s s1 h r s' HA HR IH|s e s1 h r s' HA Q2 Q1 HR IH|s e s1 h r s' HA Q1 HR IH]; auto.
  - apply attempt_exc_origin in HA. destruct HA as [p HA]. specialize (HC p (labelmsm c)). now rewrite HA in HC.
  - apply attempt_exc_origin in HA. destruct HA as [p HA]. specialize (HC p (labelmsm c)). now rewrite HA in HC.
Qed.

Theorem read_no_escape c fuel s h r s' :
  (forall p l, match construct p l with Foreign _ | Unmodelled _ => False | _ => True end) ->
  quitonerror c <> 2%Z -> read1 c fuel s = (h, r, s') ->
  match r with RYield _ _ | REnd | ROutOfFuel => True | _ => False end.
Proof.
  intros HC Q H. apply read_run_of_read in H. apply (read_run_results _ _ _ _ _ HC) in H.
  destruct r; auto.
Qed.

Theorem read_no_escape_raise c fuel s h r s' :
  (forall p l, match construct p l with Foreign _ | Unmodelled _ => False | _ => True end) ->
  read1 c fuel s = (h, r, s') ->
  match r with RYield _ _ | REnd | ROutOfFuel => True | RRaise _ => quitonerror c = 2%Z | _ => False end.
Proof. intros HC H. apply read_run_of_read in H. exact (read_run_results _ _ _ _ _ HC H). Qed.

(* without any assumption on the constructor: a foreign exception leaving read() is one the constructor raised *)
Theorem read_foreign_origin c fuel s h r s' : read1 c fuel s = (h, r, s') ->
  match r with
  | RForeign k => exists p, construct p (labelmsm c) = Foreign k
  | RUnmodelled w => exists p, construct p (labelmsm c) = Unmodelled w
  | _ => True
  end.
Proof.
  intro H. apply read_run_of_read in H.
  induction H as [s|s raw m s' HA|s s' HA|s k s' HA|s w s' HA|s e s' HA Q
                 |s s1 h r s' HA HR IH|s e s1 h r s' HA Q2 Q1 HR IH|s e s1 h r s' HA Q1 HR IH]; auto;
    exact (attempt_exc_origin _ _ _ _ HA).
Qed.

(* in log mode every handler call and in raise mode the raised error is a library error by typing (liberr);
   the handler is called only in log mode *)
Theorem read_handler_only_log c fuel s h r s' : read1 c fuel s = (h, r, s') -> quitonerror c <> 1%Z -> h = [].
Proof.
  intros H Q. apply read_run_of_read in H.
  induction H as [s|s raw m s' HA|s s' HA|s k s' HA|s w s' HA|s e s' HA Q'
                 |s s1 h r s' HA HR IH|s e s1 h r s' HA Q2 Q1 HR IH|s e s1 h r s' HA Q1 HR IH]; auto.
  contradiction.
Qed.

(* ---------- 5: termination ---------- *)
Theorem read_terminates c fuel s h r s' : length (content s) < fuel -> read1 c fuel s = (h, r, s') -> r <> ROutOfFuel.
Proof.
  revert s h r s'. induction fuel as [|f IH]; intros s h r s' HL H; [lia|].
  cbn [read] in H. destruct (attempt1 c s) as [[[[raw m]|]|[le| |k|w]] s1] eqn:EA;
    try (inversion H; subst; discriminate).
  - apply attempt_progress in EA. destruct EA as [EA|EA]; [discriminate EA|].
    eapply IH; [|exact H]. lia.
  - apply attempt_progress in EA. destruct EA as [EA|EA]; [discriminate EA|].
    assert (HL1 : length (content s1) < f) by lia.
    destruct (Z.eqb (quitonerror c) 0); [eapply IH; eauto|].
    destruct (Z.eqb (quitonerror c) 2); [inversion H; subst; discriminate|].
    destruct (Z.eqb (quitonerror c) 1); [|eapply IH; eauto].
    destruct (read1 c f s1) as [[h1 r1] s2] eqn:ER. inversion H; subst. eapply IH; eauto.
Qed.

Lemma read_yield_progress c fuel s h raw m s' : read1 c fuel s = (h, RYield raw m, s') ->
  length (content s') + 6 <= length (content s).
Proof.
  intro H. apply read_run_of_read, read_run_yield in H. destruct H as (sk & E & Hsh & _).
  apply frame_shape_length in Hsh. rewrite E, !app_length. lia.
Qed.

Lemma read_shrinks c fuel s h r s' : read1 c fuel s = (h, r, s') -> length (content s') <= length (content s).
Proof. intro H. apply read_consumes in H. destruct H as [pre E]. rewrite E, app_length. lia. Qed.

(* iteration ends with a non-yield result within length(content)+1 reads, and that result is not fuel exhaustion *)
Theorem iterate_terminates c fuel n s evs s' :
  length (content s) < n -> iterate1 c fuel n s = (evs, s') ->
  exists evs0 h r, evs = evs0 ++ [(h, r)] /\
    Forall (fun hr => exists raw m, snd hr = RYield raw m) evs0 /\
    (forall raw m, r <> RYield raw m) /\
    (length (content s) < fuel -> r <> ROutOfFuel).
Proof.
  revert s evs s'. induction n as [|n IH]; intros s evs s' HL H; [lia|].
  cbn [iterate] in H. destruct (read1 c fuel s) as [[h r] s1] eqn:ER.
  assert (HT : length (content s) < fuel -> r <> ROutOfFuel) by (intro HF; eapply read_terminates; eauto).
  destruct r as [raw m| |e|k0|w|];
    try solve [inversion H; subst evs s'; eexists [], h, _; split; [reflexivity|]; split; [constructor|]; split; [discriminate|exact HT]].
  destruct (iterate1 c fuel n s1) as [evs1 s2] eqn:EI. inversion H; subst evs s'.
  apply read_yield_progress in ER.
  assert (HL1 : length (content s1) < n) by lia.
  destruct (IH _ _ _ HL1 EI) as (evs0 & h' & r' & -> & HF & HN & HT').
  exists ((h, RYield raw m) :: evs0), h', r'. split; [reflexivity|]. split; [apply Forall_cons; [exists raw, m; reflexivity|exact HF]|]. split; [exact HN|].
  intro HF'. apply HT'. lia.
Qed.

(* ---------- 7: options do not move the cut ---------- *)
Lemma finish_state c raw s : snd (finish c raw s) = s.
Proof. destruct (finish c raw s) as [r s1] eqn:E. apply finish_spec in E. destruct E as [-> _]. reflexivity. Qed.

Lemma attempt_state c s : snd (attempt1 c s) = snd (cut_attempt s).
Proof.
  rewrite attempt_factor. destruct (cut_attempt s) as [[[raw|]|e] s1]; cbn [bind finish_attempt snd]; try reflexivity.
  pose proof (finish_state c raw s1) as HS. destruct (finish c raw s1) as [[x|e] s2]; cbn [bind snd] in *; exact HS.
Qed.

Theorem attempt_stream_indep c1 c2 s : snd (attempt1 c1 s) = snd (attempt1 c2 s).
Proof. now rewrite !attempt_state. Qed.

Theorem attempt_raw_indep c1 c2 s raw1 m1 s1 raw2 m2 s2 :
  attempt1 c1 s = (ROk (Some (raw1, m1)), s1) -> attempt1 c2 s = (ROk (Some (raw2, m2)), s2) -> raw1 = raw2 /\ s1 = s2.
Proof.
  intros H1 H2. apply attempt_ok_cut in H1. apply attempt_ok_cut in H2. rewrite H1 in H2. inversion H2. auto.
Qed.

Theorem attempt_unparsed c s raw m s' : parsed c = false -> attempt1 c s = (ROk (Some (raw, m)), s') -> m = None.
Proof. intros Hp H. apply attempt_spec in H. destruct H as (d & _ & _ & _ & Hm). now rewrite Hp in Hm. Qed.

(* with parsing off the pass is exactly the cut: validate and labelmsm are never consulted *)
Theorem attempt_unparsed_eq c s : parsed c = false ->
  attempt1 c s = bind (cut_attempt s) (fun r s => (ROk (option_map (fun raw => (raw, None)) r), s)).
Proof.
  intro Hp. rewrite attempt_factor. destruct (cut_attempt s) as [[[raw|]|e] s1]; cbn [bind finish_attempt option_map]; try reflexivity.
  unfold finish. rewrite Hp. reflexivity.
Qed.

(* two configurations that agree on what a frame becomes behave identically on a pass that yields:
   in particular a pass that yields under c1 cannot skip or cut differently under c2 *)
Theorem attempt_yield_transfer c1 c2 s raw m1 s1 :
  attempt1 c1 s = (ROk (Some (raw, m1)), s1) ->
  exists r2, attempt1 c2 s = (r2, s1) /\
    match r2 with ROk (Some (raw2, _)) => raw2 = raw | ROk None => False | RExc e => e <> EEOF end.
Proof.
  intro H1. apply attempt_ok_cut in H1. rewrite (attempt_factor c2), H1. cbn [bind finish_attempt].
  destruct (finish c2 raw s1) as [[[raw' m']|e] s2] eqn:E2; apply finish_spec in E2; destruct E2 as [-> R2]; cbn [bind];
    eexists; (split; [reflexivity|]).
  - destruct R2; auto.
  - destruct R2 as [_ R2]. intros ->. exact R2.
Qed.

End ReaderProofs.

(* ---------- the hypothesis is satisfiable: the file stream, under any fault schedule ---------- *)
Lemma upto_lf_app l a b : upto_lf l = (a, b) -> l = a ++ b.
Proof.
  revert a b. induction l as [|x l IH]; intros a b H; simpl in H.
  - inversion H; reflexivity.
  - destruct (Byte.eqb x x0a).
    + inversion H; reflexivity.
    + destruct (upto_lf l) as [a1 c1]. inversion H; subst a b. simpl. f_equal. apply IH. reflexivity.
Qed.

Lemma file_law_local : stream_law file_ops rest.
Proof.
  split.
  - intros n s d s' H. simpl in H. unfold f_read in H. destruct (pop_dir s) as [dr sc].
    inversion H; subst d s'. cbn [rest]. split; [symmetry; apply firstn_skipn|].
    rewrite firstn_length. destruct dr as [|k]; lia.
  - intros s d s' H. simpl in H. unfold f_readline in H. destruct (pop_dir s) as [dr sc].
    destruct (upto_lf (rest s)) as [ln rs] eqn:EU. destruct dr as [|k]; inversion H; subst d s'; cbn [rest].
    + apply upto_lf_app, EU.
    + symmetry; apply firstn_skipn.
Qed.

(* C01 on the file stream: whatever the fault schedule in s *)
Corollary read_sound_file {M} (construct:bytes -> Z -> outcome M) nmea_hdr ubx_hdr c fuel (s:fstream) h raw m s' :
  Z.land (validate c) 1 <> 0%Z -> parsed c = true ->
  read file_ops construct nmea_hdr ubx_hdr 1 2 1 c fuel s = (h, RYield raw m, s') ->
  exists skipped, rest s = skipped ++ raw ++ rest s' /\ wf_frame raw /\
    exists msg, m = Some msg /\ construct (payload_of raw) (labelmsm c) = Ok msg.
Proof. apply (read_sound file_ops rest file_law_local). Qed.

Corollary iterate_terminates_file {M} (construct:bytes -> Z -> outcome M) nmea_hdr ubx_hdr c fuel n (s:fstream) evs s' :
  length (rest s) < n -> length (rest s) < fuel ->
  iterate file_ops construct nmea_hdr ubx_hdr 1 2 1 c fuel n s = (evs, s') ->
  exists evs0 h r, evs = evs0 ++ [(h, r)] /\
    Forall (fun hr => exists raw m, snd hr = RYield raw m) evs0 /\
    (forall raw m, r <> RYield raw m) /\ r <> ROutOfFuel.
Proof.
  intros Hn Hf H.
  destruct (iterate_terminates file_ops rest file_law_local construct nmea_hdr ubx_hdr c fuel n s evs s' Hn H)
    as (evs0 & h & r & E & HF & HN & HT).
  exists evs0, h, r. auto.
Qed.

Print Assumptions attempt_consumes.
Print Assumptions read_consumes.
Print Assumptions read_sound.
Print Assumptions read_sound_novalidate.
Print Assumptions read_sound_unparsed.
Print Assumptions run_reads_sound.
Print Assumptions run_reads_sound_unparsed.
Print Assumptions iterate_sound.
Print Assumptions iterate_sound_unparsed.
Print Assumptions read_no_escape.
Print Assumptions read_no_escape_raise.
Print Assumptions read_foreign_origin.
Print Assumptions read_handler_only_log.
Print Assumptions read_terminates.
Print Assumptions iterate_terminates.
Print Assumptions parse_validate_off.
Print Assumptions parse_validate_on_good.
Print Assumptions parse_validate_on_bad.
Print Assumptions parse_off_ignores_crc.
Print Assumptions parse_off_bad_eq_on_good.
Print Assumptions attempt_stream_indep.
Print Assumptions attempt_raw_indep.
Print Assumptions attempt_unparsed.
Print Assumptions attempt_unparsed_eq.
Print Assumptions attempt_yield_transfer.
Print Assumptions file_law_local.
Print Assumptions read_sound_file.
Print Assumptions iterate_terminates_file.
