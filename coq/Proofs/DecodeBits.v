(* Level 1 (C03, C06): the shift-and-mask extraction of the field decoder returns exactly the bit slice
   [off, off+w) of the payload, is an error when that slice is not inside the payload, and does not
   depend on bytes after the slice.  Plus the integer readings (two's complement / sign-magnitude). *)
From Coq Require Import NArith ZArith List String Bool Lia.
From PyRtcm Require Import Base.Bytes Base.Dec Model.Types Model.Message Spec.FieldGrammar.
Import ListNotations.
Open Scope list_scope.
Open Scope Z_scope.

(* ---------- a. in-bounds extraction = slice ---------- *)
Theorem get_bits_slice : forall (p:bytes) off w,
  0 <= off -> 0 <= w -> off + w <= 8 * Z.of_nat (List.length p) ->
  get_bits (be p) (8 * Z.of_nat (List.length p)) off w
  = Ok (uint (firstn (Z.to_nat w) (skipn (Z.to_nat off) (bits p)))).
Proof.
  intros p off w Hoff Hw Hin. unfold get_bits.
  replace ((8 * Z.of_nat (List.length p) - off - w <? 0) || (w <? 0)) with false
    by (symmetry; apply orb_false_iff; split; apply Z.ltb_ge; lia).
  f_equal.
  pose proof (extract_firstn_skipn (bits p) (Z.to_nat off) (Z.to_nat w)) as E.
  rewrite bits_length in E.
  rewrite <- E by lia. rewrite uint_bits. unfold extract. f_equal.
  - f_equal. lia.
  - f_equal. lia.
Qed.

(* ---------- b. out-of-bounds extraction is an error, never a value ---------- *)
Theorem get_bits_oob : forall (p:bytes) off w,
  0 <= off -> (w < 0 \/ 8 * Z.of_nat (List.length p) < off + w) ->
  get_bits (be p) (8 * Z.of_nat (List.length p)) off w = Foreign XValue.
Proof.
  intros p off w _ H. unfold get_bits.
  replace ((8 * Z.of_nat (List.length p) - off - w <? 0) || (w <? 0)) with true; [reflexivity|].
  symmetry. apply orb_true_iff. destruct H as [H|H]; [right|left]; apply Z.ltb_lt; lia.
Qed.

(* the exact success condition (no hypothesis on off) *)
Lemma get_bits_ok_iff : forall V L off w,
  (exists n, get_bits V L off w = Ok n) <-> (0 <= w /\ off + w <= L).
Proof.
  intros V L off w. unfold get_bits.
  destruct ((L - off - w <? 0) || (w <? 0)) eqn:E.
  - split; [intros [n H]; discriminate|].
    intros [H1 H2]. apply orb_true_iff in E. destruct E as [E|E]; apply Z.ltb_lt in E; lia.
  - apply orb_false_iff in E. destruct E as [E1 E2]. apply Z.ltb_ge in E1, E2.
    split; [lia|]. intros _. eexists; reflexivity.
Qed.

Lemma get_bits_ok_bounds : forall V L off w n,
  get_bits V L off w = Ok n -> 0 <= w /\ off + w <= L.
Proof. intros V L off w n H. apply (get_bits_ok_iff V L off w). eauto. Qed.

Lemma get_bits_not_ok : forall V L off w,
  (w < 0 \/ L < off + w) -> get_bits V L off w = Foreign XValue.
Proof.
  intros V L off w H. unfold get_bits.
  replace ((L - off - w <? 0) || (w <? 0)) with true; [reflexivity|].
  symmetry. apply orb_true_iff. destruct H as [H|H]; [right|left]; apply Z.ltb_lt; lia.
Qed.

(* ---------- c. bytes appended after the slice do not matter ---------- *)
(* arithmetic form, valid for every offset (also a negative one) *)
Lemma get_bits_extend_gen : forall (p x:bytes) off w,
  0 <= w -> off + w <= 8 * Z.of_nat (List.length p) ->
  get_bits (be (p ++ x)) (8 * Z.of_nat (List.length (p ++ x))) off w
  = get_bits (be p) (8 * Z.of_nat (List.length p)) off w.
Proof.
  intros p x off w Hw Hin. unfold get_bits.
  rewrite app_length, Nat2Z.inj_add.
  replace ((8 * (Z.of_nat (List.length p) + Z.of_nat (List.length x)) - off - w <? 0) || (w <? 0)) with false
    by (symmetry; apply orb_false_iff; split; apply Z.ltb_ge; lia).
  replace ((8 * Z.of_nat (List.length p) - off - w <? 0) || (w <? 0)) with false
    by (symmetry; apply orb_false_iff; split; apply Z.ltb_ge; lia).
  f_equal. f_equal.
  set (s := 8 * Z.of_nat (List.length p) - off - w).
  assert (Hs : 0 <= s) by (unfold s; lia).
  replace (8 * (Z.of_nat (List.length p) + Z.of_nat (List.length x)) - off - w)
    with (s + Z.of_nat (8 * List.length x)) by (unfold s; lia).
  rewrite Z2N.inj_add by lia.
  replace (Z.to_N (Z.of_nat (8 * List.length x))) with (N.of_nat (8 * List.length x)) by lia.
  rewrite be_app.
  replace (256 ^ N.of_nat (List.length x))%N with (2 ^ N.of_nat (8 * List.length x))%N.
  2:{ rewrite Nat2N.inj_mul. change (N.of_nat 8) with 8%N.
      rewrite N.pow_mul_r. reflexivity. }
  assert (Hx : (be x < 2 ^ N.of_nat (8 * List.length x))%N).
  { pose proof (be_lt x) as B.
    replace (256 ^ N.of_nat (List.length x))%N with (2 ^ N.of_nat (8 * List.length x))%N in B; [exact B|].
    rewrite Nat2N.inj_mul. change (N.of_nat 8) with 8%N. rewrite N.pow_mul_r. reflexivity. }
  set (k := N.of_nat (8 * List.length x)) in *.
  rewrite (N.add_comm (Z.to_N s) k), <- N.shiftr_shiftr.
  f_equal.
  rewrite N.shiftr_div_pow2.
  assert (K : (2 ^ k <> 0)%N) by (apply N.pow_nonzero; lia).
  rewrite N.div_add_l by exact K. rewrite N.div_small by exact Hx. apply N.add_0_r.
Qed.

Theorem get_bits_extend : forall (p x:bytes) off w,
  off + w <= 8 * Z.of_nat (List.length p) -> 0 <= off -> 0 <= w ->
  get_bits (be (p ++ x)) (8 * Z.of_nat (List.length (p ++ x))) off w
  = get_bits (be p) (8 * Z.of_nat (List.length p)) off w.
Proof. intros p x off w H _ Hw. apply get_bits_extend_gen; assumption. Qed.

(* slice-level restatements *)
Lemma slice_length : forall p off w,
  0 <= off -> 0 <= w -> off + w <= nbits p -> List.length (slice p off w) = Z.to_nat w.
Proof.
  intros p off w H1 H2 H3. unfold slice, nbits in *.
  rewrite firstn_length, skipn_length, bits_length. lia.
Qed.

Lemma slice_extend : forall p x off w,
  0 <= off -> 0 <= w -> off + w <= nbits p -> slice (p ++ x) off w = slice p off w.
Proof.
  intros p x off w H1 H2 H3. unfold slice, nbits in *.
  rewrite bits_app.
  assert (L : List.length (bits p) = (8 * List.length p)%nat) by apply bits_length.
  rewrite skipn_app.
  replace (Z.to_nat off - List.length (bits p))%nat with 0%nat by lia.
  cbn [skipn]. rewrite firstn_app.
  replace (Z.to_nat w - List.length (skipn (Z.to_nat off) (bits p)))%nat with 0%nat
    by (rewrite skipn_length; lia).
  cbn [firstn]. apply app_nil_r.
Qed.

Lemma get_bits_is_slice : forall p off w,
  0 <= off -> 0 <= w -> off + w <= nbits p ->
  get_bits (be p) (nbits p) off w = Ok (uint (slice p off w)).
Proof. intros. unfold nbits, slice in *. now apply get_bits_slice. Qed.

(* ---------- integer readings ---------- *)
Lemma land_pow2_testbit : forall a k, 0 <= k ->
  Z.land a (2^k) = if Z.testbit a k then 2^k else 0.
Proof.
  intros a k Hk. apply Z.bits_inj'. intros n Hn.
  rewrite Z.land_spec, Z.pow2_bits_eqb by lia.
  destruct (Z.eqb_spec k n) as [->|Hne].
  - rewrite andb_true_r. destruct (Z.testbit a n) eqn:E.
    + rewrite Z.pow2_bits_true; auto.
    + now rewrite Z.bits_0.
  - rewrite andb_false_r. destruct (Z.testbit a k).
    + rewrite Z.pow2_bits_false; auto.
    + now rewrite Z.bits_0.
Qed.

Lemma pow2_pos k : 0 <= k -> 0 < 2^k.
Proof. intro. apply Z.pow_pos_nonneg; lia. Qed.

Lemma testbit_top_set : forall m k, 0 <= k -> 0 <= m < 2^k -> Z.testbit (2^k + m) k = true.
Proof.
  intros m k Hk Hm. apply Z.testbit_true; [lia|].
  replace (2^k + m) with (m + 1 * 2^k) by lia.
  rewrite Z.div_add by lia. rewrite Z.div_small by lia. reflexivity.
Qed.

Lemma testbit_top_clear : forall m k, 0 <= k -> 0 <= m < 2^k -> Z.testbit m k = false.
Proof.
  intros m k Hk Hm. apply Z.testbit_false; [lia|]. rewrite Z.div_small by lia. reflexivity.
Qed.

Lemma unsigned_cons b r :
  unsigned (b::r) = (if b then 2^(Z.of_nat (List.length r)) else 0) + unsigned r.
Proof.
  unfold unsigned. cbn [uint]. rewrite N2Z.inj_add. f_equal.
  destruct b; [|reflexivity]. rewrite N2Z.inj_pow, nat_N_Z. reflexivity.
Qed.

Lemma unsigned_range l : 0 <= unsigned l < 2^(Z.of_nat (List.length l)).
Proof.
  unfold unsigned. pose proof (uint_lt l) as H. split; [lia|].
  apply N2Z.inj_lt in H. rewrite N2Z.inj_pow, nat_N_Z in H. exact H.
Qed.

(* Python: val = zb if zb & (1<<(w-1)) == 0 else zb - (1<<w), for a w-bit string, w >= 1 *)
Lemma twos_model : forall l w, Z.of_nat (List.length l) = w -> 1 <= w ->
  (if Z.land (unsigned l) (2^(w-1)) =? 0 then unsigned l else unsigned l - 2^w) = twos l.
Proof.
  intros l w Hl Hw. destruct l as [|b r]; [cbn in Hl; lia|].
  cbn [List.length] in Hl. rewrite Nat2Z.inj_succ in Hl.
  set (k := Z.of_nat (List.length r)) in *.
  assert (Hk : 0 <= k) by (unfold k; lia).
  replace (w - 1) with k by lia. replace w with (Z.succ k) by lia.
  rewrite Z.pow_succ_r by lia.
  rewrite land_pow2_testbit by lia. rewrite unsigned_cons. fold k.
  pose proof (unsigned_range r) as R. fold k in R. pose proof (pow2_pos k Hk) as P.
  unfold twos. fold k. destruct b.
  - rewrite testbit_top_set by lia.
    destruct (Z.eqb_spec (2^k) 0) as [E|E]; lia.
  - rewrite Z.add_0_l. rewrite testbit_top_clear by lia. reflexivity.
Qed.

(* Python: mag = zb & ((1<<(w-1)) - 1); val = mag if zb & (1<<(w-1)) == 0 else -mag *)
Lemma signmag_model : forall l w, Z.of_nat (List.length l) = w -> 1 <= w ->
  (if Z.land (unsigned l) (2^(w-1)) =? 0
   then Z.land (unsigned l) (2^(w-1) - 1) else - Z.land (unsigned l) (2^(w-1) - 1)) = signmag l.
Proof.
  intros l w Hl Hw. destruct l as [|b r]; [cbn in Hl; lia|].
  cbn [List.length] in Hl. rewrite Nat2Z.inj_succ in Hl.
  set (k := Z.of_nat (List.length r)) in *.
  assert (Hk : 0 <= k) by (unfold k; lia).
  replace (w - 1) with k by lia.
  rewrite land_pow2_testbit by lia.
  replace (2^k - 1) with (Z.ones k) by (rewrite Z.ones_equiv; lia).
  rewrite Z.land_ones by lia.
  rewrite unsigned_cons. fold k.
  pose proof (unsigned_range r) as R. fold k in R. pose proof (pow2_pos k Hk) as P.
  unfold signmag. destruct b.
  - rewrite testbit_top_set by lia.
    destruct (Z.eqb_spec (2^k) 0) as [E|E]; [lia|].
    f_equal. replace (2^k + unsigned r) with (unsigned r + 1 * 2^k) by lia.
    rewrite Z.mod_add by lia. apply Z.mod_small; lia.
  - rewrite Z.add_0_l. rewrite testbit_top_clear by lia. cbn [Z.eqb]. apply Z.mod_small; lia.
Qed.

(* ranges, for the record: what each reading can produce *)
Lemma twos_range l : l <> [] ->
  - 2^(Z.of_nat (List.length l) - 1) <= twos l < 2^(Z.of_nat (List.length l) - 1).
Proof.
  destruct l as [|b r]; [congruence|]. intros _.
  cbn [List.length]. rewrite Nat2Z.inj_succ. replace (Z.succ (Z.of_nat (List.length r)) - 1) with (Z.of_nat (List.length r)) by lia.
  pose proof (unsigned_range r). unfold twos. destruct b; lia.
Qed.

Lemma signmag_range l : l <> [] ->
  - 2^(Z.of_nat (List.length l) - 1) < signmag l < 2^(Z.of_nat (List.length l) - 1).
Proof.
  destruct l as [|b r]; [congruence|]. intros _.
  cbn [List.length]. rewrite Nat2Z.inj_succ. replace (Z.succ (Z.of_nat (List.length r)) - 1) with (Z.of_nat (List.length r)) by lia.
  pose proof (unsigned_range r). unfold signmag. destruct b; lia.
Qed.
