(* C11 consequence: the reader over the (un-chunked) socket wrapper returns the same messages as over a
   file holding the same bytes, for EVERY segmentation of the byte stream into non-empty recv() packets.
   Part 1 redoes the per-item development of Proofs/ReaderComplete.v over an abstract exact stream
          (Spec/ExactStream.v), reusing its pure lemmas (spec_read, trace, arithmetic, header tests);
          NMEA items must end in CR LF, the common ground of the file's and the socket's readline.
   Part 2 instances: fault-free files (content = rest) and the socket wrapper (content = pending,
          invariant = only non-empty Data events ahead), incl. preservation of the invariant by
          read / readline and an exact characterisation of the byte-wise readline loop.
   Part 3 reader_socket_trace_eq_file, reader_socket_eq_file, reader_segmentation_independent. *)
From Coq Require Import NArith ZArith List Lia Bool Arith.
From Coq.Strings Require Import Byte.
From PyRtcm Require Import Base.Bytes Model.Types Model.Crc Model.Reader Model.Socket
  Spec.Items Spec.ExactStream Proofs.SocketProofs Proofs.ReaderComplete.
Import ListNotations.
Local Open Scope nat_scope.

(* ====================== Part 1: the reader over an abstract exact stream ====================== *)
Section Exact.
Context {St M : Type}.
Variable ops : stream_ops St.
Variable content : St -> bytes.
Variable inv : St -> Prop.
Hypothesis Hex : exact_stream ops content inv.
Variable construct : bytes -> Z -> outcome M.
Variable nmea_hdr : list bytes.
Hypothesis Hnmea : nmea_hdr_ok nmea_hdr.
Hypothesis Hcrc : forall m, calc_crc24q (m ++ to_be 3 (calc_crc24q m)) = 0%N.

Notation at_ := (at_content content inv).
Notation att := (attempt ops construct nmea_hdr [xb5; x62] 1).
Notation rd := (read ops construct nmea_hdr [xb5; x62] 1 2 1).
Notation iter := (iterate ops construct nmea_hdr [xb5; x62] 1 2 1).
Notation sread := (spec_read construct).
Notation okc := (ok nmea_hdr).

Lemma read_bytes_at n a b s : length a = n -> at_ s (a ++ b) ->
  exists s', read_bytes ops n s = (ROk a, s') /\ at_ s' b.
Proof.
  intros Hn [Hi Hc]. unfold read_bytes.
  destruct (ex_read _ _ _ Hex n s Hi) as [E1 E2].
  { rewrite Hc, app_length. lia. }
  destruct (s_read ops n s) as [d s']. cbn [fst snd] in E1, E2.
  rewrite Hc, (firstn_app_len a b n Hn) in E1. rewrite Hc, (skipn_app_len a b n Hn) in E2.
  subst d. exists s'. split; [|exact E2]. rewrite Hn.
  destruct n; [reflexivity|]. cbn [Nat.eqb andb]. now rewrite Nat.ltb_irrefl, andb_false_r.
Qed.

Lemma read_bytes_1_at b r s : at_ s (b :: r) -> exists s', read_bytes ops 1 s = (ROk [b], s') /\ at_ s' r.
Proof. exact (read_bytes_at 1 [b] r s eq_refl). Qed.

Lemma read_bytes_eof_at s : at_ s [] -> exists s', read_bytes ops 1 s = (RExc EEOF, s') /\ at_ s' [].
Proof.
  intros [Hi Hc]. unfold read_bytes. destruct (ex_eof _ _ _ Hex s Hi Hc) as [E1 E2].
  destruct (s_read ops 1 s) as [d s']. cbn [fst snd] in E1, E2. subst d. exists s'. split; [reflexivity|exact E2].
Qed.

Lemma read_line_at body r s : ~ In x0a body -> at_ s (body ++ [x0d; x0a] ++ r) ->
  exists s', read_line ops s = (ROk (body ++ [x0d; x0a]), s') /\ at_ s' r.
Proof.
  intros Hlf [Hi Hc]. unfold read_line. destruct (ex_line _ _ _ Hex s body r Hi Hlf Hc) as [E1 E2].
  destruct (s_readline ops s) as [d s']. cbn [fst snd] in E1, E2. subst d. exists s'. split; [|exact E2].
  rewrite rev_app_distr. reflexivity.
Qed.

(* ---------- one loop pass per kind of input ---------- *)
Lemma attempt_eof_at c s : at_ s [] -> exists s', att c s = (RExc EEOF, s') /\ at_ s' [].
Proof.
  intro Hs. destruct (read_bytes_eof_at s Hs) as (s' & E & Hs'). exists s'. split; [|exact Hs'].
  unfold attempt. now rewrite E.
Qed.

Lemma attempt_noise_at c b r s : not_sync b -> at_ s (b :: r) -> exists s', att c s = (ROk None, s') /\ at_ s' r.
Proof.
  intros Hb Hs. destruct (read_bytes_1_at b r s Hs) as (s' & E & Hs'). exists s'. split; [|exact Hs'].
  unfold attempt. rewrite E. cbn [bind]. now rewrite (is_sync_false b Hb).
Qed.

Lemma attempt_nmea_at c t body r s : In [x24; t] nmea_hdr -> ~ In x0a body ->
  at_ s (x24 :: t :: body ++ [x0d; x0a] ++ r) -> exists s', att c s = (ROk None, s') /\ at_ s' r.
Proof.
  intros Hin Hlf Hs.
  destruct (read_bytes_1_at _ _ s Hs) as (s1 & E1 & Hs1).
  destruct (read_bytes_1_at _ _ s1 Hs1) as (s2 & E2 & Hs2).
  destruct (read_line_at body r s2 Hlf Hs2) as (s3 & E3 & Hs3).
  exists s3. split; [|exact Hs3].
  unfold attempt. rewrite E1. cbn [bind]. rewrite is_sync_24. cbn [negb]. rewrite E2. cbn [bind app].
  rewrite beq_neq by congruence. rewrite (existsb_nmea_true _ _ Hin).
  unfold parse_nmea. rewrite E3. reflexivity.
Qed.

Lemma attempt_ubx_at c cls id pl ck r s : (N.of_nat (length pl) < 65536)%N -> length ck = 2 ->
  at_ s ([xb5; x62; cls; id; len_lo (length pl); len_hi (length pl)] ++ pl ++ ck ++ r) ->
  exists s', att c s = (ROk None, s') /\ at_ s' r.
Proof.
  intros Hpl Hck Hs. cbn [app] in Hs.
  destruct (read_bytes_1_at _ _ s Hs) as (s1 & E1 & Hs1).
  destruct (read_bytes_1_at _ _ s1 Hs1) as (s2 & E2 & Hs2).
  destruct (read_bytes_at 4 [cls; id; len_lo (length pl); len_hi (length pl)] (pl ++ ck ++ r) s2 eq_refl Hs2)
    as (s3 & E3 & Hs3).
  rewrite app_assoc in Hs3.
  destruct (read_bytes_at (length pl + 2) (pl ++ ck) r s3) as (s4 & E4 & Hs4); [rewrite app_length; lia|exact Hs3|].
  exists s4. split; [|exact Hs4].
  unfold attempt. rewrite E1. cbn [bind]. rewrite is_sync_b5. cbn [negb]. rewrite E2. cbn [bind app].
  rewrite beq_refl. unfold parse_ubx. rewrite E3. cbn [bind nth].
  replace (N.to_nat (bN (len_lo (length pl)) + 256 * bN (len_hi (length pl)))) with (length pl)
    by (pose proof (len_bytes _ Hpl); lia).
  rewrite E4. reflexivity.
Qed.

Lemma attempt_rtcm_at c b1 b2 pl crc r s :
  parsed c = true -> (bN b1 < 4)%N -> length pl = N.to_nat (bN b1 * 256 + bN b2) -> length crc = 3 ->
  at_ s (xd3 :: b1 :: b2 :: pl ++ crc ++ r) ->
  exists s', att c s =
    (match of_outcome (parse construct 1 (validate c) (labelmsm c) (xd3 :: b1 :: b2 :: pl ++ crc)) with
     | ROk m => ROk (Some (xd3 :: b1 :: b2 :: pl ++ crc, Some m))
     | RExc e => RExc e
     end, s') /\ at_ s' r.
Proof.
  intros Hp Hb Hl Hc Hs.
  destruct (read_bytes_1_at _ _ s Hs) as (s1 & E1 & Hs1).
  destruct (read_bytes_1_at _ _ s1 Hs1) as (s2 & E2 & Hs2).
  destruct (read_bytes_1_at _ _ s2 Hs2) as (s3 & E3 & Hs3).
  destruct (read_bytes_at (length pl) pl (crc ++ r) s3 eq_refl Hs3) as (s4 & E4 & Hs4).
  destruct (read_bytes_at 3 crc r s4 Hc Hs4) as (s5 & E5 & Hs5).
  exists s5. split; [|exact Hs5].
  unfold attempt. rewrite E1. cbn [bind]. rewrite is_sync_d3. cbn [negb]. rewrite E2. cbn [bind app].
  rewrite beq_neq by congruence. rewrite (existsb_nmea_false _ _ _ Hnmea) by congruence.
  rewrite beq_refl. cbn [nth]. rewrite (land252 _ Hb). cbn [N.eqb andb].
  unfold parse_rtcm3. rewrite E3. cbn [bind nth].
  rewrite lor_shift8 by apply bN_lt. rewrite <- Hl. rewrite E4. cbn [bind]. rewrite E5. cbn [bind].
  rewrite Hp. cbn [app]. destruct (of_outcome _); reflexivity.
Qed.

Lemma attempt_frame_at c p r s : parsed c = true -> length p <= 1023 -> at_ s (frame p ++ r) ->
  exists s', att c s =
    (match construct p (labelmsm c) with
     | Ok m => ROk (Some (frame p, Some m))
     | Lib e => RExc (ELib e)
     | Foreign k => RExc (EForeign k)
     | Unmodelled w => RExc (EUnm w)
     end, s') /\ at_ s' r.
Proof.
  intros Hp Hl Hs.
  assert (E : frame p = xd3 :: len_hi (length p) :: len_lo (length p) :: p ++ frame_crc p) by reflexivity.
  rewrite E in Hs. cbn [app] in Hs. rewrite <- app_assoc in Hs.
  destruct (attempt_rtcm_at c (len_hi (length p)) (len_lo (length p)) p (frame_crc p) r s Hp (len_hi_lt4 _ Hl)) as (s' & Ea & Hs'); [| |exact Hs|].
  - rewrite len_bytes by lia. now rewrite Nat2N.id.
  - apply to_be_length.
  - exists s'. split; [|exact Hs']. rewrite Ea, <- E, (parse_good construct Hcrc).
    destruct (construct p (labelmsm c)); reflexivity.
Qed.

Lemma attempt_damaged_at c b1 b2 body r s :
  parsed c = true -> Z.land (validate c) 1 <> 0%Z ->
  (bN b1 < 4)%N -> length body = N.to_nat (bN b1 * 256 + bN b2) + 3 ->
  calc_crc24q ([xd3; b1; b2] ++ body) <> 0%N ->
  at_ s (([xd3; b1; b2] ++ body) ++ r) ->
  exists s', att c s = (RExc (ELib EParse), s') /\ at_ s' r.
Proof.
  intros Hp Hv Hb Hl Hcr Hs.
  set (n := N.to_nat (bN b1 * 256 + bN b2)) in *.
  rewrite <- (firstn_skipn n body) in Hcr, Hs.
  cbn [app] in Hcr, Hs. rewrite <- app_assoc in Hs.
  destruct (attempt_rtcm_at c b1 b2 (firstn n body) (skipn n body) r s Hp Hb) as (s' & Ea & Hs'); [| |exact Hs|].
  - rewrite firstn_length. lia.
  - rewrite skipn_length. lia.
  - exists s'. split; [|exact Hs']. rewrite Ea. now rewrite (parse_damaged construct c _ Hv Hcr).
Qed.

(* ---------- one read() call against the item list ---------- *)
Lemma read_noise_at c bs f r : Forall not_sync bs -> forall s, at_ s (bs ++ r) ->
  exists s', at_ s' r /\ rd c (length bs + f) s = rd c f s'.
Proof.
  induction 1 as [|b bs Hb _ IH]; intros s Hs.
  - exists s. split; [exact Hs|reflexivity].
  - cbn [app] in Hs. destruct (attempt_noise_at c b _ s Hb Hs) as (s1 & E1 & Hs1).
    destruct (IH s1 Hs1) as (s' & Hs' & E'). exists s'. split; [exact Hs'|].
    cbn [length plus read]. rewrite E1. exact E'.
Qed.

Lemma read_on_err_at c f e r s1 h res r' :
  (forall h res r', sread c r = (h, res, r') -> exists s', rd c f s1 = (h, res, s') /\ at_ s' (stream_of r')) ->
  at_ s1 (stream_of r) ->
  on_err (quitonerror c) e (sread c r) r = (h, res, r') ->
  exists s',
    (if Z.eqb (quitonerror c) 0 then rd c f s1
     else if Z.eqb (quitonerror c) 2 then ([], RRaise e, s1)
     else if Z.eqb (quitonerror c) 1 then let '(h, res, s'') := rd c f s1 in (e :: h, res, s'')
     else rd c f s1) = (h, res, s') /\ at_ s' (stream_of r').
Proof.
  intros IH Hs1 E. unfold on_err in E.
  destruct (Z.eqb (quitonerror c) 0); [exact (IH _ _ _ E)|].
  destruct (Z.eqb (quitonerror c) 2).
  { inversion E; subst. exists s1. split; [reflexivity|exact Hs1]. }
  destruct (Z.eqb (quitonerror c) 1); [|exact (IH _ _ _ E)].
  destruct (sread c r) as [[h0 res0] r0]. inversion E; subst.
  destruct (IH _ _ _ eq_refl) as (s' & E' & Hs'). exists s'. split; [|exact Hs']. now rewrite E'.
Qed.

Lemma read_spec_at c : parsed c = true -> forall items fuel s h res r',
  Forall (okc c) items -> Forall crlf_item items -> cost items < fuel ->
  at_ s (stream_of items) -> sread c items = (h, res, r') ->
  exists s', rd c fuel s = (h, res, s') /\ at_ s' (stream_of r').
Proof.
  intros Hp. induction items as [|it r IH]; intros fuel s h res r' Hok Hcl Hf Hs E.
  - destruct fuel as [|f]; [lia|]. cbn in E. inversion E; subst.
    destruct (attempt_eof_at c s Hs) as (s' & Ea & Hs'). exists s'. split; [|exact Hs'].
    cbn [read]. now rewrite Ea.
  - inversion Hok as [|? ? [Hwf Hdam] Hok']; subst. inversion Hcl as [|? ? Hc1 Hcl']; subst.
    rewrite cost_cons in Hf. rewrite stream_of_cons in Hs.
    destruct it as [p|t body|cls id pl ck|bs|b1 b2 body]; cbn [passes] in Hf; cbn [render] in Hs;
      cbn [spec_read] in E.
    + destruct fuel as [|f]; [lia|].
      destruct (attempt_frame_at c p _ s Hp Hwf Hs) as (s1 & Ea & Hs1). cbn [read]. rewrite Ea.
      destruct (construct p (labelmsm c)).
      * inversion E; subst. exists s1. split; [reflexivity|exact Hs1].
      * apply (read_on_err_at c f e r s1); auto. intros h0 res0 r0 E0.
        apply (IH f s1); auto. lia.
      * inversion E; subst. exists s1. split; [reflexivity|exact Hs1].
      * inversion E; subst. exists s1. split; [reflexivity|exact Hs1].
    + destruct fuel as [|f]; [lia|]. destruct Hwf as [Hin Hlf]. destruct Hc1 as [body' ->].
      rewrite <- !app_assoc in Hs. cbn [app] in Hs.
      assert (Hlf' : ~ In x0a body') by (intro K; apply Hlf; apply in_or_app; now left).
      destruct (attempt_nmea_at c t body' (stream_of r) s Hin Hlf' Hs) as (s1 & Ea & Hs1).
      cbn [read]. rewrite Ea. apply (IH f s1); auto. lia.
    + destruct fuel as [|f]; [lia|]. destruct Hwf as [Hpl Hck].
      rewrite <- !app_assoc in Hs.
      destruct (attempt_ubx_at c cls id pl ck (stream_of r) s Hpl Hck Hs) as (s1 & Ea & Hs1).
      cbn [read]. rewrite Ea. apply (IH f s1); auto. lia.
    + destruct (read_noise_at c bs (fuel - length bs) (stream_of r) Hwf s Hs) as (s1 & Hs1 & Er).
      replace (length bs + (fuel - length bs)) with fuel in Er by lia. rewrite Er.
      apply (IH _ s1); auto. lia.
    + destruct fuel as [|f]; [lia|]. destruct Hwf as (Hb & Hl & Hcr).
      destruct (attempt_damaged_at c b1 b2 body _ s Hp (Hdam eq_refl) Hb Hl Hcr Hs) as (s1 & Ea & Hs1).
      cbn [read]. rewrite Ea.
      apply (read_on_err_at c f EParse r s1); auto. intros h0 res0 r0 E0.
      apply (IH f s1); auto. lia.
Qed.

Lemma crlf_suffix (pre r:list item) : Forall crlf_item (pre ++ r) -> Forall crlf_item r.
Proof. intro H. apply Forall_app in H. tauto. Qed.

Lemma iterate_cost_at c fuel : parsed c = true -> forall n items s,
  Forall (okc c) items -> Forall crlf_item items -> cost items < fuel -> length items < n ->
  at_ s (stream_of items) ->
  fst (iter c fuel n s) = trace construct (labelmsm c) (quitonerror c) [] items.
Proof.
  intro Hp. induction n as [|n IH]; intros items s Hok Hcl Hf Hn Hs; [lia|].
  rewrite trace_spec_read. destruct (sread c items) as [[h res] r'] eqn:E.
  destruct (read_spec_at c Hp items fuel s h res r' Hok Hcl Hf Hs E) as (s' & Er & Hs').
  cbn [iterate]. rewrite Er.
  destruct (spec_read_rest _ _ _ _ _ _ _ E Hok) as (Hok' & Hc' & Hl').
  destruct (spec_read_suffix _ _ _ _ _ _ E) as (pre & Epre & _).
  destruct res; try reflexivity.
  assert (Hn' : length r' < n).
  { destruct Hl' as [->|Hl']; [|lia]. cbn in E. inversion E. }
  rewrite Epre in Hcl. apply crlf_suffix in Hcl.
  specialize (IH r' s' Hok' Hcl ltac:(lia) Hn' Hs').
  destruct (iter c fuel n s') as [evs s'']. cbn [fst] in IH |- *. now rewrite IH.
Qed.

(* ================= iteration over any exact stream = the expected trace ================= *)
Theorem iterate_trace_exact c fuel n items s :
  Forall (wf_item nmea_hdr) items -> Forall crlf_item items ->
  (Z.land (validate c) 1 <> 0%Z \/ no_damaged items) ->
  parsed c = true ->
  length (stream_of items) < fuel -> length items < n ->
  at_ s (stream_of items) ->
  fst (iter c fuel n s) = trace construct (labelmsm c) (quitonerror c) [] items.
Proof.
  intros Hwf Hcl Hv Hp Hf Hn Hs. apply iterate_cost_at; auto.
  - destruct Hv; [now apply ok_validate|now apply ok_nodamage].
  - pose proof (cost_le_length items). lia.
Qed.

Theorem C02_complete_exact c fuel n items s :
  Forall (wf_item nmea_hdr) items -> Forall crlf_item items ->
  (Z.land (validate c) 1 <> 0%Z \/ no_damaged items) ->
  parsed c = true -> quitonerror c <> 2%Z ->
  construct_total construct (labelmsm c) items ->
  length (stream_of items) < fuel -> length items < n ->
  at_ s (stream_of items) ->
  let evs := fst (iter c fuel n s) in
  map snd evs = map (fun '(raw, m) => RYield raw (Some m)) (good construct (labelmsm c) items) ++ [REnd] /\
  yields evs = map (fun '(raw, m) => (raw, Some m)) (good construct (labelmsm c) items) /\
  handler_calls evs = (if Z.eqb (quitonerror c) 1 then errs construct (labelmsm c) items else []).
Proof.
  intros Hwf Hcl Hv Hp Hq Ht Hf Hn Hs evs. subst evs.
  rewrite (iterate_trace_exact c fuel n items s Hwf Hcl Hv Hp Hf Hn Hs).
  split; [|split].
  - now apply trace_results.
  - now apply trace_yields.
  - now rewrite trace_handlers.
Qed.

End Exact.

(* ====================== Part 2: instances ====================== *)
(* (i) files without faults *)
Definition file_inv (s:fstream) : Prop := sched s = [].

Theorem file_exact : exact_stream file_ops rest file_inv.
Proof.
  split.
  - intros n [b sc] Hi _. unfold file_inv in Hi. cbn in Hi. subst sc. cbn. repeat split.
  - intros [b sc] Hi Hc. unfold file_inv in Hi. cbn in Hi, Hc. subst sc b. cbn. repeat split.
  - intros [b sc] body r Hi Hlf Hc. unfold file_inv in Hi. cbn [rest sched] in Hi, Hc. subst sc b.
    cbn [file_ops s_readline]. unfold f_readline, pop_dir. cbn [sched rest].
    assert (Hlf' : ~ In x0a (body ++ [x0d])).
    { intro K. apply in_app_or in K. destruct K as [K|[K|[]]]; [auto|discriminate]. }
    replace (body ++ [x0d; x0a] ++ r) with ((body ++ [x0d]) ++ x0a :: r) by now rewrite <- app_assoc.
    rewrite (upto_lf_body _ r Hlf'). cbn [fst snd]. split; [now rewrite <- app_assoc|].
    split; reflexivity.
Qed.

Lemma file_stream_at b : at_content rest file_inv (file_stream b) b.
Proof. split; reflexivity. Qed.

(* (ii) the un-chunked socket wrapper with only non-empty data packets ahead *)
Section SockInst.
Variable dz : bytes -> bytes.
Notation recv := (recv false dz).
Notation fill := (fill false dz).
Notation sock_read := (sock_read false dz).
Notation readline_loop := (readline_loop false dz).
Notation sock_readline := (sock_readline false dz).

Definition sock_inv (s:sock) : Prop := Forall good_ev (evs s).

Lemma recv_evs_suffix s : exists pre, evs s = pre ++ evs (snd (recv s)).
Proof.
  unfold Socket.recv. destruct (evs s) as [|[d|] r] eqn:E.
  - exists []. cbn. now rewrite E.
  - destruct d as [|b d].
    + exists [Data []]. reflexivity.
    + exists [Data (b :: d)]. reflexivity.
  - exists [Fail]. reflexivity.
Qed.

Lemma fill_evs_suffix fuel n : forall s, exists pre, evs s = pre ++ evs (snd (fill fuel n s)).
Proof.
  induction fuel as [|f IH]; intro s; cbn [Socket.fill].
  - destruct (Nat.leb n (length (buf s))); exists []; reflexivity.
  - destruct (Nat.leb n (length (buf s))); [exists []; reflexivity|].
    destruct (recv_evs_suffix s) as (p1 & E1). destruct (recv s) as [ok s1]. cbn [snd] in E1.
    destruct ok; [|exists p1; exact E1].
    destruct (IH s1) as (p2 & E2). exists (p1 ++ p2). rewrite E1, E2 at 1. now rewrite app_assoc.
Qed.

Lemma sock_read_evs_suffix n s : exists pre, evs s = pre ++ evs (snd (sock_read n s)).
Proof.
  unfold Socket.sock_read. destruct (fill_evs_suffix (S (length (evs s))) n s) as (pre & E).
  destruct (fill (S (length (evs s))) n s) as [ok s1]. cbn [snd] in E.
  exists pre. destruct ok; exact E.
Qed.

Lemma inv_suffix pre (s s':sock) : evs s = pre ++ evs s' -> sock_inv s -> sock_inv s'.
Proof. unfold sock_inv. intros E H. rewrite E in H. apply Forall_app in H. tauto. Qed.

Lemma sock_read_inv_pres n s : sock_inv s -> sock_inv (snd (sock_read n s)).
Proof. destruct (sock_read_evs_suffix n s) as (pre & E). exact (inv_suffix pre _ _ E). Qed.

Lemma ends_crlf_not_lf l b : b <> x0a -> ends_crlf (l ++ [b]) = false.
Proof.
  intro H. unfold ends_crlf. rewrite rev_app_distr. cbn [rev app].
  assert (E : Byte.eqb b x0a = false).
  { destruct (Byte.eqb b x0a) eqn:E; [|reflexivity]. apply Byte.byte_dec_bl in E. contradiction. }
  destruct (rev l); [reflexivity|]. now rewrite E.
Qed.

(* the byte-wise readline loop stops exactly at the first LF when that LF completes a CR LF *)
Lemma readline_loop_nolf u r : ~ In x0a u -> forall line fuel s,
  sock_inv s -> pending s = u ++ x0a :: r -> length u < fuel ->
  ends_crlf (line ++ u ++ [x0a]) = true ->
  exists s', readline_loop fuel line s = (line ++ u ++ [x0a], s') /\ sock_inv s' /\ pending s' = r.
Proof.
  induction u as [|b u IH]; intros Hlf line fuel s Hi Hp Hf Hcr.
  - destruct fuel as [|f]; [cbn in Hf; lia|]. cbn [Socket.readline_loop].
    destruct (read_all_available dz 1 s Hi) as [E1 E2]; [rewrite Hp; cbn; lia|].
    pose proof (sock_read_inv_pres 1 s Hi) as Hi'.
    destruct (sock_read 1 s) as [d s1]. cbn [fst snd] in E1, E2, Hi'. rewrite Hp in E1, E2. cbn in E1, E2.
    subst d. cbn [app] in Hcr |- *. rewrite Hcr. exists s1. auto.
  - destruct fuel as [|f]; [cbn in Hf; lia|]. cbn [Socket.readline_loop].
    destruct (read_all_available dz 1 s Hi) as [E1 E2]; [rewrite Hp; cbn; lia|].
    pose proof (sock_read_inv_pres 1 s Hi) as Hi'.
    destruct (sock_read 1 s) as [d s1]. cbn [fst snd] in E1, E2, Hi'. rewrite Hp in E1, E2. cbn in E1, E2.
    subst d.
    assert (Hb : b <> x0a) by (intro K; apply Hlf; left; auto).
    rewrite (ends_crlf_not_lf line b Hb).
    destruct (IH (fun K => Hlf (or_intror K)) (line ++ [b]) f s1 Hi' E2) as (s' & E' & Hs').
    + cbn in Hf. lia.
    + rewrite <- app_assoc. exact Hcr.
    + exists s'. split; [|exact Hs']. rewrite E'. now rewrite <- app_assoc.
Qed.

Theorem sock_exact : exact_stream (sock_ops false dz) pending sock_inv.
Proof.
  split.
  - intros n s Hi Hn. cbn [sock_ops s_read].
    destruct (read_all_available dz n s Hi Hn) as [E1 E2]. split; [exact E1|].
    split; [now apply sock_read_inv_pres|exact E2].
  - intros s Hi Hc. cbn [sock_ops s_read]. pose proof (sock_read_inv_pres 1 s Hi) as Hi'.
    destruct (sock_read 1 s) as [o s'] eqn:R. cbn [fst snd] in *.
    apply sock_read_inv in R. destruct R as [P _]. rewrite Hc in P. symmetry in P.
    apply app_eq_nil in P. destruct P as [-> P]. split; [reflexivity|]. split; assumption.
  - intros s body r Hi Hlf Hc. cbn [sock_ops s_readline]. unfold Socket.sock_readline.
    assert (Hlf' : ~ In x0a (body ++ [x0d])).
    { intro K. apply in_app_or in K. destruct K as [K|[K|[]]]; [auto|discriminate]. }
    assert (Hc' : pending s = (body ++ [x0d]) ++ x0a :: r) by (rewrite Hc; now rewrite <- app_assoc).
    destruct (readline_loop_nolf (body ++ [x0d]) r Hlf' []
                (S (length (buf s) + length (partial s) + data_len (evs s))) s Hi Hc') as (s' & E & Hi' & Hp').
    + assert (L : length (pending s) = length (buf s) + data_len (evs s))
        by (unfold pending; now rewrite app_length, data_len_datas).
      rewrite Hc', app_length in L. lia.
    + cbn [app]. unfold ends_crlf. rewrite !rev_app_distr. reflexivity.
    + rewrite E. cbn [fst snd app]. split; [now rewrite <- app_assoc|]. split; assumption.
Qed.

Lemma sock_init_at segs : Forall (fun d => d <> []) segs ->
  at_content pending sock_inv (sock_init false dz (map Data segs)) (concat segs).
Proof.
  intro H. split.
  - unfold sock_init.
    destruct (recv_evs_suffix {| buf := []; partial := []; evs := map Data segs; unm := false |}) as (pre & E).
    apply (inv_suffix pre _ _ E). unfold sock_inv. cbn [evs].
    apply Forall_forall. intros e He. apply in_map_iff in He. destruct He as (d & <- & Hd).
    exists d. split; [reflexivity|]. exact (proj1 (Forall_forall _ _) H d Hd).
  - now rewrite sock_init_datas, datas_map_Data.
Qed.
End SockInst.

(* ====================== Part 3: socket = file ====================== *)
Section SocketEqFile.
Context {M:Type}.
Variable dz : bytes -> bytes.
Variable construct : bytes -> Z -> outcome M.
Variable nmea_hdr : list bytes.
Hypothesis Hnmea : nmea_hdr_ok nmea_hdr.
Hypothesis Hcrc : forall m, calc_crc24q (m ++ to_be 3 (calc_crc24q m)) = 0%N.

Notation iter_sock := (iterate (sock_ops false dz) construct nmea_hdr [xb5; x62] 1 2 1).
Notation iter_file := (iterate file_ops construct nmea_hdr [xb5; x62] 1 2 1).

(* every error mode, arbitrary constructor: the complete per-read event lists coincide, for every
   segmentation of the byte stream into non-empty recv() packets *)
Theorem reader_socket_trace_eq_file segs items c fuel n :
  Forall (fun d => d <> []) segs -> concat segs = stream_of items ->
  Forall (wf_item nmea_hdr) items -> Forall crlf_item items ->
  (Z.land (validate c) 1 <> 0%Z \/ no_damaged items) ->
  parsed c = true ->
  length (stream_of items) < fuel -> length items < n ->
  fst (iter_sock c fuel n (sock_init false dz (map Data segs))) =
    trace construct (labelmsm c) (quitonerror c) [] items /\
  fst (iter_file c fuel n (file_stream (stream_of items))) =
    trace construct (labelmsm c) (quitonerror c) [] items.
Proof.
  intros Hseg Hcat Hwf Hcl Hv Hp Hf Hn. split.
  - apply (iterate_trace_exact (sock_ops false dz) pending (sock_inv) (sock_exact dz)
             construct nmea_hdr Hnmea Hcrc); auto.
    rewrite <- Hcat. now apply sock_init_at.
  - apply (iterate_trace_exact file_ops rest file_inv file_exact construct nmea_hdr Hnmea Hcrc); auto.
    apply file_stream_at.
Qed.

Theorem reader_socket_eq_file segs items c fuel n :
  Forall (fun d => d <> []) segs -> concat segs = stream_of items ->
  Forall (wf_item nmea_hdr) items -> Forall crlf_item items ->
  (Z.land (validate c) 1 <> 0%Z \/ no_damaged items) ->
  parsed c = true -> quitonerror c <> 2%Z ->
  construct_total construct (labelmsm c) items ->
  length (stream_of items) < fuel -> length items < n ->
  yields (fst (iter_sock c fuel n (sock_init false dz (map Data segs)))) =
    yields (fst (iter_file c fuel n (file_stream (stream_of items)))) /\
  yields (fst (iter_file c fuel n (file_stream (stream_of items)))) =
    map (fun '(raw, m) => (raw, Some m)) (good construct (labelmsm c) items) /\
  handler_calls (fst (iter_sock c fuel n (sock_init false dz (map Data segs)))) =
    handler_calls (fst (iter_file c fuel n (file_stream (stream_of items)))).
Proof.
  intros Hseg Hcat Hwf Hcl Hv Hp Hq Ht Hf Hn.
  destruct (reader_socket_trace_eq_file segs items c fuel n Hseg Hcat Hwf Hcl Hv Hp Hf Hn) as [Es Ef].
  rewrite Es, Ef. split; [reflexivity|]. split; [now apply trace_yields|reflexivity].
Qed.

(* two segmentations of the same bytes are indistinguishable to the caller *)
Corollary reader_segmentation_independent segs1 segs2 items c fuel n :
  Forall (fun d => d <> []) segs1 -> Forall (fun d => d <> []) segs2 ->
  concat segs1 = stream_of items -> concat segs2 = stream_of items ->
  Forall (wf_item nmea_hdr) items -> Forall crlf_item items ->
  (Z.land (validate c) 1 <> 0%Z \/ no_damaged items) ->
  parsed c = true ->
  length (stream_of items) < fuel -> length items < n ->
  fst (iter_sock c fuel n (sock_init false dz (map Data segs1))) =
  fst (iter_sock c fuel n (sock_init false dz (map Data segs2))).
Proof.
  intros H1 H2 C1 C2 Hwf Hcl Hv Hp Hf Hn.
  destruct (reader_socket_trace_eq_file segs1 items c fuel n H1 C1 Hwf Hcl Hv Hp Hf Hn) as [E1 _].
  destruct (reader_socket_trace_eq_file segs2 items c fuel n H2 C2 Hwf Hcl Hv Hp Hf Hn) as [E2 _].
  now rewrite E1, E2.
Qed.
End SocketEqFile.

(* ---------- sanity check by direct evaluation (does not use the theorems or Hcrc) ---------- *)
Module ExampleSock.
Import ReaderComplete.Example.
Fixpoint chunks (k fuel:nat) (l:bytes) : list bytes :=
  match fuel, l with
  | S f, _ :: _ => firstn (S k) l :: chunks k f (skipn (S k) l)
  | _, _ => []
  end.
Definition segs1 := map (fun b => [b]) (stream_of items).        (* one byte per recv() *)
Definition segs7 := chunks 6 100 (stream_of items).               (* seven bytes per recv() *)

Lemma segs_ok : concat segs1 = stream_of items /\ concat segs7 = stream_of items /\
                Forall crlf_item items.
Proof.
  split; [vm_compute; reflexivity|]. split; [vm_compute; reflexivity|].
  repeat constructor. exists [x50]. reflexivity.
Qed.

Lemma iterate_sock_log :
  fst (iterate (sock_ops false (fun x => x)) construct nmea [xb5; x62] 1 2 1 (cf 1) 100 10
         (sock_init false (fun x => x) (map Data segs1))) = trace construct 1 1 [] items /\
  fst (iterate (sock_ops false (fun x => x)) construct nmea [xb5; x62] 1 2 1 (cf 1) 100 10
         (sock_init false (fun x => x) (map Data segs7))) = trace construct 1 1 [] items.
Proof. split; vm_compute; reflexivity. Qed.
End ExampleSock.

Print Assumptions iterate_trace_exact.
Print Assumptions C02_complete_exact.
Print Assumptions file_exact.
Print Assumptions sock_exact.
Print Assumptions reader_socket_trace_eq_file.
Print Assumptions reader_socket_eq_file.
Print Assumptions reader_segmentation_independent.
