(* C16, second half: messages that are not MSM are entirely unaffected by the label option.
   If no field key occurring in the layout of a message is of type CSG (cell signal label), the attribute
   dictionaries under any two label options are EQUAL; likewise for message types without a layout. *)
From Coq Require Import NArith ZArith List String Bool Lia.
From PyRtcm Require Import Base.Bytes Base.Dec Model.Types Model.Message Spec.FieldGrammar Spec.Layouts.
From PyRtcm Require Import Proofs.DecodeWalk Proofs.DecodeExtend Proofs.DecodeLabel Proofs.DecodeWalkKeys.
Import ListNotations.
Open Scope list_scope.
Open Scope Z_scope.

(* ================= the decidable premise ================= *)
Definition not_csg_key (T:tables) (k:string) : bool :=
  match find_field T k with
  | Some fd => match df_ty fd with TCSG => false | _ => true end
  | None => true
  end.
Definition no_csg_in (T:tables) (b:body) : bool := forallb (not_csg_key T) (keys_body b).
(* every layout outside the MSM table is free of CSG fields *)
Definition csg_only_in_msm (T:tables) : bool :=
  forallb (fun ib => no_csg_in T (snd ib)) (t_get T ++ t_igs T).

Section Lab2.
Variable T : tables.

(* related as in DecodeLabel.v, and with equal attribute dictionaries *)
Definition Rq (o o':obj) : Prop := Rl T o o' /\ o_attrs o = o_attrs o'.
Definition Rqs (s s':st) : Prop := Rq (fst s) (fst s') /\ snd s = snd s'.

Lemma osim_conj {A B} (R S:A -> B -> Prop) r r' :
  osim R true r r' -> (forall a b, r = Ok a -> r' = Ok b -> S a b) ->
  osim (fun a b => R a b /\ S a b) true r r'.
Proof.
  intros H K. destruct r as [a| | |]; cbn in *; auto.
  destruct H as [b [-> Rab]]. exists b. split; [reflexivity|]. split; [exact Rab|]. apply K; reflexivity.
Qed.

Lemma setattr_attrs o k v o1 : setattr o k v = Ok o1 -> o_attrs o1 = upd k v (o_attrs o).
Proof. unfold setattr. destruct (o_immutable o); [discriminate|]. intro E. apply ok_inj in E. now subst. Qed.

Lemma getsatcellmaps_attrs ident o o1 : getsatcellmaps T ident o = Ok o1 -> o_attrs o1 = o_attrs o.
Proof.
  unfold getsatcellmaps. destruct (assoc (substring 0 3 ident) (t_prnsig T)) as [[prnmap sigmap]|]; [|discriminate].
  intro E.
  apply obind_ok_inv in E. destruct E as [d4 [_ E]].
  apply obind_ok_inv in E. destruct E as [d5 [_ E]].
  apply obind_ok_inv in E. destruct E as [d6 [_ E]].
  apply ok_inj in E. rewrite <- E. reflexivity.
Qed.

Lemma setattr_q o o' k v : Rq o o' -> osim Rq true (setattr o k v) (setattr o' k v).
Proof.
  intros [R A]. apply osim_conj.
  - apply setattr_lab; [exact R|left; reflexivity].
  - intros a b Ea Eb. rewrite (setattr_attrs _ _ _ _ Ea), (setattr_attrs _ _ _ _ Eb), A. reflexivity.
Qed.

Lemma getsatcellmaps_q ident o o' : Rq o o' -> osim Rq true (getsatcellmaps T ident o) (getsatcellmaps T ident o').
Proof.
  intros [R A]. apply osim_conj.
  - apply getsatcellmaps_lab, R.
  - intros a b Ea Eb. rewrite (getsatcellmaps_attrs _ _ _ Ea), (getsatcellmaps_attrs _ _ _ Eb). exact A.
Qed.

Lemma store_value_q ty anam idx v o o' : Rq o o' ->
  osim Rq true (store_value ty anam idx v o) (store_value ty anam idx v o').
Proof.
  intro Q. pose proof Q as [_ A]. unfold store_value. rewrite <- A.
  destruct ty; try (apply setattr_q, Q).
  destruct (assoc anam (o_attrs o)) as [old|]; [|apply setattr_q, Q].
  destruct old as [z|f|old]; try (cbn; reflexivity).
  destruct v as [z|f|new]; try (cbn; reflexivity). apply setattr_q, Q.
Qed.

Lemma post_mask_q ident anam ob o o' : Rq o o' ->
  osim Rq true (post_mask T ident anam ob o) (post_mask T ident anam ob o').
Proof.
  intro Q. unfold post_mask. destruct (is_mask_name anam); [|apply osim_ok, Q].
  destruct ob as [b|]; [|cbn; reflexivity].
  destruct (String.eqb anam "DF394"); [apply setattr_q, Q|].
  destruct (String.eqb anam "DF395"); [apply setattr_q, Q|].
  eapply osim_bind; [apply setattr_q, Q|]. intros a a' Qa. apply getsatcellmaps_q, Qa.
Qed.

Lemma post_harm_q anam idx o o' : Rq o o' ->
  osim Rq true (post_harm T anam idx o) (post_harm T anam idx o').
Proof.
  intro Q. unfold post_harm. destruct (String.eqb anam "IDF038"); [|apply osim_ok, Q].
  unfold harmonic_counts.
  destruct (first_index idx) as [i| | |]; cbn [obind]; try (cbn; reflexivity).
  destruct (i <? 0); [cbn; reflexivity|].
  eapply osim_bind; [apply (getint_lab T), (proj1 Q)|]. intros n0 n0' <-.
  eapply osim_bind; [apply (getint_lab T), (proj1 Q)|]. intros m0 m0' <-.
  destruct ((2 ^ 24 <? Z.abs (n0 + 1)) || (2 ^ 24 <? Z.abs (m0 + 1))); [cbn; reflexivity|].
  eapply osim_bind; [apply setattr_q, Q|]. intros a a' Qa. apply setattr_q, Qa.
Qed.

Lemma set_single_q ident anam idx s s' : not_csg_key T anam = true -> Rqs s s' ->
  osim Rqs true (set_single T ident anam idx s) (set_single T ident anam idx s').
Proof.
  destruct s as [o off]. destruct s' as [o' off']. intros NC [Q E]. cbn [fst snd] in Q, E. subst off'.
  rewrite !set_single_stages. unfold not_csg_key in NC.
  destruct (find_field T anam) as [fd|] eqn:F; [|cbn; reflexivity].
  unfold field_stages.
  eapply osim_bind; [apply (field_width_lab T), (proj1 Q)|]. intros w w' <-.
  eapply osim_bind; [apply (read_value_lab T), (proj1 Q)|]. intros [v ob] [v' ob'] [Eb Ev].
  cbn [fst snd] in Eb, Ev. subst ob'.
  assert (v = v') as <-.
  { destruct Ev as [Ev|[TY _]]; [exact Ev|]. rewrite TY in NC. discriminate. }
  cbn [fst snd].
  eapply osim_bind; [apply store_value_q, Q|]. intros o1 o1' Q1.
  eapply osim_bind; [apply post_mask_q, Q1|]. intros o2 o2' Q2.
  eapply osim_bind; [apply post_harm_q, Q2|]. intros o3 o3' Q3.
  apply osim_ok. split; [exact Q3|reflexivity].
Qed.

Lemma getattr_q k s s' : Rqs s s' -> osim ctl_rel true (getattr (fst s) k) (getattr (fst s') k).
Proof. intros [[R _] _]. apply (getattr_lab T), R. Qed.

Lemma walk_body_q ident b idx s s' : no_csg_in T b = true -> Rqs s s' ->
  osim Rqs true (dec_body T ident b idx s) (dec_body T ident b idx s').
Proof.
  intros NC Q.
  apply (simk_body T ident Rqs true (fun k => not_csg_key T k = true)
           (fun anam idx0 a a' => set_single_q ident anam idx0 a a') getattr_q); [|exact Q].
  apply Forall_forall. unfold no_csg_in in NC. rewrite forallb_forall in NC. exact NC.
Qed.

Lemma obj0_q p l1 l2 : Rq (obj0 p l1) (obj0 p l2).
Proof. split; [apply obj0_lab|reflexivity]. Qed.
End Lab2.

(* ================= the theorems ================= *)
Theorem label_indep_layout : forall T p l1 l2 ident b o1 o2,
  identity p = Ok ident -> get_dict T ident = Some b -> no_csg_in T b = true ->
  construct T (Some p) l1 = Ok o1 -> construct T (Some p) l2 = Ok o2 -> o_attrs o1 = o_attrs o2.
Proof.
  intros T p l1 l2 ident b o1 o2 I D NC C1 C2.
  apply construct_ok_run in C1. destruct C1 as [a1 [t1 [E1 ->]]].
  apply construct_ok_run in C2. destruct C2 as [a2 [t2 [E2 ->]]].
  apply decode_run_ok_inv in E1. destruct E1 as [_ E1].
  apply decode_run_ok_inv in E2. destruct E2 as [_ E2].
  unfold decode_raw in E1, E2.
  change (o_payload (obj0 p l1)) with p in E1. change (o_payload (obj0 p l2)) with p in E2.
  rewrite I in E1, E2. cbn [obind] in E1, E2. rewrite D in E1, E2.
  pose proof (walk_body_q T ident b [] (obj0 p l1, 0) (obj0 p l2, 0) NC
                (conj (obj0_q T p l1 l2) eq_refl)) as S.
  rewrite E1 in S. cbn in S. destruct S as [s2 [E2' [[_ A] _]]].
  rewrite E2 in E2'. apply ok_inj in E2'. subst s2. exact A.
Qed.

(* a message type without payload definition: one attribute, whatever the option *)
Theorem label_indep_unknown : forall T p l1 l2 ident o1 o2,
  identity p = Ok ident -> get_dict T ident = None ->
  construct T (Some p) l1 = Ok o1 -> construct T (Some p) l2 = Ok o2 -> o_attrs o1 = o_attrs o2.
Proof.
  intros T p l1 l2 ident o1 o2 I D C1 C2.
  apply construct_ok_run in C1. destruct C1 as [a1 [t1 [E1 ->]]].
  apply construct_ok_run in C2. destruct C2 as [a2 [t2 [E2 ->]]].
  pose proof (decode_run_ok_inv _ _ _ _ E1) as [G _].
  rewrite (decode_unknown T p l1 ident G I D) in E1. rewrite (decode_unknown T p l2 ident G I D) in E2.
  apply ok_inj in E1. apply ok_inj in E2.
  assert (A1 : a1 = fst (a1, t1)) by reflexivity. assert (A2 : a2 = fst (a2, t2)) by reflexivity.
  rewrite A1, A2, <- E1, <- E2. reflexivity.
Qed.

Lemma assoc_In {A} k (l:list (string*A)) v : assoc k l = Some v -> In (k, v) l.
Proof.
  induction l as [|[k' v'] r IH]; cbn [assoc]; [discriminate|].
  destruct (String.eqb k' k) eqn:E.
  - apply String.eqb_eq in E. intro H. inversion H. subst. now left.
  - intro H. right. apply IH, H.
Qed.

(* identities dispatched to the MSM table: the string range "1070".."1229" *)
Definition msm_range (ident:string) : bool := String.leb "1070" ident && String.leb ident "1229".

Lemma get_dict_non_msm T ident b : msm_range ident = false -> get_dict T ident = Some b -> In (ident, b) (t_get T ++ t_igs T).
Proof.
  unfold get_dict, msm_range. intros -> H.
  destruct (String.eqb (substring 0 4 ident) "4076"); apply assoc_In in H; apply in_app_iff; auto.
Qed.

(* every message that is not dispatched to the MSM table is unaffected by the option *)
Theorem label_indep_non_msm : forall T p l1 l2 ident o1 o2,
  csg_only_in_msm T = true ->
  identity p = Ok ident -> msm_range ident = false ->
  construct T (Some p) l1 = Ok o1 -> construct T (Some p) l2 = Ok o2 -> o_attrs o1 = o_attrs o2.
Proof.
  intros T p l1 l2 ident o1 o2 W I NM C1 C2.
  destruct (get_dict T ident) as [b|] eqn:D.
  - apply (label_indep_layout T p l1 l2 ident b o1 o2 I D); [|exact C1|exact C2].
    unfold csg_only_in_msm in W. rewrite forallb_forall in W.
    exact (W (ident, b) (get_dict_non_msm T ident b NM D)).
  - exact (label_indep_unknown T p l1 l2 ident o1 o2 I D C1 C2).
Qed.

(* together with label_indep (same outcome class): the whole result is the same up to the stored option *)
Corollary label_indep_non_msm_outcome : forall T p l1 l2 ident,
  csg_only_in_msm T = true -> identity p = Ok ident -> msm_range ident = false ->
  match construct T (Some p) l1, construct T (Some p) l2 with
  | Ok o1, Ok o2 => o_attrs o1 = o_attrs o2 /\ o_satmap o1 = o_satmap o2 /\ o_unknown o1 = o_unknown o2 /\ o_payload o1 = o_payload o2
  | Lib e1, Lib e2 => e1 = e2
  | Foreign k1, Foreign k2 => k1 = k2
  | Unmodelled w1, Unmodelled w2 => w1 = w2
  | _, _ => False
  end.
Proof.
  intros T p l1 l2 ident W I NM. pose proof (label_indep T p l1 l2) as H.
  destruct (construct T (Some p) l1) as [o1| | |] eqn:C1; destruct (construct T (Some p) l2) as [o2| | |] eqn:C2; try exact H.
  destruct H as [_ [S [_ [U [P _]]]]]. repeat split; try assumption.
  exact (label_indep_non_msm T p l1 l2 ident o1 o2 W I NM C1 C2).
Qed.

Print Assumptions label_indep_layout.
Print Assumptions label_indep_unknown.
Print Assumptions label_indep_non_msm.
Print Assumptions label_indep_non_msm_outcome.
