(* C10, DESIGN.md section 10 deviation (v) closed: a successful decode consumes exactly poly(counts) bits.
   Main results (end of file):
     walk_sound            final offset of dec_body = walk_bits on the final object            (stable_ok)
     walk_bits_peval       walk_bits = peval of the length polynomial of Spec/Layouts.v          (faithful_ok)
     decode_run_length     decode_run T p lbl = Ok (o, off) -> off = peval T (poly_body T [] b) o (len_ok)
     decode_run_min_bytes  ... -> the payload has at least ceil(off / 8) bytes
   for all tables T, all layouts b passing the decidable checks of Spec/PolyEval.v, all payloads and label options. *)
From Coq Require Import NArith ZArith List String Ascii Bool Lia.
From PyRtcm Require Import Base.Bytes Base.Dec Model.Types Model.Message Spec.FieldGrammar Spec.PinnedLengths
  Spec.Layouts Spec.TotalWf Spec.Names Spec.PolyEval.
From PyRtcm Require Import Proofs.DecodeWalk Proofs.DecodeExtend Proofs.DecodeTotal Proofs.HelperProofs.
Import ListNotations.
Open Scope list_scope.
Open Scope Z_scope.

(* ================================================================== *)
(* 1. association lists, attributes                                     *)
(* ================================================================== *)
Definition attr (o:obj) (x:string) : option value := assoc x (o_attrs o).

Lemma assoc_upd_other {A} (k x:string) (v:A) l : x <> k -> assoc x (upd k v l) = assoc x l.
Proof.
  intro N. induction l as [|[k' v'] r IH]; cbn [upd assoc].
  - destruct (String.eqb k x) eqn:E; [apply String.eqb_eq in E; congruence|reflexivity].
  - destruct (String.eqb k' k) eqn:E; cbn [assoc].
    + apply String.eqb_eq in E. subst k'.
      destruct (String.eqb k x) eqn:E2; [apply String.eqb_eq in E2; congruence|reflexivity].
    + destruct (String.eqb k' x); [reflexivity|exact IH].
Qed.

Lemma assoc_upd_same {A} (k:string) (v:A) l : assoc k (upd k v l) = Some v.
Proof.
  induction l as [|[k' v'] r IH]; cbn [upd assoc].
  - rewrite String.eqb_refl. reflexivity.
  - destruct (String.eqb k' k) eqn:E; cbn [assoc]; rewrite E; [reflexivity|exact IH].
Qed.

Lemma setattr_attr o k v o1 x : setattr o k v = Ok o1 -> x <> k -> attr o1 x = attr o x.
Proof.
  unfold setattr. destruct (o_immutable o); [discriminate|]. intros E N. inversion E.
  unfold attr. cbn. apply assoc_upd_other, N.
Qed.

Lemma setattr_attr_same o k v o1 : setattr o k v = Ok o1 -> attr o1 k = Some v.
Proof.
  unfold setattr. destruct (o_immutable o); [discriminate|]. intros E. inversion E.
  unfold attr. cbn. apply assoc_upd_same.
Qed.

Lemma getint_attr o k z : getint o k = Ok z <-> attr o k = Some (VInt z).
Proof. apply getint_ok. Qed.

Lemma getint_congr o o' k : attr o k = attr o' k -> getint o k = getint o' k.
Proof. unfold getint, getattr, attr. intros ->. reflexivity. Qed.

Lemma getsatcellmaps_attr T ident o o1 x : getsatcellmaps T ident o = Ok o1 -> attr o1 x = attr o x.
Proof.
  unfold getsatcellmaps. destruct (assoc (substring 0 3 ident) (t_prnsig T)) as [[prnmap sigmap]|]; [|discriminate].
  intro E.
  apply obind_ok_inv in E. destruct E as [d4 [_ E]].
  apply obind_ok_inv in E. destruct E as [d5 [_ E]].
  apply obind_ok_inv in E. destruct E as [d6 [_ E]].
  apply ok_inj in E. rewrite <- E. reflexivity.
Qed.

(* ================================================================== *)
(* 2. names                                                             *)
(* ================================================================== *)
Definition pos (idx:list Z) : Prop := Forall (fun i => 0 < i) idx.

Lemma pos_app a b : pos a -> pos b -> pos (a ++ b).
Proof. intros A B. apply Forall_app. split; assumption. Qed.

Lemma pos_snoc a i : pos a -> 0 < i -> pos (a ++ [i]).
Proof. intros A I. apply pos_app; [exact A|]. constructor; [exact I|constructor]. Qed.

Lemma pos_firstn n a : pos a -> pos (firstn n a).
Proof.
  revert a. induction n as [|n IH]; intros a P; cbn [firstn]; [constructor|].
  destruct a as [|x a]; [constructor|]. inversion P. subst. constructor; [assumption|apply IH; assumption].
Qed.

Lemma render_spec key idx : pos idx -> render_name key idx = (key ++ suffixes idx)%string.
Proof. intro P. apply render_name_spec, P. Qed.

Lemma sprefix_app a b : String.prefix a (a ++ b)%string = true.
Proof. apply prefix_app_r', prefix_refl'. Qed.

(* two names with a common extension are prefix-comparable *)
Lemma ext_comparable a b s t : (a ++ s)%string = (b ++ t)%string -> comparable a b = true.
Proof.
  intro E. apply (prefix_comparable a b (a ++ s)%string); [apply sprefix_app|rewrite E; apply sprefix_app].
Qed.

Lemma suffixes_nil_inv idx : pos idx -> suffixes idx = ""%string -> idx = [].
Proof. intros P E. destruct idx as [|i r]; [reflexivity|]. cbn in E. discriminate. Qed.

Lemma render_same_key_inj k i1 i2 : pos i1 -> pos i2 -> render_name k i1 = render_name k i2 -> i1 = i2.
Proof.
  intros P1 P2 E. rewrite !render_spec in E by assumption. apply sapp_inv_head in E.
  assert (E' : render_name "" i1 = render_name "" i2) by (rewrite !render_spec by assumption; exact E).
  apply render_inj in E'; try assumption; try reflexivity. tauto.
Qed.

Lemma render_eq_key k i : pos i -> render_name k i = k -> i = [].
Proof.
  intros P E. apply (render_same_key_inj k i []); [exact P|constructor|]. rewrite E. reflexivity.
Qed.

Lemma suffix_first_ok : forall n idx k s, pos idx -> suffix_first n idx k = Ok s ->
  (n <= List.length idx)%nat /\ s = render_name k (firstn n idx).
Proof.
  induction n as [|n IH]; intros idx k s P E; cbn [suffix_first] in E.
  - inversion E. split; [lia|reflexivity].
  - destruct idx as [|i r]; [discriminate|]. inversion P as [|? ? Hi Hr]. subst.
    replace (i <? 0) with false in E by (symmetry; apply Z.ltb_ge; lia).
    apply IH in E; [|exact Hr]. destruct E as [L ->]. split; [cbn [List.length]; lia|].
    cbn [firstn]. rewrite render_name_cons by exact Hi. reflexivity.
Qed.

Lemma group_size_named key idx o :
  group_size (CNamed key) idx o =
  (do anam <- cnt_name key idx; do g <- getint o anam; Ok (if String.eqb anam "IDF035" then g + 1 else g)).
Proof. reflexivity. Qed.

Lemma cnt_name_ok key idx anam : pos idx -> cnt_name key idx = Ok anam ->
  (snd (count_base key) <= List.length idx)%nat /\
  anam = render_name (fst (count_base key)) (firstn (snd (count_base key)) idx).
Proof.
  intros P E. unfold cnt_name in E. unfold count_base.
  destruct (split_plus key) as [k [nl|]]; cbn [fst snd].
  - destruct (contains "+" nl); [discriminate|].
    destruct (N_of_str nl) as [n|]; [|discriminate]. apply suffix_first_ok; assumption.
  - inversion E. split; [lia|reflexivity].
Qed.

(* ================================================================== *)
(* 3. what a field step writes                                          *)
(* ================================================================== *)
Section Frame.
Variable T : tables.
Variable ident : string.

Lemma provides_head l : provides T l = l :: tl (provides T l).
Proof.
  unfold provides. destruct (String.eqb l "DF394"); [reflexivity|]. destruct (String.eqb l "DF395"); [reflexivity|].
  destruct (String.eqb l "DF396"); [reflexivity|]. destruct (String.eqb l "IDF038"); reflexivity.
Qed.

Lemma plain_roots_provides l x : In x (plain_roots T l) -> In x (provides T l).
Proof.
  unfold plain_roots. intro H. apply in_app_iff in H. rewrite provides_head. destruct H as [H|H].
  - destruct (is_str T l); [|contradiction]. destruct H as [<-|[]]. now left.
  - now right.
Qed.

Lemma store_value_attr ty l idx v o o1 x : store_value ty l idx v o = Ok o1 ->
  x <> render_name l idx -> (ty = TSTR -> x <> l) -> attr o1 x = attr o x.
Proof.
  unfold store_value. intros E N1 N2.
  destruct ty; try (eapply setattr_attr; [exact E|exact N1]).
  specialize (N2 eq_refl).
  destruct (assoc l (o_attrs o)) as [old|].
  - destruct old as [z|f|old]; try discriminate. destruct v as [z|f|new]; try discriminate.
    eapply setattr_attr; [exact E|exact N2].
  - eapply setattr_attr; [exact E|exact N2].
Qed.

Lemma post_mask_attr l ob o o1 x : post_mask T ident l ob o = Ok o1 ->
  ~ In x (tl (provides T l)) -> attr o1 x = attr o x.
Proof.
  unfold post_mask, is_mask_name, provides. intros E N.
  destruct (String.eqb l "DF394"); cbn [orb] in E.
  { destruct ob as [b|]; [|discriminate]. eapply setattr_attr; [exact E|]. intro X. apply N. now left. }
  destruct (String.eqb l "DF395"); cbn [orb] in E.
  { destruct ob as [b|]; [|discriminate]. eapply setattr_attr; [exact E|]. intro X. apply N. now left. }
  destruct (String.eqb l "DF396"); cbn [orb] in E.
  { destruct ob as [b|]; [|discriminate]. apply obind_ok_inv in E. destruct E as [o' [E1 E2]].
    rewrite (getsatcellmaps_attr _ _ _ _ x E2). eapply setattr_attr; [exact E1|]. intro X. apply N. now left. }
  inversion E. reflexivity.
Qed.

Lemma harmonic_counts_inv idx o o1 : harmonic_counts T idx o = Ok o1 ->
  exists i n0 m0 o',
    first_index idx = Ok i /\ 0 <= i /\
    getint o ("IDF037_" ++ dd (Z.to_N i)) = Ok n0 /\ getint o ("IDF038_" ++ dd (Z.to_N i)) = Ok m0 /\
    let N' := n0 + 1 in let M' := m0 + 1 in
    let nc := ((N' + 1) * (N' + 2)) / 2 - ((N' - M') * (N' - M' + 1)) / 2 in
    setattr o (t_nharmc T) (VInt nc) = Ok o' /\ setattr o' (t_nharms T) (VInt (nc - (N' + 1))) = Ok o1.
Proof.
  unfold harmonic_counts. intro E.
  apply obind_ok_inv in E. destruct E as [i [E0 E]].
  destruct (i <? 0) eqn:I; [discriminate|]. apply Z.ltb_ge in I.
  apply obind_ok_inv in E. destruct E as [n0 [En E]].
  apply obind_ok_inv in E. destruct E as [m0 [Em E]].
  destruct ((2 ^ 24 <? Z.abs (n0 + 1)) || (2 ^ 24 <? Z.abs (m0 + 1))); [discriminate|].
  apply obind_ok_inv in E. destruct E as [o' [E1 E2]].
  exists i, n0, m0, o'. repeat split; assumption.
Qed.

Lemma post_harm_attr l idx o o1 x : post_harm T l idx o = Ok o1 ->
  ~ In x (tl (provides T l)) -> attr o1 x = attr o x.
Proof.
  unfold post_harm. intros E N.
  destruct (String.eqb l "IDF038") eqn:L; [|inversion E; reflexivity].
  apply String.eqb_eq in L. subst l.
  change (tl (provides T "IDF038")) with [t_nharmc T; t_nharms T] in N.
  apply harmonic_counts_inv in E. destruct E as [i [n0 [m0 [o' [_ [_ [_ [_ [E1 E2]]]]]]]]].
  rewrite (setattr_attr _ _ _ _ x E2), (setattr_attr _ _ _ _ x E1); [reflexivity| |].
  - intros ->. apply N. now left.
  - intros ->. apply N. right. now left.
Qed.

(* a field step with label l at index idx modifies at most: its rendered name, l itself when l is a string
   field, the derived names of l *)
Lemma set_single_attr l idx o off o1 off1 x :
  set_single T ident l idx (o, off) = Ok (o1, off1) ->
  x <> render_name l idx -> ~ In x (plain_roots T l) -> attr o1 x = attr o x.
Proof.
  intros E N1 N2. apply set_single_inv in E. destruct E as [fd [F E]].
  apply field_stages_inv in E.
  destruct E as [asiz [vb [oa [ob [oc [_ [_ [E3 [E4 [E5 E6]]]]]]]]]].
  inversion E6. subst oc off1.
  assert (ND : ~ In x (tl (provides T l))).
  { intro X. apply N2. unfold plain_roots. apply in_app_iff. now right. }
  rewrite (post_harm_attr _ _ _ _ x E5 ND), (post_mask_attr _ _ _ _ x E4 ND).
  eapply store_value_attr; [exact E3|exact N1|].
  intros TY ->. apply N2. unfold plain_roots, is_str. rewrite F, TY. now left.
Qed.

End Frame.

(* ================================================================== *)
(* 4. what a sub-walk writes                                            *)
(* ================================================================== *)
Section WalkFrame.
Variable T : tables.
Variable ident : string.

(* names possibly written by the labels L when walked under index prefix idx *)
Definition wr (L:list (nat*string)) (idx:list Z) (x:string) : Prop :=
  exists dl, In dl L /\
    ((exists ext, pos ext /\ x = render_name (snd dl) (idx ++ ext)) \/ In x (plain_roots T (snd dl))).

Lemma wr_app_l L1 L2 idx x : wr L1 idx x -> wr (L1 ++ L2) idx x.
Proof. intros [dl [I H]]. exists dl. split; [apply in_app_iff; now left|exact H]. Qed.
Lemma wr_app_r L1 L2 idx x : wr L2 idx x -> wr (L1 ++ L2) idx x.
Proof. intros [dl [I H]]. exists dl. split; [apply in_app_iff; now right|exact H]. Qed.

Lemma wr_snoc L idx i x : 0 < i -> wr L (idx ++ [i]) x -> wr L idx x.
Proof.
  intros Hi [dl [I H]]. exists dl. split; [exact I|]. destruct H as [[ext [P ->]]|H]; [left|right; exact H].
  exists ([i] ++ ext). split; [apply pos_app; [constructor; [exact Hi|constructor]|exact P]|].
  rewrite <- app_assoc. reflexivity.
Qed.

Lemma labels_body_cons d lbl it r :
  labels_body d (BItems ((lbl, it) :: r)) = labels_item d lbl it ++ labels_body d (BItems r).
Proof. reflexivity. Qed.

Lemma rep_frame (f:list Z -> st -> outcome st) idx L x :
  (forall i s s', 0 < i -> f (idx ++ [i]) s = Ok s' -> ~ wr L (idx ++ [i]) x -> attr (fst s') x = attr (fst s) x) ->
  forall n i s s', 0 < i -> rep f idx n i s = Ok s' ->
    (forall j, i <= j -> ~ wr L (idx ++ [j]) x) -> attr (fst s') x = attr (fst s) x.
Proof.
  intros Hf. induction n as [|n IH]; intros i s s' Hi E N; cbn [rep] in E.
  - inversion E. reflexivity.
  - apply obind_ok_inv in E. destruct E as [s1 [E1 E2]].
    rewrite (IH (i + 1) s1 s'); [|lia|exact E2|intros j Hj; apply N; lia].
    apply (Hf i); [exact Hi|exact E1|apply N; lia].
Qed.

Lemma walk_frame :
  (forall it lbl idx s s' d x, dec_item T ident lbl it idx s = Ok s' -> pos idx ->
     ~ wr (labels_item d lbl it) idx x -> attr (fst s') x = attr (fst s) x) /\
  (forall b idx s s' d x, dec_body T ident b idx s = Ok s' -> pos idx ->
     ~ wr (labels_body d b) idx x -> attr (fst s') x = attr (fst s) x).
Proof.
  apply item_body_ind.
  - intros k lbl idx [o off] [o1 off1] d x E P N. rewrite dec_item_field in E. cbn [fst].
    eapply set_single_attr; [exact E| |].
    + intros ->. apply N. exists (d, lbl). split; [now left|]. left. exists []. split; [constructor|].
      rewrite app_nil_r. reflexivity.
    + intro X. apply N. exists (d, lbl). split; [now left|]. right. exact X.
  - intros w lbl idx s s' d x E. discriminate.
  - intros c b IHb lbl idx s s' d x E P N. rewrite dec_item_group in E.
    apply obind_ok_inv in E. destruct E as [n [_ E]].
    destruct (max_count <? n); [discriminate|].
    cbn [labels_item] in N.
    eapply (rep_frame _ idx (labels_body (S d) b) x); [|exact (Z.lt_0_1)|exact E|].
    + intros i s0 s0' Hi E0 N0. eapply IHb; [exact E0|apply pos_snoc; assumption|exact N0].
    + intros j Hj W. apply N. eapply wr_snoc; [|exact W]. lia.
  - intros k con b IHb lbl idx s s' d x E P N. rewrite dec_item_opt in E.
    apply obind_ok_inv in E. destruct E as [v [_ E]]. cbn [labels_item] in N.
    destruct v as [z|f|str].
    + destruct (z =? con); [eapply IHb; eauto|inversion E; reflexivity].
    + discriminate.
    + inversion E; reflexivity.
  - intros l IHl idx s s' d x E P N. rewrite dec_body_items in E.
    revert s E N. induction IHl as [|[lbl it] r Hit Hr IHr]; intros s E N.
    + rewrite dec_items_nil in E. inversion E. reflexivity.
    + rewrite dec_items_cons in E. apply obind_ok_inv in E. destruct E as [s1 [E1 E2]].
      rewrite labels_body_cons in N. cbn [snd] in Hit.
      rewrite (IHr s1 E2); [|intro W; apply N, wr_app_r, W].
      eapply Hit; [exact E1|exact P|intro W; apply N, wr_app_l, W].
  - intros w idx s s' d x E. discriminate.
Qed.

Definition item_frame := proj1 walk_frame.
Definition body_frame := proj2 walk_frame.

End WalkFrame.

(* ================================================================== *)
(* 5. names that may still change, and names that are safe to read back *)
(* ================================================================== *)
Lemma mem_In k l : mem k l = true <-> In k l.
Proof.
  unfold mem. rewrite existsb_exists. split.
  - intros [x [I E]]. apply String.eqb_eq in E. subst. exact I.
  - intro I. exists k. split; [exact I|apply String.eqb_refl].
Qed.

Lemma labels_depth :
  (forall it lbl d dl, In dl (labels_item d lbl it) -> (d <= fst dl)%nat) /\
  (forall b d dl, In dl (labels_body d b) -> (d <= fst dl)%nat).
Proof.
  apply item_body_ind.
  - intros k lbl d dl [<-|[]]. cbn. lia.
  - intros w lbl d dl [].
  - intros c b IHb lbl d dl I. cbn [labels_item] in I. apply IHb in I. lia.
  - intros k con b IHb lbl d dl I. cbn [labels_item] in I. apply IHb in I. lia.
  - intros l IHl d dl I. induction IHl as [|[lbl it] r Hit Hr IHr]; [destruct I|].
    rewrite labels_body_cons in I. apply in_app_iff in I. destruct I as [I|I]; [eapply Hit; exact I|apply IHr, I].
  - intros w d dl [].
Qed.

Section Safe.
Variable T : tables.
Variables (G GP : list string) (AllD : list (nat*string)).
Hypothesis G_ok : forall dl, In dl AllD -> incl (provides T (snd dl)) G.
Hypothesis GP_ok : forall dl, In dl AllD -> (0 < fst dl)%nat -> incl (plain_roots T (snd dl)) GP.
Hypothesis GP_G : incl GP G.

(* i leaves idx at some level with a larger index: a later iteration of an enclosing group *)
Definition gt_div (i idx:list Z) : Prop :=
  exists p j j' e1 e2, idx = p ++ [j] ++ e1 /\ i = p ++ [j'] ++ e2 /\ j < j'.

(* names that may be written after the current point of the walk: by the later labels (roots `later`), by a later
   iteration of an enclosing group, or un-indexed from inside a group *)
Definition Cfut (later:list string) (idx:list Z) (x:string) : Prop :=
  (exists w i, In w later /\ pos i /\ x = render_name w i) \/
  (exists w i, In w G /\ pos i /\ gt_div i idx /\ x = render_name w i) \/
  In x GP.

Lemma Cfut_mono l1 l2 idx x : incl l1 l2 -> Cfut l1 idx x -> Cfut l2 idx x.
Proof.
  intros I [[w [i [W H]]]|H]; [left|right; exact H]. exists w, i. split; [apply I, W|exact H].
Qed.

Lemma gt_div_snoc i0 idx i : gt_div i0 idx -> gt_div i0 (idx ++ [i]).
Proof.
  intros [p [j [j' [e1 [e2 [-> [-> L]]]]]]]. exists p, j, j', (e1 ++ [i]), e2.
  split; [rewrite <- !app_assoc; reflexivity|split; [reflexivity|exact L]].
Qed.

Lemma Cfut_snoc later idx i x : Cfut later idx x -> Cfut later (idx ++ [i]) x.
Proof.
  intros [H|[[w [i0 [W [P [D E]]]]]|H]]; [left; exact H| |right; right; exact H].
  right. left. exists w, i0. repeat split; try assumption. apply gt_div_snoc, D.
Qed.

Lemma rootsL_In L w : In w (rootsL T L) <-> exists dl, In dl L /\ In w (provides T (snd dl)).
Proof. unfold rootsL. rewrite in_flat_map. reflexivity. Qed.

Lemma rootsL_app L1 L2 : rootsL T (L1 ++ L2) = rootsL T L1 ++ rootsL T L2.
Proof. unfold rootsL. apply flat_map_app. Qed.

Lemma rootsL_G L : incl L AllD -> incl (rootsL T L) G.
Proof. intros I w W. apply rootsL_In in W. destruct W as [dl [D W]]. eapply G_ok; [apply I, D|exact W]. Qed.

Lemma label_root l : In l (provides T l).
Proof. rewrite provides_head. now left. Qed.

(* what the labels L write under idx may be written later by roots `rootsL L` *)
Lemma wr_Cfut_later L idx later' x : pos idx -> incl (rootsL T L) later' ->
  wr T L idx x -> Cfut later' idx x.
Proof.
  intros P I [dl [D H]]. left. destruct H as [[ext [Pe ->]]|H].
  - exists (snd dl), (idx ++ ext). split; [|split; [apply pos_app; assumption|reflexivity]].
    apply I, rootsL_In. exists dl. split; [exact D|apply label_root].
  - exists x, []. split; [|split; [constructor|rewrite render_name_nil; reflexivity]].
    apply I, rootsL_In. exists dl. split; [exact D|apply plain_roots_provides, H].
Qed.

(* what the group labels L write in iteration j' may be written after iteration j < j' *)
Lemma wr_Cfut_iter L idx later j j' x : pos idx -> 0 < j' -> j < j' ->
  incl L AllD -> (forall dl, In dl L -> (0 < fst dl)%nat) ->
  wr T L (idx ++ [j']) x -> Cfut later (idx ++ [j]) x.
Proof.
  intros P Hj' Lt I Dp [dl [D H]]. right. destruct H as [[ext [Pe ->]]|H].
  - left. exists (snd dl), ((idx ++ [j']) ++ ext). split; [|split; [|split; [|reflexivity]]].
    + eapply G_ok; [apply I, D|apply label_root].
    + apply pos_app; [apply pos_snoc; assumption|exact Pe].
    + exists idx, j, j', [], ext. split; [reflexivity|split; [rewrite <- app_assoc; reflexivity|exact Lt]].
  - right. eapply GP_ok; [apply I, D|apply Dp, D|exact H].
Qed.

Lemma ctl_ok_spec later k : ctl_ok G later k = true ->
  ~ In k later /\ (forall w, In w G -> comparable k w = true -> k = w).
Proof.
  unfold ctl_ok. intro H. apply andb_true_iff in H. destruct H as [H1 H2]. split.
  - intro I. apply mem_In in I. rewrite I in H1. discriminate.
  - intros w W C. rewrite forallb_forall in H2. specialize (H2 w W). rewrite C in H2. cbn in H2.
    apply String.eqb_eq, H2.
Qed.

Lemma render_comparable k w i1 i2 : pos i1 -> pos i2 -> render_name k i1 = render_name w i2 -> comparable k w = true.
Proof. intros P1 P2 E. rewrite !render_spec in E by assumption. eapply ext_comparable, E. Qed.

Lemma firstn_not_gt_div n idx : ~ gt_div (firstn n idx) idx.
Proof.
  intros [p [j [j' [e1 [e2 [E1 [E2 L]]]]]]].
  pose proof (firstn_skipn n idx) as S. rewrite E2 in S. rewrite E1 in S at 2.
  rewrite <- !app_assoc in S. apply app_inv_head in S. cbn in S. inversion S. lia.
Qed.

(* the name a count / condition / mask width is read from is not written any more *)
Lemma read_safe later k n idx : ctl_ok G later k = true -> incl later G -> pos idx ->
  (firstn n idx = [] -> ~ In k GP) ->
  ~ Cfut later idx (render_name k (firstn n idx)).
Proof.
  intros C IL P NG. apply ctl_ok_spec in C. destruct C as [NL D1].
  pose proof (pos_firstn n idx P) as Pf.
  intros [[w [i [W [Pi E]]]]|[[w [i [W [Pi [Dv E]]]]]|H]].
  - assert (k = w) by (apply D1; [apply IL, W|eapply render_comparable; [exact Pf|exact Pi|exact E]]).
    subst w. contradiction.
  - assert (k = w) by (apply D1; [exact W|eapply render_comparable; [exact Pf|exact Pi|exact E]]).
    subst w. apply render_same_key_inj in E; [|exact Pf|exact Pi]. subst i.
    eapply firstn_not_gt_div, Dv.
  - assert (K : k = render_name k (firstn n idx)).
    { apply D1; [apply GP_G, H|]. rewrite render_spec by exact Pf.
      apply (ext_comparable k (k ++ suffixes (firstn n idx)) (suffixes (firstn n idx)) ""). rewrite sapp_nil_r. reflexivity. }
    pose proof (render_eq_key k _ Pf (eq_sym K)) as F. apply (NG F). rewrite K. exact H.
Qed.

End Safe.

(* ================================================================== *)
(* 6. the decoder's offset advance is walk_bits on the final object     *)
(* ================================================================== *)
Lemma hvo_body_cons d hv lbl it r :
  hvo_body d hv (BItems ((lbl, it) :: r)) = hvo_body d (hvo_item d hv lbl it) (BItems r).
Proof. reflexivity. Qed.

Lemma schk_body_cons T G GP d later hv lbl it r :
  schk_body T G GP d later hv (BItems ((lbl, it) :: r)) =
  schk_item T G GP d (rootsL T (labels_body d (BItems r)) ++ later) hv lbl it &&
  schk_body T G GP d later (hvo_item d hv lbl it) (BItems r).
Proof. reflexivity. Qed.

Lemma wb_body_cons T lbl it r idx o :
  wb_body T (BItems ((lbl, it) :: r)) idx o = wb_item T lbl it idx o + wb_body T (BItems r) idx o.
Proof. reflexivity. Qed.

Lemma comparable_refl a : comparable a a = true.
Proof. unfold comparable. rewrite prefix_refl'. reflexivity. Qed.

(* once valid, the harmonic counts stay valid through a checked layout *)
Lemma hvo_mono T G GP :
  (forall it lbl d later, (0 < d)%nat -> schk_item T G GP d later true lbl it = true -> hvo_item d true lbl it = true) /\
  (forall b d later, (0 < d)%nat -> schk_body T G GP d later true b = true -> hvo_body d true b = true).
Proof.
  apply item_body_ind.
  - intros k lbl d later D H. cbn [schk_item] in H. cbn [hvo_item].
    destruct (String.eqb lbl "IDF038") eqn:L; [|reflexivity].
    apply andb_true_iff in H. destruct H as [_ H]. rewrite forallb_forall in H.
    apply String.eqb_eq in L. subst lbl.
    specialize (H (t_nharmc T)). rewrite comparable_refl in H. cbn in H.
    discriminate H. cbn. right. now left.
  - intros; reflexivity.
  - intros c b IHb lbl d later D H. cbn [hvo_item]. apply Nat.ltb_lt in D. rewrite D. reflexivity.
  - intros k con b IHb lbl d later D H. cbn [schk_item] in H. cbn [hvo_item].
    apply andb_true_iff in H. destruct H as [_ H]. rewrite (IHb d later D H). reflexivity.
  - intros l IHl d later D H. revert H. induction IHl as [|[lbl it] r Hit Hr IHr]; intro H; [reflexivity|].
    rewrite schk_body_cons in H. apply andb_true_iff in H. destruct H as [H1 H2].
    rewrite hvo_body_cons. cbn [snd] in Hit. rewrite (Hit lbl d _ D H1) in *. apply IHr, H2.
  - intros; reflexivity.
Qed.

Section Sound.
Variable T : tables.
Variable ident : string.
Variables (G GP : list string) (AllD : list (nat*string)).
Hypothesis G_ok : forall dl, In dl AllD -> incl (provides T (snd dl)) G.
Hypothesis GP_ok : forall dl, In dl AllD -> (0 < fst dl)%nat -> incl (plain_roots T (snd dl)) GP.
Hypothesis GP_G : incl GP G.
Variable final : obj.                  (* the object at the end of the whole walk *)

Notation Cfut := (Cfut G GP).
Notation ctl_ok := (ctl_ok G).

(* every name that cannot change any more already has its final value *)
Definition Stab (later:list string) (idx:list Z) (o:obj) : Prop :=
  forall x, ~ Cfut later idx x -> attr o x = attr final x.

(* the harmonic counts currently stored are those of the layer idx belongs to *)
Definition HVf (idx:list Z) (o:obj) : Prop :=
  exists nc ns, harm_of idx final = Ok (nc, ns) /\
    attr o (t_nharmc T) = Some (VInt nc) /\ attr o (t_nharms T) = Some (VInt ns).

Lemma HVf_snoc idx i o : idx <> [] -> HVf (idx ++ [i]) o <-> HVf idx o.
Proof.
  intro N. unfold HVf, harm_of. destruct idx as [|a r]; [congruence|]. cbn [app first_index]. reflexivity.
Qed.

(* before a sub-walk: what neither the sub-walk nor the future writes has its final value *)
Lemma Stab_pre_item lbl it idx s s' later :
  dec_item T ident lbl it idx s = Ok s' -> pos idx -> Stab later idx (fst s') ->
  Stab (rootsL T (labels_item (List.length idx) lbl it) ++ later) idx (fst s).
Proof.
  intros E P S x N.
  rewrite <- (item_frame T ident it lbl idx s s' (List.length idx) x E P).
  - apply S. intro C. apply N. eapply Cfut_mono; [|exact C]. apply incl_appr, incl_refl.
  - intro W. apply N. eapply wr_Cfut_later; [exact P| |exact W]. apply incl_appl, incl_refl.
Qed.

Lemma Stab_pre_body b idx s s' later :
  dec_body T ident b idx s = Ok s' -> pos idx -> Stab later idx (fst s') ->
  Stab (rootsL T (labels_body (List.length idx) b) ++ later) idx (fst s).
Proof.
  intros E P S x N.
  rewrite <- (body_frame T ident b idx s s' (List.length idx) x E P).
  - apply S. intro C. apply N. eapply Cfut_mono; [|exact C]. apply incl_appr, incl_refl.
  - intro W. apply N. eapply wr_Cfut_later; [exact P| |exact W]. apply incl_appl, incl_refl.
Qed.

Lemma length_snoc {A} (l:list A) a : List.length (l ++ [a]) = S (List.length l).
Proof. rewrite app_length. cbn. lia. Qed.

(* ---------- the repeat count read by the decoder is the one cnt reads from the final object ---------- *)
Lemma group_count_final c b idx o later hv n :
  group_size c idx o = Ok n -> pos idx -> incl later G ->
  (match c with
   | CNamed key =>
       let '(k, n) := count_base key in
       harm_sep T k n &&
       (if is_harm T k then hv
        else ctl_ok (rootsL T (labels_body (S (List.length idx)) b) ++ later) k && (if (n =? 0)%nat then negb (mem k GP) else true))
   | _ => true
   end) = true ->
  incl (labels_body (S (List.length idx)) b) AllD ->
  Stab (rootsL T (labels_body (S (List.length idx)) b) ++ later) idx o ->
  (hv = true -> HVf idx o) ->
  cntz T c idx final = n.
Proof.
  intros E P IL CK IA S HV. unfold cntz. destruct c as [m|key|w].
  - cbn in E |- *. inversion E. reflexivity.
  - rewrite group_size_named in E.
    apply obind_ok_inv in E. destruct E as [anam [EN E]].
    apply obind_ok_inv in E. destruct E as [g [EG E]]. apply ok_inj in E.
    cbn [cnt]. rewrite EN. cbn [obind].
    destruct (cnt_name_ok key idx anam P EN) as [Ln EA].
    destruct (count_base key) as [k nn] eqn:CB. cbn [fst snd] in *.
    apply andb_true_iff in CK. destruct CK as [HS CK]. unfold harm_sep in HS.
    destruct (is_harm T k) eqn:IH.
    + (* harmonic count: valid by the invariant *)
      apply Nat.eqb_eq in HS. subst nn. cbn [firstn] in EA. rewrite render_name_nil in EA. subst anam.
      destruct (HV CK) as [nc [ns [HO [A1 A2]]]]. rewrite HO. cbn [obind fst snd].
      unfold is_harm in IH. destruct (String.eqb k (t_nharmc T)) eqn:K1.
      * apply String.eqb_eq in K1. subst k. apply getint_attr in EG. rewrite A1 in EG. inversion EG. subst g.
        cbn [obind]. exact E.
      * cbn [orb] in IH. rewrite IH. apply String.eqb_eq in IH. subst k. apply getint_attr in EG. rewrite A2 in EG.
        inversion EG. subst g. cbn [obind]. exact E.
    + (* ordinary count: stable *)
      apply andb_true_iff in HS. destruct HS as [HS1 HS2].
      assert (NH : forall h, comparable k h = false -> String.eqb anam h = false).
      { intros h C. destruct (String.eqb anam h) eqn:X; [|reflexivity]. apply String.eqb_eq in X.
        rewrite <- C. symmetry. subst anam. rewrite render_spec in X by (apply pos_firstn, P).
        apply (ext_comparable k h (suffixes (firstn nn idx)) ""). rewrite sapp_nil_r. exact X. }
      rewrite (NH _ (proj1 (negb_true_iff _) HS1)), (NH _ (proj1 (negb_true_iff _) HS2)).
      apply andb_true_iff in CK. destruct CK as [CK1 CK2].
      assert (A : attr o anam = attr final anam).
      { apply S. subst anam. eapply read_safe; try eassumption.
        - apply incl_app; [apply (rootsL_G T G AllD G_ok), IA|exact IL].
        - intros F I. destruct nn as [|nn]; [cbn in CK2; apply mem_In in I; rewrite I in CK2; discriminate|].
          destruct idx as [|a r]; [cbn in Ln; lia|cbn in F; discriminate]. }
      rewrite <- (getint_congr o final anam A), EG. cbn [obind]. exact E.
  - cbn in E. discriminate.
Qed.

(* ---------- one field ---------- *)
Lemma harm_name_037 i : ("IDF037_" ++ dd (Z.to_N i))%string = (("IDF037" ++ idx_suffix i))%string.
Proof. reflexivity. Qed.
Lemma harm_name_038 i : ("IDF038_" ++ dd (Z.to_N i))%string = (("IDF038" ++ idx_suffix i))%string.
Proof. reflexivity. Qed.

Lemma render_first k i r : 0 < i -> render_name k (firstn 1 (i :: r)) = (k ++ idx_suffix i)%string.
Proof. intro Hi. cbn [firstn]. rewrite render_name_cons by exact Hi. apply render_name_nil. Qed.

Lemma sapp_neq_self k s : s <> ""%string -> (k ++ s)%string <> k.
Proof.
  intros N E. apply N. apply (sapp_inv_head k). rewrite sapp_nil_r. exact E.
Qed.

Lemma field_sound lbl idx o off o1 off1 later hv :
  set_single T ident lbl idx (o, off) = Ok (o1, off1) -> pos idx ->
  In (List.length idx, lbl) AllD -> incl later G ->
  schk_item T G GP (List.length idx) later hv lbl (IField lbl) = true ->
  Stab later idx o1 ->
  (hv = true -> HVf idx o) ->
  off1 = off + fwidth T lbl final /\
  (hvo_item (List.length idx) hv lbl (IField lbl) = true -> HVf idx o1).
Proof.
  intros E P IA IL CK S HV.
  pose proof E as E0.
  apply set_single_inv in E. destruct E as [fd [F E]].
  apply field_stages_inv in E.
  destruct E as [asiz [vb [oa [ob [oc [E1 [E2 [E3 [E4 [E5 E6]]]]]]]]]].
  inversion E6. subst oc off1. clear E6.
  cbn [schk_item] in CK. apply andb_true_iff in CK. destruct CK as [CK CK3].
  apply andb_true_iff in CK. destruct CK as [CK1 CK2].
  assert (PG : incl (provides T lbl) G) by (apply (G_ok _ IA)).
  split.
  - (* width *)
    f_equal. unfold fwidth. rewrite F. unfold field_width in E1.
    destruct (String.eqb lbl "DF396") eqn:L; [|inversion E1; reflexivity].
    apply obind_ok_inv in E1. destruct E1 as [a [Ea E1]].
    apply obind_ok_inv in E1. destruct E1 as [b [Eb E1]]. apply ok_inj in E1. subst asiz.
    apply andb_true_iff in CK1. destruct CK1 as [CK1 N2]. apply andb_true_iff in CK1. destruct CK1 as [CK1 N1].
    apply andb_true_iff in CK1. destruct CK1 as [C1 C2].
    assert (S0 : Stab (provides T lbl ++ later) idx o).
    { intros x N. pose proof (Stab_pre_item lbl (IField lbl) idx (o, off) (o1, off + a * b) later) as Q.
      rewrite dec_item_field in Q. specialize (Q E0 P S x). cbn [fst] in Q. apply Q.
      intro C. apply N. eapply Cfut_mono; [|exact C]. cbn [labels_item rootsL flat_map snd]. rewrite app_nil_r. apply incl_refl. }
    assert (IL' : incl (provides T lbl ++ later) G) by (apply incl_app; assumption).
    assert (A1 : attr o (t_nsat T) = attr final (t_nsat T)).
    { apply S0. rewrite <- (render_name_nil (t_nsat T)). change (@nil Z) with (firstn 0 idx).
      eapply read_safe; try eassumption. intros _ I. apply mem_In in I. rewrite I in N1. discriminate. }
    assert (A2 : attr o (t_nsig T) = attr final (t_nsig T)).
    { apply S0. rewrite <- (render_name_nil (t_nsig T)). change (@nil Z) with (firstn 0 idx).
      eapply read_safe; try eassumption. intros _ I. apply mem_In in I. rewrite I in N2. discriminate. }
    unfold zattr. rewrite <- (getint_congr o final _ A1), <- (getint_congr o final _ A2), Ea, Eb. reflexivity.
  - (* harmonic validity *)
    cbn [hvo_item]. destruct (String.eqb lbl "IDF038") eqn:L.
    + intro D. apply Nat.ltb_lt in D. apply String.eqb_eq in L. subst lbl.
      unfold post_harm in E5. cbn in E5.
      apply harmonic_counts_inv in E5.
      destruct E5 as [i [n0 [m0 [o' [FI [Hi [En [Em [S1 S2]]]]]]]]].
      destruct idx as [|a r]; [cbn in D; lia|]. cbn [first_index] in FI. apply ok_inj in FI. subst a.
      inversion P as [|? ? Hi0 Pr]. subst.
      apply andb_true_iff in CK2. destruct CK2 as [CK2 NE]. apply andb_true_iff in CK2. destruct CK2 as [C7 C8].
      apply negb_true_iff in NE.
      assert (GH : In (t_nharmc T) G /\ In (t_nharms T) G).
      { split; apply PG; cbn; tauto. }
      assert (NN : forall base, ctl_ok later base = true -> forall h, In h G -> (base ++ idx_suffix i)%string <> h).
      { intros base C h Hh X. apply ctl_ok_spec in C. destruct C as [_ D1].
        assert (B : base = h).
        { apply D1; [exact Hh|]. apply (ext_comparable base h (idx_suffix i) ""). rewrite sapp_nil_r. exact X. }
        rewrite <- B in X. revert X. apply sapp_neq_self. discriminate. }
      assert (K : forall base, ctl_ok later base = true ->
                 attr ob (base ++ idx_suffix i)%string = attr final (base ++ idx_suffix i)%string).
      { intros base C.
        rewrite <- (S (base ++ idx_suffix i)%string).
        - rewrite (setattr_attr _ _ _ _ _ S2), (setattr_attr _ _ _ _ _ S1); [reflexivity| |].
          + apply (NN base C), GH.
          + apply (NN base C), GH.
        - rewrite <- (render_first base i r Hi0). eapply read_safe; try eassumption.
          cbn [firstn]. discriminate. }
      rewrite harm_name_037 in En. rewrite harm_name_038 in Em.
      rewrite (getint_congr _ _ _ (K "IDF037"%string C7)) in En.
      rewrite (getint_congr _ _ _ (K "IDF038"%string C8)) in Em.
      eexists. eexists. split; [|split].
      * unfold harm_of. cbn [first_index obind]. rewrite harm_name_037, harm_name_038, En, Em. cbn [obind]. reflexivity.
      * rewrite (setattr_attr _ _ _ _ _ S2).
        -- apply (setattr_attr_same _ _ _ _ S1).
        -- intro X. rewrite X, String.eqb_refl in NE. discriminate.
      * apply (setattr_attr_same _ _ _ _ S2).
    + intro H. subst hv. destruct (HV eq_refl) as [nc [ns [HO [A1 A2]]]].
      rewrite forallb_forall in CK3.
      assert (NW : forall h, (h = t_nharmc T \/ h = t_nharms T) -> attr o1 h = attr o h).
      { intros h Hh. eapply set_single_attr; [exact E0| |].
        - intro X. specialize (CK3 lbl (label_root T lbl)).
          assert (C : comparable lbl h = true).
          { rewrite render_spec in X by exact P. apply (ext_comparable lbl h (suffixes idx) ""). rewrite sapp_nil_r. symmetry. exact X. }
          destruct Hh; subst h; rewrite C in CK3; cbn in CK3; try discriminate. rewrite andb_false_r in CK3. discriminate.
        - intro X. apply plain_roots_provides in X. specialize (CK3 h X).
          destruct Hh; subst h; rewrite comparable_refl in CK3; cbn in CK3; try discriminate. rewrite andb_false_r in CK3. discriminate. }
      exists nc, ns. split; [exact HO|]. rewrite !NW by tauto. split; assumption.
Qed.

(* ---------- the walk ---------- *)
Lemma incl_app_l {A} (a b c:list A) : incl (a ++ b) c -> incl a c.
Proof. intros H x I. apply H, in_app_iff. now left. Qed.
Lemma incl_app_r {A} (a b c:list A) : incl (a ++ b) c -> incl b c.
Proof. intros H x I. apply H, in_app_iff. now right. Qed.

Lemma schk_item_group d later hv lbl c b :
  schk_item T G GP d later hv lbl (IGroup c b) =
  (match c with
   | CNamed key =>
       let '(k, n) := count_base key in
       harm_sep T k n &&
       (if is_harm T k then hv
        else ctl_ok (rootsL T (labels_body (S d) b) ++ later) k && (if (n =? 0)%nat then negb (mem k GP) else true))
   | _ => true
   end) && schk_body T G GP (S d) later (if (d =? 0)%nat then false else hv) b.
Proof. reflexivity. Qed.

Lemma schk_item_opt d later hv lbl k con b :
  schk_item T G GP d later hv lbl (IOpt k con b) =
  ctl_ok (rootsL T (labels_body d b) ++ later) k && negb (mem k GP) && schk_body T G GP d later hv b.
Proof. reflexivity. Qed.

Lemma walk_sound_gen :
  (forall it lbl idx s s' later hv,
     dec_item T ident lbl it idx s = Ok s' -> pos idx ->
     incl (labels_item (List.length idx) lbl it) AllD -> incl later G ->
     schk_item T G GP (List.length idx) later hv lbl it = true ->
     Stab later idx (fst s') ->
     (hv = true -> HVf idx (fst s)) ->
     snd s' = snd s + wb_item T lbl it idx final /\
     (hvo_item (List.length idx) hv lbl it = true -> HVf idx (fst s'))) /\
  (forall b idx s s' later hv,
     dec_body T ident b idx s = Ok s' -> pos idx ->
     incl (labels_body (List.length idx) b) AllD -> incl later G ->
     schk_body T G GP (List.length idx) later hv b = true ->
     Stab later idx (fst s') ->
     (hv = true -> HVf idx (fst s)) ->
     snd s' = snd s + wb_body T b idx final /\
     (hvo_body (List.length idx) hv b = true -> HVf idx (fst s'))).
Proof.
  apply item_body_ind.
  - (* field *)
    intros k lbl idx [o off] [o1 off1] later hv E P IA IL CK SB HV. rewrite dec_item_field in E. cbn [fst snd] in *.
    cbn [wb_item].
    change (schk_item T G GP (List.length idx) later hv lbl (IField k)) with
           (schk_item T G GP (List.length idx) later hv lbl (IField lbl)) in CK.
    change (hvo_item (List.length idx) hv lbl (IField k)) with (hvo_item (List.length idx) hv lbl (IField lbl)).
    eapply field_sound; try eassumption. apply IA. now left.
  - intros w lbl idx s s' later hv E. discriminate.
  - (* group *)
    intros c b IHb lbl idx s s' later hv E P IA IL CK SB HV.
    pose proof E as E0. rewrite dec_item_group in E.
    apply obind_ok_inv in E. destruct E as [n [EG E]].
    destruct (max_count <? n); [discriminate|].
    cbn [labels_item] in IA. rewrite schk_item_group in CK. apply andb_true_iff in CK. destruct CK as [CKc CKb].
    set (d := List.length idx) in *.
    set (hvb := if (d =? 0)%nat then false else hv) in *.
    set (Lb := labels_body (S d) b) in *.
    (* the iterations *)
    assert (R : forall m i s0 s1, 0 < i -> rep (dec_body T ident b) idx m i s0 = Ok s1 ->
                Stab later idx (fst s1) -> (hvb = true -> HVf idx (fst s0)) ->
                snd s1 = snd s0 + sumrep (fun j => wb_body T b (idx ++ [j]) final) m i /\
                (hvb = true -> HVf idx (fst s1))).
    { induction m as [|m IHm]; intros i s0 s1 Hi Er S1 HV0; cbn [rep sumrep] in *.
      - inversion Er. subst. split; [lia|exact HV0].
      - apply obind_ok_inv in Er. destruct Er as [s2 [E1 E2]].
        assert (Pi : pos (idx ++ [i])) by (apply pos_snoc; assumption).
        assert (S2 : Stab later (idx ++ [i]) (fst s2)).
        { intros x N.
          rewrite <- (rep_frame T (dec_body T ident b) idx Lb x) with (n:=m) (i:=i+1) (s:=s2) (s':=s1); [|
            |lia|exact E2|].
          - apply S1. intro C. apply N, Cfut_snoc, C.
          - intros j s3 s4 Hj E3 N3. eapply (body_frame T ident b (idx ++ [j]) s3 s4 (S d)); [exact E3|apply pos_snoc; assumption|exact N3].
          - intros j Hj W. apply N. eapply (wr_Cfut_iter T G GP AllD G_ok GP_ok Lb idx later i j x); try eassumption; try lia.
            intros dl D. apply (proj2 labels_depth) in D. lia. }
        assert (NE : hvb = true -> idx <> []).
        { intros H ->. subst hvb d. cbn in H. discriminate. }
        assert (HVi : hvb = true -> HVf (idx ++ [i]) (fst s0)).
        { intro H. apply HVf_snoc; [apply NE, H|apply HV0, H]. }
        destruct (IHb (idx ++ [i]) s0 s2 later hvb E1 Pi) as [O2 HV2]; try assumption.
        + rewrite length_snoc. exact IA.
        + rewrite length_snoc. exact CKb.
        + assert (HV2' : hvb = true -> HVf idx (fst s2)).
          { intro H. assert (Dp : (0 < S d)%nat) by lia.
            apply (HVf_snoc idx i); [apply NE, H|].
            apply HV2. rewrite length_snoc. fold d. rewrite H in *.
            eapply (proj2 (hvo_mono T G GP)); [exact Dp|exact CKb]. }
          destruct (IHm (i + 1) s2 s1) as [O1 HV1]; try assumption; try lia.
          split; [lia|exact HV1]. }
    assert (CN : cntz T c idx final = n).
    { eapply (group_count_final c b idx (fst s) later hv n); try eassumption.
      eapply Stab_pre_item with (lbl:=lbl) (it:=IGroup c b) (s':=s'); [exact E0|exact P|exact SB]. }
    cbn [wb_item]. rewrite CN.
    destruct (R (Z.to_nat n) 1 s s') as [O1 HV1]; try assumption; try lia.
    { intro H. apply HV. subst hvb. destruct (d =? 0)%nat; [discriminate|exact H]. }
    split; [exact O1|].
    cbn [hvo_item]. fold d. intro H. apply andb_true_iff in H. destruct H as [H1 H2].
    apply HV1. subst hvb. apply Nat.ltb_lt in H1. destruct d; [lia|exact H2].
  - (* optional group *)
    intros k con b IHb lbl idx s s' later hv E P IA IL CK SB HV.
    pose proof E as E0. rewrite dec_item_opt in E.
    apply obind_ok_inv in E. destruct E as [v [EV E]].
    cbn [labels_item] in IA. rewrite schk_item_opt in CK. apply andb_true_iff in CK. destruct CK as [CK CKb].
    apply andb_true_iff in CK. destruct CK as [C1 C2].
    assert (A : attr (fst s) k = attr final k).
    { pose proof (Stab_pre_item lbl (IOpt k con b) idx s s' later E0 P SB) as Q. cbn [labels_item] in Q.
      apply Q. rewrite <- (render_name_nil k). change (@nil Z) with (firstn 0 idx).
      eapply read_safe; try eassumption.
      - apply incl_app; [apply (rootsL_G T G AllD G_ok), IA|exact IL].
      - intros _ I. apply mem_In in I. rewrite I in C2. discriminate. }
    apply getattr_ok in EV. cbn [wb_item hvo_item]. unfold cond_on. fold (attr final k). rewrite <- A.
    fold (attr (fst s) k) in EV. rewrite EV.
    destruct v as [z|f|str].
    + destruct (z =? con).
      * destruct (IHb idx s s' later hv E P IA IL CKb SB HV) as [O1 HV1]. split; [exact O1|].
        intro H. apply andb_true_iff in H. apply HV1, H.
      * inversion E. subst. split; [lia|]. intro H. apply andb_true_iff in H. apply HV, H.
    + discriminate.
    + inversion E. subst. split; [lia|]. intro H. apply andb_true_iff in H. apply HV, H.
  - (* item list *)
    intros l IHl idx s s' later hv E P IA IL CK SB HV. rewrite dec_body_items in E.
    revert s hv E CK HV IA. induction IHl as [|[lbl it] r Hit Hr IHr]; intros s hv E CK HV IA.
    + rewrite dec_items_nil in E. inversion E. subst. cbn. split; [lia|exact HV].
    + rewrite dec_items_cons in E. apply obind_ok_inv in E. destruct E as [s1 [E1 E2]].
      rewrite schk_body_cons in CK. apply andb_true_iff in CK. destruct CK as [CK1 CK2].
      rewrite labels_body_cons in IA. cbn [snd] in Hit.
      pose proof (incl_app_l _ _ _ IA) as IA1. pose proof (incl_app_r _ _ _ IA) as IA2.
      assert (S1 : Stab (rootsL T (labels_body (List.length idx) (BItems r)) ++ later) idx (fst s1)).
      { apply (Stab_pre_body (BItems r) idx s1 s' later); [rewrite dec_body_items; exact E2|exact P|exact SB]. }
      assert (IL1 : incl (rootsL T (labels_body (List.length idx) (BItems r)) ++ later) G).
      { apply incl_app; [apply (rootsL_G T G AllD G_ok), IA2|exact IL]. }
      destruct (Hit lbl idx s s1 _ hv E1 P IA1 IL1 CK1 S1 HV) as [O1 HV1].
      destruct (IHr s1 _ E2 CK2 HV1 IA2) as [O2 HV2].
      rewrite wb_body_cons, hvo_body_cons. split; [lia|exact HV2].
  - intros w idx s s' later hv E. discriminate.
Qed.

End Sound.

(* ---------- the whole layout ---------- *)
Theorem walk_sound : forall T ident b o off o1 off1,
  stable_ok T b = true ->
  dec_body T ident b [] (o, off) = Ok (o1, off1) ->
  off1 = off + walk_bits T b o1.
Proof.
  intros T ident b o off o1 off1 CK E. unfold stable_ok in CK. unfold walk_bits.
  set (AllD := labels_body 0 b).
  assert (G_ok : forall dl, In dl AllD -> incl (provides T (snd dl)) (all_roots T b)).
  { intros dl D w W. unfold all_roots. apply rootsL_In. exists dl. split; assumption. }
  assert (GP_ok : forall dl, In dl AllD -> (0 < fst dl)%nat -> incl (plain_roots T (snd dl)) (group_plain_roots T b)).
  { intros dl D L w W. unfold group_plain_roots. apply in_flat_map. exists dl. split; [exact D|].
    apply Nat.ltb_lt in L. rewrite L. exact W. }
  assert (GP_G : incl (group_plain_roots T b) (all_roots T b)).
  { intros w W. unfold group_plain_roots in W. apply in_flat_map in W. destruct W as [dl [D W]].
    destruct (0 <? fst dl)%nat; [|destruct W]. apply (G_ok dl D). apply plain_roots_provides, W. }
  pose proof (proj2 (walk_sound_gen T ident (all_roots T b) (group_plain_roots T b) AllD G_ok GP_ok GP_G o1)
                b [] (o, off) (o1, off1) [] false E) as H.
  cbn [fst snd List.length] in H. apply H.
  - constructor.
  - apply incl_refl.
  - intros x [].
  - exact CK.
  - intros x _. reflexivity.
  - discriminate.
Qed.

(* ================================================================== *)
(* 7. walk_bits is the value of the length polynomial                   *)
(* ================================================================== *)
Lemma sumrep_ext f g : (forall i, f i = g i) -> forall n i, sumrep f n i = sumrep g n i.
Proof. intros H. induction n as [|n IH]; intro i; cbn [sumrep]; [reflexivity|]. rewrite H, IH. reflexivity. Qed.

Lemma sumrep_add f g : forall n i, sumrep (fun j => f j + g j) n i = sumrep f n i + sumrep g n i.
Proof. induction n as [|n IH]; intro i; cbn [sumrep]; [reflexivity|]. rewrite IH. lia. Qed.

Lemma sumrep_scale c f : forall n i, sumrep (fun j => c * f j) n i = c * sumrep f n i.
Proof. induction n as [|n IH]; intro i; cbn [sumrep]; [lia|]. rewrite IH. lia. Qed.

Lemma sumrep_zero : forall n i, sumrep (fun _ => 0) n i = 0.
Proof. induction n as [|n IH]; intro i; cbn [sumrep]; [reflexivity|]. rewrite IH. reflexivity. Qed.

Lemma sumrep_const c : forall n i, sumrep (fun _ => c) n i = Z.of_nat n * c.
Proof. induction n as [|n IH]; intro i; cbn [sumrep]; [lia|]. rewrite IH. lia. Qed.

(* ---------- decimal integers ---------- *)
Lemma digit_not_minus c : dec_digit c = true -> Ascii.eqb c "-"%char = false.
Proof.
  intro D. destruct (Ascii.eqb_spec c "-"%char) as [->|]; [|reflexivity]. cbn in D. discriminate.
Qed.

Lemma Z_of_str_str_of_Z z : Z_of_str (str_of_Z z) = Some z.
Proof.
  destruct z as [|p|p]; cbn [str_of_Z].
  - reflexivity.
  - pose proof (str_of_N_digits (Npos p)) as D. pose proof (N_of_str_str_of_N (Npos p)) as R.
    pose proof (str_of_N_nonempty (Npos p)) as NE.
    destruct (str_of_N (Npos p)) as [|c r] eqn:E; [congruence|].
    unfold Z_of_str. cbn in D. apply andb_true_iff in D. destruct D as [D _].
    rewrite (digit_not_minus c D), R. reflexivity.
  - unfold Z_of_str. rewrite Ascii.eqb_refl, N_of_str_str_of_N. reflexivity.
Qed.

Lemma split_eq_app k r : no_eq k = true -> split_eq (k ++ String "="%char r) = (k, Some r).
Proof.
  induction k as [|c k IH]; intro N; cbn.
  - reflexivity.
  - cbn in N. apply andb_true_iff in N. destruct N as [N1 N2]. apply negb_true_iff in N1.
    rewrite N1, (IH N2). reflexivity.
Qed.

(* ---------- classification of the variables poly_item emits ---------- *)
Lemma classify_count key : plain_key key = true -> classify key = PVCount key.
Proof.
  destruct key as [|c r]; [reflexivity|]. cbn [plain_key classify]. intro H.
  apply andb_true_iff in H. destruct H as [H H3]. apply andb_true_iff in H. destruct H as [H1 H2].
  apply negb_true_iff in H1, H2, H3. rewrite H1, H2, H3. reflexivity.
Qed.

Lemma classify_opt k con : no_eq k = true ->
  classify ("?" +s+ k +s+ "=" +s+ str_of_Z con) = PVOpt k con.
Proof.
  intro N. cbn [String.append classify]. 
  change (Ascii.eqb "?" "#") with false. change (Ascii.eqb "?" "?") with true. cbn iota.
  change ("=" +s+ str_of_Z con)%string with (String "="%char (str_of_Z con)).
  rewrite (split_eq_app k _ N), Z_of_str_str_of_Z. reflexivity.
Qed.

Section Poly.
Variable T : tables.
Variable o : obj.

Definition is_count_var (v:string) : bool := match classify v with PVCount _ => true | _ => false end.
Definition nv (path:list string) : nat := List.length (filter is_count_var path).

Lemma nv_app p q : nv (p ++ q) = (nv p + nv q)%nat.
Proof. unfold nv. rewrite filter_app, app_length. reflexivity. Qed.

(* K only matters at the indices the path reaches *)
Lemma pevk_ext : forall path idx K1 K2,
  (forall p, List.length p = (List.length idx + nv path)%nat -> K1 p = K2 p) ->
  pevk T path idx o K1 = pevk T path idx o K2.
Proof.
  induction path as [|v rest IH]; intros idx K1 K2 H; cbn [pevk].
  - apply H. cbn. lia.
  - unfold nv in H. cbn [filter] in H. unfold is_count_var in H at 1.
    destruct (classify v) as [| |k con|key|]; cbn [List.length] in H; fold (nv rest) in H.
    + f_equal. apply IH, H.
    + f_equal. apply IH, H.
    + destruct (cond_on o k con); [apply IH, H|reflexivity].
    + apply sumrep_ext. intro i. apply IH. intros p L. apply H. rewrite length_snoc in L. lia.
    + reflexivity.
Qed.

Lemma pevk_app : forall p q idx K,
  pevk T (p ++ q) idx o K = pevk T p idx o (fun idx' => pevk T q idx' o K).
Proof.
  induction p as [|v rest IH]; intros q idx K; cbn [app pevk]; [reflexivity|].
  destruct (classify v) as [| |k con|key|]; try rewrite IH; try reflexivity.
  apply sumrep_ext. intro i. apply IH.
Qed.

Lemma pevk_add : forall path idx K1 K2,
  pevk T path idx o (fun p => K1 p + K2 p) = pevk T path idx o K1 + pevk T path idx o K2.
Proof.
  induction path as [|v rest IH]; intros idx K1 K2; cbn [pevk]; [reflexivity|].
  destruct (classify v) as [| |k con|key|]; try rewrite IH; try lia.
  - destruct (cond_on o k con); lia.
  - rewrite <- sumrep_add. apply sumrep_ext. intro i. apply IH.
Qed.

Lemma pevk_scale c : forall path idx K,
  pevk T path idx o (fun p => c * K p) = c * pevk T path idx o K.
Proof.
  induction path as [|v rest IH]; intros idx K; cbn [pevk]; [reflexivity|].
  destruct (classify v) as [| |k con|key|]; try rewrite IH; try lia.
  - destruct (cond_on o k con); lia.
  - rewrite <- sumrep_scale. apply sumrep_ext. intro i. apply IH.
Qed.

Lemma pevk_zero : forall path idx, pevk T path idx o (fun _ => 0) = 0.
Proof.
  intros path idx. pose proof (pevk_scale 0 path idx (fun _ => 0)) as H. cbn beta in H.
  rewrite Z.mul_0_l in H. exact H.
Qed.

(* sum of the monomials of a polynomial, evaluated from index idx *)
Definition psum (p:poly) (idx:list Z) : Z :=
  fold_right (fun m acc => pevk T (fst m) idx o (fun _ => snd m) + acc) 0 p.

Lemma peval_psum p : peval T p o = psum p [].
Proof. reflexivity. Qed.

Lemma psum_nil idx : psum [] idx = 0.
Proof. reflexivity. Qed.
Lemma psum_cons m p idx : psum (m :: p) idx = pevk T (fst m) idx o (fun _ => snd m) + psum p idx.
Proof. reflexivity. Qed.

Lemma psum_app p q idx : psum (p ++ q) idx = psum p idx + psum q idx.
Proof.
  induction p as [|m p IH]; [rewrite psum_nil; reflexivity|].
  rewrite <- app_comm_cons, !psum_cons, IH. lia.
Qed.

Lemma pscale_cons n pa c p : pscale n ((pa, c) :: p) = (pa, c * n) :: pscale n p.
Proof. reflexivity. Qed.

Lemma psum_pscale n p idx : psum (pscale n p) idx = n * psum p idx.
Proof.
  induction p as [|[pa c] p IH]; [cbn [pscale map]; rewrite psum_nil; lia|].
  rewrite pscale_cons, !psum_cons, IH. cbn [fst snd].
  rewrite (pevk_ext pa idx (fun _ => c * n) (fun _ => n * c)) by (intros; lia).
  rewrite (pevk_scale n pa idx (fun _ => c)). lia.
Qed.

(* ---------- a layout under a fixed-count group does not depend on the index levels beyond vd ---------- *)
Lemma firstn_snoc_eq {A} v (a b:list A) i : firstn v a = firstn v b -> firstn v (a ++ [i]) = firstn v (b ++ [i]).
Proof.
  intro H. pose proof (f_equal (@List.length A) H) as L. rewrite !firstn_length in L.
  destruct (Nat.le_gt_cases v (List.length a)) as [C|C].
  - rewrite !firstn_app. replace (v - List.length a)%nat with 0%nat by lia.
    replace (v - List.length b)%nat with 0%nat by lia. cbn [firstn]. rewrite H. reflexivity.
  - assert (List.length b = List.length a) by lia.
    rewrite (firstn_all2 a) in H by lia. rewrite (firstn_all2 b) in H by lia. subst b. reflexivity.
Qed.

Lemma firstn_le_eq {A} n v (a b:list A) : (n <= v)%nat -> firstn v a = firstn v b -> firstn n a = firstn n b.
Proof.
  intros L H. pose proof (f_equal (firstn n) H) as H'. rewrite !firstn_firstn in H'.
  replace (Init.Nat.min n v) with n in H' by lia. exact H'.
Qed.

Lemma suffix_first_firstn : forall n a b s, firstn n a = firstn n b -> suffix_first n a s = suffix_first n b s.
Proof.
  induction n as [|n IH]; intros a b s H; cbn [suffix_first]; [reflexivity|].
  destruct a as [|x a]; destruct b as [|y b]; cbn [firstn] in H; try discriminate; [reflexivity|].
  inversion H. subst. destruct (y <? 0); [reflexivity|]. apply IH. assumption.
Qed.

Lemma cnt_name_firstn key a b :
  firstn (snd (count_base key)) a = firstn (snd (count_base key)) b -> cnt_name key a = cnt_name key b.
Proof.
  unfold cnt_name, count_base. destruct (split_plus key) as [k [nl|]]; cbn [snd]; [|reflexivity].
  destruct (contains "+" nl); [reflexivity|]. destruct (N_of_str nl) as [n|]; [|reflexivity].
  apply suffix_first_firstn.
Qed.

Lemma cnt_name_level0 key a anam : snd (count_base key) = 0%nat -> cnt_name key a = Ok anam -> anam = fst (count_base key).
Proof.
  unfold cnt_name, count_base. destruct (split_plus key) as [k [nl|]]; cbn [fst snd].
  - destruct (contains "+" nl); [discriminate|]. destruct (N_of_str nl) as [n|]; [|discriminate].
    intros -> E. cbn in E. inversion E. reflexivity.
  - intros _ E. inversion E. reflexivity.
Qed.

Lemma first_index_firstn v (a b:list Z) : (1 <= v)%nat -> firstn v a = firstn v b -> first_index a = first_index b.
Proof.
  intros L H. destruct v; [lia|]. destruct a as [|x a]; destruct b as [|y b]; cbn [firstn] in H; try discriminate; [reflexivity|].
  inversion H. reflexivity.
Qed.

Lemma cnt_indep key vd d1 d2 :
  (snd (count_base key) <= vd)%nat ->
  (is_harm T (fst (count_base key)) = true -> (1 <= vd)%nat) ->
  firstn vd d1 = firstn vd d2 ->
  cnt T (CNamed key) d1 o = cnt T (CNamed key) d2 o.
Proof.
  intros Ln Hh H. cbn [cnt].
  rewrite (cnt_name_firstn key d1 d2) by (eapply firstn_le_eq; eassumption).
  destruct (cnt_name key d2) as [anam| | |] eqn:EN; try reflexivity. cbn [obind].
  destruct vd as [|vd].
  - assert (L0 : snd (count_base key) = 0%nat) by lia.
    apply (cnt_name_level0 key d2 anam L0) in EN. subst anam.
    unfold is_harm in Hh. destruct (String.eqb (fst (count_base key)) (t_nharmc T)); [cbn in Hh; specialize (Hh eq_refl); lia|].
    destruct (String.eqb (fst (count_base key)) (t_nharms T)); [cbn in Hh; specialize (Hh eq_refl); lia|]. reflexivity.
  - assert (HO : harm_of d1 o = harm_of d2 o).
    { unfold harm_of. rewrite (first_index_firstn (S vd) d1 d2); [reflexivity|lia|exact H]. }
    rewrite HO. reflexivity.
Qed.

Lemma fchk_body_cons vd fr lbl it r :
  fchk_body T vd fr (BItems ((lbl, it) :: r)) = fchk_item T vd fr lbl it && fchk_body T vd fr (BItems r).
Proof. reflexivity. Qed.

Lemma fchk_item_fixed vd fr lbl n b :
  fchk_item T vd fr lbl (IGroup (CFixed n) b) = (0 <=? n) && fchk_body T vd true b.
Proof. reflexivity. Qed.
Lemma fchk_item_named vd fr lbl key b :
  fchk_item T vd fr lbl (IGroup (CNamed key) b) =
  plain_key key && (snd (count_base key) <=? vd)%nat &&
  (if is_harm T (fst (count_base key)) then (1 <=? vd)%nat else true) &&
  fchk_body T (if fr then vd else S vd) fr b.
Proof. reflexivity. Qed.
Lemma fchk_item_opt vd fr lbl k con b :
  fchk_item T vd fr lbl (IOpt k con b) = no_eq k && fchk_body T vd fr b.
Proof. reflexivity. Qed.

Lemma wb_index_indep :
  (forall it lbl vd d1 d2, fchk_item T vd true lbl it = true -> firstn vd d1 = firstn vd d2 ->
     wb_item T lbl it d1 o = wb_item T lbl it d2 o) /\
  (forall b vd d1 d2, fchk_body T vd true b = true -> firstn vd d1 = firstn vd d2 ->
     wb_body T b d1 o = wb_body T b d2 o).
Proof.
  apply item_body_ind.
  - intros; reflexivity.
  - intros; reflexivity.
  - intros c b IHb lbl vd d1 d2 CK H. cbn [wb_item].
    assert (CB : fchk_body T vd true b = true /\ cntz T c d1 o = cntz T c d2 o).
    { destruct c as [n|key|w].
      - rewrite fchk_item_fixed in CK. apply andb_true_iff in CK. destruct CK as [_ CK]. split; [exact CK|reflexivity].
      - rewrite fchk_item_named in CK.
        apply andb_true_iff in CK. destruct CK as [CK CKb]. apply andb_true_iff in CK. destruct CK as [CK C3].
        apply andb_true_iff in CK. destruct CK as [C1 C2]. split; [exact CKb|].
        unfold cntz. rewrite (cnt_indep key vd d1 d2); [reflexivity|apply Nat.leb_le, C2| |exact H].
        intro IH. rewrite IH in C3. apply Nat.leb_le, C3.
      - discriminate. }
    destruct CB as [CKb ->]. apply sumrep_ext. intro i. apply (IHb vd); [exact CKb|apply firstn_snoc_eq, H].
  - intros k con b IHb lbl vd d1 d2 CK H. cbn [wb_item]. rewrite fchk_item_opt in CK.
    apply andb_true_iff in CK. destruct CK as [_ CK]. destruct (cond_on o k con); [|reflexivity]. eapply IHb; eassumption.
  - intros l IHl vd d1 d2 CK H. revert CK. induction IHl as [|[lbl it] r Hit Hr IHr]; intro CK; [reflexivity|].
    rewrite fchk_body_cons in CK. apply andb_true_iff in CK. destruct CK as [C1 C2].
    rewrite !wb_body_cons. cbn [snd] in Hit. rewrite (Hit lbl vd d1 d2 C1 H), (IHr C2). reflexivity.
  - intros; reflexivity.
Qed.

(* ---------- the polynomial of a layout, evaluated, is walk_bits ---------- *)
Lemma poly_body_cons path lbl it r :
  poly_body T path (BItems ((lbl, it) :: r)) = poly_item T path lbl it ++ poly_body T path (BItems r).
Proof. reflexivity. Qed.

Lemma nv_count key : plain_key key = true -> nv [key] = 1%nat.
Proof. intro H. unfold nv, is_count_var. cbn [filter]. rewrite (classify_count key H). reflexivity. Qed.

Lemma nv_opt k con : no_eq k = true -> nv ["?" +s+ k +s+ "=" +s+ str_of_Z con] = 0%nat.
Proof. intro H. unfold nv, is_count_var. cbn [filter]. rewrite (classify_opt k con H). reflexivity. Qed.

Lemma poly_walk :
  (forall it lbl vd fr path idx0, fchk_item T vd fr lbl it = true ->
     (vd <= List.length idx0 + nv path)%nat ->
     psum (poly_item T path lbl it) idx0 = pevk T path idx0 o (fun p => wb_item T lbl it p o)) /\
  (forall b vd fr path idx0, fchk_body T vd fr b = true ->
     (vd <= List.length idx0 + nv path)%nat ->
     psum (poly_body T path b) idx0 = pevk T path idx0 o (fun p => wb_body T b p o)).
Proof.
  apply item_body_ind.
  - (* field *)
    intros k lbl vd fr path idx0 CK L. cbn [fchk_item] in CK. cbn [poly_item wb_item]. unfold fwidth.
    destruct (find_field T lbl) as [fd|]; [|discriminate].
    destruct (String.eqb lbl "DF396").
    + rewrite psum_cons, psum_nil. cbn [fst snd]. rewrite pevk_app, Z.add_0_r.
      apply pevk_ext. intros p _. cbn. lia.
    + rewrite psum_cons, psum_nil. cbn [fst snd]. lia.
  - intros w lbl vd fr path idx0 CK. discriminate.
  - (* group *)
    intros c b IHb lbl vd fr path idx0 CK L. destruct c as [n|key|w].
    + (* fixed count *)
      rewrite fchk_item_fixed in CK. apply andb_true_iff in CK. destruct CK as [N CKb]. apply Z.leb_le in N.
      change (poly_item T path lbl (IGroup (CFixed n) b)) with (pscale n (poly_body T path b)).
      rewrite psum_pscale, (IHb vd true path idx0 CKb L), <- pevk_scale.
      apply pevk_ext. intros p Lp. cbn [wb_item]. unfold cntz. cbn [cnt].
      rewrite (sumrep_ext _ (fun _ => wb_body T b p o)).
      * rewrite sumrep_const. rewrite Z2Nat.id by exact N. reflexivity.
      * intro i. apply (proj2 wb_index_indep b vd); [exact CKb|].
        rewrite firstn_app. replace (vd - List.length p)%nat with 0%nat by lia. cbn [firstn]. apply app_nil_r.
    + (* named count *)
      rewrite fchk_item_named in CK.
      apply andb_true_iff in CK. destruct CK as [CK CKb]. apply andb_true_iff in CK. destruct CK as [CK C3].
      apply andb_true_iff in CK. destruct CK as [C1 C2].
      change (poly_item T path lbl (IGroup (CNamed key) b)) with (poly_body T (path ++ [key]) b).
      rewrite (IHb _ fr (path ++ [key]) idx0 CKb).
      * rewrite pevk_app. apply pevk_ext. intros p _. cbn [pevk wb_item]. rewrite (classify_count key C1). reflexivity.
      * rewrite nv_app, (nv_count key C1). destruct fr; lia.
    + discriminate.
  - (* optional group *)
    intros k con b IHb lbl vd fr path idx0 CK L. rewrite fchk_item_opt in CK.
    apply andb_true_iff in CK. destruct CK as [C1 CKb].
    change (poly_item T path lbl (IOpt k con b)) with (poly_body T (path ++ ["?" +s+ k +s+ "=" +s+ str_of_Z con]) b).
    rewrite (IHb vd fr _ idx0 CKb).
    + rewrite pevk_app. apply pevk_ext. intros p _. cbn [pevk wb_item]. rewrite (classify_opt k con C1). reflexivity.
    + rewrite nv_app, (nv_opt k con C1). lia.
  - (* item list *)
    intros l IHl vd fr path idx0 CK L. revert CK. induction IHl as [|[lbl it] r Hit Hr IHr]; intro CK.
    + cbn [poly_body wb_body]. rewrite psum_nil, pevk_zero. reflexivity.
    + rewrite fchk_body_cons in CK. apply andb_true_iff in CK. destruct CK as [C1 C2].
      rewrite poly_body_cons, psum_app. cbn [snd] in Hit. rewrite (Hit lbl vd fr path idx0 C1 L), (IHr C2).
      rewrite <- pevk_add. apply pevk_ext. intros p _. rewrite wb_body_cons. reflexivity.
  - intros w vd fr path idx0 CK. discriminate.
Qed.

End Poly.

Theorem walk_bits_peval : forall T b o,
  faithful_ok T b = true -> walk_bits T b o = peval T (poly_body T [] b) o.
Proof.
  intros T b o CK. rewrite peval_psum. unfold faithful_ok in CK.
  rewrite (proj2 (poly_walk T o) b 0%nat false [] [] CK); [reflexivity|cbn; lia].
Qed.

(* ================================================================== *)
(* 8. the decoder                                                       *)
(* ================================================================== *)
(* a successful table walk consumes exactly poly(counts) bits, the counts being read from the decoded message *)
Theorem walk_length : forall T ident b o off o1 off1,
  len_ok T b = true ->
  dec_body T ident b [] (o, off) = Ok (o1, off1) ->
  off1 = off + peval T (poly_body T [] b) o1.
Proof.
  intros T ident b o off o1 off1 CK E. unfold len_ok in CK. apply andb_true_iff in CK. destruct CK as [C1 C2].
  rewrite <- (walk_bits_peval T b o1 C2). eapply walk_sound; eassumption.
Qed.

Theorem decode_raw_length : forall T o0 o off ident b,
  decode_raw T o0 = Ok (o, off) ->
  identity (o_payload o0) = Ok ident -> get_dict T ident = Some b -> len_ok T b = true ->
  off = peval T (poly_body T [] b) o.
Proof.
  intros T o0 o off ident b E I D CK. unfold decode_raw in E. rewrite I in E. cbn [obind] in E. rewrite D in E.
  apply (walk_length T ident b o0 0 o off CK) in E. lia.
Qed.

(* the message constructor's walk: final offset = length polynomial of the message's layout on the decoded message *)
Theorem decode_run_length : forall T p lbl o off,
  decode_run T p lbl = Ok (o, off) ->
  exists ident, identity p = Ok ident /\
    match get_dict T ident with
    | Some b => len_ok T b = true -> off = peval T (poly_body T [] b) o
    | None => off = 0
    end.
Proof.
  intros T p lbl o off E. apply decode_run_ok_inv in E. destruct E as [G E].
  destruct (identity_ok_of_guard p G) as [ident I]. exists ident. split; [exact I|].
  destruct (get_dict T ident) as [b|] eqn:D.
  - intro CK. eapply decode_raw_length; [exact E|exact I|exact D|exact CK].
  - unfold decode_raw in E. change (o_payload (obj0 p lbl)) with p in E. rewrite I in E. cbn [obind] in E.
    rewrite D in E. apply obind_ok_inv in E. destruct E as [o1 [_ E]]. inversion E. reflexivity.
Qed.

Lemma tables_len_ok_layout T ident b : tables_len_ok T = true -> get_dict T ident = Some b -> len_ok T b = true.
Proof.
  intros H D. unfold tables_len_ok in H. rewrite forallb_forall in H.
  apply (H (ident, b)). apply get_dict_layout, D.
Qed.

(* table-level form: the check is run once per table set *)
Corollary decode_run_length_tables : forall T p lbl o off ident b,
  tables_len_ok T = true ->
  decode_run T p lbl = Ok (o, off) -> identity p = Ok ident -> get_dict T ident = Some b ->
  off = peval T (poly_body T [] b) o.
Proof.
  intros T p lbl o off ident b CK E I D.
  destruct (decode_run_length T p lbl o off E) as [ident' [I' H]].
  rewrite I in I'. inversion I'. subst ident'. rewrite D in H. apply H.
  eapply tables_len_ok_layout; eassumption.
Qed.

(* the payload is at least ceil(poly(counts) / 8) bytes long *)
Corollary decode_run_min_bytes : forall T p lbl o off ident b,
  tables_len_ok T = true -> label_zero_width T = true ->
  decode_run T p lbl = Ok (o, off) -> identity p = Ok ident -> get_dict T ident = Some b ->
  (peval T (poly_body T [] b) o + 7) / 8 <= Z.of_nat (List.length p).
Proof.
  intros T p lbl o off ident b CK W E I D.
  rewrite <- (decode_run_length_tables T p lbl o off ident b CK E I D).
  pose proof (decode_in_bounds T p lbl o off W E) as B.
  assert ((off + 7) / 8 < Z.of_nat (List.length p) + 1) by (apply Z.div_lt_upper_bound; lia). lia.
Qed.

(* same, for the message constructor *)
Corollary construct_min_bytes : forall T p lbl m ident b,
  tables_len_ok T = true -> label_zero_width T = true ->
  construct T (Some p) lbl = Ok m -> identity p = Ok ident -> get_dict T ident = Some b ->
  exists o, m = with_immutable o true /\
    decode_run T p lbl = Ok (o, peval T (poly_body T [] b) o) /\
    (peval T (poly_body T [] b) o + 7) / 8 <= Z.of_nat (List.length p).
Proof.
  intros T p lbl m ident b CK W E I D. apply construct_ok_run in E. destruct E as [o [t [E ->]]].
  exists o. split; [reflexivity|].
  pose proof (decode_run_length_tables T p lbl o t ident b CK E I D) as L. subst t.
  split; [exact E|]. eapply decode_run_min_bytes; eassumption.
Qed.

(* ================================================================== *)
(* 8b. against the pinned polynomials of Spec/PinnedLengths.v           *)
(* ================================================================== *)
From Coq Require Import Permutation.

Section Pinned.
Variable T : tables.
Variable o : obj.

Lemma list_eqb_string_eq : forall a b, list_eqb String.eqb a b = true -> a = b.
Proof.
  induction a as [|x a IH]; intros [|y b] H; cbn in H; try discriminate; [reflexivity|].
  apply andb_true_iff in H. destruct H as [H1 H2]. apply String.eqb_eq in H1. subst. f_equal. apply IH, H2.
Qed.

Lemma peval_nil : peval T [] o = 0.
Proof. reflexivity. Qed.
Lemma peval_cons m p : peval T (m :: p) o = pev_mono T o m + peval T p o.
Proof. reflexivity. Qed.

Lemma pev_mono_add pa c c' : pev_mono T o (pa, c + c') = pev_mono T o (pa, c) + pev_mono T o (pa, c').
Proof. unfold pev_mono. cbn [fst snd]. apply (pevk_add T o pa [] (fun _ => c) (fun _ => c')). Qed.

Lemma pev_mono_zero pa : pev_mono T o (pa, 0) = 0.
Proof. unfold pev_mono. cbn [fst snd]. apply pevk_zero. Qed.

Lemma peval_padd1 pa c : forall q, peval T (padd1 pa c q) o = pev_mono T o (pa, c) + peval T q o.
Proof.
  induction q as [|[pa' c'] q IH]; cbn [padd1].
  - rewrite !peval_cons, peval_nil. reflexivity.
  - destruct (list_eqb String.eqb pa pa') eqn:E.
    + apply list_eqb_string_eq in E. subst pa'. rewrite !peval_cons, pev_mono_add. lia.
    + rewrite !peval_cons, IH. lia.
Qed.

Lemma peval_padd : forall a b, peval T (padd a b) o = peval T a o + peval T b o.
Proof.
  unfold padd. induction a as [|[pa c] a IH]; intro b; cbn [fold_left].
  - rewrite peval_nil. lia.
  - rewrite IH, peval_padd1, peval_cons. lia.
Qed.

Lemma peval_filter_nz : forall q, peval T (filter (fun '(_, c) => negb (c =? 0)) q) o = peval T q o.
Proof.
  induction q as [|[pa c] q IH]; [reflexivity|]. cbn [filter].
  destruct (c =? 0) eqn:E; cbn [negb].
  - apply Z.eqb_eq in E. subst c. rewrite peval_cons, pev_mono_zero, IH. lia.
  - rewrite !peval_cons, IH. reflexivity.
Qed.

Lemma peval_pnorm a : peval T (pnorm a) o = peval T a o.
Proof. unfold pnorm. rewrite peval_filter_nz, peval_padd, peval_nil. lia. Qed.

Lemma peval_perm a b : Permutation a b -> peval T a o = peval T b o.
Proof.
  induction 1 as [|m a b P IH|m m' a|a b c P1 IH1 P2 IH2].
  - reflexivity.
  - rewrite !peval_cons, IH. reflexivity.
  - rewrite !peval_cons. lia.
  - congruence.
Qed.

(* the paths of a normalised polynomial are pairwise different *)
Lemma padd1_fst pa c : forall q x, In x (map fst (padd1 pa c q)) -> x = pa \/ In x (map fst q).
Proof.
  induction q as [|[pa' c'] q IH]; intros x H; cbn [padd1] in H.
  - destruct H as [<-|[]]. now left.
  - destruct (list_eqb String.eqb pa pa'); cbn [map fst] in H |- *.
    + right. exact H.
    + destruct H as [<-|H]; [right; now left|]. apply IH in H. destruct H; [now left|right; now right].
Qed.

Lemma list_eqb_string_refl : forall a, list_eqb String.eqb a a = true.
Proof. induction a as [|x a IH]; [reflexivity|]. cbn. rewrite String.eqb_refl. exact IH. Qed.

Lemma padd1_nodup pa c : forall q, NoDup (map fst q) -> NoDup (map fst (padd1 pa c q)).
Proof.
  induction q as [|[pa' c'] q IH]; intro N; cbn [padd1].
  - cbn. constructor; [intros []|constructor].
  - destruct (list_eqb String.eqb pa pa') eqn:E; cbn [map fst] in *.
    + exact N.
    + inversion N as [|? ? N1 N2]. subst. constructor; [|apply IH, N2].
      intro H. apply padd1_fst in H. destruct H as [H|H]; [|contradiction].
      subst pa'. rewrite list_eqb_string_refl in E. discriminate.
Qed.

Lemma padd_nodup : forall a b, NoDup (map fst b) -> NoDup (map fst (padd a b)).
Proof.
  unfold padd. induction a as [|[pa c] a IH]; intros b N; cbn [fold_left]; [exact N|].
  apply IH, padd1_nodup, N.
Qed.

Lemma pnorm_nodup a : NoDup (pnorm a).
Proof.
  unfold pnorm. apply NoDup_filter. apply (NoDup_map_inv fst). apply padd_nodup. constructor.
Qed.

Lemma mono_eqb_eq m m' : mono_eqb m m' = true -> m = m'.
Proof.
  unfold mono_eqb. intro H. apply andb_true_iff in H. destruct H as [H1 H2].
  apply list_eqb_string_eq in H1. apply Z.eqb_eq in H2. destruct m, m'. cbn in *. congruence.
Qed.

Lemma poly_sub_incl a b : poly_sub a b = true -> incl a b.
Proof.
  unfold poly_sub. intros H m I. rewrite forallb_forall in H. specialize (H m I).
  apply existsb_exists in H. destruct H as [m' [I' E]]. apply mono_eqb_eq in E. subst. exact I'.
Qed.

(* polynomials the table check identifies have the same value *)
Theorem peval_poly_eqb a b : poly_eqb a b = true -> peval T a o = peval T b o.
Proof.
  unfold poly_eqb. intro H. apply andb_true_iff in H. destruct H as [H1 H2].
  rewrite <- (peval_pnorm a), <- (peval_pnorm b). apply peval_perm.
  apply NoDup_Permutation; [apply pnorm_nodup|apply pnorm_nodup|].
  intro m. split; [apply (poly_sub_incl _ _ H1)|apply (poly_sub_incl _ _ H2)].
Qed.

End Pinned.

Fixpoint keys_nodupb (l:list string) : bool :=
  match l with [] => true | k :: r => negb (mem k r) && keys_nodupb r end.

Lemma keys_nodupb_spec l : keys_nodupb l = true -> NoDup l.
Proof.
  induction l as [|k r IH]; intro H; [constructor|]. cbn in H. apply andb_true_iff in H. destruct H as [H1 H2].
  constructor; [|apply IH, H2]. intro I. apply mem_In in I. rewrite I in H1. discriminate.
Qed.

Lemma assoc_of_In {A} k (v:A) l : NoDup (map fst l) -> In (k, v) l -> assoc k l = Some v.
Proof.
  induction l as [|[k' v'] r IH]; intros N I; [destruct I|]. cbn [assoc]. cbn [map fst] in N. inversion N as [|? ? N1 N2]. subst.
  destruct I as [I|I].
  - inversion I. subst. rewrite String.eqb_refl. reflexivity.
  - destruct (String.eqb k' k) eqn:E; [|apply IH; assumption].
    apply String.eqb_eq in E. subst k'. exfalso. apply N1. apply in_map_iff. exists (k, v). split; [reflexivity|exact I].
Qed.

Lemma flat_map_nil_inv {A B} (f:A -> list B) l x : flat_map f l = [] -> In x l -> f x = [].
Proof.
  intros H I. destruct (f x) as [|y r] eqn:E; [reflexivity|].
  assert (In y (flat_map f l)) by (apply in_flat_map; exists x; split; [exact I|rewrite E; now left]).
  rewrite H in H0. destruct H0.
Qed.

(* end to end, against the polynomial pinned from the standards: a successfully decoded message of a pinned identity
   consumes exactly pin(counts) bits, the counts being those of the decoded message *)
Theorem decode_run_pinned_length : forall T p lbl o off ident b pin,
  tables_len_ok T = true -> length_mismatches T = [] -> keys_nodupb (map fst (all_layouts T)) = true ->
  In (ident, pin) pinned_lengths ->
  decode_run T p lbl = Ok (o, off) -> identity p = Ok ident -> get_dict T ident = Some b ->
  off = peval T pin o.
Proof.
  intros T p lbl o off ident b pin CK LM ND IP E I D.
  rewrite (decode_run_length_tables T p lbl o off ident b CK E I D).
  apply peval_poly_eqb.
  unfold length_mismatches in LM.
  pose proof (flat_map_nil_inv _ _ (ident, pin) LM IP) as H. cbn beta iota in H.
  assert (L : layout T ident = Some b).
  { unfold layout. apply assoc_of_In; [apply keys_nodupb_spec, ND|apply get_dict_layout, D]. }
  rewrite L in H. destruct (poly_eqb (poly_body T [] b) pin); [reflexivity|discriminate].
Qed.

Corollary decode_run_pinned_min_bytes : forall T p lbl o off ident b pin,
  tables_len_ok T = true -> length_mismatches T = [] -> keys_nodupb (map fst (all_layouts T)) = true ->
  label_zero_width T = true ->
  In (ident, pin) pinned_lengths ->
  decode_run T p lbl = Ok (o, off) -> identity p = Ok ident -> get_dict T ident = Some b ->
  (peval T pin o + 7) / 8 <= Z.of_nat (List.length p).
Proof.
  intros T p lbl o off ident b pin CK LM ND W IP E I D.
  rewrite <- (decode_run_pinned_length T p lbl o off ident b pin CK LM ND IP E I D).
  pose proof (decode_in_bounds T p lbl o off W E) as B.
  assert ((off + 7) / 8 < Z.of_nat (List.length p) + 1) by (apply Z.div_lt_upper_bound; lia). lia.
Qed.

(* ================================================================== *)
(* 9. the statement is not vacuous: a hand-written table with nested groups *)
(* ================================================================== *)
Module Example.
Import Coq.Strings.Byte.
Open Scope string_scope.

Definition fld (k:string) (w:Z) : dfield := {| df_key := k; df_ty := TUINT; df_bits := w; df_res := RInt 1; df_desc := "" |}.
(* message 1000: 12-bit number, N (3 bits) outer groups of { A (4 bits), M (2 bits), M_i inner groups of { B (5 bits) } },
   a flag F (1 bit) and an optional C (8 bits) when F = 1, then 2 fixed groups of { D (3 bits) } *)
Definition lay : body :=
  BItems [("DF002", IField "DF002"); ("N", IField "N");
          ("grp", IGroup (CNamed "N") (BItems [("A", IField "A"); ("M", IField "M");
                     ("inner", IGroup (CNamed "M+1") (BItems [("B", IField "B")]))]));
          ("F", IField "F");
          ("opt", IOpt "F" 1 (BItems [("C", IField "C")]));
          ("fix", IGroup (CFixed 2) (BItems [("D", IField "D")]))].
Definition TX : tables :=
  {| t_fields := [fld "DF002" 12; fld "N" 3; fld "A" 4; fld "M" 2; fld "B" 5; fld "F" 1; fld "C" 8; fld "D" 3];
     t_get := [("1000", lay)]; t_msm := []; t_igs := []; t_msgids := []; t_prnsig := []; t_gnssmap := []; t_coeffs := [];
     t_nmea_hdr := []; t_ubx_hdr := []; t_rtcm_hdr := []; t_na := "NA";
     t_nsat := "NSat"; t_nsig := "NSig"; t_ncell := "NCell"; t_nharmc := "_NHarmCoeffC"; t_nharms := "_NHarmCoeffS";
     t_valcksum := 1; t_err_raise := 2; t_err_log := 1; t_err_ignore := 0;
     t_enc_chunked := 1; t_enc_gzip := 2; t_enc_compress := 4; t_enc_deflate := 8 |}.

Example lay_poly :
  poly_body TX [] lay = [([], 12); ([], 3); (["N"], 4); (["N"], 2); (["N"; "M+1"], 5); ([], 1); (["?F=1"], 8); ([], 6)].
Proof. vm_compute. reflexivity. Qed.

Example lay_ok : tables_len_ok TX = true /\ label_zero_width TX = true.
Proof. vm_compute. split; reflexivity. Qed.

(* 1000 = 0x3E8; N = 2; group 1: A=5, M=1, B=9; group 2: A=3, M=2, B=1, B=2; F=1; C=0xAA; D=1, D=2; padding *)
(* bits: 001111101000 010 0101 01 01001 0011 10 00001 00010 1 10101010 001 010 + 0000000 *)
Definition pay : list byte := [x3e; x84; xaa; x4e; x08; xb5; x45; x00].

Example pay_decodes :
  match decode_run TX pay 1 with
  | Ok (o, off) => off = 57 /\ off = peval TX (poly_body TX [] lay) o /\ off = walk_bits TX lay o /\
                   map (fun k => assoc k (o_attrs o)) ["N"; "M_01"; "M_02"; "B_02_02"; "F"; "C"; "D_02"]
                   = [Some (VInt 2); Some (VInt 1); Some (VInt 2); Some (VInt 2); Some (VInt 1); Some (VInt 170); Some (VInt 2)]
  | _ => False
  end.
Proof. vm_compute. repeat split; reflexivity. Qed.

(* the same through the theorem *)
Example pay_by_theorem : forall o off, decode_run TX pay 1 = Ok (o, off) ->
  off = peval TX (poly_body TX [] lay) o /\ (peval TX (poly_body TX [] lay) o + 7) / 8 <= 8.
Proof.
  intros o off E. destruct lay_ok as [L W]. split.
  - eapply (decode_run_length_tables TX pay 1 o off "1000" lay L E); reflexivity.
  - eapply (decode_run_min_bytes TX pay 1 o off "1000" lay L W E); reflexivity.
Qed.

(* why the existing well-formedness (layout_problems) is not enough and stable_ok is asked for: a layout that passes
   layout_problems in which a repeat count (M_01) is overwritten, after it has been used, by the same label in a later
   group.  The decode succeeds, but the counts of the decoded message no longer describe what was consumed. *)
Definition lay2 : body :=
  BItems [("DF002", IField "DF002"); ("N", IField "N");
          ("grp", IGroup (CNamed "N") (BItems [("M", IField "M"); ("inner", IGroup (CNamed "M+1") (BItems [("B", IField "B")]))]));
          ("K", IField "K");
          ("grp2", IGroup (CNamed "K") (BItems [("M", IField "M")]))].
Definition TX2 : tables :=
  {| t_fields := [fld "DF002" 12; fld "N" 3; fld "M" 2; fld "B" 5; fld "K" 3];
     t_get := [("1000", lay2)]; t_msm := []; t_igs := []; t_msgids := []; t_prnsig := []; t_gnssmap := []; t_coeffs := [];
     t_nmea_hdr := []; t_ubx_hdr := []; t_rtcm_hdr := []; t_na := "NA";
     t_nsat := "NSat"; t_nsig := "NSig"; t_ncell := "NCell"; t_nharmc := "_NHarmCoeffC"; t_nharms := "_NHarmCoeffS";
     t_valcksum := 1; t_err_raise := 2; t_err_log := 1; t_err_ignore := 0;
     t_enc_chunked := 1; t_enc_gzip := 2; t_enc_compress := 4; t_enc_deflate := 8 |}.
(* N = 1 { M = 2 { B, B } } K = 1 { M = 0 } *)
Definition pay2 : list byte := [x3e; x83; x04; x44].

Example overwritten_count :
  layout_problems TX2 = [] /\ stable_ok TX2 lay2 = false /\ faithful_ok TX2 lay2 = true /\
  match decode_run TX2 pay2 1 with
  | Ok (o, off) => off = 32 /\ peval TX2 (poly_body TX2 [] lay2) o = 22 /\ assoc "M_01" (o_attrs o) = Some (VInt 0)
  | _ => False
  end.
Proof. vm_compute. repeat split; reflexivity. Qed.
End Example.
