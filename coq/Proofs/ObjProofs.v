(* Message object model: C07 (serialise / parse / repr), C13 (no history), C14 (immutability), C15 (identity).
   Index file: the remaining theorem (repr round trip through the constructor) and Print Assumptions for every
   numbered result.  The proofs live in
     Proofs/ObjSerialize.v   1 serialize_shape (+ serialize_oversize, serialize_overflow)  2 parse_serialize
                             3 serialize_parse   8 unknown_stub   construct_payload
     Proofs/PyReprProofs.v   4 pyeval_pyrepr, message_repr_roundtrip  (model: Spec/PyRepr.v)
     Proofs/ObjImmutable.v   5 world_unchanged, history_free, construct_deterministic
                             6 construct_immutable, setattr_immutable, C14_immutable, construct_mutable_during_init
     Proofs/ObjIdentity.v    7 identity_bits, msgnum_arith, subtype_arith, msgnum_bits, subtype_bits, identity_ignores_rest
                             9 routing_ok / ismsm_ok / first_field_ok + soundness, df002_is_msgnum, idf002_is_subtype *)
From Coq Require Import NArith ZArith List String Bool Lia.
From Coq.Strings Require Import Byte.
From PyRtcm Require Import Base.Bytes Base.Dec Model.Types Model.Crc Model.Message Model.Reader.
From PyRtcm Require Import Spec.Frame Spec.FieldGrammar Spec.PyRepr.
From PyRtcm Require Spec.Items.
From PyRtcm Require Import Proofs.DecodeWalk Proofs.DecodeExtend Proofs.DecodeLabel.
From PyRtcm Require Export Proofs.ObjSerialize Proofs.ObjImmutable Proofs.ObjIdentity Proofs.PyReprProofs.
Import ListNotations.
Open Scope list_scope.

(* ================= 4. repr(m) evaluates to a message with the same payload ================= *)
(* RTCMMessage.__repr__ *)
Definition obj_repr (o:obj) : bytes := message_repr (o_payload o).

(* eval() of such a text: the constructor call it spells, label option at its default 1 *)
Definition eval_message (T:tables) (s:bytes) : outcome obj :=
  match message_repr_payload s with
  | Some p => construct T (Some p) 1
  | None => Unmodelled "not the repr of a message"
  end.

Theorem repr_roundtrip : forall T p l o, construct T (Some p) l = Ok o ->
  exists o', eval_message T (obj_repr o) = Ok o' /\ construct T (Some (o_payload o)) 1 = Ok o' /\
             o_payload o' = p /\ obj_identity o' = obj_identity o /\
             attrs_agree T (o_attrs o) (o_attrs o') /\ o_satmap o = o_satmap o' /\ o_unknown o = o_unknown o'.
Proof.
  intros T p l o C. destruct (construct_payload T p l o C) as (P & _ & _).
  unfold eval_message, obj_repr. rewrite message_repr_roundtrip. rewrite P.
  pose proof (label_indep T p l 1) as H. rewrite C in H.
  destruct (construct T (Some p) 1) as [o'| | |]; try contradiction.
  destruct H as (A & S & _ & U & Y & _).
  exists o'. split; [reflexivity|]. split; [reflexivity|]. split; [congruence|].
  split; [unfold obj_identity; congruence|]. auto.
Qed.

(* when the original was built with a label option of the same class as the default (anything but 2),
   the rebuilt object is the original with the option reset to 1; with the default option it is the original *)
Theorem repr_roundtrip_same_class : forall T p l o, (l =? 2)%Z = false ->
  construct T (Some p) l = Ok o -> eval_message T (obj_repr o) = Ok (relabel 1 o).
Proof.
  intros T p l o SC C. destruct (construct_payload T p l o C) as (P & _ & _).
  unfold eval_message, obj_repr. rewrite message_repr_roundtrip, P.
  rewrite (label_indep_same_class T p l 1) by (rewrite SC; reflexivity). rewrite C. reflexivity.
Qed.

Corollary repr_roundtrip_default : forall T p o,
  construct T (Some p) 1 = Ok o -> eval_message T (obj_repr o) = Ok o.
Proof.
  intros T p o C. rewrite (repr_roundtrip_same_class T p 1 o eq_refl C). f_equal.
  destruct (construct_payload T p 1 o C) as (_ & L & _).
  destruct o as [im pl pi lb un sm cm at']. cbn in L. subst lb. reflexivity.
Qed.

(* ================= C07 in one statement ================= *)
Theorem C07_roundtrips : forall T, t_rtcm_hdr T = [xd3] ->
  (forall p l o, construct T (Some p) l = Ok o -> (List.length p <= 1023)%nat ->
     serialize T o = Ok (Items.frame p) /\ wf_frame (Items.frame p) /\
     forall v, parse (fun q l' => construct T (Some q) l') 1 v l (Items.frame p) = Ok o) /\
  (forall f v l o, wf_frame f -> parse (fun q l' => construct T (Some q) l') 1 v l f = Ok o -> serialize T o = Ok f) /\
  (forall p l o, construct T (Some p) l = Ok o -> exists o', eval_message T (obj_repr o) = Ok o' /\ o_payload o' = p).
Proof.
  intros T HDR. split; [|split].
  - intros p l o C L. destruct (serialize_constructed T HDR p l o C L) as [S W].
    split; [exact S|]. split; [exact W|]. intro v. eapply parse_serialize_gen; eassumption.
  - intros f v l o W P. eapply serialize_parse; eassumption.
  - intros p l o C. destruct (repr_roundtrip T p l o C) as (o' & E & _ & Y & _). eauto.
Qed.

(* ================= assumptions ================= *)
Goal True. idtac "PA:1 serialize_shape". Abort.          Print Assumptions serialize_shape.
Goal True. idtac "PA:1 serialize_oversize". Abort.       Print Assumptions serialize_oversize.
Goal True. idtac "PA:1 serialize_overflow". Abort.       Print Assumptions serialize_overflow.
Goal True. idtac "PA:2 construct_payload". Abort.        Print Assumptions construct_payload.
Goal True. idtac "PA:2 parse_serialize". Abort.          Print Assumptions parse_serialize.
Goal True. idtac "PA:2 parse_serialize_gen". Abort.      Print Assumptions parse_serialize_gen.
Goal True. idtac "PA:3 serialize_parse". Abort.          Print Assumptions serialize_parse.
Goal True. idtac "PA:4 pyeval_pyrepr". Abort.            Print Assumptions pyeval_pyrepr.
Goal True. idtac "PA:4 message_repr_roundtrip". Abort.   Print Assumptions message_repr_roundtrip.
Goal True. idtac "PA:4 pyrepr_printable". Abort.         Print Assumptions pyrepr_printable.
Goal True. idtac "PA:4 repr_roundtrip". Abort.           Print Assumptions repr_roundtrip.
Goal True. idtac "PA:4 repr_roundtrip_same_class". Abort. Print Assumptions repr_roundtrip_same_class.
Goal True. idtac "PA:4 repr_roundtrip_default". Abort.   Print Assumptions repr_roundtrip_default.
Goal True. idtac "PA:C07_roundtrips". Abort.             Print Assumptions C07_roundtrips.
Goal True. idtac "PA:5 world_unchanged". Abort.          Print Assumptions world_unchanged.
Goal True. idtac "PA:5 history_free". Abort.             Print Assumptions history_free.
Goal True. idtac "PA:5 history_free_parse". Abort.       Print Assumptions history_free_parse.
Goal True. idtac "PA:5 history_pointwise". Abort.        Print Assumptions history_pointwise.
Goal True. idtac "PA:5 construct_deterministic". Abort.  Print Assumptions construct_deterministic.
Goal True. idtac "PA:6 construct_immutable". Abort.      Print Assumptions construct_immutable.
Goal True. idtac "PA:6 setattr_immutable". Abort.        Print Assumptions setattr_immutable.
Goal True. idtac "PA:6 C14_immutable". Abort.            Print Assumptions C14_immutable.
Goal True. idtac "PA:6 C14_observables". Abort.          Print Assumptions C14_observables.
Goal True. idtac "PA:6 C14_parsed". Abort.               Print Assumptions C14_parsed.
Goal True. idtac "PA:6 walk_mutable". Abort.             Print Assumptions walk_mutable.
Goal True. idtac "PA:6 decode_raw_no_lib". Abort.        Print Assumptions decode_raw_no_lib.
Goal True. idtac "PA:6 construct_mutable_during_init". Abort. Print Assumptions construct_mutable_during_init.
Goal True. idtac "PA:6 construct_message_error_iff". Abort.   Print Assumptions construct_message_error_iff.
Goal True. idtac "PA:7 identity_bits". Abort.            Print Assumptions identity_bits.
Goal True. idtac "PA:7 msgnum_arith". Abort.             Print Assumptions msgnum_arith.
Goal True. idtac "PA:7 subtype_arith". Abort.            Print Assumptions subtype_arith.
Goal True. idtac "PA:7 msgnum_lt". Abort.                Print Assumptions msgnum_lt.
Goal True. idtac "PA:7 subtype_lt". Abort.               Print Assumptions subtype_lt.
Goal True. idtac "PA:7 msgnum_surj". Abort.              Print Assumptions msgnum_surj.
Goal True. idtac "PA:7 subtype_surj". Abort.             Print Assumptions subtype_surj.
Goal True. idtac "PA:7 msgnum_bits". Abort.              Print Assumptions msgnum_bits.
Goal True. idtac "PA:7 subtype_bits". Abort.             Print Assumptions subtype_bits.
Goal True. idtac "PA:7 identity_ignores_rest". Abort.    Print Assumptions identity_ignores_rest.
Goal True. idtac "PA:7 identity_ignores_rest_plain". Abort. Print Assumptions identity_ignores_rest_plain.
Goal True. idtac "PA:8 unknown_stub". Abort.             Print Assumptions unknown_stub.
Goal True. idtac "PA:8 unknown_stub_object". Abort.      Print Assumptions unknown_stub_object.
Goal True. idtac "PA:9 routing_sound". Abort.            Print Assumptions routing_sound.
Goal True. idtac "PA:9 get_dict_some_in". Abort.         Print Assumptions get_dict_some_in.
Goal True. idtac "PA:9 get_dict_none_iff". Abort.        Print Assumptions get_dict_none_iff.
Goal True. idtac "PA:9 ismsm_sound". Abort.              Print Assumptions ismsm_sound.
Goal True. idtac "PA:9 ismsm_identity". Abort.           Print Assumptions ismsm_identity.
Goal True. idtac "PA:9 first_field_sound". Abort.        Print Assumptions first_field_sound.
Goal True. idtac "PA:9 df002_is_msgnum". Abort.          Print Assumptions df002_is_msgnum.
Goal True. idtac "PA:9 idf002_is_subtype". Abort.        Print Assumptions idf002_is_subtype.
