(* Field decoder theorems (properties C03, C04 constructor part, C06, C16): index and assumption audit.
   The proofs live in
     Proofs/DecodeBits.v    Level 1   get_bits is a slice / error outside / independent of trailing bytes
     Proofs/DecodeWalk.v    Level 3d, Level 4   decode_run, construct = decode_run + freeze, totality
     Proofs/DecodeExtend.v  Level 3e-h  bounds, extension, trailing bytes, truncation
     Proofs/DecodeSingle.v  Level 2   one field occurrence = Spec.FieldGrammar.field_step
     Proofs/DecodeLabel.v   Level 5   label option
   All statements are for an arbitrary value T : tables. *)
From Coq Require Import NArith ZArith List String Bool.
From PyRtcm Require Import Base.Bytes Base.Dec Model.Types Model.Message Spec.FieldGrammar.
From PyRtcm Require Export Proofs.DecodeBits Proofs.DecodeWalk Proofs.DecodeExtend Proofs.DecodeSingle Proofs.DecodeLabel.
Import ListNotations.
Open Scope list_scope.
Open Scope Z_scope.

(* ---- a witness that the table hypothesis of decode_in_bounds / truncation_rejected is needed ----
   A table in which a PRN-typed (label) field is given a non-zero width: the decoder adds the width to
   the offset without reading anything, so the final offset leaves the payload although decoding succeeds.
   (pyrtcm's real table gives PRN / CELLPRN / CELLSIG width 0; `label_zero_width` checks exactly that.) *)
Definition wide_label_tables : tables :=
  {| t_fields := [ {| df_key := "DF394"; df_ty := TBIT; df_bits := 1; df_res := RInt 0; df_desc := "" |};
                   {| df_key := "DF395"; df_ty := TBIT; df_bits := 1; df_res := RInt 0; df_desc := "" |};
                   {| df_key := "DF396"; df_ty := TBIT; df_bits := 0; df_res := RInt 0; df_desc := "" |};
                   {| df_key := "PRN";   df_ty := TPRN; df_bits := 100; df_res := RInt 0; df_desc := "" |} ];
     t_get := [("3584", BItems [("DF394", IField "DF394"); ("DF395", IField "DF395"); ("DF396", IField "DF396");
                                ("g", IGroup (CFixed 1) (BItems [("PRN", IField "PRN")]))])];
     t_msm := []; t_igs := []; t_msgids := [];
     t_prnsig := [("358", ([], []))];
     t_gnssmap := []; t_coeffs := []; t_nmea_hdr := []; t_ubx_hdr := []; t_rtcm_hdr := [];
     t_na := "N/A"; t_nsat := "NSat"; t_nsig := "NSig"; t_ncell := "NCell"; t_nharmc := "NHarmCoeffC"; t_nharms := "NHarmCoeffS";
     t_valcksum := 1; t_err_raise := 2; t_err_log := 1; t_err_ignore := 0;
     t_enc_chunked := 1; t_enc_gzip := 2; t_enc_compress := 4; t_enc_deflate := 8 |}.

Example in_bounds_needs_label_zero_width :
  label_zero_width wide_label_tables = false /\
  exists o, decode_run wide_label_tables [Byte.xe0; Byte.x00] 1 = Ok (o, 103).
Proof. split; [reflexivity|]. eexists. vm_compute. reflexivity. Qed.

(* ---- assumption audit ---- *)
(* Level 1 *)
Print Assumptions get_bits_slice.
Print Assumptions get_bits_oob.
Print Assumptions get_bits_extend.
Print Assumptions get_bits_extend_gen.
(* Level 2 *)
Print Assumptions twos_model.
Print Assumptions signmag_model.
Print Assumptions set_single_spec.
Print Assumptions set_single_label.
Print Assumptions set_single_plain.
Print Assumptions set_single_oob.
Print Assumptions set_single_int.
Print Assumptions set_single_snt.
Print Assumptions set_single_uint.
Print Assumptions set_single_cha.
Print Assumptions set_single_str.
Print Assumptions set_single_df394.
Print Assumptions set_single_df395.
Print Assumptions set_single_df396.
Print Assumptions set_single_idf038.
(* Level 3 *)
Print Assumptions construct_decode_run.
Print Assumptions identity_app.
Print Assumptions walk_body_bounds.
Print Assumptions walk_item_bounds.
Print Assumptions walk_rep_bounds.
Print Assumptions decode_in_bounds.
Print Assumptions decode_extend.
Print Assumptions decode_extend_exact.
Print Assumptions decode_trailing.
Print Assumptions decode_unknown.
Print Assumptions unknown_trailing.
Print Assumptions truncation_rejected.
Print Assumptions truncation_outcome.
(* Level 4 *)
Print Assumptions construct_no_foreign.
Print Assumptions construct_short.
Print Assumptions construct_lib_is_type.
(* Level 5 *)
Print Assumptions label_indep.
Print Assumptions label_indep_same_class.
Print Assumptions label_indep_same_class_attrs.
Print Assumptions label_indep_no_csg.
Print Assumptions in_bounds_needs_label_zero_width.
