(* C03 round trip, part 2: parsing the payload laid out by Spec/Encoder.v yields exactly the attributes
   the encoder recorded.  Lock-step induction over the payload definition; invariant: the bits written so
   far are the prefix of the payload bits of length = current offset, and the decoder's object carries the
   encoder's attribute dictionary and maps. *)
From Coq Require Import NArith ZArith List String Bool Lia.
From PyRtcm Require Import Base.Bytes Base.Dec Model.Types Model.Message Spec.FieldGrammar Spec.MsmMasks Spec.Encoder.
From PyRtcm Require Proofs.MsmProofs.
From PyRtcm Require Import Proofs.DecodeBits Proofs.DecodeWalk Proofs.DecodeExtend Proofs.DecodeSingle Proofs.RoundtripBase.
Import ListNotations.
Open Scope list_scope.
Open Scope Z_scope.

(* ================= the encoder's item list as a named function ================= *)
Definition enc_items (T:tables) (ident:string) (rinex:bool) (idxs:list Z) : list (string*item) -> est -> option est :=
  fix go (l:list (string*item)) (s:est) : option est :=
    match l with [] => Some s | (lbl, it) :: r => olet s1 <- enc_item T ident rinex lbl it idxs s; go r s1 end.

Lemma enc_body_items T ident rinex l idxs s :
  enc_body T ident rinex (BItems l) idxs s = enc_items T ident rinex idxs l s.
Proof. reflexivity. Qed.

Lemma enc_items_cons T ident rinex idxs lbl it r s :
  enc_items T ident rinex idxs ((lbl, it) :: r) s =
  (olet s1 <- enc_item T ident rinex lbl it idxs s; enc_items T ident rinex idxs r s1).
Proof. reflexivity. Qed.

Lemma enc_item_group T ident rinex lbl c b idxs s :
  enc_item T ident rinex lbl (IGroup c b) idxs s =
  (olet n <- count_of c idxs (e_attrs s);
   if (max_count <? n) then None else erep (enc_body T ident rinex b) idxs (Z.to_nat n) 1 s).
Proof. reflexivity. Qed.

Lemma enc_item_opt T ident rinex lbl k con b idxs s :
  enc_item T ident rinex lbl (IOpt k con b) idxs s =
  match assoc k (e_attrs s) with
  | Some (VInt z) => if (z =? con) then enc_body T ident rinex b idxs s else Some s
  | Some (VStr _) => Some s
  | _ => None
  end.
Proof. reflexivity. Qed.

(* ================= anything every field step preserves, the walk preserves ================= *)
Section EPres.
Variables (T:tables) (ident:string) (rinex:bool).
Variable Q : est -> est -> Prop.
Hypothesis Qrefl : forall s, Q s s.
Hypothesis Qtrans : forall a b c, Q a b -> Q b c -> Q a c.
Hypothesis Qfield : forall key idxs s s', enc_field T ident rinex key idxs s = Some s' -> Q s s'.

Lemma erep_pres (f:list Z -> est -> option est) :
  (forall idxs s s', f idxs s = Some s' -> Q s s') ->
  forall n idxs i s s', erep f idxs n i s = Some s' -> Q s s'.
Proof.
  intro Hf. induction n as [|n IH]; intros idxs i s s' E; cbn [erep] in E.
  - inversion E. apply Qrefl.
  - apply obnd_some in E. destruct E as [s1 [E1 E2]].
    eapply Qtrans; [eapply Hf; exact E1|eapply IH; exact E2].
Qed.

Lemma ewalk_pres :
  (forall it lbl idxs s s', enc_item T ident rinex lbl it idxs s = Some s' -> Q s s') /\
  (forall b idxs s s', enc_body T ident rinex b idxs s = Some s' -> Q s s').
Proof.
  apply item_body_ind.
  - intros k lbl idxs s s' E. cbn [enc_item] in E. eapply Qfield; exact E.
  - intros w lbl idxs s s' E. discriminate.
  - intros c b IHb lbl idxs s s' E. rewrite enc_item_group in E.
    apply obnd_some in E. destruct E as [n [_ E]].
    destruct (max_count <? n); [discriminate|].
    eapply erep_pres; [|exact E]. intros idxs0 s0 s0' E0. eapply IHb; exact E0.
  - intros k con b IHb lbl idxs s s' E. rewrite enc_item_opt in E.
    destruct (assoc k (e_attrs s)) as [[z|f|str]|]; try discriminate.
    + destruct (z =? con); [eapply IHb; exact E|inversion E; apply Qrefl].
    + inversion E. apply Qrefl.
  - intros l IHl idxs s s' E. rewrite enc_body_items in E.
    revert s E. induction IHl as [|[lbl it] r Hit Hr IHr]; intros s E.
    + inversion E. apply Qrefl.
    + rewrite enc_items_cons in E. apply obnd_some in E. destruct E as [s1 [E1 E2]].
      eapply Qtrans; [eapply Hit; exact E1|apply IHr; exact E2].
  - intros w idxs s s' E. discriminate.
Qed.

Definition ebody_pres := proj2 ewalk_pres.
Definition eitem_pres := proj1 ewalk_pres.
End EPres.

(* ================= inversion of the field steps ================= *)
Lemma enc_bits_field_inv T ident rinex key idxs fd s s' :
  enc_bits_field T ident rinex key idxs fd s = Some s' ->
  exists v rest w val a1,
    e_vals s = v :: rest /\
    enc_width T key fd (e_attrs s) = Some w /\ 0 <= w /\
    (needs_sign_bit (df_ty fd) && (w <? 1)) = false /\
    field_value (df_ty fd) (df_res fd) (bits_of (Z.to_nat w) v) = Ok val /\
    enc_store (df_ty fd) key idxs val (e_attrs s) = Some a1 /\
    e_bits s' = e_bits s ++ bits_of (Z.to_nat w) v /\
    e_vals s' = rest /\
    exists extra_occ, e_occ s' = e_occ s ++ (occ_name (df_ty fd) key idxs, OField (df_ty fd)) :: extra_occ.
Proof.
  unfold enc_bits_field. destruct (e_vals s) as [|v rest]; [discriminate|]. intro H.
  apply obnd_some in H. destruct H as [w [W H]].
  destruct ((w <? 0) || (needs_sign_bit (df_ty fd) && (w <? 1))) eqn:C; [discriminate|].
  apply orb_false_iff in C. destruct C as [C1 C2]. apply Z.ltb_ge in C1.
  destruct (field_value (df_ty fd) (df_res fd) (bits_of (Z.to_nat w) v)) as [val| | |] eqn:FV; try discriminate.
  apply obnd_some in H. destruct H as [a1 [ST H]].
  exists v, rest, w, val, a1.
  repeat (split; [first [reflexivity|assumption]|]).
  destruct (String.eqb key "DF394"); [inversion H; cbn; repeat split; rewrite <- app_assoc; eexists; reflexivity|].
  destruct (String.eqb key "DF395"); [inversion H; cbn; repeat split; rewrite <- app_assoc; eexists; reflexivity|].
  destruct (String.eqb key "DF396").
  { apply obnd_some in H. destruct H as [maps [_ H]]. inversion H; cbn; repeat split; rewrite <- app_assoc; eexists; reflexivity. }
  destruct (String.eqb key "IDF038").
  { apply obnd_some in H. destruct H as [a2 [_ H]]. inversion H; cbn; repeat split; rewrite <- app_assoc; eexists; reflexivity. }
  inversion H; cbn; repeat split. eexists; reflexivity.
Qed.

Lemma enc_label_field_inv key idxs fd s s' :
  enc_label_field key idxs fd s = Some s' ->
  e_bits s' = e_bits s /\ e_vals s' = e_vals s /\ e_sat s' = e_sat s /\ e_cell s' = e_cell s /\
  e_occ s' = e_occ s ++ [(render_name key idxs, OField (df_ty fd))] /\
  exists label, e_attrs s' = upd (render_name key idxs) (VStr (codes label)) (e_attrs s).
Proof.
  unfold enc_label_field. destruct (negb (df_bits fd =? 0) || special_name key); [discriminate|].
  destruct idxs as [|i r]; [discriminate|]. intro H.
  apply obnd_some in H. destruct H as [label [_ H]]. inversion H. cbn. repeat split. eauto.
Qed.

(* bits only grow by appending *)
Definition bits_grow (s s':est) : Prop := exists d, e_bits s' = e_bits s ++ d.

Lemma bits_grow_refl s : bits_grow s s.
Proof. exists []. now rewrite app_nil_r. Qed.

Lemma bits_grow_trans a b c : bits_grow a b -> bits_grow b c -> bits_grow a c.
Proof. intros [d1 E1] [d2 E2]. exists (d1 ++ d2). rewrite E2, E1. now rewrite app_assoc. Qed.

Lemma bits_grow_field T ident rinex key idxs s s' :
  enc_field T ident rinex key idxs s = Some s' -> bits_grow s s'.
Proof.
  unfold enc_field. destruct (find_field T key) as [fd|]; [|discriminate].
  destruct (is_label_ty (df_ty fd)); intro H.
  - apply enc_label_field_inv in H. destruct H as [B _]. exists []. rewrite B. now rewrite app_nil_r.
  - apply enc_bits_field_inv in H.
    destruct H as [v [rest [w [val [a1 [_ [_ [_ [_ [_ [_ [B _]]]]]]]]]]]]. eexists. exact B.
Qed.

Lemma bits_grow_body T ident rinex b idxs s s' :
  enc_body T ident rinex b idxs s = Some s' -> bits_grow s s'.
Proof. apply (ebody_pres T ident rinex bits_grow bits_grow_refl bits_grow_trans (bits_grow_field T ident rinex)). Qed.

Lemma bits_grow_item T ident rinex lbl it idxs s s' :
  enc_item T ident rinex lbl it idxs s = Some s' -> bits_grow s s'.
Proof. apply (eitem_pres T ident rinex bits_grow bits_grow_refl bits_grow_trans (bits_grow_field T ident rinex)). Qed.

Lemma bits_grow_erep T ident rinex b idxs n i s s' :
  erep (enc_body T ident rinex b) idxs n i s = Some s' -> bits_grow s s'.
Proof.
  apply (erep_pres bits_grow bits_grow_refl bits_grow_trans).
  intros idxs0 s0 s0'. apply bits_grow_body.
Qed.

Lemma bits_grow_items T ident rinex idxs l s s' :
  enc_items T ident rinex idxs l s = Some s' -> bits_grow s s'.
Proof. rewrite <- enc_body_items. apply bits_grow_body. Qed.

(* a prefix of the payload bits stays one when cut back *)
Lemma prefix_back p s s' tail : bits_grow s s' -> bits p = e_bits s' ++ tail -> exists tail', bits p = e_bits s ++ tail'.
Proof. intros [d E] B. exists (d ++ tail). rewrite B, E. now rewrite app_assoc. Qed.

(* ================= one field occurrence ================= *)
Section Step.
Variables (T:tables) (ident:string) (lbl:Z) (p:bytes).
Let rinex := negb (lbl =? 2).

Lemma off_of_app s l : Z.of_nat (List.length (e_bits s ++ l)) = off_of s + Z.of_nat (List.length l).
Proof. unfold off_of. rewrite app_length. lia. Qed.

Lemma enc_bits_field_dec key idxs fd s s' tail :
  find_field T key = Some fd -> is_label_ty (df_ty fd) = false ->
  enc_bits_field T ident rinex key idxs fd s = Some s' ->
  bits p = e_bits s' ++ tail ->
  set_single T ident key idxs (obj_of p lbl s, off_of s) = Ok (obj_of p lbl s', off_of s').
Proof.
  intros F L H B.
  pose proof (enc_bits_field_inv _ _ _ _ _ _ _ _ H) as [v [rest [w [val [a1 [EV [W [W0 [SG [FV [ST [EB [_ _]]]]]]]]]]]]].
  set (l := bits_of (Z.to_nat w) v) in *.
  assert (Ll : Z.of_nat (List.length l) = w) by (unfold l; rewrite bits_of_length; lia).
  assert (Off : 0 <= off_of s) by (unfold off_of; lia).
  rewrite (set_single_spec T ident key idxs fd (obj_of p lbl s) (off_of s) F L (pwf_mkobj _ _ _ _ _) Off).
  unfold field_step, obj_of.
  rewrite (field_width_mk T key fd p lbl _ _ _ w W). cbn [obind].
  change (o_payload (mkobj p lbl (e_attrs s) (e_sat s) (e_cell s))) with p.
  assert (Bp : bits p = e_bits s ++ l ++ tail) by (rewrite B, EB; now rewrite app_assoc).
  replace ((w <? 0) || (nbits p <? off_of s + w)) with false.
  2:{ symmetry. apply orb_false_iff. split; apply Z.ltb_ge; [lia|].
      rewrite nbits_bits, Bp, !app_length. unfold off_of. lia. }
  rewrite SG.
  assert (SL : slice p (off_of s) w = l).
  { rewrite <- Ll. unfold off_of. apply (slice_written p (e_bits s) l tail Bp). }
  rewrite SL. fold l in FV. rewrite FV. cbn [obind].
  rewrite (store_value_mk _ _ _ _ p lbl _ _ _ a1 ST). cbn [obind].
  assert (OffS : off_of s + w = off_of s').
  { unfold off_of at 2. rewrite EB, app_length. unfold off_of. lia. }
  rewrite OffS.
  (* derived attributes *)
  unfold enc_bits_field in H. rewrite EV, W in H. cbn [obnd] in H.
  replace ((w <? 0) || (needs_sign_bit (df_ty fd) && (w <? 1))) with false in H
    by (symmetry; apply orb_false_iff; split; [apply Z.ltb_ge; lia|exact SG]).
  fold l in H. rewrite FV, ST in H. cbn [obnd] in H.
  unfold extras. rewrite popcount_uint.
  destruct (String.eqb key "DF394"); [inversion H; reflexivity|].
  destruct (String.eqb key "DF395"); [inversion H; reflexivity|].
  destruct (String.eqb key "DF396").
  { apply obnd_some in H. destruct H as [maps [M H]]. inversion H. subst s'. clear H.
    rewrite setattr_mk. cbn [obind].
    rewrite (getsatcellmaps_mk T ident lbl p _ _ _ maps M). reflexivity. }
  destruct (String.eqb key "IDF038").
  { apply obnd_some in H. destruct H as [a2 [HM H]]. inversion H. subst s'. clear H.
    rewrite (harmonic_counts_mk T idxs p lbl a1 _ _ a2 HM). reflexivity. }
  inversion H. reflexivity.
Qed.

Lemma special_name_false key : special_name key = false ->
  String.eqb key "DF396" = false /\ is_mask_name key = false /\ String.eqb key "IDF038" = false.
Proof.
  unfold special_name, is_mask_name. intro H.
  apply orb_false_iff in H. destruct H as [H H8].
  apply orb_false_iff in H. destruct H as [H H6].
  apply orb_false_iff in H. destruct H as [H4 H5].
  rewrite H4, H5, H6, H8. repeat split.
Qed.

Lemma label_lookup_mk {A} (f:A -> string) i r (m:list (Z*A)) x :
  zlookup i m = Some x ->
  label_lookup (i :: r) (Some m) f = Ok (VStr (codes (f x)), None).
Proof.
  intro Z0. unfold label_lookup. cbn [first_index obind].
  rewrite MsmProofs.zassoc_zlookup, Z0. reflexivity.
Qed.

Lemma enc_label_field_dec key idxs fd s s' :
  find_field T key = Some fd -> is_label_ty (df_ty fd) = true ->
  enc_label_field key idxs fd s = Some s' ->
  set_single T ident key idxs (obj_of p lbl s, off_of s) = Ok (obj_of p lbl s', off_of s').
Proof.
  intros F L H.
  rewrite (set_single_label T ident key idxs fd _ _ F L).
  unfold enc_label_field in H.
  destruct (negb (df_bits fd =? 0) || special_name key) eqn:C; [discriminate|].
  apply orb_false_iff in C. destruct C as [C1 C2].
  apply negb_false_iff, Z.eqb_eq in C1.
  destruct (special_name_false key C2) as [K6 [KM K8]].
  unfold field_width. rewrite K6, C1. cbn [obind].
  rewrite KM. unfold post_harm. rewrite K8.
  destruct idxs as [|i r]; [discriminate|].
  apply obnd_some in H. destruct H as [label [LB H]]. inversion H. subst s'. clear H.
  unfold obj_of, off_of. cbn [e_bits e_attrs e_sat e_cell o_satmap o_cellmap mkobj].
  rewrite Z.add_0_r.
  destruct (df_ty fd); cbn in L; try discriminate.
  - apply obnd_some in LB. destruct LB as [m [M LB]]. rewrite M.
    rewrite (label_lookup_mk (fun x => x) i r m label LB). reflexivity.
  - apply obnd_some in LB. destruct LB as [m [M LB]]. rewrite M.
    destruct (zlookup i m) as [x|] eqn:ZL; [|discriminate]. cbn in LB. inversion LB. subst label.
    rewrite (label_lookup_mk fst i r m x ZL). reflexivity.
  - apply obnd_some in LB. destruct LB as [m [M LB]]. rewrite M.
    destruct (zlookup i m) as [x|] eqn:ZL; [|discriminate]. cbn in LB. inversion LB. subst label.
    rewrite (label_lookup_mk snd i r m x ZL). reflexivity.
Qed.

Lemma enc_field_dec key idxs s s' tail :
  enc_field T ident rinex key idxs s = Some s' ->
  bits p = e_bits s' ++ tail ->
  set_single T ident key idxs (obj_of p lbl s, off_of s) = Ok (obj_of p lbl s', off_of s').
Proof.
  unfold enc_field. destruct (find_field T key) as [fd|] eqn:F; [|discriminate].
  destruct (is_label_ty (df_ty fd)) eqn:L; intros H B.
  - eapply enc_label_field_dec; eauto.
  - eapply enc_bits_field_dec; eauto.
Qed.

(* ================= the walk ================= *)
Lemma erep_dec b :
  (forall idxs s s' tail, enc_body T ident rinex b idxs s = Some s' -> bits p = e_bits s' ++ tail ->
     dec_body T ident b idxs (obj_of p lbl s, off_of s) = Ok (obj_of p lbl s', off_of s')) ->
  forall n idxs i s s' tail, erep (enc_body T ident rinex b) idxs n i s = Some s' -> bits p = e_bits s' ++ tail ->
     rep (dec_body T ident b) idxs n i (obj_of p lbl s, off_of s) = Ok (obj_of p lbl s', off_of s').
Proof.
  intro Hb. induction n as [|n IH]; intros idxs i s s' tail E B; cbn [erep rep] in *.
  - inversion E. reflexivity.
  - apply obnd_some in E. destruct E as [s1 [E1 E2]].
    destruct (prefix_back p s1 s' tail (bits_grow_erep _ _ _ _ _ _ _ _ _ E2) B) as [tail1 B1].
    rewrite (Hb _ _ _ _ E1 B1). cbn [obind]. eapply IH; eauto.
Qed.

Lemma walk_dec :
  (forall it l idxs s s' tail, enc_item T ident rinex l it idxs s = Some s' -> bits p = e_bits s' ++ tail ->
     dec_item T ident l it idxs (obj_of p lbl s, off_of s) = Ok (obj_of p lbl s', off_of s')) /\
  (forall b idxs s s' tail, enc_body T ident rinex b idxs s = Some s' -> bits p = e_bits s' ++ tail ->
     dec_body T ident b idxs (obj_of p lbl s, off_of s) = Ok (obj_of p lbl s', off_of s')).
Proof.
  apply item_body_ind.
  - intros k l idxs s s' tail E B. rewrite dec_item_field. cbn [enc_item] in E. eapply enc_field_dec; eauto.
  - intros w l idxs s s' tail E B. discriminate.
  - intros c b IHb l idxs s s' tail E B. rewrite enc_item_group in E. rewrite dec_item_group.
    apply obnd_some in E. destruct E as [n [C E]].
    cbn [fst]. unfold obj_of at 1. rewrite (group_size_mk c idxs p lbl _ _ _ n C). cbn [obind].
    destruct (max_count <? n); [discriminate|].
    eapply erep_dec; eauto.
  - intros k con b IHb l idxs s s' tail E B. rewrite enc_item_opt in E. rewrite dec_item_opt.
    cbn [fst]. unfold getattr. unfold obj_of at 1. cbn [o_attrs mkobj].
    destruct (assoc k (e_attrs s)) as [[z|f|str]|]; try discriminate; cbn [obind].
    + destruct (z =? con); [eapply IHb; eauto|inversion E; reflexivity].
    + inversion E. reflexivity.
  - intros l IHl idxs s s' tail E B. rewrite enc_body_items in E. rewrite dec_body_items.
    revert s E. induction IHl as [|[lb it] r Hit Hr IHr]; intros s E.
    + inversion E. reflexivity.
    + rewrite enc_items_cons in E. apply obnd_some in E. destruct E as [s1 [E1 E2]].
      rewrite dec_items_cons.
      destruct (prefix_back p s1 s' tail (bits_grow_items _ _ _ _ _ _ _ E2) B) as [tail1 B1].
      cbn [snd] in Hit. rewrite (Hit _ _ _ _ _ E1 B1). cbn [obind]. apply IHr. exact E2.
  - intros w idxs s s' tail E B. discriminate.
Qed.

Definition body_dec := proj2 walk_dec.
End Step.

(* ================= the round trip ================= *)
Lemma lay_out_inv T ident rinex b vals bitsl a rest :
  lay_out T ident rinex b vals = Some (bitsl, a, rest) ->
  exists s, lay_out_state T ident rinex b vals = Some s /\ e_bits s = bitsl /\ e_attrs s = a /\ e_vals s = rest.
Proof.
  unfold lay_out. intro H. apply obnd_some in H. destruct H as [s [E H]]. inversion H. eauto.
Qed.

(* the decoder's final object is the encoder's final state, and its final offset is the number of bits written *)
Theorem decode_roundtrip_state : forall T ident b lbl vals s p tail,
  get_dict T ident = Some b ->
  lay_out_state T ident (negb (lbl =? 2)) b vals = Some s ->
  bits p = e_bits s ++ tail ->
  identity p = Ok ident -> too_short p = false ->
  decode_run T p lbl = Ok (obj_of p lbl s, off_of s).
Proof.
  intros T ident b lbl vals s p tail D E B I G.
  apply decode_run_of_raw; [exact G|].
  unfold decode_raw. change (o_payload (obj0 p lbl)) with p. rewrite I. cbn [obind]. rewrite D.
  exact (body_dec T ident lbl p b [] (est0 vals) s tail E B).
Qed.

Theorem decode_roundtrip : forall T ident b lbl vals bitsl a rest pad extra,
  get_dict T ident = Some b ->
  lay_out T ident (negb (lbl =? 2)) b vals = Some (bitsl, a, rest) ->
  (List.length (bitsl ++ pad) mod 8 = 0)%nat ->
  let p := pack (bitsl ++ pad) ++ extra in
  identity p = Ok ident -> too_short p = false ->
  exists o, construct T (Some p) lbl = Ok o /\ o_attrs o = a.
Proof.
  intros T ident b lbl vals bitsl a rest pad extra D E M p I G.
  apply lay_out_inv in E. destruct E as [s [E [Eb [Ea _]]]].
  assert (B : bits p = e_bits s ++ (pad ++ bits extra)).
  { unfold p. rewrite bits_app, (bits_pack _ M), Eb. now rewrite app_assoc. }
  exists (with_immutable (obj_of p lbl s) true). split.
  - apply construct_ok_run. exists (obj_of p lbl s), (off_of s). split; [|reflexivity].
    eapply decode_roundtrip_state; eauto.
  - exact Ea.
Qed.

(* the public attributes are the encoder's public attributes *)
Corollary decode_roundtrip_public : forall T ident b lbl vals bitsl a rest pad extra,
  get_dict T ident = Some b ->
  lay_out T ident (negb (lbl =? 2)) b vals = Some (bitsl, a, rest) ->
  (List.length (bitsl ++ pad) mod 8 = 0)%nat ->
  let p := pack (bitsl ++ pad) ++ extra in
  identity p = Ok ident -> too_short p = false ->
  exists o, construct T (Some p) lbl = Ok o /\ public (o_attrs o) = public a.
Proof.
  intros T ident b lbl vals bitsl a rest pad extra D E M p I G.
  destruct (decode_roundtrip T ident b lbl vals bitsl a rest pad extra D E M I G) as [o [C A]].
  exists o. split; [exact C|]. now rewrite A.
Qed.

(* bytes after the last field change nothing (C03, last sentence) *)
Corollary roundtrip_trailing : forall T ident b lbl vals bitsl a rest pad extra x,
  get_dict T ident = Some b ->
  lay_out T ident (negb (lbl =? 2)) b vals = Some (bitsl, a, rest) ->
  (List.length (bitsl ++ pad) mod 8 = 0)%nat ->
  let p := pack (bitsl ++ pad) ++ extra in
  identity p = Ok ident -> too_short p = false ->
  exists o', construct T (Some (p ++ x)) lbl = Ok o' /\ o_attrs o' = a.
Proof.
  intros T ident b lbl vals bitsl a rest pad extra x D E M p I G.
  destruct (decode_roundtrip T ident b lbl vals bitsl a rest pad extra D E M I G) as [o [C A]].
  destruct (decode_trailing T p lbl o x C) as [o' [C' [A' _]]].
  exists o'. split; [exact C'|congruence].
Qed.
