(* C12, end to end: read()/readline() on a chunked socket wrapper, receives triggered on demand, event
   lists with timeouts (Fail) and empty packets anywhere.  Builds on the per-recv invariant of ChunkProofs. *)
From Coq Require Import NArith List Bool Lia Arith.
From Coq.Strings Require Import Byte.
From PyRtcm Require Import Base.Bytes Model.Types Model.Reader Model.Socket Spec.ChunkGrammar
  Spec.StreamLaw Proofs.SocketProofs Proofs.ChunkProofs.
Import ListNotations.
Local Open Scope nat_scope.

(* ================= any encoding: the content function of a wrapper state ================= *)
Section AnyEncoding.
Variable chunked : bool.
Variable dz : bytes -> bytes.

Notation recv := (recv chunked dz).
Notation fill := (fill chunked dz).
Notation sock_read := (sock_read chunked dz).
Notation readline_loop := (readline_loop chunked dz).
Notation sock_readline := (sock_readline chunked dz).

(* what the remaining events will add to the buffer, given the pending partial chunk *)
Fixpoint future (p:bytes) (e:list recv_ev) : bytes :=
  match e with
  | [] => []
  | ev :: r =>
      let s1 := snd (recv {| buf := []; partial := p; evs := [ev]; unm := false |}) in
      buf s1 ++ future (partial s1) r
  end.

Definition cpending (s:sock) : bytes := buf s ++ future (partial s) (evs s).

Lemma recv_cpending s ok s' : recv s = (ok, s') -> cpending s = cpending s' /\ evs s' = tl (evs s).
Proof.
  unfold cpending. intro H. unfold Socket.recv in H.
  destruct (evs s) as [|ev r] eqn:Ev.
  - inversion H; subst. rewrite Ev. auto.
  - cbn [future]. unfold Socket.recv. cbn [evs partial buf unm].
    destruct ev as [[|d0 d1]|].
    + inversion H; subst. cbn. auto.
    + destruct chunked.
      * destruct (dechunk dz (partial s ++ d0 :: d1)) eqn:D; inversion H; subst; cbn; split; auto.
        now rewrite app_assoc.
      * inversion H; subst. cbn. split; auto. now rewrite <- app_assoc.
    + inversion H; subst. cbn. auto.
Qed.

Lemma fill_cpending fuel n s ok s' : fill fuel n s = (ok, s') ->
  cpending s = cpending s' /\ (ok = true -> n <= length (buf s')).
Proof.
  revert s ok s'. induction fuel as [|f IH]; intros s ok s' H; simpl in H.
  - destruct (Nat.leb n (length (buf s))) eqn:L; inversion H; subst; split; auto; try discriminate.
    intros _. now apply Nat.leb_le.
  - destruct (Nat.leb n (length (buf s))) eqn:L.
    + inversion H; subst. split; auto. intros _. now apply Nat.leb_le.
    + destruct (recv s) as [ok1 s1] eqn:R. apply recv_cpending in R. destruct R as (P & _).
      destruct ok1.
      * apply IH in H. destruct H as (P' & Hn). split; [congruence|auto].
      * inversion H; subst. split; auto. discriminate.
Qed.

Theorem sock_read_cpending n s o s' : sock_read n s = (o, s') ->
  cpending s = o ++ cpending s' /\ (length o = n \/ o = []).
Proof.
  unfold Socket.sock_read. destruct (fill (S (length (evs s))) n s) as [ok s1] eqn:F.
  apply fill_cpending in F. destruct F as (P & Hn).
  destruct ok; intro H; inversion H; subst; clear H.
  - split.
    + rewrite P. unfold cpending. simpl. now rewrite app_assoc, firstn_skipn.
    + left. rewrite firstn_length. pose proof (Hn eq_refl). lia.
  - auto.
Qed.

Lemma readline_loop_cpending fuel line s l s' : readline_loop fuel line s = (l, s') ->
  exists t, l = line ++ t /\ cpending s = t ++ cpending s'.
Proof.
  revert line s l s'. induction fuel as [|f IH]; intros line s l s' H; simpl in H.
  - inversion H; subst. exists []. now rewrite app_nil_r.
  - destruct (sock_read 1 s) as [d s1] eqn:R. apply sock_read_cpending in R. destruct R as (P & L).
    destruct d as [|b [|b' d']].
    + inversion H; subst. exists []. now rewrite app_nil_r.
    + destruct (ends_crlf (line ++ [b])).
      * inversion H; subst. exists [b]. auto.
      * apply IH in H. destruct H as (t & -> & P'). exists (b :: t). split.
        -- now rewrite <- app_assoc.
        -- rewrite P, P'. reflexivity.
    + exfalso. destruct L as [L|L]; simpl in L; [lia|discriminate].
Qed.

Theorem sock_readline_cpending s l s' : sock_readline s = (l, s') -> cpending s = l ++ cpending s'.
Proof.
  unfold Socket.sock_readline. intro H. apply readline_loop_cpending in H.
  destruct H as (t & -> & P). exact P.
Qed.

(* the wrapper is a lawful stream over its content, for every encoding *)
Theorem sock_stream_law_any : stream_law (sock_ops chunked dz) cpending.
Proof.
  split.
  - intros n s d s' H. simpl in H. apply sock_read_cpending in H. destruct H as (P & [L|L]); split; auto.
    + lia.
    + subst d. simpl. lia.
  - intros s d s' H. simpl in H. now apply sock_readline_cpending in H.
Qed.

End AnyEncoding.

(* without chunking the content is the data still to come *)
Lemma future_unchunked dz p e : future false dz p e = datas e.
Proof.
  revert p. induction e as [|ev r IH]; intro p; auto.
  cbn [future]. unfold recv. cbn [evs partial buf unm].
  destruct ev as [[|d0 d1]|]; cbn; rewrite IH; auto.
Qed.

Lemma cpending_unchunked dz s : cpending false dz s = pending s.
Proof. unfold cpending, pending. now rewrite future_unchunked. Qed.

Section C12R.
Variable dz : bytes -> bytes.
Variable chunks : list chunk.
Variable last : option bytes.
Context (Hwf : wf_chunked chunks last).

Notation recv := (recv true dz).
Notation fill := (fill true dz).
Notation sock_read := (sock_read true dz).
Notation readline_loop := (readline_loop true dz).
Notation sock_readline := (sock_readline true dz).
Notation inv := (inv dz chunks last).

(* [out] = bytes handed out so far; the events still to come carry the rest of the chunked stream *)
Definition J (out:bytes) (s:sock) : Prop :=
  exists got, got ++ datas (evs s) = render chunks last /\ inv out got (datas (evs s)) s.

Lemma inv_ext out got rest s s' :
  buf s' = buf s -> partial s' = partial s -> inv out got rest s -> inv out got rest s'.
Proof.
  intros Eb Ep H. destruct H as [done todo H1 H2 H3 H4|z u H1 H2 H3 H4].
  - apply IMid with (done := done) (todo := todo); rewrite ?Eb, ?Ep; auto.
  - apply IEnd with (z := z) (u := u); rewrite ?Eb, ?Ep; auto.
Qed.

Lemma inv_shift out got rest s s' o :
  buf s = o ++ buf s' -> partial s' = partial s -> inv out got rest s -> inv (out ++ o) got rest s'.
Proof.
  intros Eb Ep H. destruct H as [done todo H1 H2 H3 H4|z u H1 H2 H3 H4].
  - apply IMid with (done := done) (todo := todo); rewrite ?Ep; auto.
    rewrite <- app_assoc, <- Eb. exact H2.
  - apply IEnd with (z := z) (u := u); rewrite ?Ep; auto.
    rewrite <- app_assoc, <- Eb. exact H2.
Qed.

(* everything delivered so far is the decoding of a whole number of chunks *)
Lemma inv_prefix out got rest s : inv out got rest s ->
  exists done todo, chunks = done ++ todo /\ out ++ buf s = decoded dz done.
Proof.
  intros [done todo H1 H2 H3 H4|z u H1 H2 H3 H4].
  - exists done, todo. auto.
  - exists chunks, []. rewrite app_nil_r. auto.
Qed.

(* once the whole stream has been received, everything has been decoded *)
Lemma inv_done out got s : got = render chunks last -> inv out got [] s ->
  out ++ buf s = decoded dz chunks.
Proof.
  intros E [done todo H1 H2 H3 H4|z u H1 H2 H3 H4]; auto.
  rewrite H2. rewrite H1 in *. rewrite E in H3. unfold render in H3.
  rewrite render_chunks_app, <- app_assoc in H3. apply app_inv_head in H3.
  unfold stuck in H4. destruct todo as [|c todo].
  - now rewrite app_nil_r.
  - exfalso. destruct H4 as (v & Hv & Ev). rewrite render_chunks_cons in H3.
    rewrite <- H3, <- Ev in Ev. apply (f_equal (@length _)) in Ev. rewrite !app_length in Ev.
    destruct v; [congruence|simpl in Ev; lia].
Qed.

Lemma J_prefix out s : J out s -> exists done todo, chunks = done ++ todo /\ out ++ buf s = decoded dz done.
Proof. intros (got & _ & H). eapply inv_prefix; eauto. Qed.

Lemma J_done out s : J out s -> evs s = [] -> out ++ buf s = decoded dz chunks.
Proof.
  intros (got & E & H) Ev. rewrite Ev in *. simpl in *. rewrite app_nil_r in E. eapply inv_done; eauto.
Qed.

(* ---------- _recv ---------- *)
Lemma recv_J out s ok s' : J out s -> recv s = (ok, s') ->
  J out s' /\ unm s' = unm s /\ (exists pre, evs s = pre ++ evs s') /\
  (ok = false -> stopped (evs s) (evs s') /\ buf s' = buf s).
Proof.
  intros (got & E & H) R. destruct (evs s) as [|[d|] r] eqn:Ev.
  - unfold Socket.recv in R. rewrite Ev in R. inversion R; subst.
    split; [|split; [|split]]; auto.
    + exists got. rewrite Ev. auto.
    + exists []. rewrite Ev. reflexivity.
    + intros _. split; auto. rewrite Ev. left; auto.
  - destruct d as [|d0 d1].
    + unfold Socket.recv in R. rewrite Ev in R. inversion R; subst. simpl.
      split; [|split; [|split]]; auto.
      * exists got. simpl in *. split; auto. eapply inv_ext; [| |exact H]; reflexivity.
      * exists [Data []]. reflexivity.
      * intros _. split; auto. right; right; auto.
    + assert (Hd : d0 :: d1 <> []) by discriminate.
      simpl datas in E, H.
      destruct (recv_step dz chunks last out got (d0 :: d1) (datas r) s r Hwf E Hd Ev H)
        as (s1 & R1 & Ev1 & Un1 & H1).
      rewrite R1 in R. inversion R; subst.
      split; [|split; [|split]]; auto.
      * exists (got ++ d0 :: d1). split; auto. now rewrite <- app_assoc.
      * exists [Data (d0 :: d1)]. reflexivity.
      * discriminate.
  - unfold Socket.recv in R. rewrite Ev in R. inversion R; subst. simpl.
    split; [|split; [|split]]; auto.
    + exists got. simpl in *. split; auto. eapply inv_ext; [| |exact H]; reflexivity.
    + exists [Fail]. reflexivity.
    + intros _. split; auto. right; left; auto.
Qed.

(* ---------- the fill loop of read() ---------- *)
Lemma fill_J fuel n out s ok s' : J out s -> fill fuel n s = (ok, s') ->
  J out s' /\ unm s' = unm s /\ (exists pre, evs s = pre ++ evs s') /\
  (ok = true -> n <= length (buf s')) /\
  (ok = false -> length (evs s) < fuel ->
     length (buf s') < n /\ exists pre r, evs s = pre ++ r /\ stopped r (evs s')).
Proof.
  revert s ok s'. induction fuel as [|f IH]; intros s ok s' HJ H; simpl in H.
  - destruct (Nat.leb n (length (buf s))) eqn:L; inversion H; subst.
    + apply Nat.leb_le in L. split; [|split; [|split; [|split]]]; auto; try discriminate.
      exists []; reflexivity.
    + split; [|split; [|split; [|split]]]; auto; try discriminate.
      * exists []; reflexivity.
      * intros _ Hl. lia.
  - destruct (Nat.leb n (length (buf s))) eqn:L.
    + inversion H; subst. apply Nat.leb_le in L. split; [|split; [|split; [|split]]]; auto; try discriminate.
      exists []; reflexivity.
    + apply Nat.leb_gt in L. destruct (recv s) as [ok1 s1] eqn:R.
      destruct (recv_J _ _ _ _ HJ R) as (HJ1 & Un1 & (pre1 & Ep1) & Hf1).
      destruct ok1.
      * destruct (IH _ _ _ HJ1 H) as (HJ2 & Un2 & (pre2 & Ep2) & Ht & Hf).
        split; [|split; [|split; [|split]]]; auto.
        -- congruence.
        -- exists (pre1 ++ pre2). rewrite Ep1, Ep2 at 1. now rewrite app_assoc.
        -- intros Hk Hl.
           assert (Hpre1 : pre1 <> []).
           { intro Z. subst pre1. simpl in Ep1.
             unfold Socket.recv in R. rewrite Ep1 in R.
             destruct (evs s1) as [|[[|d0 d1]|] r] eqn:E1; try (inversion R; fail).
             destruct (dechunk dz (partial s ++ d0 :: d1)); inversion R; subst; simpl in E1;
               apply (f_equal (@length _)) in E1; simpl in E1; lia. }
           assert (Hl1 : length (evs s1) < f).
           { rewrite Ep1, app_length in Hl. destruct pre1; [congruence|simpl in Hl; lia]. }
           destruct (Hf Hk Hl1) as (Hb & pre & r & Epr & St). split; auto.
           exists (pre1 ++ pre), r. split; auto. rewrite Ep1, Epr. now rewrite app_assoc.
      * inversion H; subst. destruct (Hf1 eq_refl) as (St & Eb).
        split; [|split; [|split; [|split]]]; auto; try discriminate.
        -- exists pre1; auto.
        -- intros _ _. split; [rewrite Eb; auto|]. exists [], (evs s). auto.
Qed.

(* ---------- read(n) ---------- *)
Theorem sock_read_J n out s o s' : J out s -> sock_read n s = (o, s') ->
  J (out ++ o) s' /\ unm s' = unm s /\ (exists pre, evs s = pre ++ evs s') /\
  (length o = n \/
   (o = [] /\ length (buf s') < n /\ exists pre r, evs s = pre ++ r /\ stopped r (evs s'))).
Proof.
  intros HJ. unfold Socket.sock_read.
  destruct (fill (S (length (evs s))) n s) as [ok s1] eqn:F.
  destruct (fill_J _ _ _ _ _ _ HJ F) as ((got & E & H) & Un & Hpre & Ht & Hf).
  destruct ok; intro R; inversion R; subst; clear R; simpl.
  - pose proof (Ht eq_refl) as Hn. split; [|split; [|split]]; auto.
    + exists got. simpl. split; auto. eapply inv_shift; [| |exact H]; simpl; auto.
      now rewrite firstn_skipn.
    + left. rewrite firstn_length. lia.
  - destruct (Hf eq_refl (Nat.lt_succ_diag_r _)) as (Hb & Hst).
    split; [|split; [|split]]; auto.
    rewrite app_nil_r. exists got. auto.
Qed.

(* ---------- a sequence of reads ---------- *)
Fixpoint reads_c (ns:list nat) (s:sock) : list bytes * sock :=
  match ns with
  | [] => ([], s)
  | n :: r => let '(o, s1) := sock_read n s in
              let '(os, s2) := reads_c r s1 in (o :: os, s2)
  end.

Lemma reads_J ns out s outs s' : J out s -> reads_c ns s = (outs, s') ->
  J (out ++ concat outs) s' /\ unm s' = unm s /\ (exists pre, evs s = pre ++ evs s') /\
  Forall2 (fun n o => length o = n \/ o = []) ns outs.
Proof.
  revert out s outs s'. induction ns as [|n ns IH]; intros out s outs s' HJ H; simpl in H.
  - inversion H; subst. simpl. rewrite app_nil_r. split; [|split; [|split]]; auto. exists []; reflexivity.
  - destruct (sock_read n s) as [o s1] eqn:R. destruct (reads_c ns s1) as [os s2] eqn:Rs.
    inversion H; subst.
    destruct (sock_read_J _ _ _ _ _ HJ R) as (HJ1 & Un1 & (pre1 & Ep1) & Hl).
    destruct (IH _ _ _ _ HJ1 Rs) as (HJ2 & Un2 & (pre2 & Ep2) & F2).
    split; [|split; [|split]].
    + simpl. now rewrite app_assoc.
    + congruence.
    + exists (pre1 ++ pre2). rewrite Ep1, Ep2 at 1. now rewrite app_assoc.
    + constructor; auto. destruct Hl as [Hl|(Hl & _)]; auto.
Qed.

(* ---------- readline() ---------- *)
Lemma readline_loop_J fuel line out s l s' : J out s -> readline_loop fuel line s = (l, s') ->
  exists t, l = line ++ t /\ J (out ++ t) s'.
Proof.
  revert line out s l s'. induction fuel as [|f IH]; intros line out s l s' HJ H; simpl in H.
  - inversion H; subst. exists []. rewrite !app_nil_r. split; auto.
    destruct HJ as (got & E & Hi). exists got. simpl. split; auto.
    eapply inv_ext; [| |exact Hi]; reflexivity.
  - destruct (sock_read 1 s) as [d s1] eqn:R.
    destruct (sock_read_J _ _ _ _ _ HJ R) as (HJ1 & _ & _ & Hl).
    destruct d as [|b [|b' d']].
    + inversion H; subst. exists []. rewrite !app_nil_r. rewrite app_nil_r in HJ1. auto.
    + destruct (ends_crlf (line ++ [b])).
      * inversion H; subst. exists [b]. auto.
      * destruct (IH _ _ _ _ _ HJ1 H) as (t & -> & HJ2). exists (b :: t). split.
        -- now rewrite <- app_assoc.
        -- rewrite <- app_assoc in HJ2. exact HJ2.
    + exfalso. destruct Hl as [Hl|(Hl & _)]; simpl in Hl; [lia|discriminate].
Qed.

Theorem sock_readline_J out s l s' : J out s -> sock_readline s = (l, s') -> J (out ++ l) s'.
Proof.
  intros HJ H. unfold Socket.sock_readline in H.
  destruct (readline_loop_J _ _ _ _ _ _ HJ H) as (t & -> & HJ'). exact HJ'.
Qed.

(* ---------- initial states ---------- *)
Definition start (e:list recv_ev) : sock := {| buf := []; partial := []; evs := e; unm := false |}.

Lemma J_start e : datas e = render chunks last -> J [] (start e).
Proof.
  intro E. exists []. simpl. split; auto.
  apply IMid with (done := []) (todo := chunks); auto. destruct Hwf. now apply stuck_nil.
Qed.

Lemma J_sock_init e : datas e = render chunks last ->
  J [] (sock_init true dz e) /\ unm (sock_init true dz e) = false.
Proof.
  intro E. unfold sock_init. fold (start e). destruct (recv (start e)) as [ok s1] eqn:R.
  destruct (recv_J _ _ _ _ (J_start e E) R) as (HJ & Un & _). simpl. auto.
Qed.

(* the content of a chunked wrapper fed a well-formed chunked stream is the decoded stream *)
Lemma J_content out s : J out s -> out ++ cpending true dz s = decoded dz chunks.
Proof.
  remember (length (evs s)) as k eqn:Ek. revert out s Ek.
  induction k as [|k IH]; intros out s Ek HJ.
  - destruct (evs s) eqn:Ev; [|discriminate]. unfold cpending. rewrite Ev. simpl. rewrite app_nil_r.
    now apply J_done.
  - destruct (recv s) as [ok s1] eqn:R.
    destruct (recv_J _ _ _ _ HJ R) as (HJ1 & _).
    apply recv_cpending in R. destruct R as (P & Et). rewrite P. apply IH; auto.
    rewrite Et. destruct (evs s); simpl in *; [discriminate|lia].
Qed.

Theorem C12_content e : datas e = render chunks last ->
  cpending true dz (sock_init true dz e) = decoded dz chunks /\
  cpending true dz (start e) = decoded dz chunks.
Proof.
  intro E. split.
  - destruct (J_sock_init e E) as (HJ & _). apply (J_content [] _ HJ).
  - apply (J_content [] _ (J_start e E)).
Qed.

(* ================= C12 through read() ================= *)

(* Any event list carrying the chunked stream (any segmentation, timeouts and empty packets anywhere),
   any sequence of read sizes, starting from the constructed wrapper: what has been returned plus what
   is buffered is always the decoding of a whole number of leading chunks; each read returns n bytes or
   nothing; nothing is flagged unmodelled; and when all events are consumed nothing is missing. *)
Theorem C12_reads e ns outs s' :
  datas e = render chunks last -> reads_c ns (sock_init true dz e) = (outs, s') ->
  unm s' = false /\
  Forall2 (fun n o => length o = n \/ o = []) ns outs /\
  (exists done todo, chunks = done ++ todo /\ concat outs ++ buf s' = decoded dz done) /\
  (evs s' = [] -> concat outs ++ buf s' = decoded dz chunks).
Proof.
  intros E H. destruct (J_sock_init e E) as (HJ & Un).
  destruct (reads_J _ _ _ _ _ HJ H) as (HJ' & Un' & _ & F). simpl in HJ'.
  split; [congruence|]. split; auto. split.
  - eapply J_prefix; eauto.
  - intro Ev. eapply J_done; eauto.
Qed.

(* with no timeouts / empty packets, a read is short only if the decoded stream is exhausted *)
Lemma sock_read_J_full n out s o s' : J out s -> Forall good_ev (evs s) ->
  length out + n <= length (decoded dz chunks) -> sock_read n s = (o, s') -> length o = n.
Proof.
  intros HJ G Hn R. destruct (sock_read_J _ _ _ _ _ HJ R) as (HJ1 & _ & _ & [Hl|(-> & Hb & pre & r & Ep & St)]); auto.
  exfalso. rewrite Ep in G. apply Forall_app in G. destruct G as (_ & G).
  destruct St as [[-> E']|[->| ->]].
  - rewrite app_nil_r in HJ1. pose proof (J_done _ _ HJ1 E') as D.
    apply (f_equal (@length _)) in D. rewrite app_length in D. lia.
  - inversion G as [|x y (d & Hd & _) G']; subst. discriminate.
  - inversion G as [|x y (d & Hd & Hne) G']; subst. inversion Hd; subst. congruence.
Qed.

Lemma reads_J_full ns out s outs s' : J out s -> Forall good_ev (evs s) ->
  length out + list_sum ns <= length (decoded dz chunks) -> reads_c ns s = (outs, s') ->
  Forall2 (fun n o => length o = n) ns outs.
Proof.
  revert out s outs s'. induction ns as [|n ns IH]; intros out s outs s' HJ G Hn H; simpl in H.
  - inversion H; subst. constructor.
  - destruct (sock_read n s) as [o s1] eqn:R. destruct (reads_c ns s1) as [os s2] eqn:Rs.
    inversion H; subst. simpl in Hn.
    assert (Lo : length o = n) by (eapply sock_read_J_full; eauto; lia).
    destruct (sock_read_J _ _ _ _ _ HJ R) as (HJ1 & _ & (pre & Ep) & _).
    constructor; auto. eapply IH; eauto.
    + rewrite Ep in G. now apply Forall_app in G.
    + rewrite app_length. lia.
Qed.

Lemma Forall2_len_sum ns (outs:list bytes) : Forall2 (fun n o => length o = n) ns outs ->
  length (concat outs) = list_sum ns.
Proof. induction 1; simpl; auto. rewrite app_length. lia. Qed.

(* Segmentation independence for the chunked wrapper: with only non-empty packets, reads totalling at
   most the decoded length return exactly the leading bytes of the decoded stream, in the requested
   sizes, whatever the packet boundaries. *)
Theorem C12_reads_full segs ns outs s' :
  concat segs = render chunks last -> Forall (fun d => d <> []) segs ->
  list_sum ns <= length (decoded dz chunks) ->
  reads_c ns (start (map Data segs)) = (outs, s') ->
  Forall2 (fun n o => length o = n) ns outs /\
  concat outs = firstn (list_sum ns) (decoded dz chunks) /\ unm s' = false.
Proof.
  intros E Hne Hn H.
  assert (HJ : J [] (start (map Data segs))) by (apply J_start; now rewrite datas_map_Data).
  assert (G : Forall good_ev (evs (start (map Data segs)))).
  { simpl. apply Forall_forall. intros x Hx. apply in_map_iff in Hx. destruct Hx as (d & <- & Hd).
    exists d. split; auto. rewrite Forall_forall in Hne. auto. }
  pose proof (reads_J_full _ _ _ _ _ HJ G Hn H) as F.
  destruct (reads_J _ _ _ _ _ HJ H) as (HJ' & Un' & _ & _). simpl in HJ'.
  split; auto. split; auto.
  destruct (J_prefix _ _ HJ') as (done & todo & Ec & Ed).
  rewrite <- (Forall2_len_sum _ _ F). rewrite Ec, decoded_app, <- Ed, <- app_assoc.
  rewrite firstn_app, firstn_all, Nat.sub_diag. simpl. now rewrite app_nil_r.
Qed.

End C12R.

Print Assumptions sock_stream_law_any.
Print Assumptions C12_content.
Print Assumptions sock_read_J.
Print Assumptions sock_readline_J.
Print Assumptions C12_reads.
Print Assumptions C12_reads_full.
