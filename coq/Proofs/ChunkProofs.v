(* C12: with chunked transfer-encoding the socket wrapper delivers exactly the decoded chunk bodies,
   wherever the recv() boundaries fall. *)
From Coq Require Import NArith List Bool Lia Arith.
From Coq.Strings Require Import Byte.
From PyRtcm Require Import Base.Bytes Model.Types Model.Reader Model.Socket Spec.ChunkGrammar.
Import ListNotations.
Local Open Scope nat_scope.

(* ================= list helpers ================= *)
Lemma split_app {A} (x y u w:list A) : x ++ y = u ++ w ->
  (exists v, v <> [] /\ x ++ v = u /\ y = v ++ w) \/ (exists x', x = u ++ x' /\ x' ++ y = w).
Proof.
  revert u. induction x as [|a x IH]; intros u H.
  - destruct u as [|b u].
    + right. exists []. auto.
    + left. exists (b :: u). repeat split; auto. discriminate.
  - destruct u as [|b u].
    + right. exists (a :: x). auto.
    + simpl in H. injection H as -> H. destruct (IH _ H) as [(v & Hv & E1 & E2)|(x' & E1 & E2)].
      * left. exists v. repeat split; auto. simpl. now rewrite E1.
      * right. exists x'. split; auto. simpl. now rewrite E1.
Qed.

Lemma firstn_len_app {A} (a r:list A) : firstn (length a) (a ++ r) = a.
Proof. induction a; simpl; auto. now f_equal. Qed.

Lemma skipn_len_app {A} (a r:list A) : skipn (length a) (a ++ r) = r.
Proof. induction a; simpl; auto. Qed.

(* ================= lines ================= *)
Definition nolf (l:bytes) : Prop := Forall (fun b => b <> x0a) l.

Lemma eqb_lf_false b : b <> x0a -> Byte.eqb b x0a = false.
Proof. intro H. destruct (Byte.eqb b x0a) eqn:E; auto. apply Byte.byte_dec_bl in E. contradiction. Qed.

Lemma upto_lf_nolf x : nolf x -> upto_lf x = (x, []).
Proof.
  induction 1 as [|b x Hb Hx IH]; simpl; auto. now rewrite (eqb_lf_false _ Hb), IH.
Qed.

Lemma upto_lf_nolf_lf x y : nolf x -> upto_lf (x ++ x0a :: y) = (x ++ [x0a], y).
Proof.
  induction 1 as [|b x Hb Hx IH]; simpl; auto. now rewrite (eqb_lf_false _ Hb), IH.
Qed.

Lemma upto_lf_line h rest : nolf (h ++ [x0d]) -> upto_lf (h ++ CRLF ++ rest) = (h ++ CRLF, rest).
Proof.
  intro H. unfold CRLF. change (h ++ [x0d; x0a] ++ rest) with (h ++ [x0d] ++ x0a :: rest).
  rewrite app_assoc, (upto_lf_nolf_lf _ _ H), <- app_assoc. reflexivity.
Qed.

Lemma ends_crlf_nolf t : nolf t -> ends_crlf t = false.
Proof.
  intro H. unfold ends_crlf. destruct (rev t) as [|a [|b r]] eqn:E; auto.
  assert (Ha : In a t) by (apply in_rev; rewrite E; left; auto).
  unfold nolf in H. rewrite Forall_forall in H. now rewrite (eqb_lf_false _ (H _ Ha)).
Qed.

Lemma ends_crlf_line h : ends_crlf (h ++ CRLF) = true.
Proof. unfold ends_crlf, CRLF. rewrite rev_app_distr. reflexivity. Qed.

(* ================= hexadecimal ================= *)
Lemma hexdig_eq b : hexdig b = hexdigit b.
Proof. destruct b; reflexivity. Qed.

Lemma hexnum_eq a l : hexnum a l = hexval a l.
Proof. revert a. induction l as [|b l IH]; intro a; simpl; auto. rewrite hexdig_eq. destruct (hexdigit b); auto. Qed.

Definition ishex (b:byte) : Prop := exists d, hexdigit b = Some d.

Lemma ishex_nows b : ishex b -> is_ws b = false.
Proof. intros (d & H). destruct b; try reflexivity; vm_compute in H; discriminate. Qed.

Lemma ishex_nolf b : ishex b -> b <> x0a.
Proof. intros (d & H) ->. vm_compute in H. discriminate. Qed.

Lemma hexval_ishex a l n : hexval a l = Some n -> Forall ishex l.
Proof.
  revert a. induction l as [|b l IH]; intros a H; simpl in H; constructor.
  - destruct (hexdigit b) eqn:E; [now exists n0|discriminate].
  - destruct (hexdigit b); [eapply IH; eauto|discriminate].
Qed.

Lemma lstrip_nows b l : is_ws b = false -> lstrip (b :: l) = b :: l.
Proof. intro H. simpl. now rewrite H. Qed.

Lemma strip_line h : h <> [] -> Forall ishex h -> strip (h ++ CRLF) = h.
Proof.
  intros Hne Hh. unfold strip.
  assert (L1 : lstrip (h ++ CRLF) = h ++ CRLF).
  { destruct h as [|b h]; [congruence|]. inversion Hh; subst. apply lstrip_nows. now apply ishex_nows. }
  rewrite L1. unfold CRLF. rewrite rev_app_distr. cbn [rev app].
  assert (L2 : lstrip (x0a :: x0d :: rev h) = lstrip (rev h)) by reflexivity.
  rewrite L2.
  assert (L3 : lstrip (rev h) = rev h).
  { destruct (rev h) as [|b r] eqn:E.
    - reflexivity.
    - apply lstrip_nows. apply ishex_nows. rewrite Forall_forall in Hh. apply Hh.
      apply in_rev. rewrite E. left; auto. }
  rewrite L3. apply rev_involutive.
Qed.

(* everything the decoder needs to know about a size line *)
Lemma size_line_facts h n : size_line h n ->
  nolf (h ++ [x0d]) /\ strip (h ++ CRLF) = h /\ int16 h = IVal n.
Proof.
  intros (Hne & Hv). rewrite hexnum_eq in Hv. pose proof (hexval_ishex _ _ _ Hv) as Hh. repeat split.
  - apply Forall_app. split.
    + eapply Forall_impl; [|exact Hh]. intros b. apply ishex_nolf.
    + constructor; [discriminate|constructor].
  - now apply strip_line.
  - unfold int16. destruct h; [congruence|]. now rewrite Hv.
Qed.

Lemma nolf_prefix t v u : nolf u -> t ++ v = u -> nolf t.
Proof. intros H E. subst u. now apply Forall_app in H. Qed.

(* a strict prefix of  <line> CRLF  contains no LF *)
Lemma sprefix_line_nolf t v h : nolf (h ++ [x0d]) -> v <> [] -> t ++ v = h ++ CRLF -> nolf t.
Proof.
  intros Hh Hv E. destruct (exists_last Hv) as (v' & l & ->).
  unfold CRLF in E. change (h ++ [x0d; x0a]) with (h ++ [x0d] ++ [x0a]) in E.
  rewrite !app_assoc in E. apply app_inj_tail in E. destruct E as (E & _).
  eapply nolf_prefix; eauto.
Qed.

Section C12.
Variable dz : bytes -> bytes.

Notation dloop := (dechunk_loop dz).

(* ================= one iteration of dechunk ================= *)
Lemma dloop_stuck_line sl f t acc : nolf t -> dloop sl (S f) t acc = DOk acc t.
Proof.
  intro H. cbn [dechunk_loop]. rewrite (upto_lf_nolf _ H), (ends_crlf_nolf _ H). reflexivity.
Qed.

Lemma dloop_zero sl f z u acc : size_line z 0%N -> dloop sl (S f) (z ++ CRLF ++ u) acc = DOk acc [].
Proof.
  intro H. apply size_line_facts in H. destruct H as (Hn & Hs & Hi).
  cbn [dechunk_loop]. rewrite (upto_lf_line _ _ Hn), ends_crlf_line, Hs, Hi. reflexivity.
Qed.

(* a complete chunk that fits into the segment: the cap of the read does not bite *)
Lemma dloop_chunk sl f h b rest acc :
  size_line h (N.of_nat (length b)) -> b <> [] -> length b <= sl ->
  dloop sl (S f) (h ++ CRLF ++ b ++ CRLF ++ rest) acc = dloop sl f rest (acc ++ dz b).
Proof.
  intros H Hb Hle. apply size_line_facts in H. destruct H as (Hn & Hs & Hi).
  cbn [dechunk_loop]. rewrite (upto_lf_line _ _ Hn), ends_crlf_line, Hs, Hi. cbn [negb].
  destruct (N.of_nat (length b)) as [|p] eqn:En.
  { destruct b; [congruence|simpl in En; lia]. }
  rewrite <- En. cbv beta iota.
  assert (Hmin : N.min (N.of_nat (length b)) (N.of_nat sl) = N.of_nat (length b)) by (apply N.min_l; lia).
  rewrite Hmin, Nat2N.id, firstn_len_app, skipn_len_app.
  unfold CRLF at 1. cbn [app upto_lf]. change (Byte.eqb x0d x0a) with false. change (Byte.eqb x0a x0a) with true.
  cbv beta iota. rewrite N.eqb_refl. reflexivity.
Qed.

(* the input stops inside (or right after) the data of a chunk, or inside its terminating CRLF *)
Lemma dloop_stuck_body sl f h n b' acc :
  size_line h n -> n <> 0%N -> length b' <= sl ->
  (skipn (N.to_nat n) b' = [] \/ skipn (N.to_nat n) b' = [x0d]) ->
  dloop sl (S f) (h ++ CRLF ++ b') acc = DOk acc (h ++ CRLF ++ b').
Proof.
  intros H Hn0 Hle Hsk. apply size_line_facts in H. destruct H as (Hn & Hs & Hi).
  cbn [dechunk_loop]. rewrite (upto_lf_line _ _ Hn), ends_crlf_line, Hs, Hi. cbn [negb].
  destruct n as [|p]; [congruence|]. cbv beta iota.
  set (k := N.to_nat (N.min (N.pos p) (N.of_nat sl))).
  assert (Hsk' : skipn k b' = [] \/ skipn k b' = [x0d]).
  { destruct (N.le_gt_cases (N.pos p) (N.of_nat sl)) as [L|G].
    - replace k with (N.to_nat (N.pos p)); [exact Hsk|]. unfold k. now rewrite N.min_l.
    - left. apply skipn_all2. unfold k. rewrite N.min_r by lia. rewrite Nat2N.id. exact Hle. }
  assert (Hterm : upto_lf (skipn k b') = (skipn k b', []) /\ ends_lf (skipn k b') = false).
  { destruct Hsk' as [-> | ->]; split; reflexivity. }
  destruct Hterm as (Hu & He). rewrite Hu, He. cbn [negb]. rewrite orb_true_r.
  rewrite firstn_skipn, <- app_assoc. reflexivity.
Qed.

(* ================= a whole segment ================= *)
Definition sprefix (t u:bytes) : Prop := exists v, v <> [] /\ t ++ v = u.

(* [t] stops strictly inside the next protocol element *)
Definition stuck (t:bytes) (todo:list chunk) (last:option bytes) : Prop :=
  match todo with
  | c :: _ => sprefix t (render_chunk c)
  | [] => match last with Some z => sprefix t (z ++ CRLF) | None => t = [] end
  end.

Lemma dloop_stuck_chunk sl f c t acc : wf_chunk c -> sprefix t (render_chunk c) -> length t <= sl ->
  dloop sl (S f) t acc = DOk acc t.
Proof.
  intros (Hb & Hsz) (v & Hv & E) Hle. unfold render_chunk in E.
  pose proof (size_line_facts _ _ Hsz) as (Hn & _ & _).
  rewrite app_assoc in E. destruct (split_app _ _ _ _ E) as [(v1 & Hv1 & E1 & _)|(b' & -> & E2)].
  - apply dloop_stuck_line. eapply sprefix_line_nolf; eauto.
  - rewrite <- app_assoc. rewrite !app_length in Hle.
    apply dloop_stuck_body with (n := N.of_nat (length (body c))); auto.
    + destruct (body c); [congruence|simpl; lia].
    + lia.
    + rewrite Nat2N.id. destruct (split_app _ _ _ _ E2) as [(v2 & Hv2 & E3 & _)|(w & -> & E3)].
      * left. apply skipn_all2. rewrite <- E3, app_length. lia.
      * rewrite skipn_len_app. unfold CRLF in E3.
        destruct w as [|w0 [|w1 [|w2 w]]]; simpl in E3.
        -- left; auto.
        -- right. congruence.
        -- injection E3 as _ _ E3. congruence.
        -- discriminate.
Qed.

Lemma render_chunk_len c : 0 < length (render_chunk c).
Proof. unfold render_chunk, CRLF. rewrite !app_length. simpl. lia. Qed.

Lemma decoded_app a b : decoded dz (a ++ b) = decoded dz a ++ decoded dz b.
Proof. unfold decoded. now rewrite map_app, concat_app. Qed.

Lemma render_chunks_app a b : render_chunks (a ++ b) = render_chunks a ++ render_chunks b.
Proof. unfold render_chunks. now rewrite map_app, concat_app. Qed.

Lemma render_nil last : render [] last = render_last last.
Proof. reflexivity. Qed.
Lemma render_cons c cs last : render (c :: cs) last = render_chunk c ++ render cs last.
Proof. unfold render, render_chunks. cbn [map concat]. now rewrite <- app_assoc. Qed.
Lemma render_chunks_cons c cs : render_chunks (c :: cs) = render_chunk c ++ render_chunks cs.
Proof. reflexivity. Qed.
Lemma decoded_cons c cs : decoded dz (c :: cs) = dz (body c) ++ decoded dz cs.
Proof. reflexivity. Qed.
Lemma acc_decoded_nil (acc:bytes) : acc ++ decoded dz [] = acc.
Proof. unfold decoded. cbn [map concat]. apply app_nil_r. Qed.

(* dechunk on any prefix [x] of a well-formed chunked stream: all complete chunks are decoded, the
   incomplete tail is kept; or the last-chunk was seen and the rest of the segment is dropped *)
Lemma dloop_prefix last : wf_last last -> forall todo, Forall wf_chunk todo ->
  forall sl fuel x y acc, x ++ y = render todo last -> length x < fuel -> length x <= sl ->
  (exists done todo' t, todo = done ++ todo' /\ x = render_chunks done ++ t /\ stuck t todo' last /\
                        dloop sl fuel x acc = DOk (acc ++ decoded dz done) t)
  \/
  (exists z u, last = Some z /\ x = render_chunks todo ++ z ++ CRLF ++ u /\ u ++ y = CRLF /\
               dloop sl fuel x acc = DOk (acc ++ decoded dz todo) []).
Proof.
  intros Hl todo. induction todo as [|c todo IH]; intros Hwf sl fuel x y acc E Hf Hsl.
  - destruct fuel as [|f]; [lia|]. rewrite render_nil in E.
    destruct last as [z|]; unfold render_last in E.
    + rewrite app_assoc in E. destruct (split_app _ _ _ _ E) as [(v & Hv & E1 & E2)|(u & -> & E2)].
      * left. exists [], [], x. split; [reflexivity|]. split; [reflexivity|]. split; [exists v; auto|].
        rewrite acc_decoded_nil. apply dloop_stuck_line.
        pose proof (size_line_facts _ _ Hl) as (Hn & _). eapply sprefix_line_nolf; eauto.
      * right. exists z, u. split; [reflexivity|]. split; [|split; [exact E2|]].
        -- cbn [render_chunks map concat app]. now rewrite <- app_assoc.
        -- rewrite acc_decoded_nil, <- app_assoc. now apply dloop_zero.
    + apply app_eq_nil in E. destruct E as (-> & ->).
      left. exists [], [], []. split; [reflexivity|]. split; [reflexivity|]. split; [reflexivity|].
      rewrite acc_decoded_nil. apply dloop_stuck_line. constructor.
  - inversion Hwf as [|c' l' Hc Hwf']; subst.
    rewrite render_cons in E.
    destruct (split_app _ _ _ _ E) as [(v & Hv & E1 & E2)|(x' & -> & E2)].
    + left. exists [], (c :: todo), x. destruct fuel as [|f]; [lia|].
      split; [reflexivity|]. split; [reflexivity|]. split; [exists v; auto|].
      rewrite acc_decoded_nil. apply dloop_stuck_chunk with (c := c); auto. exists v; auto.
    + destruct fuel as [|f]; [lia|].
      assert (Hstep : dloop sl (S f) (render_chunk c ++ x') acc = dloop sl f x' (acc ++ dz (body c))).
      { destruct Hc as (Hb & Hsz). unfold render_chunk. rewrite <- !app_assoc. apply dloop_chunk; auto.
        unfold render_chunk in Hsl. rewrite !app_length in Hsl. lia. }
      assert (Hf' : length x' < f).
      { rewrite app_length in Hf. pose proof (render_chunk_len c). lia. }
      assert (Hsl' : length x' <= sl) by (rewrite app_length in Hsl; lia).
      destruct (IH Hwf' sl f x' y (acc ++ dz (body c)) E2 Hf' Hsl')
        as [(done & todo' & t & Et & Ex & Hst & Hd)|(z & u & El & Ex & Eu & Hd)].
      * left. exists (c :: done), todo', t. split; [|split; [|split; [exact Hst|]]].
        -- rewrite Et. reflexivity.
        -- rewrite render_chunks_cons, <- app_assoc. f_equal. exact Ex.
        -- rewrite Hstep, Hd, decoded_cons. now rewrite <- app_assoc.
      * right. exists z, u. split; [exact El|]. split; [|split; [exact Eu|]].
        -- rewrite render_chunks_cons, <- app_assoc. f_equal. exact Ex.
        -- rewrite Hstep, Hd, decoded_cons. now rewrite <- app_assoc.
Qed.

(* ================= the receive loop ================= *)
Notation recv := (recv true dz).

Fixpoint feed_loop (n:nat) (s:sock) : sock :=
  match n with O => s | S n' => feed_loop n' (snd (recv s)) end.

(* one _recv per segment, starting from an empty wrapper *)
Definition feed (segs:list bytes) : sock :=
  feed_loop (length segs) {| buf := []; partial := []; evs := map Data segs; unm := false |}.

Definition delivered (s:sock) : bytes := buf s.

(* the constructor performs the first _recv *)
Lemma feed_sock_init d segs :
  feed (d :: segs) = feed_loop (length segs) (sock_init true dz (map Data (d :: segs))).
Proof. reflexivity. Qed.

(* what is left after the last-chunk line: a suffix of the final CRLF *)
Definition tailset (l:bytes) : Prop := l = [] \/ l = [x0a] \/ l = CRLF.

(* state after receiving [got], with [rest] still to come and [out] already handed out by read() *)
Inductive inv (chunks:list chunk) (last:option bytes) (out got rest:bytes) (s:sock) : Prop :=
| IMid done todo :
    chunks = done ++ todo -> out ++ buf s = decoded dz done ->
    got = render_chunks done ++ partial s -> stuck (partial s) todo last ->
    inv chunks last out got rest s
| IEnd z u :
    last = Some z -> out ++ buf s = decoded dz chunks ->
    got = render_chunks chunks ++ z ++ CRLF ++ u -> tailset (partial s ++ rest) ->
    inv chunks last out got rest s.

Ltac list_cases :=
  repeat match goal with
  | H : _ \/ _ |- _ => destruct H
  | H : [] = _ :: _ |- _ => discriminate H
  | H : _ :: _ = [] |- _ => discriminate H
  | H : _ :: _ = _ :: _ |- _ => injection H as ? ?; subst
  | H : [] = [] |- _ => clear H
  | H : ?l ++ _ = _ |- _ => is_var l; destruct l; simpl in H
  | H : ?l = [] |- _ => is_var l; subst l
  | H : ?l = _ :: _ |- _ => is_var l; subst l
  end.

Lemma tail_cases p d y : tailset (p ++ d ++ y) -> d <> [] ->
  (p = [] /\ d = [x0a] /\ y = []) \/ (p = [] /\ d = [x0d] /\ y = [x0a]) \/
  (p = [] /\ d = CRLF /\ y = []) \/ (p = [x0d] /\ d = [x0a] /\ y = []).
Proof.
  unfold tailset, CRLF. intros H Hd.
  destruct d as [|d0 d]; [congruence|]. clear Hd.
  list_cases; auto 10.
Qed.

Lemma recv_step chunks last out got d rest s r :
  wf_chunked chunks last -> got ++ d ++ rest = render chunks last -> d <> [] ->
  evs s = Data d :: r -> inv chunks last out got (d ++ rest) s ->
  exists s', recv s = (true, s') /\ evs s' = r /\ unm s' = unm s /\ inv chunks last out (got ++ d) rest s'.
Proof.
  intros (Hwf & Hl) Etot Hd Ev Hinv. unfold Socket.recv. rewrite Ev.
  destruct d as [|d0 d1] eqn:Ed; [congruence|]. rewrite <- Ed in *. clear Hd.
  assert (Hd : d <> []) by (rewrite Ed; discriminate). clear Ed d0 d1.
  destruct Hinv as [done todo Ec Eb Eg Hst|z u El Eb Eg Ht].
  - (* between chunks / inside a chunk *)
    assert (Ewf : Forall wf_chunk todo) by (rewrite Ec in Hwf; now apply Forall_app in Hwf).
    assert (Exy : (partial s ++ d) ++ rest = render todo last).
    { rewrite Eg, Ec in Etot. unfold render in Etot. rewrite render_chunks_app in Etot.
      rewrite <- !app_assoc in Etot. apply app_inv_head in Etot. rewrite <- app_assoc. exact Etot. }
    unfold dechunk.
    destruct (dloop_prefix last Hl todo Ewf (length (partial s ++ d)) (S (length (partial s ++ d)))
                (partial s ++ d) rest [] Exy (Nat.lt_succ_diag_r _) (Nat.le_refl _))
      as [(done' & todo' & t & Et & Ex & Hst' & Hdl)|(z & u & El & Ex & Eu & Hdl)].
    + rewrite Hdl. eexists. split; [reflexivity|]. simpl. repeat split; auto.
      apply IMid with (done := done ++ done') (todo := todo'); simpl.
      * rewrite Ec, Et. now rewrite app_assoc.
      * rewrite app_assoc, Eb. now rewrite decoded_app.
      * rewrite Eg, render_chunks_app, <- !app_assoc. f_equal. exact Ex.
      * exact Hst'.
    + rewrite Hdl. eexists. split; [reflexivity|]. simpl. repeat split; auto.
      apply IEnd with (z := z) (u := u); simpl; auto.
      * rewrite app_assoc, Eb, Ec. now rewrite decoded_app.
      * rewrite Eg, Ec, render_chunks_app, <- !app_assoc. f_equal. exact Ex.
      * unfold tailset, CRLF in *.
        destruct u as [|u0 [|u1 [|u2 u]]]; simpl in Eu.
        -- right; right; auto.
        -- right; left. congruence.
        -- left. congruence.
        -- discriminate.
  - (* after the last-chunk: only (pieces of) the final CRLF can arrive *)
    destruct (tail_cases _ _ _ Ht Hd) as [(Ep & -> & ->)|[(Ep & -> & ->)|[(Ep & -> & ->)|(Ep & -> & ->)]]];
      rewrite Ep.
    + eexists. split; [reflexivity|]. simpl. repeat split; auto.
      apply IEnd with (z := z) (u := u ++ [x0a]); simpl; auto.
      * now rewrite app_nil_r.
      * rewrite Eg, <- !app_assoc. reflexivity.
      * right; left; auto.
    + eexists. split; [reflexivity|]. simpl. repeat split; auto.
      apply IEnd with (z := z) (u := u ++ [x0d]); simpl; auto.
      * now rewrite app_nil_r.
      * rewrite Eg, <- !app_assoc. reflexivity.
      * right; right; auto.
    + eexists. split; [reflexivity|]. simpl. repeat split; auto.
      apply IEnd with (z := z) (u := u ++ CRLF); simpl; auto.
      * now rewrite app_nil_r.
      * rewrite Eg, <- !app_assoc. reflexivity.
      * left; auto.
    + eexists. split; [reflexivity|]. simpl. repeat split; auto.
      apply IEnd with (z := z) (u := u ++ [x0a]); simpl; auto.
      * now rewrite app_nil_r.
      * rewrite Eg, <- !app_assoc. reflexivity.
      * left; auto.
Qed.

Lemma feed_loop_inv chunks last out : wf_chunked chunks last ->
  forall segs got rest s,
  Forall (fun d => d <> []) segs -> got ++ concat segs ++ rest = render chunks last ->
  evs s = map Data segs -> inv chunks last out got (concat segs ++ rest) s ->
  let s' := feed_loop (length segs) s in
  evs s' = [] /\ unm s' = unm s /\ inv chunks last out (got ++ concat segs) rest s'.
Proof.
  intros Hwf segs. induction segs as [|d segs IH]; intros got rest s Hne Etot Ev Hinv; simpl.
  - simpl in *. rewrite app_nil_r. auto.
  - inversion Hne as [|d' l' Hd Hne']; subst. simpl in *. rewrite <- app_assoc in *.
    destruct (recv_step chunks last out got d (concat segs ++ rest) s (map Data segs) Hwf Etot Hd Ev Hinv)
      as (s1 & R & Ev1 & Un1 & Hinv1).
    rewrite R. simpl.
    assert (Etot1 : (got ++ d) ++ concat segs ++ rest = render chunks last) by (now rewrite <- app_assoc).
    destruct (IH (got ++ d) rest s1 Hne' Etot1 Ev1 Hinv1) as (E1 & E2 & E3).
    split; auto. split; [congruence|]. now rewrite <- app_assoc in E3.
Qed.

Lemma stuck_nil todo last : Forall wf_chunk todo -> wf_last last -> stuck [] todo last.
Proof.
  intros Hwf Hl. unfold stuck. destruct todo as [|c todo].
  - destruct last as [z|]; auto. exists (z ++ CRLF). split; auto.
    destruct Hl as (Hz & _). destruct z; [congruence|discriminate].
  - exists (render_chunk c). split; auto. pose proof (render_chunk_len c). destruct (render_chunk c); simpl in *; [lia|discriminate].
Qed.

(* ================= C12 ================= *)

(* after any prefix of the stream, cut into segments anywhere *)
Theorem C12_prefix chunks last segs rest :
  wf_chunked chunks last -> concat segs ++ rest = render chunks last -> Forall (fun s => s <> []) segs ->
  unm (feed segs) = false /\ evs (feed segs) = [] /\
  ((exists done todo, chunks = done ++ todo /\ delivered (feed segs) = decoded dz done /\
                      concat segs = render_chunks done ++ partial (feed segs) /\
                      stuck (partial (feed segs)) todo last)
   \/
   (exists z u, last = Some z /\ delivered (feed segs) = decoded dz chunks /\
                concat segs = render_chunks chunks ++ z ++ CRLF ++ u)).
Proof.
  intros Hwf E Hne. unfold feed.
  pose (s0 := {| buf := []; partial := []; evs := map Data segs; unm := false |}).
  assert (Hinv0 : inv chunks last [] [] (concat segs ++ rest) s0).
  { apply IMid with (done := []) (todo := chunks); auto. destruct Hwf. now apply stuck_nil. }
  destruct (feed_loop_inv chunks last [] Hwf segs [] rest s0 Hne E eq_refl Hinv0) as (E1 & E2 & Hinv).
  fold s0. split; [exact E2|]. split; [exact E1|]. simpl in Hinv.
  destruct Hinv as [done todo Ec Eb Eg Hst|z u El Eb Eg Ht].
  - left. exists done, todo. auto.
  - right. exists z, u. auto.
Qed.

(* the whole stream: every placement of the receive boundaries delivers exactly the decoded bodies *)
Theorem C12_segmentation chunks last segs :
  wf_chunked chunks last -> concat segs = render chunks last -> Forall (fun s => s <> []) segs ->
  delivered (feed segs) = decoded dz chunks /\ unm (feed segs) = false.
Proof.
  intros Hwf E Hne.
  assert (E' : concat segs ++ [] = render chunks last) by (now rewrite app_nil_r).
  destruct (C12_prefix chunks last segs [] Hwf E' Hne) as (Un & _ & H). split; auto.
  destruct H as [(done & todo & Ec & Ed & Eg & Hst)|(z & u & _ & Ed & _)]; auto.
  rewrite Ed. rewrite Ec, E in *. unfold render in Eg. rewrite render_chunks_app, <- app_assoc in Eg.
  apply app_inv_head in Eg. unfold stuck in Hst.
  destruct todo as [|c todo].
  - now rewrite app_nil_r.
  - exfalso. destruct Hst as (v & Hv & Ev). unfold render_chunks in Eg. simpl in Eg.
    rewrite <- Eg, <- Ev in Ev. apply (f_equal (@length _)) in Ev. rewrite !app_length in Ev.
    destruct v; [congruence|simpl in Ev; lia].
Qed.

End C12.

Print Assumptions dloop_prefix.
Print Assumptions recv_step.
Print Assumptions C12_prefix.
Print Assumptions C12_segmentation.
