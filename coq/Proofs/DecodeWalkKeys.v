(* The lock-step theorem of DecodeWalk.v, with the field-step hypothesis required only for the field keys
   that actually occur in the layout (Spec.Layouts.keys_body). *)
From Coq Require Import NArith ZArith List String Bool Lia.
From PyRtcm Require Import Base.Bytes Base.Dec Model.Types Model.Message Spec.FieldGrammar Spec.Layouts.
From PyRtcm Require Import Proofs.DecodeWalk.
Import ListNotations.
Open Scope list_scope.
Open Scope Z_scope.

Lemma keys_body_nil : keys_body (BItems []) = [].
Proof. reflexivity. Qed.

Lemma keys_body_cons lbl it r : keys_body (BItems ((lbl, it) :: r)) = keys_item lbl it ++ keys_body (BItems r).
Proof. reflexivity. Qed.

Lemma keys_item_field lbl k : keys_item lbl (IField k) = [lbl].
Proof. reflexivity. Qed.

Section SimK.
Variable T : tables.
Variable ident : string.
Variable R : st -> st -> Prop.
Variable full : bool.
Variable Pk : string -> Prop.

Hypothesis H_single : forall anam idx s s', Pk anam -> R s s' ->
  osim R full (set_single T ident anam idx s) (set_single T ident anam idx s').
Hypothesis H_getattr : forall k s s', R s s' ->
  osim ctl_rel full (getattr (fst s) k) (getattr (fst s') k).

Lemma simk_walk :
  (forall it lbl idx s s', Forall Pk (keys_item lbl it) -> R s s' ->
     osim R full (dec_item T ident lbl it idx s) (dec_item T ident lbl it idx s')) /\
  (forall b idx s s', Forall Pk (keys_body b) -> R s s' ->
     osim R full (dec_body T ident b idx s) (dec_body T ident b idx s')).
Proof.
  apply item_body_ind.
  - intros k lbl idx s s' K Rs. rewrite !dec_item_field. apply H_single; [|exact Rs].
    rewrite keys_item_field in K. inversion K. assumption.
  - intros w lbl idx s s' _ Rs. cbn. auto.
  - intros c b IHb lbl idx s s' K Rs. rewrite !dec_item_group.
    eapply osim_bind; [apply (sim_group_size R full H_getattr), Rs|]. intros n n' <-.
    destruct (max_count <? n); [cbn; auto|].
    apply sim_rep; [|exact Rs]. intros idx0 s0 s0' Rs0. apply IHb; [exact K|exact Rs0].
  - intros k con b IHb lbl idx s s' K Rs. rewrite !dec_item_opt.
    eapply osim_bind; [apply H_getattr, Rs|].
    intros v v' [<-|[a [b' [-> ->]]]].
    + destruct v as [z|f|str].
      * destruct (z =? con); [apply IHb; [exact K|exact Rs]|apply osim_ok, Rs].
      * cbn. auto.
      * apply osim_ok, Rs.
    + apply osim_ok, Rs.
  - intros l IHl idx s s' K Rs. rewrite !dec_body_items.
    revert s s' Rs K. induction IHl as [|[lbl it] r Hit Hr IHr]; intros s s' Rs K.
    + rewrite !dec_items_nil. apply osim_ok, Rs.
    + rewrite keys_body_cons in K. apply Forall_app in K. destruct K as [K1 K2].
      rewrite !dec_items_cons. eapply osim_bind; [apply Hit; [exact K1|exact Rs]|].
      intros a b Rab. apply IHr; [exact Rab|exact K2].
  - intros w idx s s' _ Rs. cbn. auto.
Qed.

Definition simk_body := proj2 simk_walk.
Definition simk_item := proj1 simk_walk.
End SimK.
