(* C03 round trip against the encoder specification: index and assumption audit.
     Spec/Encoder.v              the encoder (lay_out), pack, public
     Proofs/RoundtripBase.v      bits_pack, bits_of_uint, popcount_uint, primitive correspondences
     Proofs/DecodeRoundtrip.v    decode_roundtrip (+ _state, _public), roundtrip_trailing
     Proofs/RoundtripOccur.v     attr_names_are_trace, one_attr_per_occurrence
     Proofs/RoundtripChange.v    single_field_change (+ _parsed)
     Proofs/RoundtripExamples.v  non-vacuity on two hand-made tables *)
From PyRtcm Require Export Proofs.RoundtripBase Proofs.DecodeRoundtrip Proofs.RoundtripOccur Proofs.RoundtripChange
                           Proofs.RoundtripExamples.

Print Assumptions bits_pack.
Print Assumptions bits_of_uint.
Print Assumptions popcount_uint.
Print Assumptions slice_written.
Print Assumptions decode_roundtrip_state.
Print Assumptions decode_roundtrip.
Print Assumptions decode_roundtrip_public.
Print Assumptions roundtrip_trailing.
Print Assumptions attr_names_are_trace.
Print Assumptions one_attr_per_occurrence.
Print Assumptions attrs_in_trace_order.
Print Assumptions occ_wf_b_sound.
Print Assumptions single_field_change.
Print Assumptions single_field_change_parsed.
Print Assumptions roundtrip1.
Print Assumptions roundtrip2_rinex.
Print Assumptions roundtrip2_band.
Print Assumptions occurrences1.
Print Assumptions occurrences2.
Print Assumptions change1.
