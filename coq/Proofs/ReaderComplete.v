(* Completeness of the stream reader (properties C02 and C05), over the fault-free file stream:
   for EVERY list of well-formed items (Spec/Items.v) -- RTCM3 frames, complete NMEA sentences, complete
   UBX messages, non-sync noise, CRC-detectably damaged frames -- the reader model of Model/Reader.v,
   run on the concatenated rendering, behaves exactly as the item list prescribes.

   Numbered theorems (all inside Section Complete; after the section they are quantified over the message
   constructor `construct`, the NMEA header list (hypothesis nmea_hdr_ok) and the CRC self-check law Hcrc,
   which Proofs/CrcProofs.crc_self_check discharges through Hcrc_of_self_check below):
     iterate_trace              master statement: iteration = Items.trace, all error modes, any constructor
     C02_complete               (1)  + corollaries zero_length_frame_skipped, max_length_frame
     C05_ignore_log             (2)
     C05_raise                  (3)  + corollary C05_raise_yields
   Structure: computation lemmas for the file stream, one lemma per item kind for one loop pass (the attempt_X lemmas),
   read_spec (one read() call = spec_read on the item list, with explicit fuel accounting), then
   iterate / run_reads by induction on the number of calls. *)
From Coq Require Import NArith ZArith List Lia Bool.
From Coq.Strings Require Import Byte.
From PyRtcm Require Import Base.Bytes Model.Types Model.Crc Model.Reader Spec.Items.
Import ListNotations.
Local Open Scope nat_scope.

(* ---------- arithmetic of the length fields ---------- *)
Lemma bN_byte_of_mod n : bN (byte_of_N n) = (n mod 256)%N.
Proof.
  unfold byte_of_N, bN.
  assert (Hm : (n mod 256 < 256)%N) by (apply N.mod_lt; discriminate).
  destruct (Byte.of_N (n mod 256)) eqn:E.
  - now apply Byte.to_of_N.
  - apply Byte.of_N_None_iff in E. lia.
Qed.

Lemma len_bytes n : (N.of_nat n < 65536)%N ->
  (bN (len_hi n) * 256 + bN (len_lo n))%N = N.of_nat n.
Proof.
  intro H. unfold len_hi, len_lo. rewrite !bN_byte_of_mod.
  assert (H1 : (N.of_nat n / 256 < 256)%N) by (apply N.div_lt_upper_bound; lia).
  rewrite (N.mod_small _ _ H1). pose proof (N.div_mod (N.of_nat n) 256). lia.
Qed.

Lemma len_hi_lt4 n : n <= 1023 -> (bN (len_hi n) < 4)%N.
Proof.
  intro H. unfold len_hi. rewrite bN_byte_of_mod.
  assert (H1 : (N.of_nat n / 256 < 4)%N) by (apply N.div_lt_upper_bound; lia).
  rewrite N.mod_small; lia.
Qed.

Lemma lor_shift8 a b : (b < 256)%N -> N.lor (N.shiftl a 8) b = (a * 256 + b)%N.
Proof.
  intro H.
  assert (E : N.land (N.shiftl a 8) b = 0%N).
  { apply N.bits_inj_0. intro n. rewrite N.land_spec.
    destruct (N.lt_ge_cases n 8) as [L|G].
    - now rewrite N.shiftl_spec_low.
    - rewrite <- (N.mod_small b (2^8)) by exact H.
      rewrite N.mod_pow2_bits_high by exact G. apply andb_false_r. }
  rewrite <- N.lxor_lor by exact E. rewrite <- N.add_nocarry_lxor by exact E.
  now rewrite N.shiftl_mul_pow2.
Qed.

Lemma land252 a : (a < 4)%N -> N.land a 252 = 0%N.
Proof.
  intro H. assert (a = 0 \/ a = 1 \/ a = 2 \/ a = 3)%N as [E|[E|[E|E]]] by lia; subst; reflexivity.
Qed.

(* ---------- the fault-free file stream ---------- *)
Lemma firstn_app_len {A} (a b:list A) n : length a = n -> firstn n (a ++ b) = a.
Proof. intros <-. rewrite firstn_app, Nat.sub_diag, firstn_all. cbn [firstn]. apply app_nil_r. Qed.

Lemma skipn_app_len {A} (a b:list A) n : length a = n -> skipn n (a ++ b) = b.
Proof. intros <-. rewrite skipn_app, Nat.sub_diag, skipn_all. reflexivity. Qed.

Lemma f_read_full n a b : length a = n -> f_read n (file_stream (a ++ b)) = (a, file_stream b).
Proof.
  intro H. unfold f_read, file_stream, pop_dir. cbn [sched rest].
  now rewrite (firstn_app_len a b n H), (skipn_app_len a b n H).
Qed.

Lemma read_bytes_full n a b : length a = n ->
  read_bytes file_ops n (file_stream (a ++ b)) = (ROk a, file_stream b).
Proof.
  intro H. unfold read_bytes. cbn [s_read file_ops]. rewrite (f_read_full n a b H). rewrite H.
  destruct n; [reflexivity|]. cbn [Nat.eqb andb]. now rewrite Nat.ltb_irrefl, andb_false_r.
Qed.

Lemma read_bytes_1 b r : read_bytes file_ops 1 (file_stream (b :: r)) = (ROk [b], file_stream r).
Proof. exact (read_bytes_full 1 [b] r eq_refl). Qed.

Lemma read_bytes_eof : read_bytes file_ops 1 (file_stream []) = (RExc EEOF, file_stream []).
Proof. reflexivity. Qed.

Lemma upto_lf_body body r : ~ In x0a body -> upto_lf (body ++ x0a :: r) = (body ++ [x0a], r).
Proof.
  induction body as [|b body IH]; intro H.
  - reflexivity.
  - cbn [app upto_lf]. destruct (Byte.eqb b x0a) eqn:E.
    + apply Byte.byte_dec_bl in E. subst. exfalso. apply H. now left.
    + rewrite IH; [reflexivity|]. intro K. apply H. now right.
Qed.

Lemma read_line_full body r : ~ In x0a body ->
  read_line file_ops (file_stream (body ++ x0a :: r)) = (ROk (body ++ [x0a]), file_stream r).
Proof.
  intro H. unfold read_line. cbn [s_readline file_ops]. unfold f_readline, file_stream, pop_dir.
  cbn [sched rest]. rewrite (upto_lf_body body r H). rewrite rev_app_distr. reflexivity.
Qed.

(* ---------- header tests ---------- *)
Lemma beq_refl a : beq a a = true.
Proof. unfold beq. destruct (list_eq_dec Byte.byte_eq_dec a a); congruence. Qed.

Lemma beq_neq a b : a <> b -> beq a b = false.
Proof. intro H. unfold beq. destruct (list_eq_dec Byte.byte_eq_dec a b); congruence. Qed.

Lemma is_sync_false b : not_sync b -> is_sync [b] = false.
Proof.
  intros (H1 & H2 & H3). unfold is_sync. rewrite !beq_neq; [reflexivity| | |]; congruence.
Qed.
Lemma is_sync_d3 : is_sync [xd3] = true.
Proof. unfold is_sync. rewrite (beq_refl [xd3]). now rewrite !orb_true_r. Qed.
Lemma is_sync_b5 : is_sync [xb5] = true.
Proof. unfold is_sync. now rewrite (beq_refl [xb5]). Qed.
Lemma is_sync_24 : is_sync [x24] = true.
Proof. unfold is_sync. rewrite (beq_refl [x24]). now rewrite orb_true_r. Qed.

Lemma existsb_nmea_false nmea_hdr b1 b2 : nmea_hdr_ok nmea_hdr -> b1 <> x24 ->
  existsb (beq [b1; b2]) nmea_hdr = false.
Proof.
  intros H Hb. induction H as [|h l [t Ht] _ IH]; [reflexivity|].
  cbn [existsb]. rewrite IH, orb_false_r. apply beq_neq. subst h. congruence.
Qed.

Lemma existsb_nmea_true (nmea_hdr:list bytes) t : In [x24; t] nmea_hdr ->
  existsb (beq [x24; t]) nmea_hdr = true.
Proof. intro H. apply existsb_exists. exists [x24; t]. split; [exact H|apply beq_refl]. Qed.

(* the form of the CRC self-check law used below follows from the form proved in Proofs/CrcProofs.v *)
Lemma Hcrc_of_self_check :
  (forall m c, crc2bytes m = Some c -> calc_crc24q (m ++ c) = 0%N) ->
  forall m, calc_crc24q (m ++ to_be 3 (calc_crc24q m)) = 0%N.
Proof. intros H m. apply H. apply crc2bytes_total. Qed.

Section Complete.
Context {M:Type}.
Variable construct : bytes -> Z -> outcome M.
Variable nmea_hdr : list bytes.
Hypothesis Hnmea : nmea_hdr_ok nmea_hdr.
Hypothesis Hcrc : forall m, calc_crc24q (m ++ to_be 3 (calc_crc24q m)) = 0%N.

Notation fs := file_stream.
Notation att := (attempt file_ops construct nmea_hdr [xb5; x62] 1).
Notation rd := (read file_ops construct nmea_hdr [xb5; x62] 1 2 1).

(* ---------- one loop pass per kind of input ---------- *)
Lemma attempt_eof c : att c (fs []) = (RExc EEOF, fs []).
Proof. reflexivity. Qed.

Lemma attempt_noise c b r : not_sync b -> att c (fs (b :: r)) = (ROk None, fs r).
Proof.
  intro H. unfold attempt. rewrite read_bytes_1. cbn [bind]. now rewrite (is_sync_false b H).
Qed.

Lemma attempt_nmea c t body r : In [x24; t] nmea_hdr -> ~ In x0a body ->
  att c (fs ([x24; t] ++ body ++ x0a :: r)) = (ROk None, fs r).
Proof.
  intros Hin Hlf. unfold attempt. cbn [app]. rewrite !read_bytes_1. cbn [bind app].
  rewrite is_sync_24. cbn [negb]. rewrite read_bytes_1. cbn [bind app].
  rewrite beq_neq by congruence. rewrite (existsb_nmea_true _ _ Hin).
  unfold parse_nmea. rewrite (read_line_full body r Hlf). reflexivity.
Qed.

Lemma attempt_ubx c cls id pl ck r : (N.of_nat (length pl) < 65536)%N -> length ck = 2 ->
  att c (fs ([xb5; x62; cls; id; len_lo (length pl); len_hi (length pl)] ++ pl ++ ck ++ r)) = (ROk None, fs r).
Proof.
  intros Hpl Hck. unfold attempt. cbn [app]. rewrite read_bytes_1. cbn [bind].
  rewrite is_sync_b5. cbn [negb]. rewrite read_bytes_1. cbn [bind app].
  rewrite beq_refl. unfold parse_ubx.
  pose proof (read_bytes_full 4 [cls; id; len_lo (length pl); len_hi (length pl)] (pl ++ ck ++ r) eq_refl) as E.
  cbn [app] in E. rewrite E. clear E.
  cbn [bind nth].
  replace (N.to_nat (bN (len_lo (length pl)) + 256 * bN (len_hi (length pl)))) with (length pl)
    by (pose proof (len_bytes _ Hpl); lia).
  rewrite app_assoc. rewrite (read_bytes_full (length pl + 2) (pl ++ ck) r).
  - reflexivity.
  - rewrite app_length. lia.
Qed.

Lemma parse_good c p : parse construct 1 (validate c) (labelmsm c) (frame p) = construct p (labelmsm c).
Proof.
  unfold parse. unfold frame at 1. rewrite app_assoc. unfold frame_crc. rewrite Hcrc.
  cbn [N.eqb negb]. rewrite andb_false_r.
  f_equal. unfold frame, frame_head. cbn [app skipn length].
  rewrite app_length. unfold frame_crc at 1. rewrite to_be_length.
  replace (S (S (S (length p + 3))) - 6) with (length p) by lia.
  apply firstn_app_len. reflexivity.
Qed.

Lemma parse_damaged c m : Z.land (validate c) 1 <> 0%Z -> calc_crc24q m <> 0%N ->
  parse construct 1 (validate c) (labelmsm c) m = Lib EParse.
Proof.
  intros Hv Hm. unfold parse.
  apply Z.eqb_neq in Hv. apply N.eqb_neq in Hm. now rewrite Hv, Hm.
Qed.

(* any byte sequence with an intact RTCM3 header and enough bytes behind it *)
Lemma attempt_rtcm c b1 b2 pl crc r :
  parsed c = true -> (bN b1 < 4)%N -> length pl = N.to_nat (bN b1 * 256 + bN b2) -> length crc = 3 ->
  att c (fs (xd3 :: b1 :: b2 :: pl ++ crc ++ r)) =
    (match of_outcome (parse construct 1 (validate c) (labelmsm c) (xd3 :: b1 :: b2 :: pl ++ crc)) with
     | ROk m => ROk (Some (xd3 :: b1 :: b2 :: pl ++ crc, Some m))
     | RExc e => RExc e
     end, fs r).
Proof.
  intros Hp Hb Hl Hc. unfold attempt. rewrite read_bytes_1. cbn [bind].
  rewrite is_sync_d3. cbn [negb]. rewrite read_bytes_1. cbn [bind app].
  rewrite beq_neq by congruence. rewrite (existsb_nmea_false _ _ _ Hnmea) by congruence.
  rewrite beq_refl. cbn [nth]. rewrite (land252 _ Hb). cbn [N.eqb andb].
  unfold parse_rtcm3. rewrite read_bytes_1. cbn [bind nth].
  rewrite lor_shift8 by apply bN_lt. rewrite <- Hl.
  rewrite (read_bytes_full (length pl) pl (crc ++ r) eq_refl). cbn [bind].
  rewrite (read_bytes_full 3 crc r Hc). cbn [bind]. rewrite Hp. cbn [app].
  destruct (of_outcome _); reflexivity.
Qed.

Lemma attempt_frame c p r : parsed c = true -> length p <= 1023 ->
  att c (fs (frame p ++ r)) =
    (match construct p (labelmsm c) with
     | Ok m => ROk (Some (frame p, Some m))
     | Lib e => RExc (ELib e)
     | Foreign k => RExc (EForeign k)
     | Unmodelled w => RExc (EUnm w)
     end, fs r).
Proof.
  intros Hp Hl.
  assert (E : frame p = xd3 :: len_hi (length p) :: len_lo (length p) :: p ++ frame_crc p) by reflexivity.
  rewrite E at 1. cbn [app]. rewrite <- app_assoc.
  rewrite (attempt_rtcm c _ _ p (frame_crc p) r Hp (len_hi_lt4 _ Hl)).
  - rewrite <- E, parse_good. destruct (construct p (labelmsm c)); reflexivity.
  - rewrite len_bytes by lia. now rewrite Nat2N.id.
  - apply to_be_length.
Qed.

Lemma attempt_damaged c b1 b2 body r :
  parsed c = true -> Z.land (validate c) 1 <> 0%Z ->
  (bN b1 < 4)%N -> length body = N.to_nat (bN b1 * 256 + bN b2) + 3 ->
  calc_crc24q ([xd3; b1; b2] ++ body) <> 0%N ->
  att c (fs (([xd3; b1; b2] ++ body) ++ r)) = (RExc (ELib EParse), fs r).
Proof.
  intros Hp Hv Hb Hl Hcr.
  set (n := N.to_nat (bN b1 * 256 + bN b2)) in *.
  rewrite <- (firstn_skipn n body) in Hcr |- *.
  cbn [app] in Hcr |- *. rewrite <- app_assoc.
  rewrite (attempt_rtcm c b1 b2 (firstn n body) (skipn n body) r Hp Hb).
  - now rewrite (parse_damaged c _ Hv Hcr).
  - rewrite firstn_length. lia.
  - rewrite skipn_length. lia.
Qed.

(* ---------- one read() call against the item list ---------- *)
(* loop passes used by an item *)
Definition passes (it:item) : nat := match it with INoise bs => length bs | _ => 1 end.
Definition cost (items:list item) : nat := list_sum (map passes items).

Definition on_err (q:Z) (e:liberr) (k:list liberr * rd_result M * list item) (r:list item)
  : list liberr * rd_result M * list item :=
  if Z.eqb q 0 then k
  else if Z.eqb q 2 then ([], RRaise e, r)
  else if Z.eqb q 1 then let '(h, res, r') := k in (e :: h, res, r')
  else k.

(* handler calls, result and unread items of one read() *)
Fixpoint spec_read (c:cfg) (items:list item) : list liberr * rd_result M * list item :=
  match items with
  | [] => ([], REnd, [])
  | IFrame p :: r =>
      match construct p (labelmsm c) with
      | Ok m => ([], RYield (frame p) (Some m), r)
      | Lib e => on_err (quitonerror c) e (spec_read c r) r
      | Foreign k => ([], RForeign k, r)
      | Unmodelled w => ([], RUnmodelled w, r)
      end
  | IDamaged _ _ _ :: r => on_err (quitonerror c) EParse (spec_read c r) r
  | _ :: r => spec_read c r
  end.

(* well-formed, and damaged frames only when CRC validation is switched on *)
Definition ok (c:cfg) (it:item) : Prop :=
  wf_item nmea_hdr it /\ (is_damaged it = true -> Z.land (validate c) 1 <> 0%Z).

Lemma stream_of_cons it r : stream_of (it :: r) = render it ++ stream_of r.
Proof. reflexivity. Qed.

Lemma cost_cons it r : cost (it :: r) = passes it + cost r.
Proof. reflexivity. Qed.

Lemma read_noise c bs f r : Forall not_sync bs -> rd c (length bs + f) (fs (bs ++ r)) = rd c f (fs r).
Proof.
  induction 1 as [|b bs Hb _ IH]; [reflexivity|].
  cbn [length plus app read]. rewrite (attempt_noise c b _ Hb). exact IH.
Qed.

Lemma read_on_err c f e r k :
  rd c f (fs (stream_of r)) = (let '(h, res, r') := k in (h, res, fs (stream_of r'))) ->
  (if Z.eqb (quitonerror c) 0 then rd c f (fs (stream_of r))
   else if Z.eqb (quitonerror c) 2 then ([], RRaise e, fs (stream_of r))
   else if Z.eqb (quitonerror c) 1 then
     let '(h, res, s'') := rd c f (fs (stream_of r)) in (e :: h, res, s'')
   else rd c f (fs (stream_of r))) =
  (let '(h, res, r') := on_err (quitonerror c) e k r in (h, res, fs (stream_of r'))).
Proof.
  intro H. unfold on_err. rewrite H.
  destruct (Z.eqb (quitonerror c) 0); [reflexivity|].
  destruct (Z.eqb (quitonerror c) 2); [reflexivity|].
  destruct (Z.eqb (quitonerror c) 1); [|reflexivity].
  destruct k as [[h res] r']. reflexivity.
Qed.

Lemma read_spec c : parsed c = true -> forall items fuel,
  Forall (ok c) items -> cost items < fuel ->
  rd c fuel (fs (stream_of items)) =
    (let '(h, res, r') := spec_read c items in (h, res, fs (stream_of r'))).
Proof.
  intros Hp. induction items as [|it r IH]; intros fuel Hok Hf.
  - destruct fuel; [lia|]. reflexivity.
  - inversion Hok as [|? ? [Hwf Hdam] Hok']; subst. rewrite cost_cons in Hf. rewrite stream_of_cons.
    destruct it as [p|t body|cls id pl ck|bs|b1 b2 body]; cbn [passes] in Hf.
    + destruct fuel as [|f]; [lia|]. cbn [render read spec_read].
      rewrite (attempt_frame c p _ Hp Hwf).
      destruct (construct p (labelmsm c)); try reflexivity.
      apply read_on_err. apply IH; [exact Hok'|lia].
    + destruct fuel as [|f]; [lia|]. destruct Hwf as [Hin Hlf]. cbn [render read spec_read].
      rewrite <- !app_assoc. cbn [app]. pose proof (attempt_nmea c t body (stream_of r) Hin Hlf) as E.
      cbn [app] in E. rewrite E. apply IH; [exact Hok'|lia].
    + destruct fuel as [|f]; [lia|]. destruct Hwf as [Hpl Hck]. cbn [render read spec_read].
      rewrite <- !app_assoc.
      rewrite (attempt_ubx c cls id pl ck (stream_of r) Hpl Hck). apply IH; [exact Hok'|lia].
    + cbn [render spec_read]. replace fuel with (length bs + (fuel - length bs)) by lia.
      rewrite (read_noise c bs _ _ Hwf). apply IH; [exact Hok'|lia].
    + destruct fuel as [|f]; [lia|]. destruct Hwf as (Hb & Hl & Hcr). cbn [render read spec_read].
      rewrite (attempt_damaged c b1 b2 body _ Hp (Hdam eq_refl) Hb Hl Hcr).
      apply read_on_err. apply IH; [exact Hok'|lia].
Qed.

Lemma cost_app a b : cost (a ++ b) = cost a + cost b.
Proof. unfold cost. now rewrite map_app, list_sum_app. Qed.

(* the unread items are a suffix, a proper one unless the stream was already exhausted *)
Lemma spec_read_suffix c items h res r' : spec_read c items = (h, res, r') ->
  exists pre, items = pre ++ r' /\ (items = [] \/ pre <> []).
Proof.
  revert h res r'. induction items as [|it r IH]; intros h res r' E.
  - cbn in E. inversion E. exists []. auto.
  - assert (Hskip : spec_read c r = (h, res, r') -> exists pre, it :: r = pre ++ r' /\ (it :: r = [] \/ pre <> [])).
    { intro E'. destruct (IH _ _ _ E') as (pre & -> & _). exists (it :: pre). split; [reflexivity|right; discriminate]. }
    assert (Hhere : r' = r -> exists pre, it :: r = pre ++ r' /\ (it :: r = [] \/ pre <> [])).
    { intros ->. exists [it]. split; [reflexivity|right; discriminate]. }
    assert (Herr : forall e, on_err (quitonerror c) e (spec_read c r) r = (h, res, r') ->
              exists pre, it :: r = pre ++ r' /\ (it :: r = [] \/ pre <> [])).
    { intros e E'. unfold on_err in E'.
      destruct (Z.eqb (quitonerror c) 0); [exact (Hskip E')|].
      destruct (Z.eqb (quitonerror c) 2).
      { apply Hhere. now inversion E'. }
      destruct (Z.eqb (quitonerror c) 1); [|exact (Hskip E')].
      destruct (spec_read c r) as [[h0 res0] r0]. inversion E'; subst.
      destruct (IH _ _ _ eq_refl) as (pre & -> & _). exists (it :: pre). split; [reflexivity|right; discriminate]. }
    destruct it; cbn [spec_read] in E; eauto.
    destruct (construct p (labelmsm c)); eauto; apply Hhere; now inversion E.
Qed.

Lemma spec_read_rest c items h res r' : spec_read c items = (h, res, r') ->
  Forall (ok c) items -> Forall (ok c) r' /\ cost r' <= cost items /\ (items = [] \/ length r' < length items).
Proof.
  intros E Hok. destruct (spec_read_suffix _ _ _ _ _ E) as (pre & -> & Hpre).
  apply Forall_app in Hok. split; [tauto|]. rewrite cost_app, app_length. split; [lia|].
  destruct Hpre as [H|H]; [now left|right]. destruct pre; [congruence|]. cbn [length]. lia.
Qed.

Lemma cost_le_length items : cost items <= length (stream_of items).
Proof.
  induction items as [|it r IH]; [apply Nat.le_refl|].
  rewrite cost_cons, stream_of_cons, app_length.
  assert (passes it <= length (render it)).
  { destruct it; cbn [passes render]; try apply Nat.le_refl; unfold frame, frame_head;
      cbn [app length]; lia. }
  lia.
Qed.

(* ---------- iteration = the expected trace ---------- *)
Notation tr c := (trace construct (labelmsm c) (quitonerror c)).

Lemma trace_spec_read c items : forall acc,
  tr c acc items =
    (let '(h, res, r') := spec_read c items in
     match res with
     | RYield _ _ => (acc ++ h, res) :: tr c [] r'
     | _ => [(acc ++ h, res)]
     end).
Proof.
  induction items as [|it r IH]; intro acc.
  - cbn. now rewrite app_nil_r.
  - assert (Herr : forall e,
      (if Z.eqb (quitonerror c) 2 then [(acc, RRaise e)]
       else tr c (if Z.eqb (quitonerror c) 1 then acc ++ [e] else acc) r) =
      (let '(h, res, r') := on_err (quitonerror c) e (spec_read c r) r in
       match res with
       | RYield _ _ => (acc ++ h, res) :: tr c [] r'
       | _ => [(acc ++ h, res)]
       end)).
    { intro e. unfold on_err.
      destruct (Z.eqb_spec (quitonerror c) 0) as [E0|N0].
      { rewrite E0 in IH |- *. cbn [Z.eqb]. apply IH. }
      destruct (Z.eqb_spec (quitonerror c) 2) as [E2|N2].
      { now rewrite app_nil_r. }
      destruct (Z.eqb_spec (quitonerror c) 1) as [E1|N1]; [|apply IH].
      rewrite IH. destruct (spec_read c r) as [[h res] r'].
      rewrite <- app_assoc. reflexivity. }
    destruct it as [p|t body|cls id pl ck|bs|b1 b2 body]; cbn [trace spec_read]; try apply IH; try apply Herr.
    destruct (construct p (labelmsm c)); try apply Herr; now rewrite app_nil_r.
Qed.

Notation iter := (iterate file_ops construct nmea_hdr [xb5; x62] 1 2 1).
Notation runs := (run_reads file_ops construct nmea_hdr [xb5; x62] 1 2 1).

Lemma iterate_cost c fuel : parsed c = true -> forall n items,
  Forall (ok c) items -> cost items < fuel -> length items < n ->
  fst (iter c fuel n (fs (stream_of items))) = tr c [] items.
Proof.
  intro Hp. induction n as [|n IH]; intros items Hok Hf Hn; [lia|].
  cbn [iterate]. rewrite (read_spec c Hp items fuel Hok Hf), trace_spec_read.
  destruct (spec_read c items) as [[h res] r'] eqn:E.
  destruct (spec_read_rest _ _ _ _ _ E Hok) as (Hok' & Hc' & Hl').
  destruct res; try reflexivity.
  assert (Hn' : length r' < n).
  { destruct Hl' as [->|Hl']; [|lia]. cbn in E. inversion E. }
  specialize (IH r' Hok' ltac:(lia) Hn').
  destruct (iter c fuel n (fs (stream_of r'))) as [evs s'']. cbn [fst] in IH |- *. now rewrite IH.
Qed.

Lemma run_reads_unfold c fuel k items : parsed c = true ->
  Forall (ok c) items -> cost items < fuel ->
  runs c fuel (S k) (fs (stream_of items)) =
    (let '(h, res, r') := spec_read c items in
     let '(evs, s'') := runs c fuel k (fs (stream_of r')) in ((h, res) :: evs, s'')).
Proof.
  intros Hp Hok Hf. cbn [run_reads]. rewrite (read_spec c Hp items fuel Hok Hf).
  destruct (spec_read c items) as [[h res] r']. reflexivity.
Qed.

Notation res_of c := (result_of construct (labelmsm c)).

Lemma run_reads_cost c fuel : parsed c = true -> quitonerror c = 2%Z -> forall items,
  Forall (ok c) items -> cost items < fuel ->
  fst (runs c fuel (S (length (filter is_rtcm items))) (fs (stream_of items))) =
    map (fun it => ([], res_of c it)) (filter is_rtcm items) ++ [([], REnd)].
Proof.
  intros Hp Hq. induction items as [|it r IH]; intros Hok Hf.
  - rewrite (run_reads_unfold c fuel _ [] Hp Hok Hf). reflexivity.
  - assert (Hok' : Forall (ok c) r) by now inversion Hok.
    assert (Hf' : cost r < fuel) by (rewrite cost_cons in Hf; lia).
    specialize (IH Hok' Hf').
    assert (Hstep : forall res, spec_read c (it :: r) = ([], res, r) ->
      fst (runs c fuel (S (S (length (filter is_rtcm r)))) (fs (stream_of (it :: r)))) =
        ([], res) :: map (fun it => ([], res_of c it)) (filter is_rtcm r) ++ [([], REnd)]).
    { intros res E. rewrite (run_reads_unfold c fuel _ _ Hp Hok Hf), E.
      destruct (runs c fuel _ (fs (stream_of r))) as [evs s'']. cbn [fst] in IH |- *. now rewrite IH. }
    assert (Hskip : spec_read c (it :: r) = spec_read c r -> is_rtcm it = false ->
      fst (runs c fuel (S (length (filter is_rtcm (it :: r)))) (fs (stream_of (it :: r)))) =
        map (fun it => ([], res_of c it)) (filter is_rtcm (it :: r)) ++ [([], REnd)]).
    { intros E Hr. cbn [filter]. rewrite Hr.
      rewrite (run_reads_unfold c fuel _ _ Hp Hok Hf), E.
      rewrite (run_reads_unfold c fuel _ _ Hp Hok' Hf') in IH. exact IH. }
    destruct it as [p|t body|cls id pl ck|bs|b1 b2 body]; try (apply Hskip; reflexivity).
    + cbn [filter is_rtcm map length app]. apply Hstep. cbn [spec_read result_of].
      destruct (construct p (labelmsm c)); try reflexivity. unfold on_err. now rewrite Hq.
    + cbn [filter is_rtcm map length app]. apply Hstep. cbn [spec_read result_of].
      unfold on_err. now rewrite Hq.
Qed.

(* ---------- reading the trace ---------- *)
Notation gd c := (good construct (labelmsm c)).
Notation er c := (errs construct (labelmsm c)).
Notation total c := (construct_total construct (labelmsm c)).

Lemma total_tail c it r : total c (it :: r) -> total c r.
Proof. intros H p Hin. apply H. now right. Qed.

Lemma trace_results c items : quitonerror c <> 2%Z -> total c items -> forall acc,
  map snd (tr c acc items) = map (fun '(raw, m) => RYield raw (Some m)) (gd c items) ++ [REnd].
Proof.
  intros Hq. apply Z.eqb_neq in Hq.
  induction items as [|it r IH]; intros Ht acc; [reflexivity|].
  specialize (IH (total_tail _ _ _ Ht)).
  destruct it as [p|t body|cls id pl ck|bs|b1 b2 body]; cbn [trace good]; try rewrite Hq; try apply IH.
  destruct (Ht p (or_introl eq_refl)) as [[m E]|[e E]]; rewrite E; [|apply IH].
  cbn [map snd app]. now rewrite IH.
Qed.

Lemma trace_yields c items : quitonerror c <> 2%Z -> total c items -> forall acc,
  yields (tr c acc items) = map (fun '(raw, m) => (raw, Some m)) (gd c items).
Proof.
  intros Hq. apply Z.eqb_neq in Hq.
  induction items as [|it r IH]; intros Ht acc; [reflexivity|].
  specialize (IH (total_tail _ _ _ Ht)).
  destruct it as [p|t body|cls id pl ck|bs|b1 b2 body]; cbn [trace good]; try rewrite Hq; try apply IH.
  destruct (Ht p (or_introl eq_refl)) as [[m E]|[e E]]; rewrite E; [|apply IH].
  cbn [map yields]. now rewrite IH.
Qed.

Lemma trace_handlers c items : quitonerror c <> 2%Z -> total c items -> forall acc,
  handler_calls (tr c acc items) = acc ++ (if Z.eqb (quitonerror c) 1 then er c items else []).
Proof.
  intros Hq. apply Z.eqb_neq in Hq. unfold handler_calls.
  induction items as [|it r IH]; intros Ht acc.
  - cbn. destruct (Z.eqb (quitonerror c) 1); reflexivity.
  - specialize (IH (total_tail _ _ _ Ht)).
    assert (Herr : forall e,
      concat (map fst (tr c (if Z.eqb (quitonerror c) 1 then acc ++ [e] else acc) r)) =
      acc ++ (if Z.eqb (quitonerror c) 1 then e :: er c r else [])).
    { intro e. rewrite IH. destruct (Z.eqb (quitonerror c) 1); [|reflexivity]. now rewrite <- app_assoc. }
    destruct it as [p|t body|cls id pl ck|bs|b1 b2 body]; cbn [trace errs]; try rewrite Hq; try apply IH; try apply Herr.
    destruct (Ht p (or_introl eq_refl)) as [[m E]|[e E]]; rewrite E; [|apply Herr].
    cbn [map fst concat]. now rewrite IH.
Qed.

(* with iteration modes (quitonerror <> 2) and a total constructor a read() either returns a frame or
   reports end of input with nothing left unread *)
Lemma spec_read_total c items h res r' : quitonerror c <> 2%Z -> total c items ->
  spec_read c items = (h, res, r') ->
  (res = REnd /\ r' = []) \/ (exists raw m, res = RYield raw m).
Proof.
  intro Hq. apply Z.eqb_neq in Hq. revert h res r'.
  induction items as [|it r IH]; intros h res r' Ht E.
  - cbn in E. inversion E. now left.
  - specialize (fun h res r' => IH h res r' (total_tail _ _ _ Ht)).
    assert (Herr : forall e, on_err (quitonerror c) e (spec_read c r) r = (h, res, r') ->
              (res = REnd /\ r' = []) \/ (exists raw m, res = RYield raw m)).
    { intros e E'. unfold on_err in E'. rewrite Hq in E'.
      destruct (Z.eqb (quitonerror c) 0); [eauto|].
      destruct (Z.eqb (quitonerror c) 1); [|eauto].
      destruct (spec_read c r) as [[h0 res0] r0]. inversion E'; subst. eauto. }
    destruct it as [p|t body|cls id pl ck|bs|b1 b2 body]; cbn [spec_read] in E; eauto.
    destruct (Ht p (or_introl eq_refl)) as [[m Em]|[e Ee]].
    + rewrite Em in E. inversion E. right. eauto.
    + rewrite Ee in E. eauto.
Qed.

Lemma total_suffix c pre r : total c (pre ++ r) -> total c r.
Proof. intros H p Hin. apply H. apply in_or_app. now right. Qed.

Lemma iterate_final c fuel : parsed c = true -> quitonerror c <> 2%Z -> forall n items,
  Forall (ok c) items -> total c items -> cost items < fuel -> length items < n ->
  snd (iter c fuel n (fs (stream_of items))) = fs [].
Proof.
  intros Hp Hq. induction n as [|n IH]; intros items Hok Ht Hf Hn; [lia|].
  cbn [iterate]. rewrite (read_spec c Hp items fuel Hok Hf).
  destruct (spec_read c items) as [[h res] r'] eqn:E.
  destruct (spec_read_rest _ _ _ _ _ E Hok) as (Hok' & Hc' & Hl').
  destruct (spec_read_suffix _ _ _ _ _ E) as (pre & Epre & _).
  destruct (spec_read_total _ _ _ _ _ Hq Ht E) as [[-> ->]|(raw & m & ->)]; [reflexivity|].
  assert (Hn' : length r' < n).
  { destruct Hl' as [->|Hl']; [|lia]. cbn in E. inversion E. }
  rewrite Epre in Ht. apply total_suffix in Ht.
  specialize (IH r' Hok' Ht ltac:(lia) Hn').
  destruct (iter c fuel n (fs (stream_of r'))) as [evs s'']. exact IH.
Qed.

Lemma errs_only_damaged c items :
  (forall p, In (IFrame p) items -> exists m, construct p (labelmsm c) = Ok m) ->
  er c items = repeat EParse (length (filter is_damaged items)).
Proof.
  induction items as [|it r IH]; intro H; [reflexivity|].
  specialize (IH (fun p Hin => H p (or_intror Hin))).
  destruct it as [p|t body|cls id pl ck|bs|b1 b2 body]; cbn [errs filter is_damaged length repeat]; auto.
  - destruct (H p (or_introl eq_refl)) as [m E]. now rewrite E.
  - now rewrite IH.
Qed.

Lemma ok_nodamage c items : Forall (wf_item nmea_hdr) items -> no_damaged items -> Forall (ok c) items.
Proof.
  intros Hwf Hnd. apply Forall_forall. intros it Hin. split.
  - now apply (proj1 (Forall_forall _ _) Hwf).
  - intro Hd. rewrite (Hnd it Hin) in Hd. discriminate.
Qed.

Lemma ok_validate c items : Forall (wf_item nmea_hdr) items -> Z.land (validate c) 1 <> 0%Z -> Forall (ok c) items.
Proof. intros Hwf Hv. eapply Forall_impl; [|exact Hwf]. intros it H. split; auto. Qed.

(* ================= master statement: every error mode, arbitrary constructor ================= *)
Theorem iterate_trace c fuel n items :
  Forall (wf_item nmea_hdr) items ->
  (Z.land (validate c) 1 <> 0%Z \/ no_damaged items) ->
  parsed c = true ->
  length (stream_of items) < fuel -> length items < n ->
  fst (iter c fuel n (fs (stream_of items))) = tr c [] items.
Proof.
  intros Hwf Hv Hp Hf Hn. apply iterate_cost; auto.
  - destruct Hv; [now apply ok_validate|now apply ok_nodamage].
  - pose proof (cost_le_length items). lia.
Qed.

(* ================= C02 ================= *)
Theorem C02_complete c fuel n items :
  Forall (wf_item nmea_hdr) items -> no_damaged items ->
  parsed c = true -> quitonerror c <> 2%Z ->
  total c items ->
  length (stream_of items) < fuel -> length items < n ->
  let evs := fst (iter c fuel n (fs (stream_of items))) in
  map snd evs = map (fun '(raw, m) => RYield raw (Some m)) (gd c items) ++ [REnd] /\
  yields evs = map (fun '(raw, m) => (raw, Some m)) (gd c items) /\
  handler_calls evs = (if Z.eqb (quitonerror c) 1 then er c items else []) /\
  snd (iter c fuel n (fs (stream_of items))) = fs [].
Proof.
  intros Hwf Hnd Hp Hq Ht Hf Hn evs. subst evs.
  rewrite (iterate_trace c fuel n items Hwf (or_intror Hnd) Hp Hf Hn).
  split; [|split; [|split]].
  - now apply trace_results.
  - now apply trace_yields.
  - now rewrite trace_handlers.
  - apply iterate_final; auto; [now apply ok_nodamage|pose proof (cost_le_length items); lia].
Qed.

Lemma good_app c a b : gd c (a ++ b) = gd c a ++ gd c b.
Proof.
  induction a as [|it a IH]; [reflexivity|].
  destruct it; cbn [app good]; auto. destruct (construct p (labelmsm c)); auto. cbn [app]. now rewrite IH.
Qed.

Lemma frame_length p : length (frame p) = length p + 6.
Proof. unfold frame, frame_head, frame_crc. cbn [app length]. rewrite app_length, to_be_length. lia. Qed.

(* a zero-length filler frame (payload rejected by the constructor) between two frames: both neighbours and
   everything behind them are still returned *)
Corollary zero_length_frame_skipped c fuel n pre post p1 p2 m1 m2 e :
  let items := pre ++ IFrame p1 :: IFrame [] :: IFrame p2 :: post in
  Forall (wf_item nmea_hdr) items -> no_damaged items ->
  parsed c = true -> quitonerror c <> 2%Z -> total c items ->
  construct p1 (labelmsm c) = Ok m1 -> construct [] (labelmsm c) = Lib e -> construct p2 (labelmsm c) = Ok m2 ->
  length (stream_of items) < fuel -> length items < n ->
  let evs := fst (iter c fuel n (fs (stream_of items))) in
  yields evs = map (fun '(raw, m) => (raw, Some m)) (gd c pre)
               ++ (frame p1, Some m1) :: (frame p2, Some m2)
               :: map (fun '(raw, m) => (raw, Some m)) (gd c post) /\
  (exists evs' h, evs = evs' ++ [(h, REnd)]) /\
  length (frame []) = 6.
Proof.
  intros items Hwf Hnd Hp Hq Ht E1 E0 E2 Hf Hn evs.
  destruct (C02_complete c fuel n items Hwf Hnd Hp Hq Ht Hf Hn) as (Hres & Hy & _).
  fold evs in Hres, Hy. split; [|split].
  - rewrite Hy. unfold items. rewrite good_app. cbn [good]. rewrite E1, E0, E2.
    now rewrite map_app.
  - destruct (exists_last (l := evs)) as (evs' & [h r] & E).
    { intro E. rewrite E in Hres. destruct (map _ (gd c items)); discriminate. }
    exists evs', h. rewrite E in Hres |- *. rewrite map_app in Hres. cbn [map snd] in Hres.
    apply app_inj_tail in Hres. destruct Hres as [_ ->]. reflexivity.
  - apply frame_length.
Qed.

(* a maximum-length frame is consumed exactly, whatever follows it *)
Corollary max_length_frame c fuel p m r :
  parsed c = true -> length p = 1023 -> construct p (labelmsm c) = Ok m ->
  rd c (S fuel) (fs (frame p ++ r)) = ([], RYield (frame p) (Some m), fs r) /\ length (frame p) = 1029.
Proof.
  intros Hp Hl E. split; [|rewrite frame_length; lia].
  cbn [read]. rewrite (attempt_frame c p r Hp) by lia. now rewrite E.
Qed.

(* ================= C05 ================= *)
Theorem C05_ignore_log c fuel n items :
  Forall (wf_item nmea_hdr) items ->
  Z.land (validate c) 1 <> 0%Z -> parsed c = true -> quitonerror c <> 2%Z ->
  total c items ->
  length (stream_of items) < fuel -> length items < n ->
  let evs := fst (iter c fuel n (fs (stream_of items))) in
  map snd evs = map (fun '(raw, m) => RYield raw (Some m)) (gd c items) ++ [REnd] /\
  yields evs = map (fun '(raw, m) => (raw, Some m)) (gd c items) /\
  (quitonerror c = 1%Z -> handler_calls evs = er c items) /\
  (quitonerror c <> 1%Z -> handler_calls evs = []) /\
  snd (iter c fuel n (fs (stream_of items))) = fs [].
Proof.
  intros Hwf Hv Hp Hq Ht Hf Hn evs. subst evs.
  rewrite (iterate_trace c fuel n items Hwf (or_introl Hv) Hp Hf Hn).
  split; [|split; [|split; [|split]]].
  - now apply trace_results.
  - now apply trace_yields.
  - intro E. rewrite trace_handlers by assumption. now rewrite E.
  - intro E. rewrite trace_handlers by assumption. apply Z.eqb_neq in E. now rewrite E.
  - apply iterate_final; auto; [now apply ok_validate|pose proof (cost_le_length items); lia].
Qed.

Theorem C05_raise c fuel items :
  Forall (wf_item nmea_hdr) items ->
  Z.land (validate c) 1 <> 0%Z -> parsed c = true -> quitonerror c = 2%Z ->
  length (stream_of items) < fuel ->
  fst (runs c fuel (S (length (filter is_rtcm items))) (fs (stream_of items))) =
    map (fun it => ([], res_of c it)) (filter is_rtcm items) ++ [([], REnd)].
Proof.
  intros Hwf Hv Hp Hq Hf. apply run_reads_cost; auto.
  - now apply ok_validate.
  - pose proof (cost_le_length items). lia.
Qed.

(* the frames returned in raise mode are the same as in the other two modes *)
Corollary C05_raise_yields c fuel items :
  Forall (wf_item nmea_hdr) items ->
  Z.land (validate c) 1 <> 0%Z -> parsed c = true -> quitonerror c = 2%Z -> total c items ->
  length (stream_of items) < fuel ->
  yields (fst (runs c fuel (S (length (filter is_rtcm items))) (fs (stream_of items)))) =
    map (fun '(raw, m) => (raw, Some m)) (gd c items).
Proof.
  intros Hwf Hv Hp Hq Ht Hf. rewrite (C05_raise c fuel items Hwf Hv Hp Hq Hf). clear Hwf Hf.
  induction items as [|it r IH]; [reflexivity|].
  specialize (IH (total_tail _ _ _ Ht)).
  destruct it as [p|t body|cls id pl ck|bs|b1 b2 body]; cbn [filter is_rtcm good map app result_of yields]; auto.
  destruct (Ht p (or_introl eq_refl)) as [[m E]|[e E]]; rewrite E; cbn [map]; now rewrite IH.
Qed.

End Complete.

(* ---------- sanity check by direct evaluation (does not use the theorems or Hcrc) ---------- *)
Module Example.
Definition construct (p:bytes) (_:Z) : outcome bytes :=
  if Nat.ltb (length p) 2 then Lib EMessage else Ok p.
Definition nmea := [[x24; x47]].
Definition items : list item :=
  [ INoise [x00; x41]; IFrame [x3e; xd0; x00]; IFrame []; INmea x47 [x50; x0d];
    IUbx x01 x02 [x07] [x0a; x0b]; IDamaged x00 x02 [x01; x02; x03; x04; x05];
    IFrame [x43; x50; x00; x01] ].
Definition cf q := {| validate := 1; quitonerror := q; labelmsm := 1; parsed := true |}.

Lemma items_wf : Forall (wf_item nmea) items.
Proof.
  unfold items.
  apply Forall_cons. { repeat constructor; discriminate. }
  apply Forall_cons. { cbn [wf_item length]. lia. }
  apply Forall_cons. { cbn [wf_item length]. lia. }
  apply Forall_cons. { split; [now left|]. intros [H|[H|[]]]; discriminate. }
  apply Forall_cons. { split; [vm_compute; reflexivity|reflexivity]. }
  apply Forall_cons. { split; [vm_compute; reflexivity|]. split; [reflexivity|]. vm_compute. discriminate. }
  apply Forall_cons. { cbn [wf_item length]. lia. }
  apply Forall_nil.
Qed.

Lemma iterate_log :
  fst (iterate file_ops construct nmea [xb5; x62] 1 2 1 (cf 1) 100 10 (file_stream (stream_of items)))
  = trace construct 1 1 [] items.
Proof. vm_compute. reflexivity. Qed.

Lemma iterate_log_value :
  trace construct 1 1 [] items =
  [ ([], RYield (frame [x3e; xd0; x00]) (Some [x3e; xd0; x00]));
    ([EMessage; EParse], RYield (frame [x43; x50; x00; x01]) (Some [x43; x50; x00; x01]));
    ([], REnd) ].
Proof. vm_compute. reflexivity. Qed.

Lemma reads_raise :
  fst (run_reads file_ops construct nmea [xb5; x62] 1 2 1 (cf 2) 100 5 (file_stream (stream_of items)))
  = map (fun it => ([], result_of construct 1 it)) (filter is_rtcm items) ++ [([], REnd)].
Proof. vm_compute. reflexivity. Qed.
End Example.

Print Assumptions iterate_trace.
Print Assumptions C02_complete.
Print Assumptions zero_length_frame_skipped.
Print Assumptions max_length_frame.
Print Assumptions C05_ignore_log.
Print Assumptions C05_raise.
Print Assumptions C05_raise_yields.
