(* Property C08 : the CRC-24Q helper of the model (Model/Crc.v, mirror of
   rtcmhelpers.calc_crc24q / crc2bytes) against the polynomial specification
   (Spec/CrcPoly.v).  All theorems hold for byte strings of any length.

   T8.0 crc_reg_lt              the register never exceeds 24 bits (final mask = identity)
   T8.1 crc24q_spec             calc_crc24q m = (m . x^24) mod G
   T8.2 crc_self_check          calc_crc24q (m ++ crc2bytes m) = 0
   T8.3 crc_xor_linear          calc_crc24q (a xor b) = calc_crc24q a xor calc_crc24q b
   T8.4 detect_odd              every error pattern of odd weight is detected
   T8.5 detect_burst            every burst of at most 24 bits is detected
   T8.6 detect_two              every 2-bit error at distance < 2^23-1 is detected
        detect_two_frame        (same, distance <= 8232, without the 8.4M-step sweep)
        damaged_frame_detected  valid frame xor detected pattern = invalid frame        *)
From Coq Require Import NArith List Lia Bool.
From Coq.Strings Require Import Byte.
From PyRtcm Require Import Base.Bytes Model.Crc Spec.CrcPoly Spec.CrcOrder.
Import ListNotations.
Open Scope N_scope.
#[local] Arguments N.testbit : simpl never.

(* ------------------------------------------------------------------ *)
(** * Small facts on N                                                 *)
(* ------------------------------------------------------------------ *)

Lemma land_pow2_testbit a n : (N.land a (2^n) =? 0) = negb (N.testbit a n).
Proof.
  destruct (N.testbit a n) eqn:T; cbn [negb].
  - apply N.eqb_neq. intro E.
    assert (H : N.testbit (N.land a (2^n)) n = false) by (rewrite E; apply N.bits_0).
    rewrite N.land_spec, T, N.pow2_bits_true in H. discriminate.
  - apply N.eqb_eq. apply N.bits_inj_0. intro m. rewrite N.land_spec.
    destruct (N.eq_dec m n) as [->|Hne]; [now rewrite T|].
    rewrite N.pow2_bits_false by congruence. apply andb_false_r.
Qed.

Lemma iter_ext (f g : N -> N) n a : (forall x, f x = g x) -> N.iter n f a = N.iter n g a.
Proof.
  intro H. induction n as [|n IH] using N.peano_ind; [reflexivity|].
  now rewrite !N.iter_succ, IH, H.
Qed.

Lemma iter_linear (f : N -> N) n :
  (forall a b, f (N.lxor a b) = N.lxor (f a) (f b)) ->
  forall a b, N.iter n f (N.lxor a b) = N.lxor (N.iter n f a) (N.iter n f b).
Proof.
  intros H a b. induction n as [|n IH] using N.peano_ind; [reflexivity|].
  now rewrite !N.iter_succ, IH, H.
Qed.

(* a.2^k + b = a.x^k xor b when b < 2^k *)
Lemma add_shiftl_lxor a b k : b < 2^k -> a * 2^k + b = N.lxor (N.shiftl a k) b.
Proof.
  intro Hb. rewrite <- N.shiftl_mul_pow2. apply N.add_nocarry_lxor.
  apply N.bits_inj_0. intro i. rewrite N.land_spec.
  destruct (N.lt_ge_cases i k) as [Hlt|Hge].
  - now rewrite N.shiftl_spec_low.
  - rewrite (bits_above b k i Hb Hge). apply andb_false_r.
Qed.

Lemma be_app_lxor a c :
  be (a ++ c) = N.lxor (N.shiftl (be a) (8 * N.of_nat (length c))) (be c).
Proof.
  rewrite be_app. change 256 with (2^8). rewrite <- N.pow_mul_r.
  apply add_shiftl_lxor. rewrite N.pow_mul_r. apply be_lt.
Qed.

Lemma be_single o : be [o] = bN o.
Proof. unfold be. cbn [be_acc]. lia. Qed.

(* ------------------------------------------------------------------ *)
(** * The model steps are the long-division steps of the specification *)
(* ------------------------------------------------------------------ *)

Lemma poly_G : poly = G.
Proof. reflexivity. Qed.

Lemma bitstep_xstep s : bitstep s = xstep s.
Proof.
  unfold bitstep, xstep. cbv zeta. rewrite <- double_shiftl.
  change 16777216 with (2^24). rewrite land_pow2_testbit.
  destruct (N.testbit (N.double s) 24); reflexivity.
Qed.

Lemma octet_step_xstep crc o :
  octet_step crc o = N.iter 8 xstep (N.lxor crc (N.shiftl (bN o) 16)).
Proof. unfold octet_step. apply iter_ext. exact bitstep_xstep. Qed.

Lemma xstep_linear a b : xstep (N.lxor a b) = N.lxor (xstep a) (xstep b).
Proof.
  unfold xstep. cbv zeta. rewrite double_lxor, N.lxor_spec.
  destruct (N.testbit (N.double a) 24), (N.testbit (N.double b) 24); cbn [xorb]; xor_ring.
Qed.

Lemma octet_lt o : N.shiftl (bN o) 16 < 2^24.
Proof.
  rewrite N.shiftl_mul_pow2. pose proof (bN_lt o) as H.
  change (2^16) with 65536. change (2^24) with 16777216. lia.
Qed.

(* ------------------------------------------------------------------ *)
(** * T8.0 / T8.1 : the helper computes the CRC-24Q remainder          *)
(* ------------------------------------------------------------------ *)

(* invariant of the Python loop: after the octets m have been consumed, the register
   holds (m . x^24) mod G *)
Lemma crc_reg_rem m : is_rem (N.shiftl (be m) 24) (crc_reg m).
Proof.
  induction m as [|o m IH] using rev_ind.
  - exact is_rem_0.
  - unfold crc_reg. rewrite fold_left_app. cbn [fold_left]. fold (crc_reg m).
    rewrite octet_step_xstep.
    replace (N.shiftl (be (m ++ [o])) 24)
      with (N.shiftl (N.lxor (N.shiftl (be m) 24) (N.shiftl (bN o) 16)) 8).
    + apply is_rem_iter. apply is_rem_lxor; [exact IH|].
      apply is_rem_small. apply octet_lt.
    + rewrite be_app_lxor, be_single. cbn [length]. change (8 * N.of_nat 1) with 8.
      rewrite !N.shiftl_lxor, !N.shiftl_shiftl. reflexivity.
Qed.

Theorem crc_reg_lt : forall m, crc_reg m < 2^24.
Proof. intro m. exact (is_rem_lt _ _ (crc_reg_rem m)). Qed.

Corollary calc_eq_reg m : calc_crc24q m = crc_reg m.
Proof.
  unfold calc_crc24q. change 16777215 with (N.ones 24).
  rewrite N.land_ones. apply N.mod_small. apply crc_reg_lt.
Qed.

Theorem crc24q_spec : forall m, is_rem (N.shiftl (be m) 24) (calc_crc24q m).
Proof. intro m. rewrite calc_eq_reg. apply crc_reg_rem. Qed.

(* the same, against the executable long division *)
Corollary crc24q_prem m : calc_crc24q m = prem (N.shiftl (be m) 24).
Proof. apply is_rem_iff. apply crc24q_spec. Qed.

Theorem crc2bytes_total :
  forall m, exists c, crc2bytes m = Some c /\ length c = 3%nat /\ be c = calc_crc24q m.
Proof.
  intro m. unfold crc2bytes, to_bytes.
  assert (H : calc_crc24q m < 256 ^ N.of_nat 3).
  { rewrite calc_eq_reg. change (256 ^ N.of_nat 3) with (2^24). apply crc_reg_lt. }
  exists (to_be 3 (calc_crc24q m)). split; [|split].
  - apply N.ltb_lt in H. now rewrite H.
  - apply to_be_length.
  - now apply be_to_be.
Qed.

Lemma crc2bytes_inv m c :
  crc2bytes m = Some c -> length c = 3%nat /\ be c = calc_crc24q m.
Proof.
  intro H. destruct (crc2bytes_total m) as [c' [H1 [H2 H3]]].
  rewrite H in H1. injection H1 as <-. now split.
Qed.

(* ------------------------------------------------------------------ *)
(** * T8.2 : a message followed by its CRC has CRC zero                *)
(* ------------------------------------------------------------------ *)

Theorem crc_self_check : forall m c, crc2bytes m = Some c -> calc_crc24q (m ++ c) = 0.
Proof.
  intros m c H. apply crc2bytes_inv in H. destruct H as [Hlen Hbe].
  apply (is_rem_unique (N.shiftl (be (m ++ c)) 24)); [apply crc24q_spec|].
  destruct (crc24q_spec m) as [_ [q Hq]].
  assert (E : be (m ++ c) = clmul q G).
  { rewrite be_app_lxor, Hlen, Hbe. change (8 * N.of_nat 3) with 24.
    rewrite <- Hq. xor_ring. }
  rewrite E, <- clmul_shiftl_l. apply is_rem_multiple.
Qed.

(* ------------------------------------------------------------------ *)
(** * T8.3 : linearity                                                 *)
(* ------------------------------------------------------------------ *)

Lemma octet_step_linear s t x y :
  octet_step (N.lxor s t) (byte_of_N (N.lxor (bN x) (bN y)))
  = N.lxor (octet_step s x) (octet_step t y).
Proof.
  rewrite !octet_step_xstep.
  rewrite bN_byte_of by (change 256 with (2^8); apply lxor_lt; apply bN_lt).
  rewrite N.shiftl_lxor, <- (iter_linear xstep 8 xstep_linear). f_equal. xor_ring.
Qed.

Lemma fold_octet_linear a : forall b s t, length a = length b ->
  fold_left octet_step (xor_bytes a b) (N.lxor s t)
  = N.lxor (fold_left octet_step a s) (fold_left octet_step b t).
Proof.
  induction a as [|x a IH]; intros [|y b] s t Hlen; try discriminate Hlen.
  - reflexivity.
  - unfold xor_bytes. cbn [combine map fold_left]. fold (xor_bytes a b).
    rewrite octet_step_linear. apply IH. now injection Hlen.
Qed.

Theorem crc_xor_linear : forall a b, length a = length b ->
  calc_crc24q (xor_bytes a b) = N.lxor (calc_crc24q a) (calc_crc24q b).
Proof.
  intros a b Hlen. rewrite !calc_eq_reg. unfold crc_reg.
  pose proof (fold_octet_linear a b 0 0 Hlen) as H.
  rewrite N.lxor_0_l in H. exact H.
Qed.

Lemma xor_bytes_length a b : length a = length b -> length (xor_bytes a b) = length a.
Proof.
  intro H. unfold xor_bytes. rewrite map_length, combine_length. lia.
Qed.

(* leading zero octets do not change the CRC (zero initial value) *)
Theorem crc_leading_zeros : forall k m, calc_crc24q (repeat x00 k ++ m) = calc_crc24q m.
Proof.
  intros k m. rewrite !calc_eq_reg. unfold crc_reg. rewrite fold_left_app. f_equal.
  induction k as [|k IH]; [reflexivity|].
  cbn [repeat fold_left]. change (octet_step 0 x00) with 0. exact IH.
Qed.

(* ------------------------------------------------------------------ *)
(** * T8.4 - T8.6 : detected error patterns                            *)
(* ------------------------------------------------------------------ *)

(* an undetected pattern is a multiple of G (after the x^24 shift) *)
Lemma undetected_multiple e : calc_crc24q e = 0 -> exists q, clmul q G = N.shiftl (be e) 24.
Proof. intro E. apply is_rem_0_multiple. rewrite <- E. apply crc24q_spec. Qed.

Theorem detect_odd : forall e, N.odd (popcount (be e)) = true -> calc_crc24q e <> 0.
Proof.
  intros e Hodd E. apply undetected_multiple in E. destruct E as [q Hq].
  pose proof (parity_multiple q) as Hp. rewrite Hq, parity_shiftl in Hp.
  unfold parity in Hp. congruence.
Qed.

Theorem detect_burst : forall e, be e <> 0 ->
  (exists k b, be e = N.shiftl b k /\ 0 < b < 2^24) -> calc_crc24q e <> 0.
Proof.
  intros e _ [k [b [Hbe Hb]]] E. apply undetected_multiple in E. destruct E as [q Hq].
  rewrite Hbe, N.shiftl_shiftl in Hq.
  exact (shiftl_small_not_multiple b (k + 24) q Hb Hq).
Qed.

(* single-bit errors, as an instance *)
Corollary detect_single : forall e i, be e = 2^i -> calc_crc24q e <> 0.
Proof.
  intros e i H. apply detect_burst.
  - rewrite H. apply N.pow_nonzero. lia.
  - exists i, 1. rewrite N.shiftl_1_l. split; [exact H|]. split; reflexivity.
Qed.

(* two-bit errors: undetected only if x^(j-i) = 1 modulo G *)
Lemma two_bit_undetected e i j :
  i < j -> be e = N.lxor (2^i) (2^j) -> calc_crc24q e = 0 -> xpow (j - i) = 1.
Proof.
  intros Hij Hbe E. apply undetected_multiple in E. destruct E as [q Hq].
  apply xpow_1_iff.
  assert (S : N.lxor (2^i) (2^j) = N.shiftl (N.lxor (2^(j-i)) 1) i).
  { rewrite N.shiftl_lxor, N.shiftl_1_l, N.shiftl_mul_pow2, <- N.pow_add_r.
    replace (j - i + i) with j by lia. apply N.lxor_comm. }
  rewrite Hbe, S, N.shiftl_shiftl in Hq.
  exact (multiple_shiftl_cancel (i + 24) q _ Hq).
Qed.

Lemma detect_two_gen (bound : N) :
  (forall d, 0 < d <= bound -> xpow d <> 1) ->
  forall e i j, i < j -> j - i <= bound -> be e = N.lxor (2^i) (2^j) -> calc_crc24q e <> 0.
Proof.
  intros Hord e i j Hij Hd Hbe E.
  apply (Hord (j - i)); [lia|]. exact (two_bit_undetected e i j Hij Hbe E).
Qed.

(* bound = longest possible frame, 1029 octets = 8232 bits : sweep of 8232 steps *)
Lemma sweep_frame : snd (sweep 8232) = true.
Proof. vm_compute. reflexivity. Qed.

Theorem detect_two_frame : forall e i j,
  i < j -> j - i <= 8232 -> be e = N.lxor (2^i) (2^j) -> calc_crc24q e <> 0.
Proof. apply detect_two_gen. exact (sweep_sound 8232 sweep_frame). Qed.

(* bound = the multiplicative order of x modulo G, 2^23-1 (Spec/CrcOrder.v) *)
Theorem detect_two : forall e i j,
  i < j -> j - i < x_order -> be e = N.lxor (2^i) (2^j) -> calc_crc24q e <> 0.
Proof.
  intros e i j Hij Hd. apply (detect_two_gen (x_order - 1)); [|exact Hij|unfold x_order in *; lia].
  intros d Hd'. apply x_order_min. unfold x_order in *. lia.
Qed.

(* the bound is sharp: two flipped bits at distance exactly x_order are NOT detected *)
Theorem two_bit_undetected_at_order : forall e i,
  be e = N.lxor (2^i) (2^(i + x_order)) -> calc_crc24q e = 0.
Proof.
  intros e i Hbe.
  apply (is_rem_unique (N.shiftl (be e) 24)); [apply crc24q_spec|].
  destruct (proj1 (xpow_1_iff x_order) x_order_one) as [q Hq].
  assert (S : be e = N.shiftl (clmul q G) i).
  { rewrite Hbe, Hq, N.shiftl_lxor, N.shiftl_1_l, N.shiftl_mul_pow2, <- N.pow_add_r.
    rewrite (N.add_comm x_order i). apply N.lxor_comm. }
  rewrite S, N.shiftl_shiftl, <- clmul_shiftl_l. apply is_rem_multiple.
Qed.

(* ------------------------------------------------------------------ *)
(** * A valid frame damaged by a detected pattern is invalid           *)
(* ------------------------------------------------------------------ *)

Theorem damaged_frame_detected : forall f e, length e = length f ->
  calc_crc24q f = 0 -> calc_crc24q e <> 0 -> calc_crc24q (xor_bytes f e) <> 0.
Proof.
  intros f e Hlen Hf He. rewrite crc_xor_linear by (symmetry; exact Hlen).
  now rewrite Hf, N.lxor_0_l.
Qed.

Print Assumptions crc_reg_lt.
Print Assumptions crc24q_spec.
Print Assumptions crc2bytes_total.
Print Assumptions crc_self_check.
Print Assumptions crc_xor_linear.
Print Assumptions crc_leading_zeros.
Print Assumptions detect_odd.
Print Assumptions detect_burst.
Print Assumptions detect_two_frame.
Print Assumptions detect_two.
Print Assumptions two_bit_undetected_at_order.
Print Assumptions damaged_frame_detected.
