(* Infrastructure for reasoning about the table walk (dec_item / dec_body / rep):
   - induction principle for the layout tree (covers the nested item list),
   - the field step `set_single` cut into named stages,
   - a generic lock-step simulation theorem for two runs of the walk,
   - decode_run: the walk with its final bit offset exposed; `construct` in terms of it (Level 3 d),
   - totality of the constructor (Level 4, C04). *)
From Coq Require Import NArith ZArith List String Bool Lia.
From PyRtcm Require Import Base.Bytes Base.Dec Model.Types Model.Message Spec.FieldGrammar.
Import ListNotations.
Open Scope list_scope.
Open Scope Z_scope.

(* ================= induction over the layout tree ================= *)
Section ItemInd.
Variables (P : item -> Prop) (Q : body -> Prop).
Hypothesis HF : forall k, P (IField k).
Hypothesis HB : forall w, P (IBad w).
Hypothesis HG : forall c b, Q b -> P (IGroup c b).
Hypothesis HO : forall k con b, Q b -> P (IOpt k con b).
Hypothesis HI : forall l, Forall (fun x => P (snd x)) l -> Q (BItems l).
Hypothesis HN : forall w, Q (BNotDict w).

Fixpoint item_ind2 (it:item) : P it :=
  match it as i return P i with
  | IField k => HF k
  | IBad w => HB w
  | IGroup c b => HG c b (body_ind2 b)
  | IOpt k con b => HO k con b (body_ind2 b)
  end
with body_ind2 (b:body) : Q b :=
  match b as b0 return Q b0 with
  | BItems l =>
      HI l ((fix go (l:list (string*item)) : Forall (fun x => P (snd x)) l :=
               match l as l0 return Forall (fun x => P (snd x)) l0 with
               | [] => Forall_nil _
               | x::r => Forall_cons x
                           (match x as x0 return P (snd x0) with (k, it) => item_ind2 it end)
                           (go r)
               end) l)
  | BNotDict w => HN w
  end.

Lemma item_body_ind : (forall it, P it) /\ (forall b, Q b).
Proof. split; [exact item_ind2 | exact body_ind2]. Qed.
End ItemInd.

(* ================= the item list of a dict, as a named function ================= *)
Definition dec_items (T:tables) (ident:string) (index:list Z) : list (string*item) -> st -> outcome st :=
  fix go (l:list (string*item)) (s:st) : outcome st :=
    match l with [] => Ok s | (lbl,it)::r => do s1 <- dec_item T ident lbl it index s; go r s1 end.

Lemma dec_body_items T ident l index s :
  dec_body T ident (BItems l) index s = dec_items T ident index l s.
Proof. reflexivity. Qed.

Lemma dec_items_nil T ident index s : dec_items T ident index [] s = Ok s.
Proof. reflexivity. Qed.

Lemma dec_items_cons T ident index lbl it r s :
  dec_items T ident index ((lbl,it)::r) s
  = (do s1 <- dec_item T ident lbl it index s; dec_items T ident index r s1).
Proof. reflexivity. Qed.

Lemma dec_item_field T ident lbl k index s :
  dec_item T ident lbl (IField k) index s = set_single T ident lbl index s.
Proof. reflexivity. Qed.

Lemma dec_item_group T ident lbl c b index s :
  dec_item T ident lbl (IGroup c b) index s =
  (do n <- group_size c index (fst s);
   if (max_count <? n) then Unmodelled "repeat count beyond model bound"
   else rep (dec_body T ident b) index (Z.to_nat n) 1 s).
Proof. reflexivity. Qed.

Lemma dec_item_opt T ident lbl k con b index s :
  dec_item T ident lbl (IOpt k con b) index s =
  (do v <- getattr (fst s) k;
   match v with
   | VInt z => if (z =? con) then dec_body T ident b index s else Ok s
   | VFloat _ => Unmodelled "float condition"
   | VStr _ => Ok s
   end).
Proof. reflexivity. Qed.

(* ================= the field step in stages ================= *)
Definition label_lookup {A} (index:list Z) (m:option (list (Z*A))) (f:A -> string) : outcome (value * option N) :=
  do i <- first_index index;
  match m with None => Foreign XType | Some m =>
    match zassoc i m with Some x => Ok (VStr (codes (f x)), None) | None => Foreign XKey end end.

Definition bit_value (fd:dfield) (asiz:Z) (bits:N) : outcome (value * option N) :=
  let zb := Z.of_N bits in
  match df_ty fd with
  | TSNT =>
      if (asiz <? 1) then Foreign XValue else
      let msb := 2^(asiz-1) in
      let mag := Z.land zb (msb - 1) in
      let val := if (Z.land zb msb =? 0) then mag else - mag in
      do v <- scale val (df_res fd); Ok (v, Some bits)
  | TINT =>
      if (asiz <? 1) then Foreign XValue else
      let msb := 2^(asiz-1) in
      let val := if (Z.land zb msb =? 0) then zb else zb - 2^asiz in
      do v <- scale val (df_res fd); Ok (v, Some bits)
  | TCHA =>
      if (1114112 <=? bits)%N then Foreign XValue
      else if res_is_unit (df_res fd) then Ok (VStr [bits], Some bits)
      else Unmodelled "scaled CHA"
  | TSTR =>
      if (bits =? 0)%N then Ok (VStr [], Some bits)
      else if (1114112 <=? bits)%N then Foreign XValue else Ok (VStr [bits], Some bits)
  | _ => do v <- scale zb (df_res fd); Ok (v, Some bits)
  end.

Definition read_value (fd:dfield) (index:list Z) (o:obj) (offset asiz:Z) : outcome (value * option N) :=
  match df_ty fd with
  | TPRN => label_lookup index (o_satmap o) (fun x => x)
  | TCPR => label_lookup index (o_cellmap o) fst
  | TCSG => label_lookup index (o_cellmap o) snd
  | _ => do bits <- get_bits (o_payloadi o) (8 * Z.of_nat (List.length (o_payload o))) offset asiz;
         bit_value fd asiz bits
  end.

Definition is_mask_name (anam:string) : bool :=
  String.eqb anam "DF394" || String.eqb anam "DF395" || String.eqb anam "DF396".

Definition post_mask (T:tables) (ident anam:string) (obits:option N) (o1:obj) : outcome obj :=
  if is_mask_name anam then
    match obits with
    | None => Foreign XOther
    | Some bits =>
        let nb := VInt (popcount bits) in
        if String.eqb anam "DF394" then setattr o1 (t_nsat T) nb
        else if String.eqb anam "DF395" then setattr o1 (t_nsig T) nb
        else do o' <- setattr o1 (t_ncell T) nb; getsatcellmaps T ident o'
    end
  else Ok o1.

Definition post_harm (T:tables) (anam:string) (index:list Z) (o2:obj) : outcome obj :=
  if String.eqb anam "IDF038" then harmonic_counts T index o2 else Ok o2.

Definition field_stages (T:tables) (ident anam:string) (index:list Z) (fd:dfield) (o:obj) (offset:Z) : outcome st :=
  do asiz <- field_width T anam fd o;
  do vb <- read_value fd index o offset asiz;
  do o1 <- store_value (df_ty fd) anam index (fst vb) o;
  do o2 <- post_mask T ident anam (snd vb) o1;
  do o3 <- post_harm T anam index o2;
  Ok (o3, offset + asiz).

Lemma set_single_stages T ident anam index o offset :
  set_single T ident anam index (o, offset) =
  match find_field T anam with
  | None => Foreign XKey
  | Some fd => field_stages T ident anam index fd o offset
  end.
Proof.
  unfold set_single. destruct (find_field T anam) as [fd|]; [|reflexivity].
  unfold field_stages.
  destruct (field_width T anam fd o) as [asiz| | |] eqn:W; unfold field_width in W; rewrite W; [|reflexivity..].
  cbn [obind].
  unfold read_value, bit_value, label_lookup.
  destruct (df_ty fd) eqn:TY;
  match goal with |- obind ?r _ = obind ?r' _ => change r' with r; destruct r as [[val ob]| | |]; reflexivity end.
Qed.

(* ================= lock-step relation on outcomes ================= *)
(* full = false : "if the left run succeeds so does the right, with related results"
   full = true  : additionally, a failing left run fails in exactly the same way on the right *)
Definition osim {A B} (R:A -> B -> Prop) (full:bool) (r:outcome A) (r':outcome B) : Prop :=
  match r with
  | Ok a => exists b, r' = Ok b /\ R a b
  | Lib e => full = true -> r' = Lib e
  | Foreign k => full = true -> r' = Foreign k
  | Unmodelled w => full = true -> r' = Unmodelled w
  end.

Lemma osim_bind {A B C D} (R:A->B->Prop) (S:C->D->Prop) full r r' f g :
  osim R full r r' ->
  (forall a b, R a b -> osim S full (f a) (g b)) ->
  osim S full (obind r f) (obind r' g).
Proof.
  intros H K. destruct r as [a|e|k|w]; cbn [osim obind] in *.
  - destruct H as [b [-> Rab]]. cbn [obind]. apply K, Rab.
  - intro F. rewrite (H F). reflexivity.
  - intro F. rewrite (H F). reflexivity.
  - intro F. rewrite (H F). reflexivity.
Qed.

Lemma osim_ok {A B} (R:A->B->Prop) full a b : R a b -> osim R full (Ok a) (Ok b).
Proof. intro H. cbn. eauto. Qed.

Lemma osim_weaken {A B} (R S:A->B->Prop) full r r' :
  (forall a b, R a b -> S a b) -> osim R full r r' -> osim S full r r'.
Proof.
  intros W H. destruct r; cbn in *; auto. destruct H as [b [E Rab]]. eauto.
Qed.

Lemma osim_ok_inv {A B} (R:A->B->Prop) full r r' a :
  osim R full r r' -> r = Ok a -> exists b, r' = Ok b /\ R a b.
Proof. intros H ->. exact H. Qed.

(* values that steer the walk identically: equal, or both strings *)
Definition ctl_rel (v v':value) : Prop := v = v' \/ (exists a b, v = VStr a /\ v' = VStr b).

Lemma ctl_rel_refl v : ctl_rel v v.
Proof. now left. Qed.

Section Sim.
Variable T : tables.
Variable ident : string.
Variable R : st -> st -> Prop.
Variable full : bool.

Hypothesis H_single : forall anam idx s s', R s s' ->
  osim R full (set_single T ident anam idx s) (set_single T ident anam idx s').
Hypothesis H_getattr : forall k s s', R s s' ->
  osim ctl_rel full (getattr (fst s) k) (getattr (fst s') k).

Lemma sim_getint k s s' : R s s' -> osim (@eq Z) full (getint (fst s) k) (getint (fst s') k).
Proof.
  intro Rs. unfold getint. eapply osim_bind; [apply H_getattr, Rs|].
  intros v v' [<-|[a [b [-> ->]]]].
  - destruct v; cbn; eauto.
  - cbn. auto.
Qed.

Lemma sim_group_size c idx s s' : R s s' ->
  osim (@eq Z) full (group_size c idx (fst s)) (group_size c idx (fst s')).
Proof.
  intro Rs. destruct c as [n|key|w]; cbn [group_size].
  - cbn. eauto.
  - set (nm := match split_plus key with (k, None) => Ok k | (k, Some nl) => _ end).
    destruct nm as [anam|e|k|w]; cbn [obind].
    + eapply osim_bind; [apply sim_getint, Rs|]. intros g g' <-. cbn. eauto.
    + cbn. auto.
    + cbn. auto.
    + cbn. auto.
  - cbn. auto.
Qed.

Lemma sim_rep (f f':list Z -> st -> outcome st) :
  (forall idx s s', R s s' -> osim R full (f idx s) (f' idx s')) ->
  forall n idx i s s', R s s' -> osim R full (rep f idx n i s) (rep f' idx n i s').
Proof.
  intros Hf. induction n as [|n IH]; intros idx i s s' Rs; cbn [rep].
  - cbn. eauto.
  - eapply osim_bind; [apply Hf, Rs|]. intros a b Rab. apply IH, Rab.
Qed.

Lemma sim_walk :
  (forall it lbl idx s s', R s s' -> osim R full (dec_item T ident lbl it idx s) (dec_item T ident lbl it idx s')) /\
  (forall b idx s s', R s s' -> osim R full (dec_body T ident b idx s) (dec_body T ident b idx s')).
Proof.
  apply item_body_ind.
  - intros k lbl idx s s' Rs. rewrite !dec_item_field. apply H_single, Rs.
  - intros w lbl idx s s' Rs. cbn. auto.
  - intros c b IHb lbl idx s s' Rs. rewrite !dec_item_group.
    eapply osim_bind; [apply sim_group_size, Rs|]. intros n n' <-.
    destruct (max_count <? n); [cbn; auto|].
    apply sim_rep; [|exact Rs]. intros idx0 s0 s0' Rs0. apply IHb, Rs0.
  - intros k con b IHb lbl idx s s' Rs. rewrite !dec_item_opt.
    eapply osim_bind; [apply H_getattr, Rs|].
    intros v v' [<-|[a [b' [-> ->]]]].
    + destruct v as [z|f|str].
      * destruct (z =? con); [apply IHb, Rs|apply osim_ok, Rs].
      * cbn. auto.
      * apply osim_ok, Rs.
    + apply osim_ok, Rs.
  - intros l IHl idx s s' Rs. rewrite !dec_body_items.
    revert s s' Rs. induction IHl as [|[lbl it] r Hit Hr IHr]; intros s s' Rs.
    + rewrite !dec_items_nil. apply osim_ok, Rs.
    + rewrite !dec_items_cons. eapply osim_bind; [apply Hit, Rs|].
      intros a b Rab. apply IHr, Rab.
  - intros w idx s s' Rs. cbn. auto.
Qed.

Definition sim_body := proj2 sim_walk.
Definition sim_item := proj1 sim_walk.
End Sim.

(* ================= Level 3 d : decode_run ================= *)
Definition obj0 (p:bytes) (lbl:Z) : obj :=
  {| o_immutable := false; o_payload := p; o_payloadi := be p; o_labelmsm := lbl; o_unknown := false;
     o_satmap := None; o_cellmap := None; o_attrs := [] |}.

(* the body of the try-block of _do_attributes, with the final bit offset kept *)
Definition decode_raw (T:tables) (o:obj) : outcome st :=
  do ident <- identity (o_payload o);
  match get_dict T ident with
  | None => do o1 <- setattr o "DF002" (VStr (codes ident)); Ok (with_unknown o1 true, 0)
  | Some pdict => dec_body T ident pdict [] (o, 0)
  end.

(* the exception handler of _do_attributes *)
Definition handler {A} (p:bytes) (r:outcome A) : outcome A :=
  match r with
  | Ok a => Ok a
  | Unmodelled w => Unmodelled w
  | Lib _ | Foreign _ =>
      match identity p with Ok _ => Lib EType | Lib e => Lib e | Foreign k => Foreign k | Unmodelled w => Unmodelled w end
  end.

Definition decode_run (T:tables) (p:bytes) (lbl:Z) : outcome (obj * Z) :=
  if too_short p then Lib EMessage else handler p (decode_raw T (obj0 p lbl)).

Lemma do_attributes_raw T o :
  do_attributes T o = handler (o_payload o) (do s <- decode_raw T o; Ok (fst s)).
Proof.
  unfold do_attributes, decode_raw, handler.
  destruct (identity (o_payload o)) as [ident|e|k|w] eqn:I; cbn [obind]; try reflexivity.
  destruct (get_dict T ident) as [pdict|]; [reflexivity|].
  destruct (setattr o "DF002" (VStr (codes ident))); reflexivity.
Qed.

Lemma handler_bind {A B} p (r:outcome A) (f:A -> B) :
  handler p (do s <- r; Ok (f s)) = (do s <- handler p r; Ok (f s)).
Proof.
  destruct r; cbn; try reflexivity; destruct (identity p); reflexivity.
Qed.

Theorem construct_decode_run : forall T p lbl,
  construct T (Some p) lbl = (do s <- decode_run T p lbl; Ok (with_immutable (fst s) true)).
Proof.
  intros T p lbl. unfold construct, decode_run. fold (obj0 p lbl).
  destruct (too_short p); [reflexivity|].
  rewrite do_attributes_raw. change (o_payload (obj0 p lbl)) with p.
  rewrite handler_bind.
  destruct (handler p (decode_raw T (obj0 p lbl))) as [[o t]| | |]; reflexivity.
Qed.

Corollary construct_ok_run : forall T p lbl o,
  construct T (Some p) lbl = Ok o <->
  exists o1 t, decode_run T p lbl = Ok (o1, t) /\ o = with_immutable o1 true.
Proof.
  intros T p lbl o. rewrite construct_decode_run. split.
  - destruct (decode_run T p lbl) as [[o1 t]| | |]; cbn; try discriminate.
    intro E. inversion E. eauto.
  - intros [o1 [t [-> ->]]]. reflexivity.
Qed.

(* ================= identity and the length guard ================= *)
Lemma identity_ok_of_guard : forall p, too_short p = false -> exists i, identity p = Ok i.
Proof.
  intros p G. destruct p as [|b0 [|b1 [|b2 r]]]; cbn in G; try discriminate.
  - unfold identity. rewrite G. eauto.
  - unfold identity. destruct (N.eqb (msgnum b0 b1) 4076); eauto.
Qed.

Lemma identity_app : forall p x, too_short p = false -> identity (p ++ x) = identity p.
Proof.
  intros p x G. destruct p as [|b0 [|b1 [|b2 r]]]; cbn in G; try discriminate.
  - cbn [app]. unfold identity. rewrite G. reflexivity.
  - reflexivity.
Qed.

Lemma too_short_app : forall p x, too_short p = false -> too_short (p ++ x) = false.
Proof.
  intros p x G. destruct p as [|b0 [|b1 [|b2 r]]]; cbn in G; try discriminate.
  - cbn [app]. destruct x as [|y x]; [exact G|reflexivity].
  - reflexivity.
Qed.

(* ================= Level 4 (C04): totality of the constructor ================= *)
Lemma handler_no_foreign {A} p (r:outcome A) :
  too_short p = false -> match handler p r with Foreign _ => False | _ => True end.
Proof.
  intro G. destruct (identity_ok_of_guard p G) as [i I].
  unfold handler. destruct r; try exact Logic.I; rewrite I; exact Logic.I.
Qed.

Lemma decode_run_no_foreign T p lbl :
  match decode_run T p lbl with Foreign _ => False | _ => True end.
Proof.
  unfold decode_run. destruct (too_short p) eqn:G; [exact Logic.I|].
  apply handler_no_foreign, G.
Qed.

Theorem construct_no_foreign : forall T p lbl,
  match construct T p lbl with Foreign _ => False | _ => True end.
Proof.
  intros T [p|] lbl; [|exact Logic.I].
  rewrite construct_decode_run.
  pose proof (decode_run_no_foreign T p lbl) as H.
  destruct (decode_run T p lbl); cbn; auto.
Qed.

Theorem construct_short : forall T p lbl, too_short p = true -> construct T (Some p) lbl = Lib EMessage.
Proof. intros T p lbl G. unfold construct. rewrite G. reflexivity. Qed.

Theorem construct_none : forall T lbl, construct T None lbl = Lib EMessage.
Proof. reflexivity. Qed.

(* the only library error a long-enough payload can produce is the type error *)
Theorem construct_lib_is_type : forall T p lbl e,
  too_short p = false -> construct T (Some p) lbl = Lib e -> e = EType.
Proof.
  intros T p lbl e G. rewrite construct_decode_run. unfold decode_run. rewrite G.
  destruct (identity_ok_of_guard p G) as [i I].
  unfold handler. destruct (decode_raw T (obj0 p lbl)) as [s|e'|k|w]; cbn; rewrite ?I; cbn; congruence.
Qed.
