(* C03 round trip: non-vacuity.  Two small hand-made tables; the encoder's output is shown literally, the
   premises of decode_roundtrip are discharged by computation, and the decoder's result is also computed
   directly for comparison. *)
From Coq Require Import NArith ZArith List String Bool PrimFloat.
From Coq.Strings Require Import Byte.
From PyRtcm Require Import Base.Bytes Base.Dec Model.Types Model.Message Spec.FieldGrammar Spec.MsmMasks Spec.Encoder.
From PyRtcm Require Import Proofs.RoundtripBase Proofs.DecodeRoundtrip.
Import ListNotations.
Open Scope list_scope.
Open Scope Z_scope.

Definition fld (k:string) (ty:dtype) (w:Z) (r:res) : dfield :=
  {| df_key := k; df_ty := ty; df_bits := w; df_res := r; df_desc := "" |}.

Definition toy_tables (fields:list dfield) (get msm:list (string*body))
                      (prnsig:list (string * (list (Z*string) * list (Z*(string*string))))) : tables :=
  {| t_fields := fields; t_get := get; t_msm := msm; t_igs := []; t_msgids := [];
     t_prnsig := prnsig; t_gnssmap := []; t_coeffs := []; t_nmea_hdr := []; t_ubx_hdr := []; t_rtcm_hdr := [];
     t_na := "N/A"; t_nsat := "NSat"; t_nsig := "NSig"; t_ncell := "NCell";
     t_nharmc := "_NHarmCoeffC"; t_nharms := "_NHarmCoeffS";
     t_valcksum := 1; t_err_raise := 2; t_err_log := 1; t_err_ignore := 0;
     t_enc_chunked := 1; t_enc_gzip := 2; t_enc_compress := 4; t_enc_deflate := 8 |}.

(* ============ 1. plain fields, a counted group with a nested "+1" counter, text, harmonic counts ============ *)
Definition body1 : body :=
  BItems [ ("DF002", IField "DF002");
           ("DFA", IField "DFA");
           ("NG", IField "NG");
           ("grp", IGroup (CNamed "NG")
              (BItems [ ("NS", IField "NS");
                        ("DFS", IField "DFS");
                        ("sub", IGroup (CNamed "NS+1") (BItems [("DFX", IField "DFX")])) ]));
           ("NC", IField "NC");
           ("txt", IGroup (CNamed "NC") (BItems [("TXT", IField "TXT")]));
           ("gh", IGroup (CFixed 1) (BItems [("IDF037", IField "IDF037"); ("IDF038", IField "IDF038")])) ].

Definition T1 : tables :=
  toy_tables [ fld "DF002" TUINT 12 (RInt 1); fld "DFA" TINT 6 (RFloat 0.5%float); fld "NG" TUINT 2 (RInt 1);
               fld "NS" TUINT 2 (RInt 0); fld "DFS" TSNT 5 (RInt 1); fld "DFX" TUINT 3 (RInt 10);
               fld "NC" TUINT 2 (RInt 1); fld "TXT" TSTR 8 (RInt 0);
               fld "IDF037" TUINT 4 (RInt 1); fld "IDF038" TUINT 4 (RInt 1) ]
             [("1005", body1)] [] [].

(* raw values in definition order: 1005 | DFA=-2 (6-bit two's complement) | NG=2 |
   [NS=1 DFS=-3 (sign-magnitude) DFX=5] [NS=2 DFS=+3 DFX=1 DFX=7] | NC=3 | 'A' NUL 'b' | IDF037=3 IDF038=2 *)
Definition vals1 : list N := [1005; 62; 2;  1; 19; 5;  2; 3; 1; 7;  3; 65; 0; 98;  3; 2]%N.

Definition attrs1 : attrs :=
  [ ("DF002", VInt 1005); ("DFA", VFloat (-1)%float); ("NG", VInt 2);
    ("NS_01", VInt 1); ("DFS_01", VInt (-3)); ("DFX_01_01", VInt 50);
    ("NS_02", VInt 2); ("DFS_02", VInt 3); ("DFX_02_01", VInt 10); ("DFX_02_02", VInt 70);
    ("NC", VInt 3); ("TXT", VStr [65; 98]%N);
    ("IDF037_01", VInt 3); ("IDF038_01", VInt 2); ("_NHarmCoeffC", VInt 14); ("_NHarmCoeffS", VInt 9) ].

Definition bits1 : list bool := Eval vm_compute in
  match lay_out T1 "1005" true body1 vals1 with Some (b, _, _) => b | None => [] end.

Example layout1 : lay_out T1 "1005" true body1 vals1 = Some (bits1, attrs1, []).
Proof. vm_compute. reflexivity. Qed.

Example bits1_length : List.length bits1 = 77%nat.
Proof. reflexivity. Qed.

Definition pad1 : list bool := [false; false; false].
Definition payload1 : bytes := pack (bits1 ++ pad1).

(* the theorem, instantiated: every premise by computation *)
Example roundtrip1 : forall extra,
  exists o, construct T1 (Some (payload1 ++ extra)) 1 = Ok o /\ o_attrs o = attrs1.
Proof.
  intro extra.
  apply (decode_roundtrip T1 "1005" body1 1 vals1 bits1 attrs1 [] pad1 extra).
  - reflexivity.
  - exact layout1.
  - reflexivity.
  - reflexivity.
  - reflexivity.
Qed.

(* and the decoder run directly on the bytes, for comparison *)
Example direct1 :
  match construct T1 (Some payload1) 1 with Ok o => o_attrs o = attrs1 | _ => False end.
Proof. vm_compute. reflexivity. Qed.

Example public1 : List.length (public attrs1) = 14%nat.
Proof. reflexivity. Qed.

(* ============ 2. an MSM-shaped message: masks, derived counts, PRN / CELLPRN / CELLSIG labels ============ *)
Definition body2 : body :=
  BItems [ ("DF002", IField "DF002"); ("DF394", IField "DF394"); ("DF395", IField "DF395"); ("DF396", IField "DF396");
           ("groupsat", IGroup (CNamed "NSat") (BItems [("PRN", IField "PRN"); ("DF397", IField "DF397")]));
           ("groupcell", IGroup (CNamed "NCell")
              (BItems [("CELLPRN", IField "CELLPRN"); ("CELLSIG", IField "CELLSIG"); ("DF400", IField "DF400")])) ].

Definition T2 : tables :=
  toy_tables [ fld "DF002" TUINT 12 (RInt 1); fld "DF394" TBIT 64 (RInt 0); fld "DF395" TBIT 32 (RInt 0);
               fld "DF396" TBITX 0 (RInt 0);
               fld "PRN" TPRN 0 (RInt 0); fld "CELLPRN" TCPR 0 (RInt 0); fld "CELLSIG" TCSG 0 (RInt 0);
               fld "DF397" TUINT 8 (RInt 1); fld "DF400" TINT 15 (RFloat 0.5%float) ]
             [] [("1077", body2)]
             [("107", ([(1, "G01"); (2, "G02"); (3, "G03")],
                       [(2, ("L1", "1C")); (3, ("L1", "1P")); (15, ("L2", "2S"))]))].

(* satellites 1 and 3; signals 2 and 15; cells 1011 of (1,2) (1,15) (3,2) (3,15) *)
Definition vals2 : list N :=
  [1077; 2^63 + 2^61; 2^30 + 2^17; 11;  10; 20;  5; 32767; 100]%N.

Definition attrs2 (rinex:bool) : attrs :=
  let s2 := if rinex then "1C" else "L1" in
  let s15 := if rinex then "2S" else "L2" in
  [ ("DF002", VInt 1077); ("DF394", VInt (2^63 + 2^61)); ("NSat", VInt 2);
    ("DF395", VInt (2^30 + 2^17)); ("NSig", VInt 2); ("DF396", VInt 11); ("NCell", VInt 3);
    ("PRN_01", VStr (codes "G01")); ("DF397_01", VInt 10); ("PRN_02", VStr (codes "G03")); ("DF397_02", VInt 20);
    ("CELLPRN_01", VStr (codes "G01")); ("CELLSIG_01", VStr (codes s2)); ("DF400_01", VFloat 2.5%float);
    ("CELLPRN_02", VStr (codes "G03")); ("CELLSIG_02", VStr (codes s2)); ("DF400_02", VFloat (-0.5)%float);
    ("CELLPRN_03", VStr (codes "G03")); ("CELLSIG_03", VStr (codes s15)); ("DF400_03", VFloat 50%float) ].

Definition bits2 : list bool := Eval vm_compute in
  match lay_out T2 "1077" true body2 vals2 with Some (b, _, _) => b | None => [] end.

Example layout2_rinex : lay_out T2 "1077" true body2 vals2 = Some (bits2, attrs2 true, []).
Proof. vm_compute. reflexivity. Qed.

Example layout2_band : lay_out T2 "1077" false body2 vals2 = Some (bits2, attrs2 false, []).
Proof. vm_compute. reflexivity. Qed.

Example bits2_length : List.length bits2 = 173%nat.
Proof. reflexivity. Qed.

Definition payload2 : bytes := pack (bits2 ++ pad1).

Example roundtrip2_rinex : forall extra,
  exists o, construct T2 (Some (payload2 ++ extra)) 1 = Ok o /\ o_attrs o = attrs2 true.
Proof.
  intro extra.
  apply (decode_roundtrip T2 "1077" body2 1 vals2 bits2 (attrs2 true) [] pad1 extra).
  - reflexivity.
  - exact layout2_rinex.
  - reflexivity.
  - reflexivity.
  - reflexivity.
Qed.

Example roundtrip2_band : forall extra,
  exists o, construct T2 (Some (payload2 ++ extra)) 2 = Ok o /\ o_attrs o = attrs2 false.
Proof.
  intro extra.
  apply (decode_roundtrip T2 "1077" body2 2 vals2 bits2 (attrs2 false) [] pad1 extra).
  - reflexivity.
  - exact layout2_band.
  - reflexivity.
  - reflexivity.
  - reflexivity.
Qed.

Example direct2 :
  match construct T2 (Some payload2) 1 with Ok o => o_attrs o = attrs2 true | _ => False end.
Proof. vm_compute. reflexivity. Qed.

(* ============ 3. the corollaries on the toy messages ============ *)
From PyRtcm Require Import Proofs.RoundtripOccur Proofs.RoundtripChange.

Definition state1 : est := Eval vm_compute in
  match lay_out_state T1 "1005" true body1 vals1 with Some s => s | None => est0 [] end.

Example state1_ok : lay_out_state T1 "1005" true body1 vals1 = Some state1.
Proof. vm_compute. reflexivity. Qed.

(* 13 non-text field occurrences + 1 text key + 0 MSM counts = 14 public attributes *)
Example occurrences1 :
  List.length (public (e_attrs state1)) = (13 + 1 + 0)%nat /\
  List.length (filter is_field_occ (e_occ state1)) = 13%nat /\
  dedup (map fst (filter is_str_occ (e_occ state1))) = ["TXT"%string].
Proof.
  split; [|split; reflexivity].
  rewrite (one_attr_per_occurrence T1 "1005" true body1 vals1 state1 state1_ok).
  - reflexivity.
  - apply occ_wf_b_sound. vm_compute. reflexivity.
Qed.

Definition state2 : est := Eval vm_compute in
  match lay_out_state T2 "1077" true body2 vals2 with Some s => s | None => est0 [] end.

Example state2_ok : lay_out_state T2 "1077" true body2 vals2 = Some state2.
Proof. vm_compute. reflexivity. Qed.

(* MSM: 17 field occurrences (labels included) + 3 counts *)
Example occurrences2 : List.length (public (e_attrs state2)) = (17 + 0 + 3)%nat.
Proof.
  rewrite (one_attr_per_occurrence T2 "1077" true body2 vals2 state2 state2_ok).
  - reflexivity.
  - apply occ_wf_b_sound. vm_compute. reflexivity.
Qed.

(* changing DFS of the second group entry (raw value number 7) changes DFS_02 only *)
Example change1 : forall v s,
  lay_out_state T1 "1005" true body1 ([1005; 62; 2;  1; 19; 5;  2]%N ++ v :: [1; 7;  3; 65; 0; 98;  3; 2]%N) = Some s ->
  agree_except "DFS_02" (e_attrs state1) (e_attrs s).
Proof.
  intros v s E.
  apply (single_field_change T1 "1005" true body1 [1005; 62; 2;  1; 19; 5;  2]%N 3%N v [1; 7;  3; 65; 0; 98;  3; 2]%N state1 s "DFS_02").
  - exact state1_ok.
  - exact E.
  - reflexivity.
  - vm_compute. reflexivity.
Qed.

(* whereas NG is a repeat count, NS_02 a nested one, NC the text length: not plain *)
Example not_plain1 :
  plain_attr T1 body1 "NG" = false /\ plain_attr T1 body1 "NS_02" = false /\ plain_attr T1 body1 "NC" = false /\
  plain_attr T1 body1 "DFA" = true /\ plain_attr T1 body1 "DFX_02_01" = true /\ plain_attr T1 body1 "TXT" = true.
Proof. vm_compute. repeat split. Qed.
